(* Structural invariants of the automaton phase (Model/Automaton.v), for both item-set
   types and whatever merges happen:
     - items of a state stay pairwise different as (production, dot);
     - every state taken from the queue is closed (LR(0) level) and, for every item with a
       symbol X after the dot, records an ACCEPT (X = STOP), a SHIFT (terminal) or a GOTO
       (nonterminal) whose target state contains the item with the dot advanced;
     - state 0 contains the item (0, 0).
   They hold when the state queue is empty (build_loop_spec) and are kept by the final
   LALR loop (lalr_loop_spec). *)
From Coq Require Import NArith List Bool Lia Arith Permutation.
From PV Require Import Spec.Cfg Model.Table Model.First Model.Closure Model.Automaton Model.Resolve
  Validators.TableComplete Proofs.SetProofs Proofs.CompleteProofs Proofs.FirstProofs
  Proofs.ClosureProofs Proofs.PrecProofs.
Import ListNotations.
Local Open Scope N_scope.

Definition pds (its : list item) : list (N * nat) := map pd its.

Lemma pds_In its p d : In (p, d) (pds its) <-> exists it, In it its /\ pd it = (p, d).
Proof.
  unfold pds. rewrite in_map_iff. split; intros (it & H1 & H2); exists it; auto.
Qed.

Lemma grows_pds its its' x : grows its its' -> In x (pds its) -> In x (pds its').
Proof.
  destruct x as [p d]. intros Hg H. apply pds_In in H. destruct H as (it & Hin & Hpd).
  destruct (grows_In _ _ _ Hg Hin) as (it' & Hin' & Hpd' & _).
  apply pds_In. exists it'. split; [exact Hin'|congruence].
Qed.

Lemma grows_pred its its' p d : grows its its' -> In (p, S d) (pds its') -> In (p, S d) (pds its).
Proof.
  intros Hg Hin. apply In_nth_error in Hin. destruct Hin as (i & Hi).
  unfold pds in Hi. rewrite nth_error_map in Hi.
  destruct (nth_error its' i) as [it'|] eqn:Ei; [|discriminate]. cbn in Hi. inversion Hi as [Hpd].
  destruct (Nat.lt_ge_cases i (length its)) as [Hlt|Hge].
  - destruct (nth_error its i) as [it|] eqn:Eo; [|apply nth_error_None in Eo; lia].
    destruct (g_old _ _ Hg i it Eo) as (it2 & Ei2 & Hpd2 & _). rewrite Ei in Ei2. inversion Ei2; subst it2.
    apply pds_In. exists it. split; [eapply nth_error_In; exact Eo|congruence].
  - assert (Hi' : (i < length its')%nat) by (apply nth_error_Some; congruence).
    destruct (g_new _ _ Hg i (conj Hge Hi')) as (it2 & Ei2 & Hd2). rewrite Ei in Ei2.
    inversion Ei2; subst it2. unfold pd in Hpd. inversion Hpd. lia.
Qed.

Lemma pds_set_follow j f its : pds (set_follow j f its) = pds its.
Proof.
  unfold pds. apply nth_error_ext_eq. intros i. rewrite !nth_error_map, nth_error_set_follow.
  destruct (Nat.eqb i j); [|reflexivity]. destruct (nth_error its i); reflexivity.
Qed.

Lemma NoDup_map_filter {X Y} (g : X -> Y) (f : X -> bool) l :
  NoDup (map g l) -> NoDup (map g (filter f l)).
Proof.
  induction l as [|x r IH]; cbn; intros H; [constructor|]. inversion H; subst.
  destruct (f x); cbn; [|auto]. constructor; [|auto].
  intros Hin. apply H2. apply in_map_iff in Hin. destruct Hin as (y & Hy & Hin).
  apply filter_In in Hin. apply in_map_iff. exists y. tauto.
Qed.

Lemma filter_all {X} (f : X -> bool) l : (forall x, In x l -> f x = true) -> filter f l = l.
Proof.
  induction l as [|x r IH]; cbn; intros H; [reflexivity|].
  rewrite (H x (or_introl eq_refl)). f_equal. apply IH. intros y Hy. apply H. right. exact Hy.
Qed.

(* ---- dictionaries keyed by symbols ------------------------------------------------- *)
Fixpoint gassoc {V} (x : sym) (g : list (sym * V)) : option V :=
  match g with
  | [] => None
  | (y, v) :: r => if sym_eqb x y then Some v else gassoc x r
  end.

Lemma sym_eqb_sym x y : sym_eqb x y = sym_eqb y x.
Proof.
  destruct (sym_eqb x y) eqn:E.
  - apply sym_eqb_eq in E. subst. symmetry. apply sym_eqb_eq. reflexivity.
  - destruct (sym_eqb y x) eqn:E2; [|reflexivity]. apply sym_eqb_eq in E2. subst.
    rewrite sym_eqb_refl in E. discriminate.
Qed.

Lemma gassoc_In {V} x (v : V) g : gassoc x g = Some v -> In (x, v) g.
Proof.
  induction g as [|[y w] r IH]; cbn; [discriminate|]. destruct (sym_eqb x y) eqn:E.
  - apply sym_eqb_eq in E. subst. intros H. inversion H. left. reflexivity.
  - intros H. right. apply IH. exact H.
Qed.

Lemma In_gassoc {V} x (v : V) g : NoDup (map fst g) -> In (x, v) g -> gassoc x g = Some v.
Proof.
  induction g as [|[y w] r IH]; cbn; intros Hnd Hin; [destruct Hin|].
  inversion Hnd; subst. destruct Hin as [Hin|Hin].
  - inversion Hin; subst. rewrite sym_eqb_refl. reflexivity.
  - destruct (sym_eqb x y) eqn:E; [|apply IH; assumption].
    apply sym_eqb_eq in E. subst. exfalso. apply H1. apply in_map_iff. exists (y, v). auto.
Qed.

Section Groups.
  Variable ps : list prod.
  Variable e : N.
  Notation item_sym := (item_sym ps e).

  Definition osym_is (o : option sym) (x : sym) : bool :=
    match o with Some y => sym_eqb x y | None => false end.

  (* the indices k, k+1, ... of the items with x after the dot *)
  Fixpoint occ (x : sym) (k : nat) (its : list item) : list nat :=
    match its with
    | [] => []
    | it :: r => (if osym_is (item_sym it) x then [k] else []) ++ occ x (S k) r
    end.

  Lemma occ_In x its : forall k i,
    In i (occ x k its) <->
    (k <= i)%nat /\ exists it, nth_error its (i - k) = Some it /\ item_sym it = Some x.
  Proof.
    induction its as [|it r IH]; intros k i; cbn [occ].
    - split; [intros []|]. intros (_ & it & H & _). destruct (i - k)%nat; discriminate.
    - rewrite in_app_iff, IH. split.
      + intros [H|(H1 & it' & H2 & H3)].
        * destruct (osym_is (item_sym it) x) eqn:E; [|destruct H]. destruct H as [<-|[]].
          split; [lia|]. exists it. rewrite Nat.sub_diag. split; [reflexivity|].
          unfold osym_is in E. destruct (item_sym it) as [y|]; [|discriminate].
          apply sym_eqb_eq in E. congruence.
        * split; [lia|]. exists it'. replace (i - k)%nat with (S (i - S k)) by lia. auto.
      + intros (H1 & it' & H2 & H3). destruct (Nat.eq_dec i k) as [->|Hne].
        * left. rewrite Nat.sub_diag in H2. cbn in H2. inversion H2; subst it'.
          unfold osym_is. rewrite H3, sym_eqb_refl. left. reflexivity.
        * right. split; [lia|]. exists it'. replace (i - k)%nat with (S (i - S k)) in H2 by lia. auto.
  Qed.

  Lemma occ_NoDup x its : forall k, NoDup (occ x k its).
  Proof.
    induction its as [|it r IH]; intros k; cbn [occ]; [constructor|].
    destruct (osym_is (item_sym it) x); cbn [app]; [|apply IH].
    constructor; [|apply IH]. intros H. apply occ_In in H. lia.
  Qed.

  Definition comb (o : option (list nat)) (l : list nat) : option (list nat) :=
    match o, l with
    | None, [] => None
    | _, _ => Some (match o with Some l0 => l0 | None => [] end ++ l)
    end.

  Lemma gassoc_group_add y x i g :
    gassoc y (group_add x i g) =
    if sym_eqb y x then Some (match gassoc x g with Some l => l | None => [] end ++ [i])
    else gassoc y g.
  Proof.
    induction g as [|[z l] r IH]; cbn [group_add gassoc].
    - destruct (sym_eqb y x); reflexivity.
    - destruct (sym_eqb x z) eqn:Exz; cbn [gassoc].
      + apply sym_eqb_eq in Exz. subst z. destruct (sym_eqb y x); reflexivity.
      + destruct (sym_eqb y z) eqn:Eyz.
        * destruct (sym_eqb y x) eqn:Eyx; [|reflexivity].
          apply sym_eqb_eq in Eyz, Eyx. subst. rewrite sym_eqb_refl in Exz. discriminate.
        * exact IH.
  Qed.

  Lemma keys_group_add x i g :
    NoDup (map fst g) -> NoDup (map fst (group_add x i g)).
  Proof.
    induction g as [|[z l] r IH]; cbn [group_add map fst]; intros H.
    - constructor; [intros []|constructor].
    - destruct (sym_eqb x z) eqn:E; cbn [map fst]; [exact H|].
      inversion H; subst. constructor; [|apply IH; assumption].
      intros Hin. apply in_map_iff in Hin. destruct Hin as ([z' l'] & Hz & Hin). cbn in Hz. subst z'.
      assert (Hk : In z (map fst (group_add x i r))) by (apply in_map_iff; exists (z, l'); auto).
      clear -Hk H2 E. induction r as [|[w m] r IH]; cbn [group_add map fst] in Hk.
      + destruct Hk as [Hk|[]]. subst. rewrite sym_eqb_refl in E. discriminate.
      + destruct (sym_eqb x w); cbn [map fst] in *.
        * apply H2. exact Hk.
        * destruct Hk as [Hk|Hk]; [apply H2; left; exact Hk|].
          apply IH; [|exact Hk]. intros Hc. apply H2. right. exact Hc.
  Qed.

  Definition gstep (g : list (sym * list nat)) (ii : nat * item) : list (sym * list nat) :=
    match item_sym (snd ii) with
    | Some x => group_add x (fst ii) g
    | None => g
    end.

  Lemma groups_fold x its : forall k g,
    gassoc x (fold_left gstep (combine (seq k (length its)) its) g) = comb (gassoc x g) (occ x k its).
  Proof.
    induction its as [|it r IH]; intros k g; cbn [length seq combine fold_left occ].
    - unfold comb. destruct (gassoc x g); [rewrite app_nil_r|]; reflexivity.
    - rewrite IH. unfold gstep. cbn [fst snd]. unfold osym_is.
      destruct (item_sym it) as [y|]; [|reflexivity].
      rewrite gassoc_group_add. destruct (sym_eqb x y) eqn:E.
      + apply sym_eqb_eq in E. subst y. unfold comb.
        destruct (gassoc x g) as [l0|]; cbn [app].
        * destruct ((l0 ++ [k]) ++ occ x (S k) r) eqn:E1.
          -- destruct l0; discriminate.
          -- rewrite <- E1, <- app_assoc. reflexivity.
        * reflexivity.
      + reflexivity.
  Qed.

  Lemma groups_keys its : forall k g,
    NoDup (map fst g) -> NoDup (map fst (fold_left gstep (combine (seq k (length its)) its) g)).
  Proof.
    induction its as [|it r IH]; intros k g H; cbn [length seq combine fold_left]; [exact H|].
    apply IH. unfold gstep. cbn [snd fst]. destruct (item_sym it); [apply keys_group_add|]; exact H.
  Qed.

  Lemma groups_eq its : groups ps e its = fold_left gstep (indexed its) [].
  Proof. reflexivity. Qed.

  (* the groups of a state: distinct symbols; the group of x lists exactly the items with x
     after the dot *)
  Lemma groups_spec its :
    NoDup (map fst (groups ps e its)) /\
    forall x idxs, In (x, idxs) (groups ps e its) ->
      idxs = occ x 0 its /\ idxs <> [].
  Proof.
    rewrite groups_eq. unfold indexed.
    pose proof (groups_keys its 0 [] (NoDup_nil _)) as Hk. split; [exact Hk|].
    intros x idxs Hin. apply (In_gassoc x idxs _ Hk) in Hin. rewrite groups_fold in Hin.
    cbn [gassoc] in Hin. unfold comb in Hin. destruct (occ x 0 its) as [|a l] eqn:E; [discriminate|].
    cbn [app] in Hin. inversion Hin. split; [reflexivity|discriminate].
  Qed.

  Lemma groups_complete its i it x :
    nth_error its i = Some it -> item_sym it = Some x ->
    exists idxs, In (x, idxs) (groups ps e its) /\ In i idxs.
  Proof.
    intros Hi Hs. exists (occ x 0 its). split.
    - apply gassoc_In. rewrite groups_eq. unfold indexed. rewrite groups_fold. cbn [gassoc].
      unfold comb. destruct (occ x 0 its) eqn:E; [|reflexivity]. exfalso.
      assert (Hin : In i (occ x 0 its)).
      { apply occ_In. split; [lia|]. exists it. rewrite Nat.sub_0_r. auto. }
      rewrite E in Hin. destruct Hin.
    - apply occ_In. split; [lia|]. exists it. rewrite Nat.sub_0_r. auto.
  Qed.
End Groups.

(* ---- kernels, state identity, merge -------------------------------------------------- *)
Section StateId.
  Variable ps : list prod.
  Variable e : N.
  Notation item_sym := (item_sym ps e).
  Notation item_inc := (item_inc ps e).
  Notation is_kernel := (is_kernel ps).
  Notation kernel := (kernel ps).

  Lemma item_inc_spec it it' : item_inc it = Some it' ->
    it_p it' = it_p it /\ it_d it' = S (it_d it) /\ it_f it' = it_f it.
  Proof.
    unfold Closure.item_inc. destruct (Nat.ltb _ _); [|discriminate].
    intros H. inversion H; subst. cbn. auto.
  Qed.

  Lemma inc_group_spec its idxs : forall kits,
    inc_group ps e its idxs = Some kits ->
    Forall2 (fun i it' => exists it, nth_error its i = Some it /\ item_inc it = Some it') idxs kits.
  Proof.
    induction idxs as [|i r IH]; intros kits H; cbn [inc_group] in H.
    - inversion H. constructor.
    - destruct (nth_error its i) as [it|] eqn:Hi; [|discriminate].
      destruct (item_inc it) as [it'|] eqn:Hinc; [|discriminate].
      destruct (inc_group ps e its r) as [l|]; [|discriminate]. inversion H; subst.
      constructor; [exists it; auto|apply IH; reflexivity].
  Qed.

  Lemma Forall2_In_r {A B} (R : A -> B -> Prop) l l' y :
    Forall2 R l l' -> In y l' -> exists x, In x l /\ R x y.
  Proof.
    induction 1 as [|a b l l' Hab HF IH]; intros Hin; [destruct Hin|].
    destruct Hin as [<-|Hin]; [exists a; split; [left; reflexivity|exact Hab]|].
    destruct (IH Hin) as (x & Hx & HR). exists x. split; [right; exact Hx|exact HR].
  Qed.

  Lemma NoDup_nth_error_inj {X} (l : list X) i j x :
    NoDup l -> nth_error l i = Some x -> nth_error l j = Some x -> i = j.
  Proof.
    intros Hnd Hi Hj. rewrite NoDup_nth_error in Hnd. apply Hnd; [|congruence].
    apply nth_error_Some. congruence.
  Qed.

  (* the advanced items of a group are pairwise different, are kernel items, and contain
     (p, d+1) for each (p, d) of the group *)
  Lemma inc_group_props its idxs kits :
    inc_group ps e its idxs = Some kits -> pd_nodup its -> NoDup idxs ->
    pd_nodup kits /\ (forall it, In it kits -> is_kernel it = true) /\
    (forall i it, In i idxs -> nth_error its i = Some it -> In (it_p it, S (it_d it)) (pds kits)) /\
    (forall it', In it' kits -> exists i it, In i idxs /\ nth_error its i = Some it /\
                                             pd it' = (it_p it, S (it_d it))).
  Proof.
    intros H Hnd Hidx. apply inc_group_spec in H.
    induction H as [|i it' idxs' kits' (it & Hi & Hinc) HF IH].
    - split; [constructor|]. split; [intros it []|]. split; [intros i it []|intros it' []].
    - inversion Hidx as [|? ? Hni Hnd']; subst. destruct (IH Hnd') as (IH1 & IH2 & IH3 & IH4).
      destruct (item_inc_spec _ _ Hinc) as (Hp & Hd & _). split; [|split; [|split]].
      + unfold pd_nodup. cbn [map]. constructor; [|exact IH1].
        intros Hin. apply in_map_iff in Hin. destruct Hin as (jt & Hpd & Hjt).
        (* jt is the increment of some other item of the group with the same (p, d) *)
        destruct (Forall2_In_r _ _ _ _ HF Hjt) as (j & Hj' & it2 & Hj & Hinc2).
        destruct (item_inc_spec _ _ Hinc2) as (Hp2 & Hd2 & _).
        unfold pd in Hpd. inversion Hpd as [[E1 E2]].
        assert (Heq : pd it2 = pd it) by (unfold pd; f_equal; congruence || lia).
        assert (i = j).
        { eapply (NoDup_nth_error_inj (map pd its)); [exact Hnd| |].
          - rewrite nth_error_map, Hi. reflexivity.
          - rewrite nth_error_map, Hj. cbn. rewrite Heq. reflexivity. }
        subst j. apply Hni. exact Hj'.
      + intros jt [<-|Hjt]; [|apply IH2; exact Hjt].
        unfold Closure.is_kernel. rewrite Hd. reflexivity.
      + intros j jt [<-|Hj] Hjt.
        * rewrite Hi in Hjt. inversion Hjt; subst jt. unfold pds. cbn [map]. left.
          unfold pd. congruence.
        * unfold pds. cbn [map]. right. apply (IH3 j jt Hj Hjt).
      + intros jt [<-|Hjt].
        * exists i, it. split; [left; reflexivity|]. split; [exact Hi|]. unfold pd. congruence.
        * destruct (IH4 jt Hjt) as (j & it2 & Hj & Hit2 & Hpd2). exists j, it2.
          split; [right; exact Hj|auto].
  Qed.

  (* a state equal to a list of pairwise different kernel items contains all of them *)
  Lemma state_eqb_incl this other :
    state_eqb ps this other = true -> pd_nodup this ->
    (forall it, In it other -> is_kernel it = true) ->
    forall x, In x (pds other) -> In x (pds this).
  Proof.
    unfold state_eqb. intros H Hnd Hk x Hx. apply andb_true_iff in H. destruct H as [Hlen Hall].
    apply Nat.eqb_eq in Hlen. unfold Automaton.kernel in *.
    rewrite (filter_all _ other Hk) in *.
    assert (Hincl : incl (pds (filter is_kernel this)) (pds other)).
    { intros y Hy. unfold pds in Hy. apply in_map_iff in Hy. destruct Hy as (it & <- & Hit).
      rewrite forallb_forall in Hall. specialize (Hall it Hit). apply existsb_exists in Hall.
      destruct Hall as (jt & Hjt & Hs). unfold item_same in Hs. apply andb_true_iff in Hs.
      destruct Hs as [H1 H2]. apply N.eqb_eq in H1. apply Nat.eqb_eq in H2.
      unfold pds. apply in_map_iff. exists jt. split; [unfold pd; congruence|exact Hjt]. }
    assert (Hnd' : NoDup (pds (filter is_kernel this))) by (apply NoDup_map_filter; exact Hnd).
    assert (Hle : (length (pds other) <= length (pds (filter is_kernel this)))%nat).
    { unfold pds. rewrite !map_length. lia. }
    pose proof (NoDup_length_incl Hnd' Hle Hincl x Hx) as Hin.
    unfold pds in Hin. apply in_map_iff in Hin. destruct Hin as (it & <- & Hit).
    apply filter_In in Hit. unfold pds. apply in_map. tauto.
  Qed.

  Lemma merge_states_pds old new its' :
    merge_states ps e old new = MergeOk its' -> pds its' = pds old.
  Proof.
    unfold merge_states. destruct (merge_pairs (end_kernel ps e old) new) as [pairs|]; [|discriminate].
    destruct (existsb _ pairs); [discriminate|]. intros H. inversion H; subst. clear H.
    generalize old. induction pairs as [|[[i o] n] r IH]; intros its; cbn [fold_left]; [reflexivity|].
    rewrite IH. apply pds_set_follow.
  Qed.
End StateId.

(* ---- the invariants -------------------------------------------------------------------- *)
Lemma bbind_ok {X Y} (r : bres X) (f : X -> bres Y) y :
  bbind r f = BOk y -> exists x, r = BOk x /\ f x = BOk y.
Proof. destruct r; cbn; try discriminate. intros H. eexists; eauto. Qed.

Lemma assoc_gset k v k' l :
  assoc k' (gset k v l) = if k' =? k then Some v else assoc k' l.
Proof.
  induction l as [|[a w] r IH]; cbn.
  - destruct (k' =? k); reflexivity.
  - destruct (k =? a) eqn:Eka; cbn.
    + apply N.eqb_eq in Eka. subst a. destruct (k' =? k); reflexivity.
    + destruct (k' =? a) eqn:E1.
      * destruct (k' =? k) eqn:E2; [|reflexivity].
        apply N.eqb_eq in E1, E2. subst. rewrite N.eqb_refl in Eka. discriminate.
      * exact IH.
Qed.

Lemma aset_keys t v l :
  map fst (aset t v l) = if existsb (N.eqb t) (map fst l) then map fst l else map fst l ++ [t].
Proof.
  induction l as [|[a w] r IH]; cbn; [reflexivity|].
  destruct (N.eqb_spec t a) as [->|Hne]; cbn; [reflexivity|].
  rewrite IH. destruct (existsb (N.eqb t) (map fst r)); reflexivity.
Qed.

Lemma aset_nodup t v l : NoDup (map fst l) -> NoDup (map fst (aset t v l)).
Proof.
  intros H. rewrite aset_keys. destruct (existsb (N.eqb t) (map fst l)) eqn:E; [exact H|].
  apply NoDup_rev in H. rewrite <- (rev_involutive (_ ++ _)). apply NoDup_rev.
  rewrite rev_app_distr. cbn. constructor; [|exact H]. intros Hin. apply in_rev in Hin.
  assert (existsb (N.eqb t) (map fst l) = true).
  { apply existsb_exists. exists t. split; [exact Hin|apply N.eqb_refl]. }
  congruence.
Qed.

Section Invariants.
  Variable ps : list prod.
  Variable e : N.
  Variable stop : N.
  Variable lr1 : bool.
  Variable fs : fsets.
  Variable cfuel : nat.
  Variable max_states : option nat.

  Notation item_sym := (item_sym ps e).

  Definition sym_at (p : N) (d : nat) : option sym := rget e (rhs_raw ps p) d.

  Lemma item_sym_at it : item_sym it = sym_at (it_p it) (it_d it).
  Proof. reflexivity. Qed.

  Definition edge (all : list mstate) (acts : actions) (gotos : list (N * nat))
             (p : N) (d : nat) (X : sym) : Prop :=
    match X with
    | T t =>
        if t =? stop then assoc stop acts = Some [Accept]
        else exists tgt st', assoc t acts = Some [Shift tgt] /\ nth_error all tgt = Some st' /\
                             In (p, S d) (pds (ms_items st'))
    | NT b =>
        exists tgt st', assoc b gotos = Some tgt /\ nth_error all tgt = Some st' /\
                        In (p, S d) (pds (ms_items st'))
    end.

  Definition closed0 (P : list (N * nat)) : Prop :=
    forall p d b, In (p, d) P -> sym_at p d = Some (NT b) ->
                  forall q, In q (prods_of ps b) -> In (q, O) P.

  Definition state_done (all : list mstate) (st : mstate) : Prop :=
    closed0 (pds (ms_items st)) /\
    forall p d X, In (p, d) (pds (ms_items st)) -> sym_at p d = Some X ->
                  edge all (ms_acts st) (ms_gotos st) p d X.

  (* every item with the dot behind a symbol: that symbol is not STOP *)
  Definition pred_ok (P : list (N * nat)) : Prop :=
    forall p d, In (p, S d) P -> exists X, sym_at p d = Some X /\ sym_eqb X (T stop) = false.
  Definition valid_pds (P : list (N * nat)) : Prop :=
    forall p d, In (p, d) P -> (N.to_nat p < length ps)%nat.
  Definition pds_wf (P : list (N * nat)) : Prop := NoDup P /\ pred_ok P /\ valid_pds P.
  (* per-state well-formedness: the items, and the ACTION dict has no duplicate key *)
  Definition state_wf (st : mstate) : Prop :=
    pds_wf (pds (ms_items st)) /\ NoDup (map fst (ms_acts st)).

  Record sinv (cur : nat) (all : list mstate) : Prop := mkSinv {
    si_state0 : exists st0, nth_error all 0 = Some st0 /\ In (0, O) (pds (ms_items st0));
    si_nodup : forall k st, nth_error all k = Some st -> state_wf st;
    si_done : forall k st, (k < cur)%nat -> nth_error all k = Some st -> state_done all st
  }.

  (* how the list of states may change while state [cur] is being processed *)
  Definition step_rel (cur : nat) (all all' : list mstate) : Prop :=
    forall k st, nth_error all k = Some st ->
      exists st', nth_error all' k = Some st' /\ ms_sym st' = ms_sym st /\
                  incl (pds (ms_items st)) (pds (ms_items st')) /\
                  (k <> cur -> pds (ms_items st') = pds (ms_items st) /\
                               ms_acts st' = ms_acts st /\ ms_gotos st' = ms_gotos st).

  Lemma step_rel_refl cur all : step_rel cur all all.
  Proof.
    intros k st H. exists st. split; [exact H|]. split; [reflexivity|]. split; [apply incl_refl|auto].
  Qed.

  Lemma step_rel_trans cur a b c : step_rel cur a b -> step_rel cur b c -> step_rel cur a c.
  Proof.
    intros H1 H2 k st Hk. destruct (H1 k st Hk) as (st1 & Hk1 & Hs1 & Hi1 & He1).
    destruct (H2 k st1 Hk1) as (st2 & Hk2 & Hs2 & Hi2 & He2). exists st2.
    split; [exact Hk2|]. split; [congruence|]. split; [eapply incl_tran; eassumption|].
    intros Hne. destruct (He1 Hne) as (A1 & A2 & A3). destruct (He2 Hne) as (B1 & B2 & B3).
    repeat split; congruence.
  Qed.

  Lemma edge_step cur all all' acts gotos p d X :
    step_rel cur all all' -> edge all acts gotos p d X -> edge all' acts gotos p d X.
  Proof.
    intros Hr. unfold edge. destruct X as [t|b].
    - destruct (t =? stop); [auto|]. intros (tgt & st' & H1 & H2 & H3).
      destruct (Hr tgt st' H2) as (st2 & Hk2 & _ & Hi2 & _). exists tgt, st2. auto.
    - intros (tgt & st' & H1 & H2 & H3).
      destruct (Hr tgt st' H2) as (st2 & Hk2 & _ & Hi2 & _). exists tgt, st2. auto.
  Qed.

  Lemma state_done_step cur all all' k st st' :
    step_rel cur all all' -> k <> cur -> nth_error all k = Some st -> nth_error all' k = Some st' ->
    state_done all st -> state_done all' st'.
  Proof.
    intros Hr Hne Hk Hk' [Hc He]. destruct (Hr k st Hk) as (st2 & Hk2 & _ & _ & Heq).
    rewrite Hk' in Hk2. inversion Hk2; subst st2. destruct (Heq Hne) as (E1 & E2 & E3).
    split; [rewrite E1; exact Hc|]. intros p d X Hin Hs. rewrite E1 in Hin. rewrite E2, E3.
    eapply edge_step; [exact Hr|]. apply He; assumption.
  Qed.

  (* ---- the primitive updates --------------------------------------------------------- *)
  Lemma nth_error_set_items k its all i :
    nth_error (set_items k its all) i =
    if Nat.eqb i k
    then option_map (fun st => mkMS (ms_sym st) its (ms_acts st) (ms_gotos st)) (nth_error all i)
    else nth_error all i.
  Proof. unfold set_items. apply nth_error_map_nth. Qed.

  Lemma step_rel_set_items cur k its all st :
    nth_error all k = Some st -> incl (pds (ms_items st)) (pds its) ->
    (k <> cur -> pds its = pds (ms_items st)) ->
    step_rel cur all (set_items k its all).
  Proof.
    intros Hk Hi He j s Hj. rewrite nth_error_set_items.
    destruct (Nat.eqb_spec j k) as [->|Hne].
    - rewrite Hk in Hj. inversion Hj; subst s. rewrite Hk. cbn [option_map]. eexists.
      split; [reflexivity|]. cbn [ms_sym ms_items ms_acts ms_gotos]. split; [reflexivity|].
      split; [exact Hi|]. intros Hc. auto.
    - exists s. split; [exact Hj|]. split; [reflexivity|]. split; [apply incl_refl|auto].
  Qed.

  Lemma step_rel_app cur all st : step_rel cur all (all ++ [st]).
  Proof.
    intros k s Hk. exists s. split.
    - rewrite nth_error_app1; [exact Hk|]. apply nth_error_Some. congruence.
    - split; [reflexivity|]. split; [apply incl_refl|auto].
  Qed.

  Definition rec_fun (x : sym) (tgt : nat) (st : mstate) : mstate :=
    match x with
    | NT b => mkMS (ms_sym st) (ms_items st) (ms_acts st) (gset b tgt (ms_gotos st))
    | T t => mkMS (ms_sym st) (ms_items st) (aset t [Shift tgt] (ms_acts st)) (ms_gotos st)
    end.

  Lemma record_eq cur x tgt all : record cur x tgt all = map_nth cur (rec_fun x tgt) all.
  Proof. reflexivity. Qed.

  Lemma rec_fun_items x tgt st : ms_items (rec_fun x tgt st) = ms_items st.
  Proof. destruct x; reflexivity. Qed.
  Lemma rec_fun_sym x tgt st : ms_sym (rec_fun x tgt st) = ms_sym st.
  Proof. destruct x; reflexivity. Qed.

  Lemma step_rel_map_nth cur f all :
    (forall st, ms_items (f st) = ms_items st /\ ms_sym (f st) = ms_sym st) ->
    step_rel cur all (map_nth cur f all).
  Proof.
    intros Hf k s Hk. rewrite nth_error_map_nth. destruct (Nat.eqb_spec k cur) as [->|Hne].
    - rewrite Hk. cbn [option_map]. eexists. split; [reflexivity|]. destruct (Hf s) as [E1 E2].
      rewrite E1, E2. split; [reflexivity|]. split; [apply incl_refl|]. intros Hc. congruence.
    - exists s. split; [exact Hk|]. split; [reflexivity|]. split; [apply incl_refl|auto].
  Qed.

  Definition nodup_all (all : list mstate) : Prop :=
    forall k st, nth_error all k = Some st -> state_wf st.

  (* the tables of state cur agree outside the key of x *)
  Definition tabs_agree (x : sym) (st st' : mstate) : Prop :=
    forall y, y <> x ->
      match y with
      | T t => assoc t (ms_acts st') = assoc t (ms_acts st)
      | NT b => assoc b (ms_gotos st') = assoc b (ms_gotos st)
      end.

  Lemma tabs_agree_rec x tgt st : tabs_agree x st (rec_fun x tgt st).
  Proof.
    intros y Hy. destruct x as [t|b], y as [t'|b']; cbn [rec_fun ms_acts ms_gotos]; try reflexivity.
    - rewrite assoc_aset. destruct (N.eqb_spec t' t) as [->|_]; [congruence|reflexivity].
    - rewrite assoc_gset. destruct (N.eqb_spec b' b) as [->|_]; [congruence|reflexivity].
  Qed.

  (* ---- one group --------------------------------------------------------------------- *)
  Definition group_ok (P : list (N * nat)) (x : sym) (idxs : list nat) : Prop :=
    NoDup idxs /\ forall i, In i idxs -> exists p d, nth_error P i = Some (p, d) /\ sym_at p d = Some x.

  Definition group_done (all : list mstate) (st : mstate) (x : sym) (idxs : list nat) : Prop :=
    forall i p d, In i idxs -> nth_error (pds (ms_items st)) i = Some (p, d) ->
                  edge all (ms_acts st) (ms_gotos st) p d x.

  Lemma nth_error_pds its i p d :
    nth_error (pds its) i = Some (p, d) <-> exists it, nth_error its i = Some it /\ pd it = (p, d).
  Proof.
    unfold pds. rewrite nth_error_map. destruct (nth_error its i) as [it|]; cbn.
    - split; [intros H; inversion H; eauto|]. intros (it' & H1 & H2). inversion H1; subst. congruence.
    - split; [discriminate|]. intros (it' & H1 & _). discriminate.
  Qed.

  Lemma find_index_some {X} (f : X -> bool) l : forall n k,
    find_index f l n = Some k ->
    (n <= k)%nat /\ exists x, nth_error l (k - n) = Some x /\ f x = true.
  Proof.
    induction l as [|s r IH]; intros n k H; cbn [find_index] in H; [discriminate|].
    destruct (f s) eqn:E.
    - inversion H; subst. split; [lia|]. rewrite Nat.sub_diag. exists s. auto.
    - destruct (IH _ _ H) as (Hle & old & Hn & Ho). split; [lia|]. exists old.
      replace (k - n)%nat with (S (k - S n)) by lia. auto.
  Qed.

  Lemma find_state_some all kits k :
    find_state ps all kits = Some k ->
    exists old, nth_error all k = Some old /\ state_eqb ps (ms_items old) kits = true.
  Proof.
    unfold find_state. intros H. destruct (find_index_some _ _ _ _ H) as (_ & old & Hn & Ho).
    rewrite Nat.sub_0_r in Hn. exists old. auto.
  Qed.

  (* the state list just before the entry for the group is recorded: the target state
     exists and contains the advanced items; nothing else has changed *)
  Definition same_shape (all all1 : list mstate) : Prop :=
    forall k s, nth_error all k = Some s ->
      exists s', nth_error all1 k = Some s' /\ ms_sym s' = ms_sym s /\
                 pds (ms_items s') = pds (ms_items s) /\
                 ms_acts s' = ms_acts s /\ ms_gotos s' = ms_gotos s.

  Definition mid_ok (all : list mstate) (kits : list item) (all1 : list mstate) (tgt : nat) : Prop :=
    (exists tst, nth_error all1 tgt = Some tst /\ incl (pds kits) (pds (ms_items tst))) /\
    nodup_all all1 /\ same_shape all all1.

  Lemma same_shape_refl all : same_shape all all.
  Proof. intros k s H. exists s. auto. Qed.

  Lemma mid_new all kits x :
    nodup_all all -> pds_wf (pds kits) -> mid_ok all kits (all ++ [new_state x kits]) (length all).
  Proof.
    intros Hnd Hk. split; [|split].
    - exists (new_state x kits). split; [apply nth_error_app_new|apply incl_refl].
    - intros k s Hs. destruct (Nat.lt_ge_cases k (length all)) as [Hlt|Hge].
      + rewrite nth_error_app1 in Hs by exact Hlt. apply (Hnd k s Hs).
      + assert (Hk' : (k < length (all ++ [new_state x kits]))%nat) by (apply nth_error_Some; congruence).
        rewrite app_length in Hk'. cbn [length] in Hk'. assert (k = length all) by lia. subst k.
        rewrite nth_error_app_new in Hs. inversion Hs; subst s. split; [exact Hk|constructor].
    - intros k s Hs. exists s. split; [|auto].
      rewrite nth_error_app1; [exact Hs|]. apply nth_error_Some. congruence.
  Qed.

  Lemma mid_found all kits k old :
    nodup_all all -> nth_error all k = Some old -> state_eqb ps (ms_items old) kits = true ->
    (forall it, In it kits -> is_kernel ps it = true) ->
    mid_ok all kits all k.
  Proof.
    intros Hnd Hk He Hker. split; [|split; [exact Hnd|apply same_shape_refl]].
    exists old. split; [exact Hk|]. intros y Hy.
    eapply state_eqb_incl; [exact He|apply (proj1 (proj1 (Hnd k old Hk)))|exact Hker|exact Hy].
  Qed.

  Lemma mid_merged all kits k old its' :
    nodup_all all -> nth_error all k = Some old -> state_eqb ps (ms_items old) kits = true ->
    (forall it, In it kits -> is_kernel ps it = true) ->
    merge_states ps e (ms_items old) kits = MergeOk its' ->
    mid_ok all kits (set_items k its' all) k.
  Proof.
    intros Hnd Hk He Hker Hm. pose proof (merge_states_pds ps e _ _ _ Hm) as Hp. split; [|split].
    - eexists. split; [rewrite nth_error_set_items, Nat.eqb_refl, Hk; reflexivity|].
      cbn [ms_items]. rewrite Hp. intros y Hy.
      eapply state_eqb_incl; [exact He|apply (proj1 (proj1 (Hnd k old Hk)))|exact Hker|exact Hy].
    - intros j s Hs. rewrite nth_error_set_items in Hs. destruct (Nat.eqb_spec j k) as [->|Hne].
      + rewrite Hk in Hs. inversion Hs; subst s. unfold state_wf. cbn [ms_items ms_acts].
        rewrite Hp. apply (Hnd k old Hk).
      + apply (Hnd j s Hs).
    - intros j s Hs. rewrite nth_error_set_items. destruct (Nat.eqb_spec j k) as [->|Hne].
      + rewrite Hs. cbn [option_map]. eexists. split; [reflexivity|]. cbn.
        rewrite Hk in Hs. inversion Hs; subst s. auto.
      + exists s. auto.
  Qed.

  Lemma record_finish cur all kits all1 tgt x idxs st :
    mid_ok all kits all1 tgt -> nth_error all cur = Some st -> sym_eqb x (T stop) = false ->
    (forall i p d, In i idxs -> nth_error (pds (ms_items st)) i = Some (p, d) -> In (p, S d) (pds kits)) ->
    exists st', nth_error (record cur x tgt all1) cur = Some st' /\
                pds (ms_items st') = pds (ms_items st) /\
                tabs_agree x st st' /\ group_done (record cur x tgt all1) st' x idxs /\
                step_rel cur all (record cur x tgt all1) /\ nodup_all (record cur x tgt all1).
  Proof.
    intros ((tst & Htgt & Hincl) & Hnd1 & Hshape) Hcur Hstop Hkin.
    destruct (Hshape cur st Hcur) as (s1 & Hcur1 & Hsym1 & Hpds1 & Hacts1 & Hgotos1).
    rewrite record_eq. exists (rec_fun x tgt s1).
    assert (Hn : forall k, nth_error (map_nth cur (rec_fun x tgt) all1) k =
                           if Nat.eqb k cur then option_map (rec_fun x tgt) (nth_error all1 k)
                           else nth_error all1 k) by (intros k; apply nth_error_map_nth).
    split; [rewrite Hn, Nat.eqb_refl, Hcur1; reflexivity|].
    split; [rewrite rec_fun_items; exact Hpds1|]. split; [|split; [|split]].
    - intros y Hy. pose proof (tabs_agree_rec x tgt s1 y Hy) as Ha.
      destruct y; rewrite Ha; congruence.
    - (* the recorded edge *)
      intros i p d Hi Hp. rewrite rec_fun_items, Hpds1 in Hp. specialize (Hkin i p d Hi Hp).
      assert (Htgt' : exists tst', nth_error (map_nth cur (rec_fun x tgt) all1) tgt = Some tst' /\
                                   In (p, S d) (pds (ms_items tst'))).
      { rewrite Hn. destruct (Nat.eqb tgt cur).
        - rewrite Htgt. cbn [option_map]. eexists. split; [reflexivity|]. rewrite rec_fun_items.
          apply Hincl. exact Hkin.
        - exists tst. split; [exact Htgt|apply Hincl; exact Hkin]. }
      destruct Htgt' as (tst' & Ht1 & Ht2). unfold edge. destruct x as [t|b]; cbn [rec_fun ms_acts ms_gotos].
      + destruct (N.eqb_spec t stop) as [->|Hne].
        * rewrite sym_eqb_refl in Hstop. discriminate.
        * exists tgt, tst'. rewrite assoc_aset, N.eqb_refl. auto.
      + exists tgt, tst'. rewrite assoc_gset, N.eqb_refl. auto.
    - intros k s Hk. destruct (Hshape k s Hk) as (s' & Hk' & Hs' & Hp' & Ha' & Hg').
      rewrite Hn. destruct (Nat.eqb_spec k cur) as [->|Hne].
      + rewrite Hk'. cbn [option_map]. eexists. split; [reflexivity|]. rewrite rec_fun_sym, rec_fun_items.
        split; [exact Hs'|]. split; [rewrite Hp'; apply incl_refl|]. intros Hc. congruence.
      + exists s'. split; [exact Hk'|]. split; [exact Hs'|]. split; [rewrite Hp'; apply incl_refl|auto].
    - intros k s Hk. rewrite Hn in Hk. destruct (Nat.eqb k cur).
      + destruct (nth_error all1 k) as [s0|] eqn:E; [|discriminate]. inversion Hk; subst s.
        destruct (Hnd1 k s0 E) as [Hw Ha]. split; [rewrite rec_fun_items; exact Hw|].
        destruct x; cbn [rec_fun ms_acts]; [apply aset_nodup|]; exact Ha.
      + apply (Hnd1 k s Hk).
  Qed.

  Lemma do_group_spec cur all x idxs all' st :
    do_group ps e stop lr1 cur all (x, idxs) = BOk all' ->
    nth_error all cur = Some st -> nodup_all all -> group_ok (pds (ms_items st)) x idxs ->
    exists st', nth_error all' cur = Some st' /\ pds (ms_items st') = pds (ms_items st) /\
                tabs_agree x st st' /\ group_done all' st' x idxs /\
                step_rel cur all all' /\ nodup_all all'.
  Proof.
    intros H Hcur Hnd [Hidx Hg]. unfold do_group in H. rewrite Hcur in H.
    destruct (sym_eqb x (T stop)) eqn:Estop.
    - (* ACCEPT *)
      apply sym_eqb_eq in Estop. subst x. inversion H; subst all'. clear H.
      set (f := fun st0 => mkMS (ms_sym st0) (ms_items st0) (aset stop [Accept] (ms_acts st0)) (ms_gotos st0)).
      assert (Hr : step_rel cur all (map_nth cur f all)) by (apply step_rel_map_nth; intros s; split; reflexivity).
      exists (f st). split; [rewrite nth_error_map_nth, Nat.eqb_refl, Hcur; reflexivity|].
      split; [reflexivity|]. split; [|split; [|split; [exact Hr|]]].
      + intros y Hy. destruct y as [t|b]; cbn [f ms_acts ms_gotos]; [|reflexivity].
        rewrite assoc_aset. destruct (N.eqb_spec t stop) as [->|_]; [congruence|reflexivity].
      + intros i p d _ _. unfold edge. rewrite N.eqb_refl. cbn [f ms_acts]. rewrite assoc_aset, N.eqb_refl.
        reflexivity.
      + intros k s Hk. rewrite nth_error_map_nth in Hk. destruct (Nat.eqb k cur).
        * destruct (nth_error all k) as [s0|] eqn:E; [|discriminate]. inversion Hk; subst s.
          destruct (Hnd k s0 E) as [Hw Ha]. split; [exact Hw|]. cbn [f ms_acts]. apply aset_nodup. exact Ha.
        * apply (Hnd k s Hk).
    - destruct (inc_group ps e (ms_items st) idxs) as [kits|] eqn:Einc; [|discriminate].
      destruct (inc_group_props ps e (ms_items st) idxs kits Einc (proj1 (proj1 (Hnd cur st Hcur))) Hidx)
        as (Hknd & Hkk & Hkin & Hkfrom).
      assert (Hkwf : pds_wf (pds kits)).
      { split; [exact Hknd|]. split.
        - intros p d Hin. apply pds_In in Hin. destruct Hin as (it' & Hit' & Hpd').
          destruct (Hkfrom it' Hit') as (i & it & Hi & Hit & Hpd). rewrite Hpd in Hpd'.
          inversion Hpd'; subst p d. destruct (Hg i Hi) as (p0 & d0 & Hn0 & Hs0).
          apply nth_error_pds in Hn0. destruct Hn0 as (it0 & Hit0 & Hpd0). rewrite Hit in Hit0.
          inversion Hit0; subst it0. unfold pd in Hpd0. inversion Hpd0; subst p0 d0.
          exists x. split; [exact Hs0|exact Estop].
        - intros p d Hin. apply pds_In in Hin. destruct Hin as (it' & Hit' & Hpd').
          destruct (Hkfrom it' Hit') as (i & it & Hi & Hit & Hpd). rewrite Hpd in Hpd'.
          inversion Hpd'; subst p d.
          apply (proj2 (proj2 (proj1 (Hnd cur st Hcur))) (it_p it) (it_d it)).
          apply pds_In. exists it. split; [eapply nth_error_In; exact Hit|reflexivity]. }
      assert (Hkin' : forall i p d, In i idxs -> nth_error (pds (ms_items st)) i = Some (p, d) ->
                                    In (p, S d) (pds kits)).
      { intros i p d Hi Hp. apply nth_error_pds in Hp. destruct Hp as (it & Hit & Hpd).
        unfold pd in Hpd. inversion Hpd; subst. apply (Hkin i it Hi Hit). }
      assert (Hmid : exists all1 tgt, all' = record cur x tgt all1 /\ mid_ok all kits all1 tgt).
      { destruct (find_state ps all kits) as [k|] eqn:Efind.
        - destruct (find_state_some all kits k Efind) as (old & Hk & Heq).
          destruct lr1.
          + rewrite Hk in H. destruct (merge_states ps e (ms_items old) kits) as [its'| |] eqn:Em;
              [| |discriminate]; inversion H; subst all'.
            * eexists _, _. split; [reflexivity|]. eapply mid_merged; eassumption.
            * eexists _, _. split; [reflexivity|]. apply mid_new; assumption.
          + inversion H; subst all'. eexists _, _. split; [reflexivity|]. eapply mid_found; eassumption.
        - inversion H; subst all'. eexists _, _. split; [reflexivity|]. apply mid_new; assumption. }
      destruct Hmid as (all1 & tgt & -> & Hmid).
      exact (record_finish cur all kits all1 tgt x idxs st Hmid Hcur Estop Hkin').
  Qed.
  (* ---- all groups of the state being processed -------------------------------------- *)
  Definition tab_same (z : sym) (st st' : mstate) : Prop :=
    match z with
    | T t => assoc t (ms_acts st') = assoc t (ms_acts st)
    | NT b => assoc b (ms_gotos st') = assoc b (ms_gotos st)
    end.

  Lemma tabs_agree_same x st st' z : tabs_agree x st st' -> z <> x -> tab_same z st st'.
  Proof. intros H Hz. exact (H z Hz). Qed.

  Lemma tab_same_trans z a b c : tab_same z a b -> tab_same z b c -> tab_same z a c.
  Proof. unfold tab_same. destruct z; congruence. Qed.

  Lemma edge_tab_same all st st' p d X :
    tab_same X st st' -> edge all (ms_acts st) (ms_gotos st) p d X ->
    edge all (ms_acts st') (ms_gotos st') p d X.
  Proof.
    unfold tab_same, edge. destruct X as [t|b]; intros H.
    - destruct (N.eqb_spec t stop) as [->|_]; [congruence|].
      intros (tgt & s & H1 & H2). exists tgt, s. split; [congruence|exact H2].
    - intros (tgt & s & H1 & H2). exists tgt, s. split; [congruence|exact H2].
  Qed.

  Definition gfold (cur : nat) (gs : list (sym * list nat)) (r : bres (list mstate)) : bres (list mstate) :=
    fold_left (fun r g => bbind r (fun a => do_group ps e stop lr1 cur a g)) gs r.

  Lemma gfold_not_ok cur gs : forall r, (forall a, r <> BOk a) -> forall a, gfold cur gs r <> BOk a.
  Proof.
    induction gs as [|g gs IH]; intros r Hr a; cbn [gfold fold_left]; [apply Hr|].
    apply IH. intros a' H. destruct r; cbn in H; try discriminate. exact (Hr x eq_refl).
  Qed.

  Lemma do_groups_spec cur gs : forall all all' st,
    gfold cur gs (BOk all) = BOk all' ->
    nth_error all cur = Some st -> nodup_all all -> NoDup (map fst gs) ->
    (forall x idxs, In (x, idxs) gs -> group_ok (pds (ms_items st)) x idxs) ->
    exists st', nth_error all' cur = Some st' /\ pds (ms_items st') = pds (ms_items st) /\
                (forall z, ~ In z (map fst gs) -> tab_same z st st') /\
                (forall x idxs, In (x, idxs) gs -> group_done all' st' x idxs) /\
                step_rel cur all all' /\ nodup_all all'.
  Proof.
    induction gs as [|[x idxs] gs IH]; intros all all' st H Hcur Hnd Hkeys Hg.
    - cbn in H. inversion H; subst all'. exists st. split; [exact Hcur|]. split; [reflexivity|].
      split; [intros z _; destruct z; reflexivity|]. split; [intros x idxs []|].
      split; [apply step_rel_refl|exact Hnd].
    - cbn [gfold fold_left bbind] in H.
      destruct (do_group ps e stop lr1 cur all (x, idxs)) as [all1|a0|n0|c0|s0 n0] eqn:Eg;
        [|exfalso; refine (gfold_not_ok cur gs _ _ all' H); intros a; discriminate..].
      destruct (do_group_spec cur all x idxs all1 st Eg Hcur Hnd (Hg x idxs (or_introl eq_refl)))
        as (st1 & Hcur1 & Hp1 & Ht1 & Hd1 & Hr1 & Hnd1).
      inversion Hkeys as [|? ? Hnk Hkeys']; subst.
      destruct (IH all1 all' st1 H Hcur1 Hnd1 Hkeys') as (st2 & Hcur2 & Hp2 & Ht2 & Hd2 & Hr2 & Hnd2).
      { intros x' idxs' Hin. rewrite Hp1. apply Hg. right. exact Hin. }
      exists st2. split; [exact Hcur2|]. split; [congruence|]. split; [|split; [|split]].
      + intros z Hz. cbn [map fst] in Hz. eapply tab_same_trans.
        * apply (tabs_agree_same x st st1 z Ht1). intros ->. apply Hz. left. reflexivity.
        * apply Ht2. intros Hc. apply Hz. right. exact Hc.
      + intros x' idxs' [Hin|Hin]; [|apply Hd2; exact Hin]. inversion Hin; subst x' idxs'.
        intros i p d Hi Hp. rewrite Hp2 in Hp. apply (edge_tab_same all' st1 st2 p d x (Ht2 x Hnk)).
        eapply edge_step; [exact Hr2|]. apply (Hd1 i p d Hi Hp).
      + eapply step_rel_trans; eassumption.
      + exact Hnd2.
  Qed.

  (* ---- taking one state from the queue ------------------------------------------------ *)
  Lemma closed_closed0 its : closed ps e lr1 fs its -> closed0 (pds its).
  Proof.
    intros Hc p d b Hin Hs q Hq. apply pds_In in Hin. destruct Hin as (it & Hit & Hpd).
    unfold pd in Hpd. inversion Hpd; subst.
    destruct (Hc it Hit b Hs q Hq) as (j & Hj & Hpj & _). apply pds_In. exists j. auto.
  Qed.

  Lemma groups_ok its x idxs :
    In (x, idxs) (groups ps e its) -> group_ok (pds its) x idxs.
  Proof.
    intros Hin. destruct (groups_spec ps e its) as [_ Hs]. destruct (Hs x idxs Hin) as [-> _].
    split; [apply occ_NoDup|]. intros i Hi. apply occ_In in Hi. destruct Hi as (_ & it & Hn & Hsym).
    rewrite Nat.sub_0_r in Hn. exists (it_p it), (it_d it). split; [|exact Hsym].
    apply nth_error_pds. exists it. auto.
  Qed.

  Lemma process_state cur all st its all2 :
    sinv cur all -> nth_error all cur = Some st ->
    closure ps e lr1 fs cfuel (ms_items st) = Some its ->
    gfold cur (groups ps e its) (BOk (set_items cur its all)) = BOk all2 ->
    sinv (S cur) all2.
  Proof.
    intros [H0 Hnd Hdone] Hcur Hcl Hg.
    destruct (closure_spec ps e lr1 fs cfuel _ _ Hcl) as (Hgrow & Hclosed & Hndc).
    set (all1 := set_items cur its all) in *.
    set (st1 := mkMS (ms_sym st) its (ms_acts st) (ms_gotos st)).
    assert (Hcur1 : nth_error all1 cur = Some st1).
    { unfold all1. rewrite nth_error_set_items, Nat.eqb_refl, Hcur. reflexivity. }
    assert (Hr1 : step_rel cur all all1).
    { apply (step_rel_set_items cur cur its all st Hcur); [|congruence].
      intros y Hy. eapply grows_pds; eassumption. }
    assert (Hnd1 : nodup_all all1).
    { intros k s Hk. unfold all1 in Hk. rewrite nth_error_set_items in Hk.
      destruct (Nat.eqb_spec k cur) as [->|Hne].
      - rewrite Hcur in Hk. inversion Hk; subst s. unfold state_wf. cbn [ms_items ms_acts].
        destruct (Hnd cur st Hcur) as ((Hn0 & Hp0 & Hv0) & Hacts0). split; [|exact Hacts0].
        split; [apply Hndc; exact Hn0|]. split.
        + intros p d Hin. apply Hp0. eapply grows_pred; eassumption.
        + intros p d Hin. apply pds_In in Hin. destruct Hin as (it & Hit & Hpd).
          unfold pd in Hpd. inversion Hpd; subst p d.
          apply (closure_valid ps e lr1 fs cfuel _ _ Hcl); [|exact Hit].
          intros it0 Hit0. apply (Hv0 (it_p it0) (it_d it0)). apply pds_In. exists it0. auto.
      - apply (Hnd k s Hk). }
    destruct (groups_spec ps e its) as [Hkeys _].
    destruct (do_groups_spec cur (groups ps e its) all1 all2 st1 Hg Hcur1 Hnd1 Hkeys)
      as (st2 & Hcur2 & Hp2 & _ & Hd2 & Hr2 & Hnd2).
    { intros x idxs Hin. cbn [st1 ms_items]. apply groups_ok. exact Hin. }
    pose proof (step_rel_trans cur _ _ _ Hr1 Hr2) as Hr.
    constructor.
    - destruct H0 as (st0 & Hs0 & Hin0). destruct (Hr 0%nat st0 Hs0) as (st0' & Hs0' & _ & Hi0 & _).
      exists st0'. split; [exact Hs0'|apply Hi0; exact Hin0].
    - exact Hnd2.
    - intros k s Hk Hs. destruct (Nat.eq_dec k cur) as [->|Hne].
      + rewrite Hcur2 in Hs. inversion Hs; subst s. split.
        * rewrite Hp2. cbn [st1 ms_items]. apply closed_closed0. exact Hclosed.
        * intros p d X Hin HX. rewrite Hp2 in Hin. cbn [st1 ms_items] in Hin.
          apply In_nth_error in Hin. destruct Hin as (i & Hi).
          apply nth_error_pds in Hi. destruct Hi as (it & Hit & Hpd).
          unfold pd in Hpd. inversion Hpd; subst.
          destruct (groups_complete ps e its i it X Hit HX) as (idxs & Hgin & Hiin).
          apply (Hd2 X idxs Hgin i (it_p it) (it_d it) Hiin). rewrite Hp2. cbn [st1 ms_items].
          apply nth_error_pds. exists it. auto.
      + assert (Hk' : (k < cur)%nat) by lia.
        destruct (nth_error all k) as [s0|] eqn:Es0.
        * eapply (state_done_step cur all all2 k s0 s Hr Hne Es0 Hs). apply (Hdone k s0 Hk' Es0).
        * exfalso. apply nth_error_None in Es0.
          assert (cur < length all)%nat by (apply nth_error_Some; congruence). lia.
  Qed.

  Lemma build_loop_spec fuel : forall cur all all',
    build_loop ps e stop lr1 fs cfuel max_states fuel cur all = BOk all' ->
    sinv cur all -> sinv (length all') all'.
  Proof.
    induction fuel as [|f IH]; intros cur all all' H Hinv; [discriminate|].
    cbn [build_loop] in H. destruct (nth_error all cur) as [st|] eqn:Hcur.
    - destruct (over_budget max_states (length all)); [discriminate|].
      destruct (Closure.closure ps e lr1 fs cfuel (ms_items st)) as [its|] eqn:Hcl; [|discriminate].
      apply bbind_ok in H. destruct H as (all2 & Hg & Hrec).
      apply (IH (S cur) all2 all' Hrec). eapply process_state; eassumption.
    - inversion H; subst all'. apply nth_error_None in Hcur.
      destruct Hinv as [H0 Hnd Hdone]. constructor; [exact H0|exact Hnd|].
      intros k s Hk Hs. apply nth_error_None in Hcur.
      apply (Hdone k s); [|exact Hs].
      assert (k < length all)%nat by (apply nth_error_Some; congruence).
      apply nth_error_None in Hcur. lia.
  Qed.

  Lemma sinv_init : ps <> [] -> sinv 0 [state0 ps].
  Proof.
    intros Hne. constructor.
    - exists (state0 ps). split; [reflexivity|]. cbn. left. reflexivity.
    - intros k st Hk. destruct k as [|k]; cbn in Hk; [|destruct k; discriminate].
      inversion Hk; subst st. split; [|constructor]. cbn.
      split; [constructor; [intros []|constructor]|]. split.
      + intros p d [Hc|[]]. inversion Hc.
      + intros p d [Hc|[]]. inversion Hc; subst. destruct ps; [congruence|cbn; lia].
    - intros k st Hk. lia.
  Qed.
End Invariants.

(* ---- the final LALR loop ------------------------------------------------------------------ *)
Section LalrLoop.
  Variable ps : list prod.
  Variable e : N.
  Variable stop : N.
  Variable fs : fsets.
  Variable cfuel : nat.

  Notation closure := (Closure.closure ps e true fs cfuel).
  Notation closed0 := (closed0 ps e).
  Notation sinv := (sinv ps e stop).

  (* the closure of an LR(0)-closed item list adds no item *)
  Lemma add_prod_pds_found fol its w q :
    In (q, O) (pds its) -> pds (fst (add_prod true fol (its, w) q)) = pds its.
  Proof.
    intros Hin. unfold add_prod. destruct (find_item q 0 its 0) as [j|] eqn:Ef.
    - destruct (nsubset fol (follow_at its j)); [reflexivity|]. cbn [fst]. apply pds_set_follow.
    - exfalso. apply pds_In in Hin. destruct Hin as (it & Hit & Hpd).
      exact (find_item_none q 0 its 0 Ef it Hit Hpd).
  Qed.

  Lemma add_prods_pds_found fol qs : forall its w,
    (forall q, In q qs -> In (q, O) (pds its)) ->
    pds (fst (fold_left (add_prod true fol) qs (its, w))) = pds its.
  Proof.
    induction qs as [|q r IH]; intros its w H; cbn [fold_left]; [reflexivity|].
    pose proof (add_prod_pds_found fol its w q (H q (or_introl eq_refl))) as H1.
    destruct (add_prod true fol (its, w) q) as [its1 w1]. cbn [fst] in H1.
    rewrite IH; [exact H1|]. intros q' Hq'. rewrite H1. apply H. right. exact Hq'.
  Qed.

  Lemma closure_loop_pds fuel : forall its w its',
    closure_loop ps e true fs fuel its w = Some its' -> closed0 (pds its) -> pds its' = pds its.
  Proof.
    induction fuel as [|f IH]; intros its w its' H Hc; [discriminate|].
    cbn [closure_loop] in H. destruct w as [|i w']; [inversion H; reflexivity|].
    destruct (nth_error its i) as [it|] eqn:Hi; [|eapply IH; eassumption].
    destruct (item_sym ps e it) as [[a|b]|] eqn:Hs; try (eapply IH; eassumption).
    assert (Hq : forall q, In q (prods_of ps b) -> In (q, O) (pds its)).
    { intros q Hq. apply (Hc (it_p it) (it_d it) b); [|exact Hs|exact Hq].
      apply pds_In. exists it. split; [eapply nth_error_In; exact Hi|reflexivity]. }
    pose proof (add_prods_pds_found (new_item_follow ps e fs it) (prods_of ps b) its w' Hq) as Hp.
    rewrite <- Hp. eapply IH; [exact H|]. rewrite Hp. exact Hc.
  Qed.

  Lemma closure_pds its its' : closure its = Some its' -> closed0 (pds its) -> pds its' = pds its.
  Proof. unfold Closure.closure. apply closure_loop_pds. Qed.

  (* same states up to the follow sets of their items *)
  Definition same_pds (all all' : list mstate) : Prop :=
    length all' = length all /\
    forall k s, nth_error all k = Some s ->
      exists s', nth_error all' k = Some s' /\ ms_sym s' = ms_sym s /\
                 pds (ms_items s') = pds (ms_items s) /\
                 ms_acts s' = ms_acts s /\ ms_gotos s' = ms_gotos s.

  Lemma same_pds_refl all : same_pds all all.
  Proof. split; [reflexivity|]. intros k s H. exists s. auto. Qed.

  Lemma same_pds_trans a b c : same_pds a b -> same_pds b c -> same_pds a c.
  Proof.
    intros [L1 H1] [L2 H2]. split; [congruence|]. intros k s Hk.
    destruct (H1 k s Hk) as (s1 & Hk1 & A1 & A2 & A3 & A4).
    destruct (H2 k s1 Hk1) as (s2 & Hk2 & B1 & B2 & B3 & B4).
    exists s2. repeat split; congruence.
  Qed.

  Lemma same_pds_set_items all k st its :
    nth_error all k = Some st -> pds its = pds (ms_items st) -> same_pds all (set_items k its all).
  Proof.
    intros Hk Hp. split; [unfold set_items; apply map_nth_length|]. intros j s Hj.
    rewrite nth_error_set_items. destruct (Nat.eqb_spec j k) as [->|Hne].
    - rewrite Hk in Hj. inversion Hj; subst s. rewrite Hk. cbn [option_map]. eexists.
      split; [reflexivity|]. cbn. auto.
    - exists s. auto.
  Qed.

  Lemma sinv_same_pds all all' : same_pds all all' -> sinv (length all) all -> sinv (length all') all'.
  Proof.
    intros [Hlen Hs] [H0 Hwf Hdone].
    assert (Hback : forall k s', nth_error all' k = Some s' ->
              exists s, nth_error all k = Some s /\ ms_sym s' = ms_sym s /\
                        pds (ms_items s') = pds (ms_items s) /\
                        ms_acts s' = ms_acts s /\ ms_gotos s' = ms_gotos s).
    { intros k s' Hk. destruct (nth_error all k) as [s|] eqn:E.
      - destruct (Hs k s E) as (s2 & Hk2 & A). rewrite Hk in Hk2. inversion Hk2; subst s2. exists s. auto.
      - apply nth_error_None in E. assert (k < length all')%nat by (apply nth_error_Some; congruence). lia. }
    assert (Hstep : step_rel (length all) all all').
    { intros k s Hk. destruct (Hs k s Hk) as (s' & Hk' & A1 & A2 & A3 & A4). exists s'.
      split; [exact Hk'|]. split; [exact A1|]. split; [rewrite A2; apply incl_refl|auto]. }
    constructor.
    - destruct H0 as (st0 & Hs0 & Hin0). destruct (Hs 0%nat st0 Hs0) as (s' & Hk' & _ & A2 & _).
      exists s'. split; [exact Hk'|rewrite A2; exact Hin0].
    - intros k s' Hk. destruct (Hback k s' Hk) as (s & Hk0 & _ & A2 & A3 & _).
      destruct (Hwf k s Hk0) as [W1 W2]. split; [rewrite A2; exact W1|rewrite A3; exact W2].
    - intros k s' Hlt Hk. destruct (Hback k s' Hk) as (s & Hk0 & _).
      assert (Hne : k <> length all).
      { assert (k < length all)%nat by (apply nth_error_Some; congruence). lia. }
      eapply (state_done_step ps e stop (length all) all all' k s s' Hstep Hne Hk0 Hk).
      apply (Hdone k s); [|exact Hk0]. apply nth_error_Some. congruence.
  Qed.

  (* ---- closing every state ---------------------------------------------------------------- *)
  Definition all_closed (all : list mstate) (k n : nat) : Prop :=
    forall j s, (k <= j < k + n)%nat -> nth_error all j = Some s -> closed ps e true fs (ms_items s).

  Lemma close_all_spec n : forall k all all',
    close_all ps e true fs cfuel k n all = Some all' ->
    (forall j s, nth_error all j = Some s -> closed0 (pds (ms_items s))) ->
    same_pds all all' /\
    (forall j s', (k <= j < k + n)%nat -> nth_error all' j = Some s' -> closed ps e true fs (ms_items s')) /\
    (forall j, (j < k)%nat -> nth_error all' j = nth_error all j).
  Proof.
    induction n as [|n IH]; intros k all all' H Hc; cbn [close_all] in H.
    - inversion H; subst. split; [apply same_pds_refl|]. split; [intros j s Hj; lia|auto].
    - destruct (nth_error all k) as [st|] eqn:Hk.
      + destruct (closure (ms_items st)) as [its|] eqn:Hcl; [|discriminate].
        pose proof (closure_pds _ _ Hcl (Hc k st Hk)) as Hp.
        pose proof (same_pds_set_items all k st its Hk Hp) as Hsame.
        destruct (IH (S k) (set_items k its all) all' H) as (Hs2 & Hc2 & Hu2).
        { intros j s Hj. rewrite nth_error_set_items in Hj. destruct (Nat.eqb_spec j k) as [->|Hne].
          - rewrite Hk in Hj. inversion Hj; subst s. cbn [ms_items]. rewrite Hp. apply (Hc k st Hk).
          - apply (Hc j s Hj). }
        split; [eapply same_pds_trans; eassumption|]. split.
        * intros j s' Hj Hs'. destruct (Nat.eq_dec j k) as [->|Hne].
          -- rewrite (Hu2 k (Nat.lt_succ_diag_r k)), nth_error_set_items, Nat.eqb_refl, Hk in Hs'.
             inversion Hs'; subst s'. cbn [ms_items].
             exact (proj1 (proj2 (closure_spec ps e true fs cfuel _ _ Hcl))).
          -- apply (Hc2 j s'); [lia|exact Hs'].
        * intros j Hj. rewrite (Hu2 j (Nat.lt_lt_succ_r _ _ Hj)), nth_error_set_items.
          destruct (Nat.eqb_spec j k); [lia|reflexivity].
      + inversion H; subst all'. split; [apply same_pds_refl|]. split; [|auto].
        intros j s' Hj Hs'. apply nth_error_None in Hk.
        assert (j < length all)%nat by (apply nth_error_Some; congruence). lia.
  Qed.

  (* ---- propagation ---------------------------------------------------------------------------- *)
  Notation item_inc := (item_inc ps e).

  (* target tgt has received the follow sets of the advanced items [incs] *)
  Definition received (incs : list (option item)) (all : list mstate) (tgt : nat) (js : list nat) : Prop :=
    exists ts, nth_error all tgt = Some ts /\
      forall j, In j js -> exists next this,
        nth_error (ms_items ts) j = Some next /\ find_inc incs next = Some this /\
        fsub (it_f this) (it_f next).

  Lemma prop_items_spec incs tgt js : forall all u all' u',
    prop_items incs tgt js (all, u) = BOk (all', u') ->
    same_pds all all' /\ (u = true -> u' = true) /\
    (u' = false -> all' = all /\ (js <> [] -> received incs all tgt js)).
  Proof.
    induction js as [|j r IH]; intros all u all' u' H; cbn [prop_items] in H.
    - inversion H; subst. split; [apply same_pds_refl|]. split; [auto|]. intros _. split; [reflexivity|congruence].
    - destruct (nth_error all tgt) as [ts|] eqn:Ht; [|discriminate].
      destruct (nth_error (ms_items ts) j) as [next|] eqn:Hn; [|discriminate].
      destruct (find_inc incs next) as [this|] eqn:Hf; [|discriminate].
      destruct (nsubset (it_f this) (it_f next)) eqn:Es.
      + destruct (IH _ _ _ _ H) as (Hs & Hu & Hno). split; [exact Hs|]. split; [exact Hu|].
        intros Hu'. destruct (Hno Hu') as [-> Hrec]. split; [reflexivity|]. intros _.
        exists ts. split; [exact Ht|]. intros j' [<-|Hj'].
        * exists next, this. split; [exact Hn|]. split; [exact Hf|]. exact (proj1 (nsubset_spec _ _) Es).
        * destruct r as [|j2 r2]; [destruct Hj'|].
          destruct (Hrec ltac:(discriminate)) as (ts' & Ht' & Hall). rewrite Ht in Ht'. inversion Ht'; subst ts'.
          apply Hall. exact Hj'.
      + destruct (IH _ _ _ _ H) as (Hs & Hu & Hno).
        assert (Hs1 : same_pds all (set_items tgt (set_follow j (nunion (it_f next) (it_f this)) (ms_items ts)) all)).
        { apply (same_pds_set_items all tgt ts); [exact Ht|apply pds_set_follow]. }
        split; [eapply same_pds_trans; eassumption|]. split; [intros _; apply Hu; reflexivity|].
        intros Hu'. rewrite (Hu eq_refl) in Hu'. discriminate.
  Qed.

  Definition state_received (all : list mstate) (i : nat) : Prop :=
    forall src, nth_error all i = Some src ->
      forall tgt, In tgt (targets src) ->
        exists ts, nth_error all tgt = Some ts /\
                   received (map item_inc (ms_items src)) all tgt (kernel_idx ps (ms_items ts)).

  Lemma prop_targets_spec incs tgts : forall all u all' u',
    fold_left (fun r tgt => bbind r (fun s1 =>
                 match nth_error (fst s1) tgt with
                 | None => BCrash 0
                 | Some ts => prop_items incs tgt (kernel_idx ps (ms_items ts)) s1
                 end)) tgts (BOk (all, u)) = BOk (all', u') ->
    same_pds all all' /\ (u = true -> u' = true) /\
    (u' = false -> all' = all /\
       forall tgt, In tgt tgts -> exists ts, nth_error all tgt = Some ts /\
         (kernel_idx ps (ms_items ts) <> [] -> received incs all tgt (kernel_idx ps (ms_items ts)))).
  Proof.
    induction tgts as [|tgt r IH]; intros all u all' u' H; cbn [fold_left] in H.
    - inversion H; subst. split; [apply same_pds_refl|]. split; [auto|]. intros _. split; [reflexivity|intros t []].
    - cbn [bbind fst] in H. destruct (nth_error all tgt) as [ts|] eqn:Ht.
      + destruct (prop_items incs tgt (kernel_idx ps (ms_items ts)) (all, u)) as [[all1 u1]| | | |] eqn:Ep.
        * destruct (prop_items_spec _ _ _ _ _ _ _ Ep) as (Hs1 & Hu1 & Hno1).
          destruct (IH _ _ _ _ H) as (Hs2 & Hu2 & Hno2).
          split; [eapply same_pds_trans; eassumption|]. split; [auto|].
          intros Hu'. destruct (Hno2 Hu') as [-> Hrec2].
          destruct u1; [specialize (Hu2 eq_refl); congruence|].
          destruct (Hno1 eq_refl) as [-> Hrec1]. split; [reflexivity|].
          intros tgt' [<-|Hin]; [exists ts; split; [exact Ht|exact Hrec1]|apply Hrec2; exact Hin].
        * exfalso. clear -H. induction r as [|x r IHr]; cbn in H; [discriminate|auto].
        * exfalso. clear -H. induction r as [|x r IHr]; cbn in H; [discriminate|auto].
        * exfalso. clear -H. induction r as [|x r IHr]; cbn in H; [discriminate|auto].
        * exfalso. clear -H. induction r as [|x r IHr]; cbn in H; [discriminate|auto].
      + exfalso. clear -H. induction r as [|x r IHr]; cbn in H; [discriminate|auto].
  Qed.

  Lemma prop_state_spec all u i all' u' :
    prop_state ps e (BOk (all, u)) i = BOk (all', u') ->
    same_pds all all' /\ (u = true -> u' = true) /\
    (u' = false -> all' = all /\
       forall src, nth_error all i = Some src ->
         forall tgt, In tgt (targets src) -> exists ts, nth_error all tgt = Some ts /\
           (kernel_idx ps (ms_items ts) <> [] ->
            received (map item_inc (ms_items src)) all tgt (kernel_idx ps (ms_items ts)))).
  Proof.
    unfold prop_state. cbn [bbind fst]. destruct (nth_error all i) as [src|] eqn:Hi.
    - intros H. destruct (prop_targets_spec _ _ _ _ _ _ H) as (Hs & Hu & Hno).
      split; [exact Hs|]. split; [exact Hu|]. intros Hu'. destruct (Hno Hu') as [-> Hrec].
      split; [reflexivity|]. intros src' Hsrc'. inversion Hsrc'; subst src'. exact Hrec.
    - intros H. inversion H; subst. split; [apply same_pds_refl|]. split; [auto|].
      intros _. split; [reflexivity|]. intros src Hsrc. discriminate.
  Qed.

  Lemma prop_all_spec idxs : forall all u all' u',
    fold_left (prop_state ps e) idxs (BOk (all, u)) = BOk (all', u') ->
    same_pds all all' /\ (u = true -> u' = true) /\
    (u' = false -> all' = all /\
       forall i, In i idxs -> forall src, nth_error all i = Some src ->
         forall tgt, In tgt (targets src) -> exists ts, nth_error all tgt = Some ts /\
           (kernel_idx ps (ms_items ts) <> [] ->
            received (map item_inc (ms_items src)) all tgt (kernel_idx ps (ms_items ts)))).
  Proof.
    induction idxs as [|i r IH]; intros all u all' u' H; cbn [fold_left] in H.
    - inversion H; subst. split; [apply same_pds_refl|]. split; [auto|]. intros _.
      split; [reflexivity|intros i []].
    - destruct (prop_state ps e (BOk (all, u)) i) as [[all1 u1]| | | |] eqn:Ep;
        try (exfalso; clear -H; induction r as [|x r IHr]; cbn in H; [discriminate|auto]).
      destruct (prop_state_spec _ _ _ _ _ Ep) as (Hs1 & Hu1 & Hno1).
      destruct (IH _ _ _ _ H) as (Hs2 & Hu2 & Hno2).
      split; [eapply same_pds_trans; eassumption|]. split; [auto|].
      intros Hu'. destruct (Hno2 Hu') as [-> Hrec2].
      destruct u1; [specialize (Hu2 eq_refl); congruence|].
      destruct (Hno1 eq_refl) as [-> Hrec1]. split; [reflexivity|].
      intros i' [<-|Hin]; [exact Hrec1|apply Hrec2; exact Hin].
  Qed.

  (* what holds when the loop ends: every state is closed (LR(1)) and every target's kernel
     items contain the follow sets of the items they come from *)
  Definition lalr_post (all : list mstate) : Prop :=
    (forall j s, nth_error all j = Some s -> closed ps e true fs (ms_items s)) /\
    (forall i src, nth_error all i = Some src ->
       forall tgt, In tgt (targets src) -> exists ts, nth_error all tgt = Some ts /\
         (kernel_idx ps (ms_items ts) <> [] ->
          received (map item_inc (ms_items src)) all tgt (kernel_idx ps (ms_items ts)))).

  Lemma lalr_loop_spec fuel : forall all all',
    lalr_loop ps e true fs cfuel fuel all = BOk all' ->
    (forall j s, nth_error all j = Some s -> closed0 (pds (ms_items s))) ->
    same_pds all all' /\ lalr_post all'.
  Proof.
    induction fuel as [|f IH]; intros all all' H Hc; [discriminate|].
    cbn [lalr_loop] in H.
    destruct (close_all ps e true fs cfuel 0 (length all) all) as [all1|] eqn:Ec; [|discriminate].
    destruct (close_all_spec _ _ _ _ Ec Hc) as (Hs1 & Hcl1 & _).
    apply bbind_ok in H. destruct H as ([all2 u2] & Hp & Hrest). cbn [fst snd] in Hrest.
    destruct (prop_all_spec _ _ _ _ _ Hp) as (Hs2 & _ & Hno).
    destruct u2.
    - assert (Hc2 : forall j s, nth_error all2 j = Some s -> closed0 (pds (ms_items s))).
      { intros j s Hj. pose proof (same_pds_trans _ _ _ Hs1 Hs2) as [Hl Hs].
        destruct (nth_error all j) as [s0|] eqn:E.
        - destruct (Hs j s0 E) as (s' & Hj' & _ & Hp' & _). rewrite Hj in Hj'. inversion Hj'; subst s'.
          rewrite Hp'. apply (Hc j s0 E).
        - apply nth_error_None in E. assert (j < length all2)%nat by (apply nth_error_Some; congruence). lia. }
      destruct (IH _ _ Hrest Hc2) as (Hs3 & Hpost).
      split; [|exact Hpost]. eapply same_pds_trans; [|exact Hs3]. eapply same_pds_trans; eassumption.
    - inversion Hrest; subst all'. destruct (Hno eq_refl) as [-> Hrec].
      split; [exact Hs1|]. split.
      + intros j s Hj. apply (Hcl1 j s); [|exact Hj].
        assert (j < length all1)%nat by (apply nth_error_Some; congruence).
        destruct Hs1 as [Hl _]. lia.
      + intros i src Hi. apply (Hrec i); [|exact Hi]. apply in_seq.
        assert (i < length all1)%nat by (apply nth_error_Some; congruence). lia.
  Qed.
End LalrLoop.

(* ---- provenance: where the kernel items of a target state come from --------------------------
   (what table_struct checks: every item with the dot behind a symbol X in the target of an
   X-edge has its predecessor in the source state; state 0 is the only state with (0, 0)) *)
Section Provenance.
  Variable ps : list prod.
  Variable e : N.
  Variable stop : N.
  Variable lr1 : bool.
  Variable fs : fsets.
  Variable cfuel : nat.
  Variable max_states : option nat.
  (* the augmented symbol occurs in no right-hand side *)
  Hypothesis Haug : forall p d, sym_at ps e p d <> Some (NT (lhs_of ps 0)).

  Notation sym_at := (sym_at ps e).
  Notation item_sym := (item_sym ps e).

  Definition kernel_from (all : list mstate) (st : mstate) (X : sym) (tgt : nat) : Prop :=
    tgt <> O /\ exists st', nth_error all tgt = Some st' /\
      forall p d', In (p, S d') (pds (ms_items st')) ->
                   In (p, d') (pds (ms_items st)) /\ sym_at p d' = Some X.

  Definition prov (all : list mstate) (st : mstate) : Prop :=
    (forall t acts, In (t, acts) (ms_acts st) ->
       if t =? stop
       then acts = [Accept] /\ exists p d, In (p, d) (pds (ms_items st)) /\ sym_at p d = Some (T stop)
       else exists tgt, acts = [Shift tgt] /\ kernel_from all st (T t) tgt) /\
    (forall b tgt, In (b, tgt) (ms_gotos st) -> kernel_from all st (NT b) tgt).

  (* a state with (0, 0) has only items with the dot at 0 *)
  Definition zero_like (P : list (N * nat)) : Prop :=
    In (0, O) P -> forall p d, In (p, d) P -> d = O.

  Record pinv (all : list mstate) : Prop := mkPinv {
    pi_prov : forall k st, nth_error all k = Some st -> prov all st;
    pi_kernel : forall k st, k <> O -> nth_error all k = Some st ->
                exists p d, In (p, S d) (pds (ms_items st));
    pi_zero : forall k st, nth_error all k = Some st -> zero_like (pds (ms_items st))
  }.

  (* the state list changes, tables of existing states untouched *)
  Definition srel (all all' : list mstate) : Prop :=
    forall k st, nth_error all k = Some st ->
      exists st', nth_error all' k = Some st' /\
                  ms_acts st' = ms_acts st /\ ms_gotos st' = ms_gotos st /\
                  incl (pds (ms_items st)) (pds (ms_items st')) /\
                  (forall p d, In (p, S d) (pds (ms_items st')) -> In (p, S d) (pds (ms_items st))) /\
                  (In (0, O) (pds (ms_items st')) -> In (0, O) (pds (ms_items st))).

  Lemma kernel_from_srel all all' st st' X tgt :
    srel all all' -> incl (pds (ms_items st)) (pds (ms_items st')) ->
    kernel_from all st X tgt -> kernel_from all' st' X tgt.
  Proof.
    intros Hr Hi (Hne & ts & Hts & Hk). split; [exact Hne|].
    destruct (Hr tgt ts Hts) as (ts' & Hts' & _ & _ & _ & HS & _). exists ts'. split; [exact Hts'|].
    intros p d' Hin. destruct (Hk p d' (HS p d' Hin)) as [H1 H2]. split; [apply Hi; exact H1|exact H2].
  Qed.

  Lemma prov_srel all all' st st' :
    srel all all' -> ms_acts st' = ms_acts st -> ms_gotos st' = ms_gotos st ->
    incl (pds (ms_items st)) (pds (ms_items st')) -> prov all st -> prov all' st'.
  Proof.
    intros Hr Ha Hg Hi [P1 P2]. split.
    - intros t acts Hin. rewrite Ha in Hin. specialize (P1 t acts Hin). destruct (t =? stop).
      + destruct P1 as (E & p & d & Hp & Hs). split; [exact E|]. exists p, d. split; [apply Hi; exact Hp|exact Hs].
      + destruct P1 as (tgt & E & Hk). exists tgt. split; [exact E|]. eapply kernel_from_srel; eassumption.
    - intros b tgt Hin. rewrite Hg in Hin. eapply kernel_from_srel; [exact Hr|exact Hi|apply P2; exact Hin].
  Qed.

  Lemma zero_like_srel P P' :
    incl P P' -> (forall p d, In (p, S d) P' -> In (p, S d) P) -> (In (0, O) P' -> In (0, O) P) ->
    zero_like P -> zero_like P'.
  Proof.
    intros Hi HS H0 Hz Hin p d Hp. destruct d as [|d]; [reflexivity|].
    specialize (Hz (H0 Hin) p (S d) (HS p d Hp)). discriminate.
  Qed.

  (* pinv is kept when existing states only change as srel allows and every new state is a
     fresh state made of advanced items *)
  Lemma pinv_srel all all' :
    pinv all -> srel all all' -> all <> [] ->
    (forall k st, (length all <= k)%nat -> nth_error all' k = Some st ->
       ms_acts st = [] /\ ms_gotos st = [] /\ ~ In (0, O) (pds (ms_items st)) /\
       exists p d, In (p, S d) (pds (ms_items st))) ->
    pinv all'.
  Proof.
    intros [P1 P2 P3] Hr Hne Hnew.
    assert (Hcase : forall k st', nth_error all' k = Some st' ->
              (exists st, nth_error all k = Some st /\
                          ms_acts st' = ms_acts st /\ ms_gotos st' = ms_gotos st /\
                          incl (pds (ms_items st)) (pds (ms_items st')) /\
                          (forall p d, In (p, S d) (pds (ms_items st')) -> In (p, S d) (pds (ms_items st))) /\
                          (In (0, O) (pds (ms_items st')) -> In (0, O) (pds (ms_items st)))) \/
              (length all <= k)%nat).
    { intros k st' Hk. destruct (nth_error all k) as [st|] eqn:E.
      - left. destruct (Hr k st E) as (st2 & Hk2 & A). rewrite Hk in Hk2. inversion Hk2; subst st2.
        exists st. auto.
      - right. apply nth_error_None. exact E. }
    constructor.
    - intros k st' Hk. destruct (Hcase k st' Hk) as [(st & Hs & Ha & Hg & Hi & _)|Hge].
      + eapply prov_srel; [exact Hr|exact Ha|exact Hg|exact Hi|apply (P1 k st Hs)].
      + destruct (Hnew k st' Hge Hk) as (Ha & Hg & _). split.
        * intros t acts Hin. rewrite Ha in Hin. destruct Hin.
        * intros b tgt Hin. rewrite Hg in Hin. destruct Hin.
    - intros k st' Hk0 Hk. destruct (Hcase k st' Hk) as [(st & Hs & _ & _ & Hi & _)|Hge].
      + destruct (P2 k st Hk0 Hs) as (p & d & Hin). exists p, d. apply Hi. exact Hin.
      + destruct (Hnew k st' Hge Hk) as (_ & _ & _ & H). exact H.
    - intros k st' Hk. destruct (Hcase k st' Hk) as [(st & Hs & _ & _ & Hi & HS & H0)|Hge].
      + eapply zero_like_srel; [exact Hi|exact HS|exact H0|apply (P3 k st Hs)].
      + destruct (Hnew k st' Hge Hk) as (_ & _ & Hn0 & _). intros Hin. contradiction.
  Qed.

  Lemma srel_refl all : srel all all.
  Proof. intros k st H. exists st. split; [exact H|]. repeat split; auto. apply incl_refl. Qed.

  Lemma srel_set_items all k st its :
    nth_error all k = Some st -> incl (pds (ms_items st)) (pds its) ->
    (forall p d, In (p, S d) (pds its) -> In (p, S d) (pds (ms_items st))) ->
    (In (0, O) (pds its) -> In (0, O) (pds (ms_items st))) ->
    srel all (set_items k its all).
  Proof.
    intros Hk Hi HS H0 j s Hj. rewrite nth_error_set_items. destruct (Nat.eqb_spec j k) as [->|Hne].
    - rewrite Hk in Hj. inversion Hj; subst s. rewrite Hk. cbn [option_map]. eexists.
      split; [reflexivity|]. cbn [ms_acts ms_gotos ms_items]. auto.
    - exists s. split; [exact Hj|]. repeat split; auto. apply incl_refl.
  Qed.

  Lemma srel_app all st : srel all (all ++ [st]).
  Proof.
    intros k s Hk. exists s. split.
    - rewrite nth_error_app1; [exact Hk|]. apply nth_error_Some. congruence.
    - repeat split; auto. apply incl_refl.
  Qed.

  Lemma srel_trans a b c : srel a b -> srel b c -> srel a c.
  Proof.
    intros H1 H2 k st Hk. destruct (H1 k st Hk) as (s1 & K1 & A1 & G1 & I1 & S1 & Z1).
    destruct (H2 k s1 K1) as (s2 & K2 & A2 & G2 & I2 & S2 & Z2). exists s2.
    split; [exact K2|]. split; [congruence|]. split; [congruence|].
    split; [eapply incl_tran; eassumption|]. split; [intros p d H; apply S1, S2; exact H|auto].
  Qed.

  (* the closure of the state being processed *)
  Lemma closure_srel all cur st its :
    nth_error all cur = Some st -> closure ps e lr1 fs cfuel (ms_items st) = Some its ->
    srel all (set_items cur its all).
  Proof.
    intros Hcur Hcl. destruct (closure_spec ps e lr1 fs cfuel _ _ Hcl) as (Hg & _ & _).
    pose proof (closure_sound ps e lr1 fs cfuel _ _ Hcl) as HJ.
    apply (srel_set_items all cur st its Hcur).
    - intros y Hy. eapply grows_pds; eassumption.
    - intros p d Hin. eapply grows_pred; eassumption.
    - intros Hin. apply In_nth_error in Hin. destruct Hin as (i & Hi).
      apply nth_error_pds in Hi. destruct Hi as (it & Hit & Hpd).
      destruct (Nat.lt_ge_cases i (length (ms_items st))) as [Hlt|Hge].
      + destruct (nth_error (ms_items st) i) as [it0|] eqn:E0; [|apply nth_error_None in E0; lia].
        destruct (g_old _ _ Hg i it0 E0) as (it' & Hit' & Hpd' & _). rewrite Hit in Hit'.
        inversion Hit'; subst it'. apply pds_In. exists it0. split; [eapply nth_error_In; exact E0|congruence].
      + exfalso. destruct (proj1 (HJ i it Hit) Hge) as (_ & src & _ & Hs & _).
        unfold pd in Hpd. inversion Hpd as [[Ep Ed]]. rewrite Ep in Hs.
        rewrite item_sym_at in Hs. exact (Haug _ _ Hs).
  Qed.

  Lemma state_eqb_kernel_sub this other :
    state_eqb ps this other = true ->
    forall x, In x (pds (kernel ps this)) -> In x (pds (kernel ps other)).
  Proof.
    unfold state_eqb. intros H x Hx. apply andb_true_iff in H. destruct H as [_ Hall].
    unfold pds in Hx. apply in_map_iff in Hx. destruct Hx as (it & <- & Hit).
    rewrite forallb_forall in Hall. specialize (Hall it Hit). apply existsb_exists in Hall.
    destruct Hall as (jt & Hjt & Hs). unfold item_same in Hs. apply andb_true_iff in Hs.
    destruct Hs as [H1 H2]. apply N.eqb_eq in H1. apply Nat.eqb_eq in H2.
    unfold pds. apply in_map_iff. exists jt. split; [unfold pd; congruence|exact Hjt].
  Qed.

  Lemma In_aset t v t' v' l : In (t', v') (aset t v l) -> (t' = t /\ v' = v) \/ In (t', v') l.
  Proof.
    induction l as [|[a w] r IH]; cbn [aset].
    - intros [H|[]]. inversion H. auto.
    - destruct (N.eqb_spec t a) as [->|Hne]; cbn [In].
      + intros [H|H]; [inversion H; auto|right; right; exact H].
      + intros [H|H]; [right; left; exact H|]. destruct (IH H) as [E|E]; [left; exact E|right; right; exact E].
  Qed.

  Lemma In_gset k v k' v' l : In (k', v') (gset k v l) -> (k' = k /\ v' = v) \/ In (k', v') l.
  Proof.
    induction l as [|[a w] r IH]; cbn [gset].
    - intros [H|[]]. inversion H. auto.
    - destruct (N.eqb_spec k a) as [->|Hne]; cbn [In].
      + intros [H|H]; [inversion H; auto|right; right; exact H].
      + intros [H|H]; [right; left; exact H|]. destruct (IH H) as [E|E]; [left; exact E|right; right; exact E].
  Qed.

  (* recording the entry for x in the state being processed *)
  Lemma pinv_record all cur st x tgt :
    pinv all -> nth_error all cur = Some st -> sym_eqb x (T stop) = false ->
    kernel_from all st x tgt -> pinv (record cur x tgt all).
  Proof.
    intros [P1 P2 P3] Hcur Hstop Hk. rewrite record_eq.
    assert (Hn : forall k, nth_error (map_nth cur (rec_fun x tgt) all) k =
                           if Nat.eqb k cur then option_map (rec_fun x tgt) (nth_error all k)
                           else nth_error all k) by (intros k; apply nth_error_map_nth).
    assert (Hr : srel all (map_nth cur (rec_fun x tgt) all) \/ True) by (right; exact I). clear Hr.
    (* targets keep their items *)
    assert (Hkf : forall s s' X t0, ms_items s' = ms_items s -> kernel_from all s X t0 ->
                                   kernel_from (map_nth cur (rec_fun x tgt) all) s' X t0).
    { intros s s' X t0 Ei (Hne & ts & Hts & Hall). split; [exact Hne|].
      destruct (Nat.eqb t0 cur) eqn:Et.
      - exists (rec_fun x tgt ts). rewrite Hn, Et, Hts. split; [reflexivity|].
        rewrite rec_fun_items, Ei. exact Hall.
      - exists ts. rewrite Hn, Et. split; [exact Hts|]. rewrite Ei. exact Hall. }
    assert (Hprov : forall s s', ms_items s' = ms_items s -> ms_acts s' = ms_acts s ->
                                ms_gotos s' = ms_gotos s -> prov all s ->
                                prov (map_nth cur (rec_fun x tgt) all) s').
    { intros s s' Ei Ea Eg [Q1 Q2]. split.
      - intros t acts Hin. rewrite Ea in Hin. specialize (Q1 t acts Hin). destruct (t =? stop).
        + rewrite Ei. exact Q1.
        + destruct Q1 as (t0 & E & Hk0). exists t0. split; [exact E|]. apply (Hkf s s'); assumption.
      - intros b t0 Hin. rewrite Eg in Hin. apply (Hkf s s'); [exact Ei|apply Q2; exact Hin]. }
    constructor.
    - intros k s Hs. rewrite Hn in Hs. destruct (Nat.eqb_spec k cur) as [->|Hne].
      + rewrite Hcur in Hs. cbn in Hs. inversion Hs; subst s. destruct (P1 cur st Hcur) as [Q1 Q2].
        destruct x as [t|b]; cbn [rec_fun]; split; cbn [ms_acts ms_gotos ms_items].
        * intros t' acts Hin. apply In_aset in Hin. destruct Hin as [[-> ->]|Hin].
          -- destruct (N.eqb_spec t stop) as [->|_]; [rewrite sym_eqb_refl in Hstop; discriminate|].
             exists tgt. split; [reflexivity|]. apply (Hkf st); [reflexivity|exact Hk].
          -- specialize (Q1 t' acts Hin). destruct (t' =? stop); [exact Q1|].
             destruct Q1 as (t0 & E & Hk0). exists t0. split; [exact E|]. apply (Hkf st); [reflexivity|exact Hk0].
        * intros b t0 Hin. apply (Hkf st); [reflexivity|apply Q2; exact Hin].
        * intros t' acts Hin. specialize (Q1 t' acts Hin). destruct (t' =? stop); [exact Q1|].
          destruct Q1 as (t0 & E & Hk0). exists t0. split; [exact E|]. apply (Hkf st); [reflexivity|exact Hk0].
        * intros b' t0 Hin. apply In_gset in Hin. destruct Hin as [[-> ->]|Hin].
          -- apply (Hkf st); [reflexivity|exact Hk].
          -- apply (Hkf st); [reflexivity|apply Q2; exact Hin].
      + apply (Hprov s s); auto. apply (P1 k s Hs).
    - intros k s Hk0 Hs. rewrite Hn in Hs. destruct (Nat.eqb k cur).
      + destruct (nth_error all k) as [s0|] eqn:E; [|discriminate]. cbn in Hs. inversion Hs; subst s.
        rewrite rec_fun_items. apply (P2 k s0 Hk0 E).
      + apply (P2 k s Hk0 Hs).
    - intros k s Hs. rewrite Hn in Hs. destruct (Nat.eqb k cur).
      + destruct (nth_error all k) as [s0|] eqn:E; [|discriminate]. cbn in Hs. inversion Hs; subst s.
        rewrite rec_fun_items. apply (P3 k s0 E).
      + apply (P3 k s Hs).
  Qed.

  (* the ACCEPT entry *)
  Lemma pinv_accept all cur st :
    pinv all -> nth_error all cur = Some st ->
    (exists p d, In (p, d) (pds (ms_items st)) /\ sym_at p d = Some (T stop)) ->
    pinv (map_nth cur (fun st0 => mkMS (ms_sym st0) (ms_items st0)
                                      (aset stop [Accept] (ms_acts st0)) (ms_gotos st0)) all).
  Proof.
    intros [P1 P2 P3] Hcur Hwit.
    set (f := fun st0 => mkMS (ms_sym st0) (ms_items st0) (aset stop [Accept] (ms_acts st0)) (ms_gotos st0)).
    assert (Hn : forall k, nth_error (map_nth cur f all) k =
                           if Nat.eqb k cur then option_map f (nth_error all k) else nth_error all k)
      by (intros k; apply nth_error_map_nth).
    assert (Hkf : forall s s' X t0, ms_items s' = ms_items s -> kernel_from all s X t0 ->
                                   kernel_from (map_nth cur f all) s' X t0).
    { intros s s' X t0 Ei (Hne & ts & Hts & Hall). split; [exact Hne|].
      destruct (Nat.eqb t0 cur) eqn:Et.
      - exists (f ts). rewrite Hn, Et, Hts. split; [reflexivity|]. cbn [f ms_items]. rewrite Ei. exact Hall.
      - exists ts. rewrite Hn, Et. split; [exact Hts|]. rewrite Ei. exact Hall. }
    assert (Hprov : forall s s', ms_items s' = ms_items s ->
                                (forall t acts, In (t, acts) (ms_acts s') -> (t = stop /\ acts = [Accept]) \/ In (t, acts) (ms_acts s)) ->
                                ms_gotos s' = ms_gotos s ->
                                (exists p d, In (p, d) (pds (ms_items s)) /\ sym_at p d = Some (T stop)) \/ ms_acts s' = ms_acts s ->
                                prov all s -> prov (map_nth cur f all) s').
    { intros s s' Ei Ea Eg Hw [Q1 Q2]. split.
      - intros t acts Hin. destruct (Ea t acts Hin) as [[-> ->]|Hold].
        + rewrite N.eqb_refl. rewrite Ei. destruct Hw as [Hw|Hw].
          * split; [reflexivity|exact Hw].
          * rewrite Hw in Hin. specialize (Q1 stop [Accept] Hin). rewrite N.eqb_refl in Q1. exact Q1.
        + specialize (Q1 t acts Hold). destruct (t =? stop).
          * rewrite Ei. exact Q1.
          * destruct Q1 as (t0 & E & Hk0). exists t0. split; [exact E|]. apply (Hkf s s'); assumption.
      - intros b t0 Hin. rewrite Eg in Hin. apply (Hkf s s'); [exact Ei|apply Q2; exact Hin]. }
    constructor.
    - intros k s Hs. rewrite Hn in Hs. destruct (Nat.eqb_spec k cur) as [->|Hne].
      + rewrite Hcur in Hs. cbn in Hs. inversion Hs; subst s.
        apply (Hprov st (f st)); [reflexivity| |reflexivity|left; exact Hwit|apply (P1 cur st Hcur)].
        intros t acts Hin. cbn [f ms_acts] in Hin. apply In_aset in Hin. exact Hin.
      + apply (Hprov s s); auto. apply (P1 k s Hs).
    - intros k s Hk0 Hs. rewrite Hn in Hs. destruct (Nat.eqb k cur).
      + destruct (nth_error all k) as [s0|] eqn:E; [|discriminate]. cbn in Hs. inversion Hs; subst s.
        apply (P2 k s0 Hk0 E).
      + apply (P2 k s Hk0 Hs).
    - intros k s Hs. rewrite Hn in Hs. destruct (Nat.eqb k cur).
      + destruct (nth_error all k) as [s0|] eqn:E; [|discriminate]. cbn in Hs. inversion Hs; subst s.
        apply (P3 k s0 E).
      + apply (P3 k s Hs).
  Qed.

  Lemma do_group_pinv cur all x idxs all' st st0 :
    do_group ps e stop lr1 cur all (x, idxs) = BOk all' ->
    nth_error all cur = Some st -> nodup_all ps e stop all ->
    nth_error all 0 = Some st0 -> In (0, O) (pds (ms_items st0)) ->
    group_ok ps e (pds (ms_items st)) x idxs -> idxs <> [] ->
    pinv all -> pinv all'.
  Proof.
    intros H Hcur Hnd H0 Hin0 [Hidx Hg] Hne Hp. unfold do_group in H. rewrite Hcur in H.
    destruct (sym_eqb x (T stop)) eqn:Estop.
    - apply sym_eqb_eq in Estop. subst x. inversion H; subst all'.
      apply (pinv_accept all cur st Hp Hcur).
      destruct idxs as [|i r]; [congruence|]. destruct (Hg i (or_introl eq_refl)) as (p & d & Hn & Hs).
      exists p, d. split; [eapply nth_error_In; exact Hn|exact Hs].
    - destruct (inc_group ps e (ms_items st) idxs) as [kits|] eqn:Einc; [|discriminate].
      destruct (inc_group_props ps e (ms_items st) idxs kits Einc (proj1 (proj1 (Hnd cur st Hcur))) Hidx)
        as (Hknd & Hkk & Hkin & Hkfrom).
      (* every item of kits is the advanced copy of an item of the group *)
      assert (Hk1 : forall p d', In (p, S d') (pds kits) ->
                                 In (p, d') (pds (ms_items st)) /\ sym_at p d' = Some x).
      { intros p d' Hin. apply pds_In in Hin. destruct Hin as (it' & Hit' & Hpd').
        destruct (Hkfrom it' Hit') as (i & it & Hi & Hit & Hpd). rewrite Hpd in Hpd'. inversion Hpd'; subst p d'.
        split; [apply pds_In; exists it; split; [eapply nth_error_In; exact Hit|reflexivity]|].
        destruct (Hg i Hi) as (p0 & d0 & Hn0 & Hs0). apply nth_error_pds in Hn0.
        destruct Hn0 as (it0 & Hit0 & Hpd0). rewrite Hit in Hit0. inversion Hit0; subst it0.
        unfold pd in Hpd0. inversion Hpd0; subst. exact Hs0. }
      assert (Hk2 : forall p d, In (p, d) (pds kits) -> exists d', d = S d').
      { intros p d Hin. apply pds_In in Hin. destruct Hin as (it' & Hit' & Hpd').
        destruct (Hkfrom it' Hit') as (i & it & _ & _ & Hpd). rewrite Hpd in Hpd'. inversion Hpd'. eauto. }
      assert (Hk3 : exists p d, In (p, S d) (pds kits)).
      { destruct idxs as [|i r]; [congruence|]. destruct (Hg i (or_introl eq_refl)) as (p & d & Hn & _).
        apply nth_error_pds in Hn. destruct Hn as (it & Hit & Hpd). exists (it_p it), (it_d it).
        apply (Hkin i it (or_introl eq_refl) Hit). }
      assert (Hall_ne : all <> []) by (intros E; rewrite E in Hcur; destruct cur; discriminate).
      (* a fresh state *)
      assert (Hnew : pinv (record cur x (length all) (all ++ [new_state x kits]))).
      { assert (Hp1 : pinv (all ++ [new_state x kits])).
        { apply (pinv_srel all _ Hp (srel_app all _) Hall_ne). intros k s Hk Hs.
          assert (Hk' : (k < length (all ++ [new_state x kits]))%nat) by (apply nth_error_Some; congruence).
          rewrite app_length in Hk'. cbn [length] in Hk'. assert (k = length all) by lia. subst k.
          rewrite nth_error_app_new in Hs. inversion Hs; subst s. cbn [new_state ms_acts ms_gotos ms_items].
          split; [reflexivity|]. split; [reflexivity|]. split; [|exact Hk3].
          intros Hc. destruct (Hk2 _ _ Hc) as (d' & Hd'). discriminate. }
        apply (pinv_record (all ++ [new_state x kits]) cur st x (length all) Hp1); [|exact Estop|].
        - rewrite nth_error_app1; [exact Hcur|]. apply nth_error_Some. congruence.
        - split; [destruct all; [congruence|cbn; lia]|]. exists (new_state x kits).
          split; [apply nth_error_app_new|]. exact Hk1. }
      destruct (find_state ps all kits) as [k|] eqn:Efind; [|inversion H; subst all'; exact Hnew].
      destruct (find_state_some ps all kits k Efind) as (old & Hk & Heq).
      (* an existing state with this kernel: it is not state 0 and its kernel items are in kits *)
      assert (Hold : forall p d', In (p, S d') (pds (ms_items old)) -> In (p, S d') (pds kits)).
      { intros p d' Hin. assert (Hker : In (p, S d') (pds (kernel ps (ms_items old)))).
        { apply pds_In in Hin. destruct Hin as (it & Hit & Hpd). apply pds_In. exists it. split; [|exact Hpd].
          unfold kernel. apply filter_In. split; [exact Hit|]. unfold is_kernel.
          unfold pd in Hpd. inversion Hpd as [[Ep Ed]]. rewrite Ed. reflexivity. }
        apply (state_eqb_kernel_sub _ _ Heq) in Hker. apply pds_In in Hker. destruct Hker as (jt & Hjt & Hpd).
        apply pds_In. exists jt. split; [|exact Hpd]. unfold kernel in Hjt. apply filter_In in Hjt. tauto. }
      assert (Hk0 : k <> O).
      { intros ->. rewrite H0 in Hk. inversion Hk; subst old.
        assert (Hker : In (0, O) (pds (kernel ps (ms_items st0)))).
        { apply pds_In in Hin0. destruct Hin0 as (it & Hit & Hpd). apply pds_In. exists it. split; [|exact Hpd].
          unfold kernel. apply filter_In. split; [exact Hit|]. unfold is_kernel.
          unfold pd in Hpd. inversion Hpd as [[Ep Ed]]. rewrite Ep, N.eqb_refl. apply orb_true_r. }
        apply (state_eqb_kernel_sub _ _ Heq) in Hker. apply pds_In in Hker. destruct Hker as (jt & Hjt & Hpd).
        unfold kernel in Hjt. apply filter_In in Hjt.
        assert (Hc : In (0, O) (pds kits)) by (apply pds_In; exists jt; tauto).
        destruct (Hk2 _ _ Hc) as (d' & Hd'). discriminate. }
      (* the entry recorded towards an existing (possibly merged) state *)
      assert (Hexisting : forall all1 old1 st1,
                 pinv all1 -> nth_error all1 cur = Some st1 -> nth_error all1 k = Some old1 ->
                 pds (ms_items st1) = pds (ms_items st) -> pds (ms_items old1) = pds (ms_items old) ->
                 pinv (record cur x k all1)).
      { intros all1 old1 st1 Hp1 Hc1 Hk1' E1 E2. apply (pinv_record all1 cur st1 x k Hp1 Hc1 Estop).
        split; [exact Hk0|]. exists old1. split; [exact Hk1'|]. intros p d' Hin. rewrite E2 in Hin.
        rewrite E1. apply Hk1. apply Hold. exact Hin. }
      destruct lr1.
      + rewrite Hk in H. destruct (merge_states ps e (ms_items old) kits) as [its'| |] eqn:Em;
          [| |discriminate]; inversion H; subst all'.
        * pose proof (merge_states_pds ps e _ _ _ Em) as Hpm.
          assert (Hsr : srel all (set_items k its' all)).
          { apply (srel_set_items all k old its' Hk); rewrite Hpm; auto. apply incl_refl. }
          assert (Hp1 : pinv (set_items k its' all)).
          { apply (pinv_srel all _ Hp Hsr Hall_ne). intros j s Hj Hs. exfalso.
            assert (j < length (set_items k its' all))%nat by (apply nth_error_Some; congruence).
            unfold set_items in *. rewrite map_nth_length in *. lia. }
          destruct (Hsr cur st Hcur) as (st1 & Hc1 & _ & _ & _).
          assert (E1 : pds (ms_items st1) = pds (ms_items st)).
          { rewrite nth_error_set_items in Hc1. destruct (Nat.eqb_spec cur k) as [->|Hnk].
            - rewrite Hk in Hc1. cbn in Hc1. inversion Hc1; subst st1. cbn [ms_items]. rewrite Hpm.
              rewrite Hcur in Hk. inversion Hk. reflexivity.
            - rewrite Hcur in Hc1. inversion Hc1. reflexivity. }
          apply (Hexisting _ (mkMS (ms_sym old) its' (ms_acts old) (ms_gotos old)) st1 Hp1 Hc1); [|exact E1|exact Hpm].
          rewrite nth_error_set_items, Nat.eqb_refl, Hk. reflexivity.
        * exact Hnew.
      + inversion H; subst all'. apply (Hexisting all old st Hp Hcur Hk); reflexivity.
  Qed.

  Lemma do_groups_pinv cur gs : forall all all' st st0,
    gfold ps e stop lr1 cur gs (BOk all) = BOk all' ->
    nth_error all cur = Some st -> nodup_all ps e stop all ->
    nth_error all 0 = Some st0 -> In (0, O) (pds (ms_items st0)) ->
    (forall x idxs, In (x, idxs) gs -> group_ok ps e (pds (ms_items st)) x idxs /\ idxs <> []) ->
    pinv all -> pinv all'.
  Proof.
    induction gs as [|[x idxs] gs IH]; intros all all' st st0 H Hcur Hnd H0 Hin0 Hg Hp.
    - cbn in H. inversion H; subst. exact Hp.
    - cbn [gfold fold_left bbind] in H.
      destruct (do_group ps e stop lr1 cur all (x, idxs)) as [all1|a0|n0|c0|s0 n0] eqn:Eg;
        [|exfalso; refine (gfold_not_ok ps e stop lr1 cur gs _ _ all' H); intros a; discriminate..].
      destruct (Hg x idxs (or_introl eq_refl)) as [Hgo Hne].
      destruct (do_group_spec ps e stop lr1 cur all x idxs all1 st Eg Hcur Hnd Hgo)
        as (st1 & Hcur1 & Hp1 & _ & _ & Hr1 & Hnd1).
      pose proof (do_group_pinv cur all x idxs all1 st st0 Eg Hcur Hnd H0 Hin0 Hgo Hne Hp) as Hpi1.
      destruct (Hr1 0%nat st0 H0) as (st0' & H0' & _ & Hi0 & _).
      apply (IH all1 all' st1 st0' H Hcur1 Hnd1 H0' (Hi0 _ Hin0)); [|exact Hpi1].
      intros x' idxs' Hin. rewrite Hp1. apply Hg. right. exact Hin.
  Qed.

  Lemma process_state_pinv cur all st its all2 :
    sinv ps e stop cur all -> pinv all -> nth_error all cur = Some st ->
    closure ps e lr1 fs cfuel (ms_items st) = Some its ->
    gfold ps e stop lr1 cur (groups ps e its) (BOk (set_items cur its all)) = BOk all2 ->
    pinv all2.
  Proof.
    intros Hinv Hp Hcur Hcl Hg.
    assert (Hall_ne : all <> []) by (intros E; rewrite E in Hcur; destruct cur; discriminate).
    pose proof (closure_srel all cur st its Hcur Hcl) as Hsr.
    assert (Hp1 : pinv (set_items cur its all)).
    { apply (pinv_srel all _ Hp Hsr Hall_ne). intros j s Hj Hs. exfalso.
      assert (j < length (set_items cur its all))%nat by (apply nth_error_Some; congruence).
      unfold set_items in *. rewrite map_nth_length in *. lia. }
    set (st1 := mkMS (ms_sym st) its (ms_acts st) (ms_gotos st)).
    assert (Hcur1 : nth_error (set_items cur its all) cur = Some st1).
    { rewrite nth_error_set_items, Nat.eqb_refl, Hcur. reflexivity. }
    (* the well-formedness of the state list after the closure, as in process_state *)
    destruct (closure_spec ps e lr1 fs cfuel _ _ Hcl) as (Hgrow & _ & Hndc).
    assert (Hnd1 : nodup_all ps e stop (set_items cur its all)).
    { intros k s Hk. rewrite nth_error_set_items in Hk.
      destruct (Nat.eqb_spec k cur) as [->|Hne].
      - rewrite Hcur in Hk. inversion Hk; subst s. unfold state_wf. cbn [ms_items ms_acts].
        destruct (si_nodup _ _ _ _ _ Hinv cur st Hcur) as ((Hn0 & Hp0 & Hv0) & Hacts0). split; [|exact Hacts0].
        split; [apply Hndc; exact Hn0|]. split.
        + intros p d Hin. apply Hp0. eapply grows_pred; eassumption.
        + intros p d Hin. apply pds_In in Hin. destruct Hin as (it & Hit & Hpd).
          unfold pd in Hpd. inversion Hpd; subst p d.
          apply (closure_valid ps e lr1 fs cfuel _ _ Hcl); [|exact Hit].
          intros it0 Hit0. apply (Hv0 (it_p it0) (it_d it0)). apply pds_In. exists it0. auto.
      - apply (si_nodup _ _ _ _ _ Hinv k s Hk). }
    destruct (si_state0 _ _ _ _ _ Hinv) as (st0 & Hs0 & Hin0).
    destruct (Hsr 0%nat st0 Hs0) as (st0' & Hs0' & _ & _ & Hi0 & _).
    apply (do_groups_pinv cur (groups ps e its) _ all2 st1 st0' Hg Hcur1 Hnd1 Hs0' (Hi0 _ Hin0)); [|exact Hp1].
    intros x idxs Hin. cbn [st1 ms_items]. split; [apply groups_ok; exact Hin|].
    destruct (groups_spec ps e its) as [_ Hs]. exact (proj2 (Hs x idxs Hin)).
  Qed.

  Lemma build_loop_pinv fuel : forall cur all all',
    build_loop ps e stop lr1 fs cfuel max_states fuel cur all = BOk all' ->
    sinv ps e stop cur all -> pinv all -> pinv all'.
  Proof.
    induction fuel as [|f IH]; intros cur all all' H Hinv Hp; [discriminate|].
    cbn [build_loop] in H. destruct (nth_error all cur) as [st|] eqn:Hcur.
    - destruct (over_budget max_states (length all)); [discriminate|].
      destruct (closure ps e lr1 fs cfuel (ms_items st)) as [its|] eqn:Hcl; [|discriminate].
      apply bbind_ok in H. destruct H as (all2 & Hg & Hrec).
      apply (IH (S cur) all2 all' Hrec).
      + eapply process_state; eassumption.
      + eapply process_state_pinv; eassumption.
    - inversion H; subst. exact Hp.
  Qed.

  Lemma pinv_init : pinv [state0 ps].
  Proof.
    constructor.
    - intros k st Hk. destruct k as [|k]; cbn in Hk; [|destruct k; discriminate].
      inversion Hk; subst st. split; [intros t acts []|intros b tgt []].
    - intros k st Hk0 Hk. destruct k as [|k]; [congruence|]. destruct k; discriminate.
    - intros k st Hk. destruct k as [|k]; cbn in Hk; [|destruct k; discriminate].
      inversion Hk; subst st. cbn. intros _ p d [Hc|[]]. inversion Hc. reflexivity.
  Qed.

  Lemma pinv_same_pds all all' : same_pds all all' -> pinv all -> pinv all'.
  Proof.
    intros [Hlen Hs] Hp. destruct all as [|s0 r] eqn:Eall.
    - destruct all'; [|cbn in Hlen; discriminate]. exact Hp.
    - rewrite <- Eall in *. apply (pinv_srel all all' Hp).
      + intros k st Hk. destruct (Hs k st Hk) as (s' & Hk' & _ & Ep & Ea & Eg). exists s'.
        split; [exact Hk'|]. split; [exact Ea|]. split; [exact Eg|]. rewrite Ep.
        split; [apply incl_refl|auto].
      + rewrite Eall. discriminate.
      + intros k st Hk Hst. exfalso. assert (k < length all')%nat by (apply nth_error_Some; congruence). lia.
  Qed.
End Provenance.
