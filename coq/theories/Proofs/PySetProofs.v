(* The modelled CPython set iteration order only ever yields members of the key list it is
   computed from (what the no-crash theorem of the GLR driver model needs of it). *)
From Coq Require Import NArith Arith List Bool Lia.
From PV Require Import Model.PySet.
Import ListNotations.

Lemma slots_cons o r : slots (o :: r) = match o with Some k => [k] | None => [] end ++ slots r.
Proof. reflexivity. Qed.

Lemma slots_put t : forall i k x, In x (slots (put t i k)) -> x = k \/ In x (slots t).
Proof.
  induction t as [|o r IH]; intros i k x H.
  - destruct i; cbn in H; destruct H.
  - destruct i as [|i]; cbn [put] in H; rewrite slots_cons in H; rewrite slots_cons.
    + cbn [app] in H. destruct H as [<-|H]; [left; reflexivity|]. right. apply in_or_app. right. exact H.
    + apply in_app_or in H. destruct H as [H|H].
      * right. apply in_or_app. left. exact H.
      * destruct (IH i k x H) as [->|H']; [left; reflexivity|]. right. apply in_or_app. right. exact H'.
Qed.

Lemma slots_insert_aux : forall fuel t mask key perturb i x,
  In x (slots (insert_clean_aux fuel t mask key perturb i)) -> x = key \/ In x (slots t).
Proof.
  induction fuel as [|f IH]; intros t mask key perturb i x H; cbn [insert_clean_aux] in H; [auto|].
  destruct (slot_free t (N.to_nat i)); [apply slots_put in H; exact H|].
  destruct (if (i + 9 <=? mask)%N then first_free t (S (N.to_nat i)) 9 else None) as [j|].
  - apply slots_put in H. exact H.
  - apply IH in H. exact H.
Qed.

Lemma slots_insert t key x : In x (slots (insert_clean t key)) -> x = key \/ In x (slots t).
Proof. unfold insert_clean. apply slots_insert_aux. Qed.

Lemma slots_repeat n : slots (repeat None n) = [].
Proof. induction n as [|n IH]; [reflexivity|]. cbn [repeat]. rewrite slots_cons. exact IH. Qed.

Lemma slots_fold_insert : forall ks t x,
  In x (slots (fold_left insert_clean ks t)) -> In x ks \/ In x (slots t).
Proof.
  induction ks as [|k r IH]; intros t x H; cbn [fold_left] in H; [auto|].
  apply IH in H. destruct H as [H|H]; [left; right; exact H|].
  apply slots_insert in H. destruct H as [->|H]; [left; left; reflexivity|right; exact H].
Qed.

Lemma slots_resize t m x : In x (slots (resize t m)) -> In x (slots t).
Proof.
  unfold resize. intros H. apply slots_fold_insert in H. rewrite slots_repeat in H.
  destruct H as [H|[]]. exact H.
Qed.

Lemma slots_padd t key x : In x (slots (padd t key)) -> x = key \/ In x (slots t).
Proof.
  unfold padd. destruct (pmem key (slots t)); [auto|].
  destruct (_ <? _)%N; [apply slots_insert|]. intros H. apply slots_resize in H. apply slots_insert in H. exact H.
Qed.

Lemma slots_fold_padd : forall ks t x,
  In x (slots (fold_left padd ks t)) -> In x ks \/ In x (slots t).
Proof.
  induction ks as [|k r IH]; intros t x H; cbn [fold_left] in H; [auto|].
  apply IH in H. destruct H as [H|H]; [left; right; exact H|].
  apply slots_padd in H. destruct H as [->|H]; [left; left; reflexivity|right; exact H].
Qed.

Lemma slots_from_keys keys x : In x (slots (from_keys keys)) -> In x keys.
Proof.
  unfold from_keys. intros H. apply slots_fold_padd in H.
  unfold empty8 in H. rewrite slots_repeat in H. destruct H as [H|[]]. exact H.
Qed.

Lemma py_diff_order_incl keys other x : In x (py_diff_order keys other) -> In x keys.
Proof.
  unfold py_diff_order. set (so := from_keys keys).
  destruct (_ <? _)%N.
  - intros H. apply filter_In in H. destruct H as [H _].
    destruct (Nat.eqb _ _); [apply slots_from_keys; exact H|].
    apply slots_fold_insert in H. destruct H as [H|H]; [apply slots_from_keys; exact H|].
    destruct (21 <=? _)%N; [apply slots_resize in H|]; unfold empty8 in H; rewrite slots_repeat in H; destruct H.
  - intros H.
    assert (G : forall l t, In x (slots (fold_left (fun res k => if pmem k other then res else padd res k) l t)) ->
                            In x l \/ In x (slots t)).
    { induction l as [|k r IH]; intros t Hx; cbn [fold_left] in Hx; [auto|].
      apply IH in Hx. destruct Hx as [Hx|Hx]; [left; right; exact Hx|].
      destruct (pmem k other); [right; exact Hx|].
      apply slots_padd in Hx. destruct Hx as [->|Hx]; [left; left; reflexivity|right; exact Hx]. }
    apply G in H. unfold empty8 in H. rewrite slots_repeat in H. destruct H as [H|[]].
    apply slots_from_keys. exact H.
Qed.

Theorem revisit_order_incl keys other x : In x (revisit_order keys other) -> In x keys.
Proof.
  unfold revisit_order. intros H. apply in_map_iff in H. destruct H as (n & <- & Hn).
  apply py_diff_order_incl in Hn. apply in_map_iff in Hn. destruct Hn as (k & <- & Hk).
  rewrite Nat2N.id. exact Hk.
Qed.
