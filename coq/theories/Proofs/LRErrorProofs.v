(* C10 for the LR driver: a SyntaxError is raised at the FIRST OFFENDING TOKEN.
   If lr_parse (consume_input on) ends in LRSyntaxError p st then there is a list tr of tokens
   -- the tokens shifted before the error, tiling the input from the start position up to p --
   such that
     (1) tr is the beginning of a sentence (correct-prefix property, any table passing
         table_struct and items_sound), and
     (2) for a deterministic table passing table_complete: either the scanner found no token
         at p, or the lookahead token (y, len) at p has no action in the current state and NO
         derivation tree of the grammar has leaves  tr ++ (y, p, p+len) :: rest  (for STOP:
         tr itself is not a sentence). *)
From Coq Require Import NArith List Bool Lia Arith.
From PV Require Import Spec.Cfg Model.Table Spec.NLR Validators.TableStruct Validators.ItemsSound
  Validators.TableComplete Model.LRDriver Proofs.LRProofs Proofs.LRTraceProofs
  Proofs.CompleteProofs Proofs.UnambigProofs Proofs.ViablePrefixProofs.
Import ListNotations.
Local Open Scope N_scope.

(* ---- determinism: a stuck run is a prefix of no accepting run -------------------------- *)
Section Stuck.
  Variable g : grammar.
  Variable tb : table.
  Variable stop_id : N.
  Hypothesis Hdet : det_table tb = true.

  Notation lstep := (lstep g tb stop_id).
  Notation lsteps := (lsteps g tb stop_id).

  Lemma srel_nonempty s1 s2 : srel s1 s2 -> s2 <> [] -> s1 <> [].
  Proof. destruct 1; [congruence|discriminate]. Qed.

  Lemma lstep_transfer st1 st2 inp c2 :
    srel st1 st2 -> lstep (st2, inp) c2 -> exists c1, lstep (st1, inp) c1.
  Proof.
    intros Hrel H. pose proof (srel_top _ _ Hrel) as Htop.
    inversion H as [sa y s e rest s' Hin | sa inpa p pr pop2 rest2 s' ns ne Hin Hp E Hl Hn Hg]; subst.
    - eexists. apply (ls_shift g tb stop_id st1 y s e rest s'). rewrite Htop. exact Hin.
    - set (n := length (rhs pr)) in *.
      assert (Hlen : length st1 = length (pop2 ++ rest2)) by (apply srel_length; exact Hrel).
      assert (E1 : st1 = firstn n st1 ++ skipn n st1) by (symmetry; apply firstn_skipn).
      rewrite E1 in Hrel.
      assert (Hl1 : length (firstn n st1) = length pop2).
      { rewrite firstn_length, Hlen, app_length. lia. }
      destruct (srel_split _ _ _ _ Hrel Hl1) as [_ Hrest].
      eexists. apply (ls_reduce g tb stop_id st1 inp p pr (firstn n st1) (skipn n st1) s' ns ne).
      + rewrite Htop. exact Hin.
      + exact Hp.
      + exact E1.
      + rewrite Hl1. exact Hl.
      + eapply srel_nonempty; eassumption.
      + rewrite (srel_top _ _ Hrest). exact Hg.
  Qed.

  Lemma stuck_prefix c1 ca :
    lsteps c1 ca -> (forall c, ~ lstep ca c) ->
    forall st2 f t, srel (fst c1) st2 -> lsteps (st2, snd c1) (f, []) -> laccepts tb stop_id f t ->
    snd ca = [] /\ srel (fst ca) f.
  Proof.
    induction 1 as [c|c1 c2 c3 Hstep Hrest IH]; intros Hstuck st2 f t Hrel Hrun2 Hacc.
    - destruct c as [st1 inp]. cbn [fst snd] in *.
      inversion Hrun2 as [|? c2' ? Hstep2 Hrest2]; subst.
      + auto.
      + exfalso. destruct (lstep_transfer st1 st2 inp c2' Hrel Hstep2) as [c1' H1].
        exact (Hstuck _ H1).
    - destruct c1 as [st1 inp]. cbn [fst snd] in *.
      inversion Hrun2 as [|? c2' ? Hstep2 Hrest2]; subst.
      + exfalso. destruct Hacc as [Ha _]. rewrite <- (srel_top _ _ Hrel) in Ha.
        exact (accept_stuck g tb stop_id Hdet st1 c2 Ha Hstep).
      + destruct (lstep_det g tb stop_id Hdet st1 st2 inp c2 c2' Hrel Hstep Hstep2) as [Einp Hrel'].
        destruct c2 as [st1' inp1], c2' as [st2' inp2]. cbn [fst snd] in *. subst inp2.
        exact (IH Hstuck st2' f t Hrel' Hrest2 Hacc).
  Qed.
End Stuck.

Lemma srel_refl st : srel st st.
Proof. induction st as [|a r IH]; constructor; [split; reflexivity|exact IH]. Qed.

(* ---- the driver's own run as a run of the LR machine over its token stream ------------ *)
Section Err.
  Variable g : grammar.
  Variable tb : table.
  Variable skipws : N -> option N.
  Variable next_token : nat -> N -> tokres.
  Variable stop_id : N.

  Notation step := (lr_step g tb skipws next_token stop_id true false).
  Notation run := (lr_run g tb skipws next_token stop_id true false).
  Notation lstep := (lstep g tb stop_id).
  Notation lsteps := (lsteps g tb stop_id).

  Inductive lr_reach : lrstate -> lrstate -> Prop :=
  | lrr_refl s : lr_reach s s
  | lrr_step s s1 s2 : lr_reach s s1 -> step s1 = Continue s2 -> lr_reach s s2.

  Lemma reach_first s s1 s2 : step s = Continue s1 -> lr_reach s1 s2 -> lr_reach s s2.
  Proof.
    intros Hs H. induction H as [s1|s1 sa sb Hr IH Hst].
    - eapply lrr_step; [apply lrr_refl|exact Hs].
    - eapply lrr_step; [apply IH; exact Hs|exact Hst].
  Qed.

  Lemma run_reach fuel : forall s r, run fuel s = r -> r <> LROutOfFuel ->
    exists s', lr_reach s s' /\ step s' = Done r.
  Proof.
    induction fuel as [|f IH]; intros s r Hrun Hne; cbn [lr_run] in Hrun; [congruence|].
    destruct (step s) as [s1|r1] eqn:Hs.
    - destruct (IH s1 r Hrun Hne) as (s' & Hr & Hd). exists s'. split; [|exact Hd].
      eapply reach_first; eassumption.
    - subst r1. exists s. split; [apply lrr_refl|exact Hs].
  Qed.

  (* the token list [toks] is what lies ahead of state s: it starts with the inherited
     lookahead token, if there is one *)
  Definition compat (s : lrstate) (toks : list tok) : Prop :=
    match l_ahead s, l_stack s with
    | Some (y, len), top :: _ =>
        la stop_id toks = y /\
        (forall t r, toks = t :: r -> t = (y, e_pos top, e_pos top + len))
    | _, _ => True
    end.

  Definition top_pos (s : lrstate) : N := match l_stack s with top :: _ => e_pos top | [] => 0 end.

  (* one Continue step of the driver is one move of the LR machine over the token stream *)
  Lemma step_lstep s s' toks' :
    step s = Continue s' -> compat s' toks' ->
    exists toks shifted,
      compat s toks /\ lstep (to_stack (l_stack s), toks) (to_stack (l_stack s'), toks') /\
      toks = shifted ++ toks' /\ strip (l_trace s') = strip (l_trace s) ++ shifted.
  Proof.
    unfold lr_step. destruct s as [stk ah layah tr]. cbn [l_stack l_trace].
    destruct stk as [|top0 below]; [discriminate|].
    destruct (lookahead skipws next_token false (mkLR (top0 :: below) ah layah tr) top0)
      as [[[top lay1] scan]|] eqn:Hla; [|discriminate].
    assert (Htop : e_state top = e_state top0 /\ e_tree top = e_tree top0 /\
                   match ah with
                   | Some (y0, len0) => scan = TTok y0 len0 /\ e_pos top = e_pos top0
                   | None => True
                   end).
    { unfold lookahead in Hla. cbn [l_ahead l_lay_ahead] in Hla. destruct ah as [[y0 len0]|].
      - inversion Hla; subst; cbn; auto.
      - destruct (skipws (e_pos top0)); [|discriminate]. inversion Hla; subst; cbn; auto. }
    destruct Htop as (Hts & Htt & Hah).
    assert (Hstk : to_stack (top0 :: below) = to_stack (top :: below)).
    { cbn. rewrite Hts, Htt. reflexivity. }
    destruct scan as [|y len|]; [cbn; discriminate| |discriminate].
    destruct (cell tb (e_state top) y) as [|a0 acts0] eqn:Hcell; [cbn; discriminate|].
    unfold do_action.
    destruct a0 as [sn|p0|].
    - (* shift *)
      intros Hs Hc. inversion Hs; subst s'. clear Hs. cbn [l_stack l_trace] in *.
      exists ((y, e_pos top, e_pos top + len) :: toks'), [(y, e_pos top, e_pos top + len)].
      split; [|split; [|split]].
      + unfold compat. cbn [l_ahead l_stack]. destruct ah as [[y0 len0]|]; [|exact I].
        destruct Hah as [E Hp]. inversion E; subst y0 len0. split; [reflexivity|].
        intros t r Et. inversion Et; subst. rewrite Hp. reflexivity.
      + rewrite Hstk. cbn [to_stack map]. cbn [e_state e_tree].
        apply (ls_shift g tb stop_id (to_stack (top :: below)) y (e_pos top) (e_pos top + len) toks' sn).
        cbn [to_stack map top_state]. rewrite Hcell. left. reflexivity.
      + reflexivity.
      + unfold strip. rewrite map_app. reflexivity.
    - (* reduce *)
      destruct (select_prod g p0 acts0) as [[p pr]|] eqn:Hsel; [|discriminate].
      destruct (select_prod_spec g _ _ _ _ Hsel) as [Hp Hin].
      unfold do_reduce.
      destruct (Nat.eqb (length (firstn (length (rhs pr)) (top :: below))) (length (rhs pr))) eqn:Hlen;
        cbn [negb]; [|discriminate].
      apply Nat.eqb_eq in Hlen.
      destruct (skipn (length (rhs pr)) (top :: below)) as [|r0 rest'] eqn:Hrest; [discriminate|].
      destruct (goto tb (e_state r0) (lhs pr)) as [sn|] eqn:Hg; [|discriminate].
      destruct (match rev (firstn (length (rhs pr)) (top :: below)) with
                | [] => _ | deepest :: _ => _ end) as [startp lay].
      intros Hs Hc. inversion Hs; subst s'. clear Hs. cbn [l_stack l_trace] in *.
      unfold compat in Hc. cbn [l_ahead l_stack e_pos] in Hc. destruct Hc as [Hla1 Hhd].
      exists toks', []. split; [|split; [|split]].
      + unfold compat. cbn [l_ahead l_stack]. destruct ah as [[y0 len0]|]; [|exact I].
        destruct Hah as [E Hpos]. inversion E; subst y0 len0. split; [exact Hla1|].
        intros t r Et. rewrite <- Hpos. exact (Hhd t r Et).
      + rewrite Hstk.
        replace (to_stack (mkEntry sn (TNode p startp (t_end (e_tree top))
                   (rev (map e_tree (firstn (length (rhs pr)) (top :: below))))) (e_pos top) lay :: r0 :: rest'))
          with ((sn, TNode p startp (t_end (e_tree top))
                   (rev (map snd (to_stack (firstn (length (rhs pr)) (top :: below)))))) :: to_stack (r0 :: rest'))
          by (rewrite map_snd_to_stack; reflexivity).
        apply (ls_reduce g tb stop_id (to_stack (top :: below)) toks' p pr
                 (to_stack (firstn (length (rhs pr)) (top :: below))) (to_stack (r0 :: rest')) sn).
        * rewrite Hla1. cbn [to_stack map top_state]. rewrite Hcell. exact Hin.
        * exact Hp.
        * rewrite <- Hrest. apply to_stack_split.
        * unfold to_stack. rewrite map_length. exact Hlen.
        * discriminate.
        * cbn. exact Hg.
      + reflexivity.
      + rewrite app_nil_r. reflexivity.
    - (* accept: not a Continue *)
      destruct (nth_error (rev (top :: below)) 1); discriminate.
  Qed.

  Lemma lsteps_snoc c1 c2 c3 : lsteps c1 c2 -> lstep c2 c3 -> lsteps c1 c3.
  Proof.
    intros H12 H23. eapply lsteps_trans; [exact H12|]. eapply lss_step; [exact H23|apply lss_refl].
  Qed.

  Lemma reach_lsteps s0 s1 : lr_reach s0 s1 -> forall toks1, compat s1 toks1 ->
    exists toks0 shifted,
      compat s0 toks0 /\ lsteps (to_stack (l_stack s0), toks0) (to_stack (l_stack s1), toks1) /\
      toks0 = shifted ++ toks1 /\ strip (l_trace s1) = strip (l_trace s0) ++ shifted.
  Proof.
    induction 1 as [s|s sa sb Hr IH Hst]; intros toks1 Hc.
    - exists toks1, []. split; [exact Hc|]. split; [apply lss_refl|]. rewrite app_nil_r. auto.
    - destruct (step_lstep sa sb toks1 Hst Hc) as (toksa & sh2 & Hca & Hstep & Et & Etr).
      destruct (IH toksa Hca) as (toks0 & sh1 & Hc0 & Hrun & Et0 & Etr0).
      exists toks0, (sh1 ++ sh2). split; [exact Hc0|]. split; [eapply lsteps_snoc; eassumption|].
      split; [rewrite Et0, Et, app_assoc; reflexivity|rewrite Etr, Etr0, app_assoc; reflexivity].
  Qed.

  (* reachable driver states correspond to reachable configurations of N(T) *)
  Lemma reach_sim s0 s1 c0 : lr_reach s0 s1 -> sim s0 c0 ->
    exists c1, nsteps g tb anylook c0 c1 /\ sim s1 c1.
  Proof.
    induction 1 as [s|s sa sb Hr IH Hst]; intros Hsim.
    - exists c0. split; [apply nss_refl|exact Hsim].
    - destruct (IH Hsim) as (ca & Hsteps & Hsa).
      pose proof (step_sim g tb skipws next_token stop_id true false sa ca Hsa) as Ho.
      rewrite Hst in Ho. destruct Ho as (cb & Hstep & Hsb).
      exists cb. split; [eapply nss_step; eassumption|exact Hsb].
  Qed.

  (* the tiling invariant of LRTraceProofs along reachability *)
  Lemma reach_tinv pos0 s0 s1 : lr_reach s0 s1 -> tinv skipws pos0 s0 -> tinv skipws pos0 s1.
  Proof.
    induction 1 as [s|s sa sb Hr IH Hst]; intros Hi; [exact Hi|].
    pose proof (step_t g tb skipws next_token stop_id pos0 sa (IH Hi)) as Ho.
    rewrite Hst in Ho. exact Ho.
  Qed.

  (* what a SyntaxError outcome of one step means *)
  Lemma step_error s p st :
    step s = Done (LRSyntaxError p st) ->
    exists top0 below top lay1 scan,
      l_stack s = top0 :: below /\
      lookahead skipws next_token false s top0 = Some (top, lay1, scan) /\
      e_pos top = p /\ e_state top = st /\
      (scan = TNone \/ exists y len, scan = TTok y len /\ cell tb st y = []).
  Proof.
    unfold lr_step. destruct (l_stack s) as [|top0 below] eqn:Hstk; [discriminate|].
    destruct (lookahead skipws next_token false s top0) as [[[top lay1] scan]|] eqn:Hla; [|discriminate].
    intros H. exists top0, below, top, lay1, scan. split; [reflexivity|]. split; [exact Hla|].
    destruct scan as [|y len|]; [| |discriminate].
    - cbn in H. inversion H. auto.
    - destruct (cell tb (e_state top) y) as [|a0 acts0] eqn:Hcell.
      + cbn in H. inversion H; subst. split; [reflexivity|]. split; [reflexivity|].
        right. exists y, len. auto.
      + exfalso. unfold do_action in H. destruct a0 as [sn|p0|].
        * discriminate.
        * destruct (select_prod g p0 acts0) as [[p' pr]|]; [|discriminate].
          unfold do_reduce in H. destruct (negb _); [discriminate|].
          destruct (skipn _ _) as [|r0 rest']; [discriminate|].
          destruct (goto tb (e_state r0) (lhs pr)); [|discriminate].
          destruct (match rev _ with [] => _ | d :: _ => _ end). discriminate.
        * destruct (nth_error (rev (top :: below)) 1); discriminate.
  Qed.
End Err.

Lemma no_step_empty_cell g tb stop_id st toks :
  cell tb (top_state st) (la stop_id toks) = [] -> forall c, ~ lstep g tb stop_id (st, toks) c.
Proof.
  intros Hc c H.
  inversion H as [sa y s e rest s' Hin | sa inpa p pr pop rest s' ns ne Hin Hp E Hl Hn Hg]; subst.
  - cbn in Hc. rewrite Hc in Hin. destruct Hin.
  - rewrite Hc in Hin. destruct Hin.
Qed.

(* ---- the theorem ------------------------------------------------------------------------ *)
Theorem lr_error_first_offending g tb ann fst_tab nul_tab stop_id start skipws next_token fuel pos0 p st :
  table_struct g tb start = true -> items_sound g tb = true ->
  table_complete g tb ann fst_tab nul_tab stop_id = true -> det_table tb = true ->
  lr_parse g tb skipws next_token stop_id true false fuel pos0 = LRSyntaxError p st ->
  exists tr,
    tiles skipws pos0 tr /\ skipws (last_end pos0 tr) = Some p /\
    (exists t suffix, wf_tree g t /\ root_sym g t = Some (NT start) /\ leaves t = strip tr ++ suffix) /\
    (next_token st p = TNone \/
     exists y len, cell tb st y = [] /\
       forall t, wf_tree g t -> root_sym g t = Some (NT start) ->
         ~ (if y =? stop_id then leaves t = strip tr
            else exists rest, leaves t = strip tr ++ (y, p, p + len) :: rest)).
Proof.
  intros Hts His Htc Hdet Hrun. unfold lr_parse in Hrun.
  destruct (run_reach g tb skipws next_token stop_id fuel _ _ Hrun) as (se & Hreach & Hstep);
    [discriminate|].
  destruct (step_error g tb skipws next_token stop_id se p st Hstep)
    as (top0 & below & top & lay1 & scan & Hstk & Hla & Hpos & Hst & Hscan).
  exists (l_trace se).
  (* tiling *)
  assert (Hti : tinv skipws pos0 se).
  { apply (reach_tinv g tb skipws next_token stop_id pos0 _ _ Hreach).
    unfold tinv, lr_init. cbn. auto. }
  destruct Hti as [Htiles Hm]. rewrite Hstk in Hm.
  assert (Hskip : skipws (last_end pos0 (l_trace se)) = Some p /\
                  (l_ahead se = None -> scan = next_token st p)).
  { unfold lookahead in Hla. destruct (l_ahead se) as [[y0 len0]|].
    - destruct Hm as [_ Hsk]. inversion Hla; subst. split; [exact Hsk|discriminate].
    - destruct (skipws (e_pos top0)) as [p1|] eqn:Hsk; [|discriminate].
      inversion Hla; subst. cbn. rewrite <- Hm. split; [exact Hsk|]. intros _. reflexivity. }
  destruct Hskip as [Hskip Hfresh].
  split; [exact Htiles|]. split; [exact Hskip|].
  (* viable prefix *)
  assert (Hsim0 : sim (lr_init pos0) (init_cfg pos0 (bottom_tree pos0))) by (split; reflexivity).
  destruct (reach_sim g tb skipws next_token stop_id _ _ _ Hreach Hsim0) as (ce & Hsteps & [Hcs Hct]).
  split.
  { destruct (viable_prefix g tb start anylook Hts His pos0 _ ce Hsteps) as (t & suffix & Hw & Hr & Hl).
    exists t, suffix. rewrite <- Hct. auto. }
  (* the offending token *)
  destruct Hscan as [->|(y & len & -> & Hcell)].
  { left. unfold lookahead in Hla. destruct (l_ahead se) as [[y0 len0]|] eqn:Hah.
    - inversion Hla.
    - symmetry. apply Hfresh. reflexivity. }
  right. exists y, len. split; [exact Hcell|].
  intros t Hw Hr Hleaves.
  (* token stream ahead of the error state *)
  assert (Hex : exists toks_err, la stop_id toks_err = y /\
                  (forall t0 r, toks_err = t0 :: r -> t0 = (y, p, p + len)) /\
                  leaves t = strip (l_trace se) ++ toks_err).
  { destruct (y =? stop_id) eqn:Ey.
    - apply N.eqb_eq in Ey. exists []. split; [cbn; congruence|]. split; [intros ? ? E; discriminate|].
      rewrite app_nil_r. exact Hleaves.
    - destruct Hleaves as [rest Hl]. exists ((y, p, p + len) :: rest).
      split; [reflexivity|]. split; [intros t0 r E; inversion E; reflexivity|exact Hl]. }
  destruct Hex as (toks_err & Hla_err & Hhd_err & Hl).
  assert (Hcompat : compat stop_id se toks_err).
  { unfold compat. rewrite Hstk. destruct (l_ahead se) as [[y0 len0]|] eqn:Hah; [|exact I].
    unfold lookahead in Hla. rewrite Hah in Hla. inversion Hla; subst. auto. }
  destruct (reach_lsteps g tb skipws next_token stop_id _ _ Hreach toks_err Hcompat)
    as (toks0 & shifted & _ & Hlrun & Et0 & Etr).
  cbn [lr_init l_stack] in Hlrun.
  assert (Esh : strip (l_trace se) = shifted) by (rewrite Etr; reflexivity).
  (* the complete machine accepts the sentence *)
  destruct (prod0 g tb start Hts) as (pr0 & Hp0 & Hr0).
  destruct (lr_machine_complete g tb ann fst_tab nul_tab stop_id Htc start (bottom_tree pos0) t
              (ex_intro _ pr0 (conj Hp0 Hr0)) Hw Hr) as (f & Hrun2 & Hacc).
  assert (Etoks : toks0 = leaves t).
  { rewrite Hl, Et0, Esh. reflexivity. }
  rewrite Etoks in Hlrun.
  (* the error configuration is stuck *)
  assert (Htopst : top_state (to_stack (l_stack se)) = st).
  { rewrite Hstk. cbn. unfold lookahead in Hla. destruct (l_ahead se).
    - inversion Hla; subst. reflexivity.
    - destruct (skipws (e_pos top0)); [|discriminate]. inversion Hla; subst. reflexivity. }
  assert (Hstuck : forall c, ~ lstep g tb stop_id (to_stack (l_stack se), toks_err) c).
  { apply no_step_empty_cell. rewrite Htopst, Hla_err. exact Hcell. }
  destruct (stuck_prefix g tb stop_id Hdet _ _ Hlrun Hstuck _ f t (srel_refl _) Hrun2 Hacc) as [Hnil Hrel].
  cbn [fst snd] in Hnil, Hrel.
  destruct Hacc as [Ha _]. rewrite <- (srel_top _ _ Hrel), Htopst in Ha.
  rewrite Hnil in Hla_err. cbn in Hla_err. rewrite Hla_err, Hcell in Ha. destruct Ha.
Qed.
