(* Correctness of the model of first(grammar) (Model/First.v), for ALL grammars:
     - termination: [first_fuel nnts nterms] rounds always suffice (first_total);
     - soundness: y in FIRST(a) implies a derivation a =>* y beta, EMPTY in FIRST(a)
       implies a =>* epsilon (first_sound);
     - completeness: the result is closed under the rules of the grammar -- exactly the
       check [first_closed] that the validator table_complete runs on its FIRST/nullable
       certificate (first_closed_ok) -- and therefore contains every terminal that
       starts a sentential form derived from a (first_complete).
   The grammar is raw (EMPTY may occur in right-hand sides); derivations are over the
   stripped grammar [strip_prods e ps], the grammar the rest of the verification uses. *)
From Coq Require Import NArith List Bool Lia Arith.
From PV Require Import Spec.Cfg Model.First Model.TableSpec Validators.TableComplete Proofs.SetProofs
  Proofs.CompleteProofs.
Import ListNotations.
Local Open Scope N_scope.

(* ---- derivations over sentential forms --------------------------------------- *)
Section Derives.
  Variable g : list prod.

  Inductive derives : list sym -> list sym -> Prop :=
  | dv_refl u : derives u u
  | dv_step u v pr w :
      In pr g -> derives (u ++ rhs pr ++ v) w -> derives (u ++ NT (lhs pr) :: v) w.

  Lemma derives_trans a b c : derives a b -> derives b c -> derives a c.
  Proof.
    induction 1 as [u|u v pr w Hin H IH]; intros Hc; [exact Hc|].
    eapply dv_step; [exact Hin|]. apply IH. exact Hc.
  Qed.

  Lemma derives_app_l x a b : derives a b -> derives (x ++ a) (x ++ b).
  Proof.
    induction 1 as [u|u v pr w Hin H IH]; [constructor|].
    rewrite app_assoc. eapply dv_step; [exact Hin|]. rewrite <- app_assoc. exact IH.
  Qed.

  Lemma derives_app_r x a b : derives a b -> derives (a ++ x) (b ++ x).
  Proof.
    induction 1 as [u|u v pr w Hin H IH]; [constructor|].
    rewrite <- app_assoc. cbn [app]. eapply dv_step; [exact Hin|].
    rewrite <- !app_assoc in IH. exact IH.
  Qed.

  Lemma derives_app a a' b b' : derives a a' -> derives b b' -> derives (a ++ b) (a' ++ b').
  Proof.
    intros Ha Hb. eapply derives_trans; [apply derives_app_r; exact Ha|].
    apply derives_app_l. exact Hb.
  Qed.

  Lemma derives_prod pr : In pr g -> derives [NT (lhs pr)] (rhs pr).
  Proof.
    intros Hin. change [NT (lhs pr)] with ([] ++ NT (lhs pr) :: []).
    eapply dv_step; [exact Hin|]. cbn. rewrite app_nil_r. constructor.
  Qed.

  (* a derivation tree yields a derivation of its leaves *)
  Definition leaf_syms (t : tree) : list sym := map (fun l => T (fst (fst l))) (leaves t).

  Lemma derives_of_trees ts : forall xs,
    map (root_sym g) ts = map Some xs ->
    All (fun t => forall X, root_sym g t = Some X -> derives [X] (leaf_syms t)) ts ->
    derives xs (flat_map leaf_syms ts).
  Proof.
    induction ts as [|t r IH]; intros xs Hroots Hall.
    - destruct xs; [constructor|discriminate].
    - destruct xs as [|x xs']; [discriminate|]. cbn [map] in Hroots.
      inversion Hroots as [[Hx Hr]]. destruct Hall as [Ht Hrest].
      cbn [flat_map]. change (x :: xs') with ([x] ++ xs').
      apply derives_app; [apply Ht; exact Hx|apply IH; assumption].
  Qed.

  Lemma derives_of_tree t : wf_tree g t -> forall X, root_sym g t = Some X ->
    derives [X] (leaf_syms t).
  Proof.
    induction t as [y s e|p s e cs IH] using tree_ind2; intros Hwf X HX.
    - cbn in HX. inversion HX; subst. cbn. constructor.
    - cbn [wf_tree] in Hwf. destruct Hwf as [(pr & Hp & Hroots) Hall].
      cbn [root_sym] in HX. rewrite Hp in HX. cbn in HX. inversion HX; subst X.
      eapply derives_trans; [apply derives_prod; unfold get_prod in Hp; eapply nth_error_In; exact Hp|].
      unfold leaf_syms. cbn [leaves]. rewrite flat_map_concat_map, concat_map, map_map.
      rewrite <- flat_map_concat_map. apply derives_of_trees; [exact Hroots|].
      apply All_In. intros c Hc X HX'. rewrite All_In in IH. rewrite All_In in Hall.
      apply IH; [exact Hc|apply Hall; exact Hc|exact HX'].
  Qed.
End Derives.

Section FirstCorrect.
  Variable e : N.
  Variable ps : list prod.                 (* raw productions *)
  Notation g := (strip_prods e ps).

  Lemma strip_app a b : strip e (a ++ b) = strip e a ++ strip e b.
  Proof. unfold strip. apply filter_app. Qed.

  Lemma in_strip_prods p : In p ps -> In (mkProd (lhs p) (strip e (rhs p))) g.
  Proof. intros H. unfold strip_prods. apply in_map_iff. exists p. auto. Qed.

  (* ---- soundness ---------------------------------------------------------------- *)
  Definition fs_sound (fs : fsets) : Prop :=
    forall a y, In y (fget fs a) ->
      (y = e -> derives g [NT a] []) /\
      (y <> e -> exists beta, derives g [NT a] (T y :: beta)).

  Lemma sym_first_sound fs x y r :
    fs_sound fs -> In y (sym_first fs x) -> y <> e ->
    exists beta, derives g (strip e (x :: r)) (T y :: beta).
  Proof.
    intros Hs Hy Hne. destruct x as [t|b]; cbn [sym_first] in Hy.
    - destruct Hy as [<-|[]]. exists (strip e r). unfold strip. cbn [filter is_EMPTY].
      destruct (N.eqb_spec t e) as [->|_]; [congruence|]. cbn. constructor.
    - destruct (Hs b y Hy) as [_ H]. destruct (H Hne) as (beta & Hb).
      exists (beta ++ strip e r).
      assert (E : strip e (NT b :: r) = [NT b] ++ strip e r) by reflexivity. rewrite E.
      apply (derives_app_r g (strip e r) [NT b] (T y :: beta)). exact Hb.
  Qed.

  Lemma sym_first_null fs x :
    fs_sound fs -> In e (sym_first fs x) -> derives g (strip e [x]) [].
  Proof.
    intros Hs He. destruct x as [t|b]; cbn [sym_first] in He.
    - destruct He as [->|[]]. unfold strip. cbn. rewrite N.eqb_refl. cbn. constructor.
    - unfold strip. cbn. exact (proj1 (Hs b e He) eq_refl).
  Qed.

  Lemma fs_sound_fupd fs a v :
    fs_sound fs ->
    (forall y, In y v ->
       (y = e -> derives g [NT a] []) /\ (y <> e -> exists beta, derives g [NT a] (T y :: beta))) ->
    fs_sound (fupd a v fs).
  Proof.
    intros Hs Hv b y Hy. rewrite fget_fupd in Hy.
    destruct ((a =? b) && (N.to_nat a <? length fs)%nat) eqn:E.
    - apply andb_true_iff in E. destruct E as [E _]. apply N.eqb_eq in E. subst b. apply Hv. exact Hy.
    - apply Hs. exact Hy.
  Qed.

  Lemma first_rhs_sound r : forall pre a st,
    (exists p, In p ps /\ lhs p = a /\ rhs p = pre ++ r) ->
    derives g (strip e pre) [] ->
    fs_sound (fst st) -> fs_sound (fst (first_rhs e a r st)).
  Proof.
    induction r as [|x r' IH]; intros pre a st (p & Hp & Hl & Hr) Hpre Hs.
    - cbn [first_rhs]. destruct (nmem e (fget (fst st) a)) eqn:E; [exact Hs|].
      cbn [fst]. apply fs_sound_fupd; [exact Hs|]. intros y Hy.
      apply in_app_iff in Hy. destruct Hy as [Hy|[<-|[]]]; [apply Hs; exact Hy|].
      split; [|congruence]. intros _. subst a.
      pose proof (derives_prod g _ (in_strip_prods p Hp)) as Hd. cbn [lhs rhs] in Hd.
      rewrite Hr, app_nil_r in Hd. eapply derives_trans; [exact Hd|exact Hpre].
    - cbn [first_rhs].
      set (fs := fst st). set (f' := nremove e (sym_first fs x)). set (cur := fget fs a).
      set (st1 := if nsubset f' cur then st else (fupd a (nunion cur f') fs, true)).
      assert (Hs1 : fs_sound (fst st1)).
      { unfold st1. destruct (nsubset f' cur); [exact Hs|]. cbn [fst].
        apply fs_sound_fupd; [exact Hs|]. intros y Hy. apply nunion_In in Hy.
        destruct Hy as [Hy|Hy]; [apply Hs; exact Hy|].
        unfold f' in Hy. apply nremove_In in Hy. destruct Hy as [Hy Hne].
        split; [congruence|]. intros _.
        destruct (sym_first_sound fs x y r' Hs Hy Hne) as (beta & Hb). exists beta. subst a.
        pose proof (derives_prod g _ (in_strip_prods p Hp)) as Hd. cbn [lhs rhs] in Hd.
        rewrite Hr, strip_app in Hd. eapply derives_trans; [exact Hd|].
        eapply derives_trans; [apply derives_app_r; exact Hpre|]. cbn [app]. exact Hb. }
      destruct (nmem e (sym_first (fst st1) x)) eqn:E; [|exact Hs1].
      apply (IH (pre ++ [x]) a st1); [|  |exact Hs1].
      + exists p. rewrite <- app_assoc. cbn [app]. auto.
      + rewrite strip_app. apply nmem_In in E.
        change (@nil sym) with (@nil sym ++ []).
        apply derives_app; [exact Hpre|]. apply (sym_first_null (fst st1)); assumption.
  Qed.

  Lemma first_fold_sound l : forall st,
    (forall p, In p l -> In p ps) -> fs_sound (fst st) ->
    fs_sound (fst (fold_left (fun st p => first_rhs e (lhs p) (rhs p) st) l st)).
  Proof.
    induction l as [|p r IH]; intros st Hl Hs; [exact Hs|].
    cbn [fold_left]. apply IH; [intros q Hq; apply Hl; right; exact Hq|].
    apply (first_rhs_sound (rhs p) [] (lhs p) st); [|constructor|exact Hs].
    exists p. split; [apply Hl; left; reflexivity|auto].
  Qed.

  Lemma first_iter_sound fuel : forall fs fs',
    fs_sound fs -> first_iter e fuel ps fs = Some fs' -> fs_sound fs'.
  Proof.
    induction fuel as [|f IH]; intros fs fs' Hs H; [discriminate|].
    cbn [first_iter] in H.
    assert (Hs1 : fs_sound (fst (first_round e ps fs))).
    { unfold first_round. apply first_fold_sound; [auto|exact Hs]. }
    destruct (snd (first_round e ps fs)).
    - eapply IH; eassumption.
    - inversion H; subst. exact Hs1.
  Qed.

  Theorem first_sound fuel nnts fs :
    first_sets e fuel nnts ps = Some fs -> fs_sound fs.
  Proof.
    unfold first_sets. apply first_iter_sound. intros a y Hy.
    rewrite fget_repeat in Hy. destruct Hy.
  Qed.

  (* ---- closedness ---------------------------------------------------------------- *)
  Lemma first_rhs_flag_mono r : forall a st, snd st = true -> snd (first_rhs e a r st) = true.
  Proof.
    induction r as [|x r' IH]; intros a st H; cbn [first_rhs].
    - destruct (nmem e (fget (fst st) a)); [exact H|reflexivity].
    - set (st1 := if nsubset _ _ then st else _).
      assert (H1 : snd st1 = true) by (unfold st1; destruct (nsubset _ _); [exact H|reflexivity]).
      destruct (nmem e (sym_first (fst st1) x)); [apply IH; exact H1|exact H1].
  Qed.

  (* facts about the certificate tables *)
  Lemma fst_nt_tab fs a : fst_nt (fst_tab_of e fs) a = nremove e (fget fs a).
  Proof.
    unfold fst_nt, fst_tab_of, fget.
    change (@nil N) with (nremove e []) at 1. apply map_nth.
  Qed.

  Lemma nul_nt_tab fs a : nul_nt (nul_tab_of e fs) a = nmem e (fget fs a).
  Proof.
    unfold nul_nt, nul_tab_of, fget.
    change false with (nmem e []). apply map_nth.
  Qed.

  Notation FT fs := (fst_tab_of e fs).
  Notation NTb fs := (nul_tab_of e fs).

  (* the closedness that first_closed asks for one production, relative to a raw suffix *)
  Definition closed_for (fs : fsets) (a : N) (r : list sym) : Prop :=
    (forall y, In y (fst_seq (FT fs) (NTb fs) (strip e r)) -> In y (fget fs a) /\ y <> e) /\
    (nul_seq (NTb fs) (strip e r) = true -> In e (fget fs a)).

  Lemma fst_sym_tab fs x y :
    is_EMPTY e x = false ->
    (In y (fst_sym (FT fs) x) <-> In y (sym_first fs x) /\ y <> e).
  Proof.
    intros Hx. destruct x as [t|b]; cbn [fst_sym sym_first].
    - cbn in Hx. apply N.eqb_neq in Hx. cbn. split.
      + intros [<-|[]]. auto.
      + intros [[<-|[]] _]. auto.
    - rewrite fst_nt_tab. apply nremove_In.
  Qed.

  Lemma nul_sym_tab fs x :
    is_EMPTY e x = false -> nul_sym (NTb fs) x = nmem e (sym_first fs x).
  Proof.
    intros Hx. destruct x as [t|b]; cbn [nul_sym sym_first].
    - cbn in Hx. cbn. rewrite N.eqb_sym, Hx. reflexivity.
    - apply nul_nt_tab.
  Qed.

  Lemma first_rhs_closed r : forall a fs,
    snd (first_rhs e a r (fs, false)) = false ->
    first_rhs e a r (fs, false) = (fs, false) /\ closed_for fs a r.
  Proof.
    induction r as [|x r' IH]; intros a fs H; cbn [first_rhs fst] in *.
    - destruct (nmem e (fget fs a)) eqn:E; [|discriminate]. split; [reflexivity|].
      split; [intros y []|]. intros _. apply nmem_In. exact E.
    - set (f' := nremove e (sym_first fs x)) in *. set (cur := fget fs a) in *.
      destruct (nsubset f' cur) eqn:Esub.
      + cbn [fst] in *. rewrite nsubset_spec in Esub.
        destruct (nmem e (sym_first fs x)) eqn:En.
        * destruct (IH a fs H) as [Heq [Hc1 Hc2]]. split; [exact Heq|].
          destruct (is_EMPTY e x) eqn:Ex.
          -- unfold closed_for, strip. cbn [filter]. rewrite Ex. cbn [negb]. split; assumption.
          -- unfold closed_for, strip. cbn [filter]. rewrite Ex. cbn [negb].
             cbn [fst_seq nul_seq forallb]. rewrite (nul_sym_tab fs x Ex), En. cbn [andb]. split.
             ++ intros y Hy. apply in_app_iff in Hy. destruct Hy as [Hy|Hy]; [|apply Hc1; exact Hy].
                apply (fst_sym_tab fs x y Ex) in Hy. destruct Hy as [Hy Hne].
                split; [|exact Hne]. apply Esub. apply nremove_In. auto.
             ++ exact Hc2.
        * split; [reflexivity|].
          assert (Ex : is_EMPTY e x = false).
          { destruct x as [t|b]; [|reflexivity]. cbn. apply N.eqb_neq. intros ->.
            cbn in En. rewrite N.eqb_refl in En. discriminate. }
          unfold closed_for, strip. cbn [filter]. rewrite Ex. cbn [negb].
          cbn [fst_seq nul_seq forallb]. rewrite (nul_sym_tab fs x Ex), En. cbn [andb]. split.
          -- intros y Hy. rewrite app_nil_r in Hy.
             apply (fst_sym_tab fs x y Ex) in Hy. destruct Hy as [Hy Hne].
             split; [|exact Hne]. apply Esub. apply nremove_In. auto.
          -- discriminate.
      + exfalso.
        assert (Ht : snd (if nmem e (sym_first (fst (fupd a (nunion cur f') fs, true)) x)
                          then first_rhs e a r' (fupd a (nunion cur f') fs, true)
                          else (fupd a (nunion cur f') fs, true)) = true).
        { destruct (nmem e _); [apply first_rhs_flag_mono|]; reflexivity. }
        congruence.
  Qed.

  Lemma first_fold_closed l : forall st,
    snd (fold_left (fun st p => first_rhs e (lhs p) (rhs p) st) l st) = false ->
    snd st = false /\
    fold_left (fun st p => first_rhs e (lhs p) (rhs p) st) l st = st /\
    forall p, In p l -> closed_for (fst st) (lhs p) (rhs p).
  Proof.
    induction l as [|p r IH]; intros st H; cbn [fold_left] in *.
    - split; [exact H|]. split; [reflexivity|]. intros p [].
    - destruct (IH _ H) as (H1 & H2 & H3).
      destruct (snd st) eqn:Est.
      + rewrite (first_rhs_flag_mono (rhs p) (lhs p) st Est) in H1. discriminate.
      + destruct st as [fs ch]. cbn in Est. subst ch.
        destruct (first_rhs_closed (rhs p) (lhs p) fs H1) as [Heq Hc].
        rewrite Heq in *. split; [reflexivity|]. split; [exact H2|].
        intros q [<-|Hq]; [exact Hc|apply H3; exact Hq].
  Qed.

  Definition fs_closed (fs : fsets) : Prop :=
    forall p, In p ps -> closed_for fs (lhs p) (rhs p).

  Lemma first_iter_closed fuel : forall fs fs',
    first_iter e fuel ps fs = Some fs' -> fs_closed fs'.
  Proof.
    induction fuel as [|f IH]; intros fs fs' H; [discriminate|].
    cbn [first_iter] in H. destruct (snd (first_round e ps fs)) eqn:E.
    - eapply IH; exact H.
    - inversion H; subst. unfold first_round in *.
      destruct (first_fold_closed ps (fs, false) E) as (_ & Heq & Hc).
      rewrite Heq. exact Hc.
  Qed.

  Theorem first_closed_ok fuel nnts fs :
    first_sets e fuel nnts ps = Some fs ->
    first_closed g (fst_tab_of e fs) (nul_tab_of e fs) = true.
  Proof.
    intros H. apply first_iter_closed in H.
    unfold first_closed. apply forallb_forall. intros pr Hpr.
    unfold strip_prods in Hpr. apply in_map_iff in Hpr. destruct Hpr as (p & <- & Hp).
    destruct (H p Hp) as [H1 H2]. cbn [lhs rhs]. apply andb_true_iff. split.
    - apply subset_spec. intros y Hy. rewrite fst_nt_tab. apply nremove_In. apply H1. exact Hy.
    - destruct (nul_seq (NTb fs) (strip e (rhs p))) eqn:En; [|reflexivity]. cbn.
      rewrite nul_nt_tab. apply nmem_In. apply H2. reflexivity.
  Qed.
End FirstCorrect.

(* ---- closed FIRST/nullable tables contain every derivable first symbol ----------- *)
Section ClosedComplete.
  Variable g : list prod.
  Variable fst_tab : list (list N).
  Variable nul_tab : list bool.
  Hypothesis Hclosed : first_closed g fst_tab nul_tab = true.

  Notation fst_seq := (fst_seq fst_tab nul_tab).
  Notation nul_seq := (nul_seq nul_tab).

  Lemma fst_seq_app u w y :
    In y (fst_seq (u ++ w)) <-> In y (fst_seq u) \/ (nul_seq u = true /\ In y (fst_seq w)).
  Proof.
    induction u as [|x r IH]; cbn [app TableComplete.fst_seq TableComplete.nul_seq forallb].
    - cbn. tauto.
    - rewrite !in_app_iff. destruct (nul_sym nul_tab x); cbn [andb].
      + rewrite IH. unfold TableComplete.nul_seq. tauto.
      + cbn. intuition discriminate.
  Qed.

  Lemma nul_seq_app u w : nul_seq (u ++ w) = nul_seq u && nul_seq w.
  Proof. unfold TableComplete.nul_seq. apply forallb_app. Qed.

  Lemma closed_prod pr : In pr g ->
    (forall y, In y (fst_seq (rhs pr)) -> In y (fst_nt fst_tab (lhs pr))) /\
    (nul_seq (rhs pr) = true -> nul_nt nul_tab (lhs pr) = true).
  Proof.
    intros Hin. pose proof Hclosed as H. unfold first_closed in H. rewrite forallb_forall in H.
    specialize (H pr Hin). apply andb_true_iff in H. destruct H as [H1 H2]. split.
    - apply subset_spec. exact H1.
    - intros Hn. rewrite Hn in H2. exact H2.
  Qed.

  Lemma derives_first a b : derives g a b ->
    (forall y r, b = T y :: r -> In y (fst_seq a)) /\ (b = [] -> nul_seq a = true).
  Proof.
    induction 1 as [u|u v pr w Hin H IH].
    - split.
      + intros y r ->. cbn. left. reflexivity.
      + intros ->. reflexivity.
    - destruct (closed_prod pr Hin) as [Hc1 Hc2]. destruct IH as [IH1 IH2]. split.
      + intros y r Hb. specialize (IH1 y r Hb).
        apply fst_seq_app in IH1. apply fst_seq_app.
        destruct IH1 as [IH1|[Hn IH1]]; [left; exact IH1|]. right. split; [exact Hn|].
        apply fst_seq_app in IH1. cbn [TableComplete.fst_seq fst_sym nul_sym].
        apply in_app_iff. destruct IH1 as [IH1|[Hn2 IH1]].
        * left. apply Hc1. exact IH1.
        * right. rewrite (Hc2 Hn2). exact IH1.
      + intros Hb. specialize (IH2 Hb). rewrite !nul_seq_app in IH2. rewrite nul_seq_app.
        apply andb_true_iff in IH2. destruct IH2 as [Hu Hrest].
        apply andb_true_iff in Hrest. destruct Hrest as [Hr Hv].
        rewrite Hu. cbn [andb TableComplete.nul_seq forallb nul_sym].
        rewrite (Hc2 Hr). exact Hv.
  Qed.
End ClosedComplete.

Section FirstComplete.
  Variable e : N.
  Variable ps : list prod.
  Notation g := (strip_prods e ps).

  (* every terminal that starts a sentential form derived from a is in FIRST(a); if a
     derives the empty string, EMPTY is in FIRST(a) *)
  Theorem first_complete fuel nnts fs a :
    first_sets e fuel nnts ps = Some fs ->
    (forall y beta, derives g [NT a] (T y :: beta) -> In y (fget fs a) /\ y <> e) /\
    (derives g [NT a] [] -> In e (fget fs a)).
  Proof.
    intros H. pose proof (first_closed_ok e ps fuel nnts fs H) as Hc. split.
    - intros y beta Hd.
      destruct (derives_first g _ _ Hc _ _ Hd) as [H1 _]. specialize (H1 y beta eq_refl).
      cbn [fst_seq fst_sym] in H1. rewrite fst_nt_tab in H1.
      apply in_app_iff in H1. destruct H1 as [H1|H1].
      + apply nremove_In in H1. exact H1.
      + destruct (nul_sym (nul_tab_of e fs) (NT a)); destruct H1.
    - intros Hd. destruct (derives_first g _ _ Hc _ _ Hd) as [_ H2]. specialize (H2 eq_refl).
      cbn [nul_seq forallb nul_sym] in H2. rewrite andb_true_r, nul_nt_tab in H2.
      apply nmem_In. exact H2.
  Qed.
End FirstComplete.

(* ---- termination: a fuel bound ---------------------------------------------------- *)
Section FirstFuel.
  Variable e : N.
  Variable nnts nterms : nat.

  (* all sets are duplicate-free subsets of the terminals; one set per nonterminal *)
  Definition fs_inv (fs : fsets) : Prop :=
    length fs = nnts /\
    forall a, NoDup (fget fs a) /\ forall y, In y (fget fs a) -> (N.to_nat y < nterms)%nat.

  Lemma fs_inv_fupd fs a v :
    fs_inv fs -> NoDup v -> (forall y, In y v -> (N.to_nat y < nterms)%nat) -> fs_inv (fupd a v fs).
  Proof.
    intros [Hl Hi] Hnd Hb. split; [rewrite fupd_length; exact Hl|].
    intros b. rewrite fget_fupd. destruct ((a =? b) && _); [auto|apply Hi].
  Qed.

  Lemma fs_inv_size fs : fs_inv fs -> (fsize fs <= nnts * nterms)%nat.
  Proof.
    intros [Hl Hi]. rewrite <- Hl. apply fsize_bound. intros s Hs.
    apply In_nth with (d := []) in Hs. destruct Hs as (k & Hk & <-).
    specialize (Hi (N.of_nat k)). unfold fget in Hi. rewrite Nat2N.id in Hi.
    apply NoDup_bounded_length; tauto.
  Qed.

  Lemma sym_first_inv fs x :
    fs_inv fs -> (match x with T t => (N.to_nat t < nterms)%nat | NT _ => True end) ->
    NoDup (sym_first fs x) /\ forall y, In y (sym_first fs x) -> (N.to_nat y < nterms)%nat.
  Proof.
    intros [_ Hi] Hx. destruct x as [t|b]; cbn [sym_first]; [|apply Hi].
    split; [constructor; [intros []|constructor]|]. intros y [<-|[]]. exact Hx.
  Qed.

  Definition rhs_ok (r : list sym) : Prop :=
    forall t, In (T t) r -> (N.to_nat t < nterms)%nat.

  (* one right-hand side: the invariant is kept, the size never shrinks, and a raised
     flag means the size grew *)
  Lemma first_rhs_measure r : forall a st,
    (N.to_nat a < nnts)%nat -> (N.to_nat e < nterms)%nat -> rhs_ok r -> fs_inv (fst st) ->
    let st' := first_rhs e a r st in
    fs_inv (fst st') /\ (fsize (fst st) <= fsize (fst st'))%nat /\
    (snd st' = true -> snd st = true \/ (fsize (fst st) < fsize (fst st'))%nat).
  Proof.
    induction r as [|x r' IH]; intros a st Ha He Hr Hinv; cbn [first_rhs]; cbn zeta.
    - destruct (nmem e (fget (fst st) a)) eqn:E.
      + split; [exact Hinv|]. split; [lia|]. auto.
      + cbn [fst snd]. apply nmem_false in E.
        assert (Hlt : (N.to_nat a < length (fst st))%nat) by (rewrite (proj1 Hinv); exact Ha).
        pose proof (fsize_fupd a (fget (fst st) a ++ [e]) (fst st) Hlt) as Hsz.
        rewrite app_length in Hsz. cbn [length] in Hsz.
        destruct (proj2 Hinv a) as [Hnd Hb].
        split; [|split; [lia|intros _; right; lia]].
        apply fs_inv_fupd; [exact Hinv| |].
        * apply NoDup_rev in Hnd. rewrite <- (rev_involutive (_ ++ [e])). apply NoDup_rev.
          rewrite rev_app_distr. cbn. constructor; [|exact Hnd]. intros Hin. apply E.
          apply in_rev. exact Hin.
        * intros y Hy. apply in_app_iff in Hy. destruct Hy as [Hy|[<-|[]]]; auto.
    - set (fs := fst st). set (f' := nremove e (sym_first fs x)). set (cur := fget fs a).
      set (st1 := if nsubset f' cur then st else (fupd a (nunion cur f') fs, true)).
      assert (Hx : match x with T t => (N.to_nat t < nterms)%nat | NT _ => True end).
      { destruct x as [t|b]; [|exact I]. apply Hr. left. reflexivity. }
      destruct (sym_first_inv fs x Hinv Hx) as [Hfnd Hfb].
      destruct (proj2 Hinv a) as [Hcnd Hcb].
      assert (H1 : fs_inv (fst st1) /\ (fsize fs <= fsize (fst st1))%nat /\
                   (snd st1 = true -> snd st = true \/ (fsize fs < fsize (fst st1))%nat)).
      { unfold st1. destruct (nsubset f' cur) eqn:Esub.
        - split; [exact Hinv|]. split; [unfold fs; lia|auto].
        - cbn [fst snd].
          assert (Hlt : (N.to_nat a < length fs)%nat) by (unfold fs; rewrite (proj1 Hinv); exact Ha).
          pose proof (fsize_fupd a (nunion cur f') fs Hlt) as Hsz. fold cur in Hsz.
          destruct (nsubset_false _ _ Esub) as (y & Hy1 & Hy2).
          pose proof (nunion_length_new f' cur y Hy1 Hy2) as Hgrow.
          split; [|split; [lia|intros _; right; lia]].
          apply fs_inv_fupd; [exact Hinv| |].
          + apply nunion_NoDup. exact Hcnd.
          + intros z Hz. apply nunion_In in Hz. destruct Hz as [Hz|Hz]; [auto|].
            unfold f' in Hz. apply nremove_In in Hz. apply Hfb. tauto. }
      destruct H1 as (Hi1 & Hs1 & Hf1).
      destruct (nmem e (sym_first (fst st1) x)).
      + assert (Hr' : rhs_ok r') by (intros t Ht; apply Hr; right; exact Ht).
        destruct (IH a st1 Ha He Hr' Hi1) as (Hi2 & Hs2 & Hf2).
        split; [exact Hi2|]. split; [fold fs; lia|].
        intros Ht. destruct (Hf2 Ht) as [Ht1|Hlt]; [|right; fold fs; lia].
        destruct (Hf1 Ht1) as [Ht0|Hlt]; [left; exact Ht0|right; fold fs; lia].
      + split; [exact Hi1|]. split; [exact Hs1|exact Hf1].
  Qed.

  Variable ps : list prod.
  Hypothesis Hwf : prods_wfb e nnts nterms ps = true.

  Lemma wf_e : (N.to_nat e < nterms)%nat.
  Proof.
    pose proof Hwf as H. unfold prods_wfb in H. apply andb_true_iff in H.
    apply Nat.ltb_lt. exact (proj1 H).
  Qed.

  Lemma wf_prod p : In p ps -> (N.to_nat (lhs p) < nnts)%nat /\ rhs_ok (rhs p).
  Proof.
    intros Hp. pose proof Hwf as H. unfold prods_wfb in H. apply andb_true_iff in H.
    destruct H as [_ H]. rewrite forallb_forall in H. specialize (H p Hp).
    unfold prod_wfb in H. apply andb_true_iff in H. destruct H as [H1 H2].
    split; [apply Nat.ltb_lt; exact H1|]. intros t Ht. rewrite forallb_forall in H2.
    specialize (H2 _ Ht). apply Nat.ltb_lt. exact H2.
  Qed.

  Lemma first_fold_measure l : forall st,
    (forall p, In p l -> In p ps) -> fs_inv (fst st) ->
    let st' := fold_left (fun st p => first_rhs e (lhs p) (rhs p) st) l st in
    fs_inv (fst st') /\ (fsize (fst st) <= fsize (fst st'))%nat /\
    (snd st' = true -> snd st = true \/ (fsize (fst st) < fsize (fst st'))%nat).
  Proof.
    induction l as [|p r IH]; intros st Hl Hinv; cbn [fold_left]; cbn zeta.
    - split; [exact Hinv|]. split; [lia|auto].
    - destruct (wf_prod p (Hl p (or_introl eq_refl))) as [Ha Hr].
      destruct (first_rhs_measure (rhs p) (lhs p) st Ha wf_e Hr Hinv) as (Hi1 & Hs1 & Hf1).
      destruct (IH (first_rhs e (lhs p) (rhs p) st) (fun q Hq => Hl q (or_intror Hq)) Hi1)
        as (Hi2 & Hs2 & Hf2).
      split; [exact Hi2|]. split; [lia|].
      intros Ht. destruct (Hf2 Ht) as [Ht1|Hlt]; [|right; lia].
      destruct (Hf1 Ht1) as [Ht0|Hlt]; [left; exact Ht0|right; lia].
  Qed.

  Lemma first_iter_total fuel : forall fs,
    fs_inv fs -> (nnts * nterms < fuel + fsize fs)%nat ->
    exists fs', first_iter e fuel ps fs = Some fs' /\ fs_inv fs'.
  Proof.
    induction fuel as [|f IH]; intros fs Hinv Hfuel.
    - pose proof (fs_inv_size fs Hinv). lia.
    - cbn [first_iter]. unfold first_round.
      destruct (first_fold_measure ps (fs, false) (fun p Hp => Hp) Hinv) as (Hi1 & Hs1 & Hf1).
      cbn [fst snd] in *.
      destruct (snd (fold_left _ ps (fs, false))) eqn:E.
      + destruct (Hf1 eq_refl) as [Hc|Hlt]; [discriminate|]. apply IH; [exact Hi1|lia].
      + eexists. split; [reflexivity|exact Hi1].
  Qed.

  Lemma fs_inv_init : fs_inv (repeat [] nnts).
  Proof.
    split; [apply repeat_length|]. intros a. rewrite fget_repeat. split; [constructor|intros y []].
  Qed.

  (* FIRST is computed within first_fuel rounds, whatever the grammar *)
  Theorem first_total :
    exists fs, first_sets e (first_fuel nnts nterms) nnts ps = Some fs /\ fs_inv fs.
  Proof.
    unfold first_sets, first_fuel. apply first_iter_total; [apply fs_inv_init|]. lia.
  Qed.

  Lemma first_iter_inv fuel : forall fs fs',
    fs_inv fs -> first_iter e fuel ps fs = Some fs' -> fs_inv fs'.
  Proof.
    induction fuel as [|f IH]; intros fs fs' Hinv H; [discriminate|].
    cbn [first_iter] in H. unfold first_round in H.
    destruct (first_fold_measure ps (fs, false) (fun p Hp => Hp) Hinv) as (Hi1 & _ & _).
    cbn zeta in Hi1.
    destruct (snd (fold_left _ ps (fs, false))).
    - eapply IH; eassumption.
    - inversion H; subst. exact Hi1.
  Qed.

  Theorem first_inv fuel fs : first_sets e fuel nnts ps = Some fs -> fs_inv fs.
  Proof. unfold first_sets. apply first_iter_inv. apply fs_inv_init. Qed.

  (* more fuel does not change the result *)
  Lemma first_iter_more fuel : forall k fs r,
    first_iter e fuel ps fs = Some r -> first_iter e (fuel + k) ps fs = Some r.
  Proof.
    induction fuel as [|f IH]; intros k fs r H; [discriminate|].
    cbn [first_iter Nat.add] in *. destruct (snd (first_round e ps fs)); [apply IH; exact H|exact H].
  Qed.

  Theorem first_fuel_enough fuel :
    (first_fuel nnts nterms <= fuel)%nat ->
    exists fs, first_sets e fuel nnts ps = Some fs /\ fs_inv fs.
  Proof.
    intros Hle. destruct first_total as (fs & H & Hinv). exists fs. split; [|exact Hinv].
    replace fuel with (first_fuel nnts nterms + (fuel - first_fuel nnts nterms))%nat by lia.
    unfold first_sets in *. apply first_iter_more. exact H.
  Qed.
End FirstFuel.

(* ---- EMPTY in right-hand sides is invisible to first(grammar) ------------------------------- *)
Section FirstStrip.
  Variable e : N.

  Lemma first_rhs_strip a r : forall st, first_rhs e a r st = first_rhs e a (strip e r) st.
  Proof.
    induction r as [|x r IH]; intros st; [reflexivity|].
    unfold strip. cbn [filter]. destruct (is_EMPTY e x) eqn:Ex; cbn [negb].
    - destruct x as [t|b]; [|discriminate]. cbn in Ex. apply N.eqb_eq in Ex. subst t.
      cbn [first_rhs sym_first]. unfold nremove at 1. cbn [filter]. rewrite N.eqb_refl. cbn [negb nsubset forallb].
      cbn [nmem existsb]. rewrite N.eqb_refl. cbn [orb]. apply IH.
    - cbn [first_rhs]. fold (strip e r).
      destruct (nmem e (sym_first (fst (if nsubset (nremove e (sym_first (fst st) x)) (fget (fst st) a)
                                           then st else (fupd a (nunion (fget (fst st) a) (nremove e (sym_first (fst st) x))) (fst st), true))) x));
        [apply IH|reflexivity].
  Qed.

  Theorem first_sets_strip fuel nnts ps :
    first_sets e fuel nnts ps = first_sets e fuel nnts (strip_prods e ps).
  Proof.
    unfold first_sets. generalize (repeat (@nil N) nnts) as fs.
    assert (Hround : forall fs, first_round e ps fs = first_round e (strip_prods e ps) fs).
    { intros fs. unfold first_round, strip_prods. generalize (fs, false) as st.
      induction ps as [|p r IH]; intros st; [reflexivity|]. cbn [map fold_left lhs rhs].
      rewrite first_rhs_strip. apply IH. }
    induction fuel as [|f IH]; intros fs; [reflexivity|]. cbn [first_iter]. rewrite Hround.
    destruct (snd (first_round e (strip_prods e ps) fs)); [apply IH|reflexivity].
  Qed.
End FirstStrip.
