(* forest_distinct_ok (a local check) implies that all trees a forest represents are
   pairwise different: len(forest) counts DISTINCT derivations and forest[i] are pairwise
   different for every i, however large the forest. *)
From Coq Require Import NArith List Bool Lia Arith.
From PV Require Import Spec.Cfg Model.Forest Proofs.ForestProofs.
Import ListNotations.
Local Open Scope N_scope.

Definition tree_span (t : tree) : N * N := (t_start t, t_end t).

Lemma span_eqb_eq x y : span_eqb x y = true <-> x = y.
Proof.
  destruct x, y. unfold span_eqb. cbn. rewrite andb_true_iff, !N.eqb_eq.
  split; [intros [-> ->]; reflexivity|intros E; inversion E; auto].
Qed.

(* ---- list lemmas ---------------------------------------------------------- *)

Lemma NoDup_app_intro {X} (l1 l2 : list X) :
  NoDup l1 -> NoDup l2 -> (forall x, In x l1 -> In x l2 -> False) -> NoDup (l1 ++ l2).
Proof.
  induction l1 as [|a r IH]; intros H1 H2 Hd; cbn; [exact H2|].
  inversion H1 as [|? ? Ha Hr]; subst. constructor.
  - intros Hin. apply in_app_or in Hin. destruct Hin as [Hin|Hin]; [exact (Ha Hin)|].
    apply (Hd a); [left; reflexivity|exact Hin].
  - apply IH; [exact Hr|exact H2|]. intros x Hx. apply Hd. right. exact Hx.
Qed.

Lemma NoDup_map_inj {X Y} (f : X -> Y) l :
  (forall a b, f a = f b -> a = b) -> NoDup l -> NoDup (map f l).
Proof.
  intros Hinj. induction 1 as [|x l Hx Hl IH]; cbn; constructor; [|exact IH].
  intros Hin. apply in_map_iff in Hin. destruct Hin as (y & E & Hy). apply Hinj in E. subst. auto.
Qed.

(* pairwise disjointness of the images, by position in the list *)
Fixpoint pairwise {X} (R : X -> X -> Prop) (l : list X) : Prop :=
  match l with
  | [] => True
  | a :: r => (forall b, In b r -> R a b) /\ pairwise R r
  end.

Lemma NoDup_flat_map {X Y} (f : X -> list Y) (l : list X) :
  (forall a, In a l -> NoDup (f a)) ->
  pairwise (fun a b => forall y, In y (f a) -> In y (f b) -> False) l ->
  NoDup (flat_map f l).
Proof.
  induction l as [|a r IH]; intros H1 H2; cbn; [constructor|].
  destruct H2 as [Ha Hr].
  apply NoDup_app_intro.
  - apply H1. left. reflexivity.
  - apply IH; [intros; apply H1; right; assumption|exact Hr].
  - intros y Hy Hin. apply in_flat_map in Hin. destruct Hin as (b & Hb & Hyb).
    exact (Ha b Hb y Hy Hyb).
Qed.

Lemma NoDup_cart {X} (ls : list (list X)) :
  (forall l, In l ls -> NoDup l) -> NoDup (cart ls).
Proof.
  induction ls as [|l r IH]; intros H; cbn [cart]; [constructor; [intros []|constructor]|].
  assert (Hr : NoDup (cart r)) by (apply IH; intros; apply H; right; assumption).
  assert (Hl : NoDup l) by (apply H; left; reflexivity).
  clear IH H. induction Hl as [|x l Hx Hl IHl]; cbn [flat_map]; [constructor|].
  apply NoDup_app_intro.
  - apply NoDup_map_inj; [intros a b E; inversion E; reflexivity|exact Hr].
  - exact IHl.
  - intros y Hy Hin. apply in_map_iff in Hy. destruct Hy as (t & <- & _).
    apply in_flat_map in Hin. destruct Hin as (x' & Hx' & Hin).
    apply in_map_iff in Hin. destruct Hin as (t' & E & _). inversion E; subst. exact (Hx Hx').
Qed.

Lemma In_cart_F2 {X} (ls : list (list X)) (xs : list X) :
  In xs (cart ls) -> Forall2 (fun x l => In x l) xs ls.
Proof.
  revert xs. induction ls as [|l r IH]; intros xs H; cbn in H.
  - destruct H as [<-|[]]. constructor.
  - apply in_flat_map in H. destruct H as (x & Hx & H).
    apply in_map_iff in H. destruct H as (xs' & <- & H).
    constructor; [exact Hx|apply IH; exact H].
Qed.

Lemma common_tree {X C} (f : C -> list X) : forall cs cs' ts c c',
  Forall2 (fun x l => In x l) ts (map f cs) ->
  Forall2 (fun x l => In x l) ts (map f cs') ->
  In (c, c') (combine cs cs') -> exists t, In t (f c) /\ In t (f c').
Proof.
  induction cs as [|c0 cs IH]; intros cs' ts c c' H1 H2 Hin; [destruct Hin|].
  destruct cs' as [|c0' cs']; [destruct Hin|].
  cbn [map] in H1, H2. inversion H1 as [|t ? ts1 ? Ht Hr]; subst.
  inversion H2 as [|? ? ? ? Ht' Hr']; subst.
  destruct Hin as [E|Hin].
  - inversion E; subst. exists t. split; assumption.
  - exact (IH cs' ts1 c c' Hr Hr' Hin).
Qed.

(* ---- the invariant --------------------------------------------------------- *)

(* what is known about the trees of one node: they all have the node's uniform span (when
   it has one) and they are pairwise different *)
Definition Rd (osp : option (N * N)) (ts : list tree) : Prop :=
  NoDup ts /\ forall sp, osp = Some sp -> forall t, In t ts -> tree_span t = sp.

Lemma nth_F2 {X Y} (R : X -> Y -> Prop) l l' dx dy k :
  Forall2 R l l' -> (k < length l)%nat -> R (nth k l dx) (nth k l' dy).
Proof.
  intros H. revert k. induction H as [|x y l l' Hxy Hl IH]; intros k Hk; cbn in Hk; [lia|].
  destruct k; cbn; [exact Hxy|apply IH; lia].
Qed.

Section Step.
  Variable sp : list (option (N * N)).          (* spans of ALL nodes of the forest *)
  Variables (asp : list (option (N * N))) (ats : list (list tree)).
  Hypothesis HR : Forall2 Rd asp ats.
  Hypothesis Hpre : forall c, (c < length asp)%nat -> nth c sp None = nth c asp None.

  Lemma child_span c x t :
    (c < length asp)%nat -> nth c sp None = Some x -> In t (nth c ats []) -> tree_span t = x.
  Proof.
    intros Hc Hx Ht. pose proof (nth_F2 Rd asp ats None [] c HR Hc) as [_ H].
    apply (H x); [rewrite <- Hpre by exact Hc; exact Hx|exact Ht].
  Qed.

  Lemma alt_trees_nodup a :
    (forall c, In c (alt_children a) -> (c < length asp)%nat) -> NoDup (trees_alt ats a).
  Proof.
    destruct a as [y s e|p s e cs]; cbn [trees_alt alt_children]; intros Hc.
    - constructor; [intros []|constructor].
    - apply NoDup_map_inj; [intros a b E; inversion E; reflexivity|].
      apply NoDup_cart. intros l Hl. apply in_map_iff in Hl. destruct Hl as (c & <- & Hin).
      exact (proj1 (nth_F2 Rd asp ats None [] c HR (Hc c Hin))).
  Qed.

  Lemma alts_disjoint a b t :
    (forall c, In c (alt_children a) -> (c < length asp)%nat) ->
    (forall c, In c (alt_children b) -> (c < length asp)%nat) ->
    alt_differs sp a b = true -> In t (trees_alt ats a) -> In t (trees_alt ats b) -> False.
  Proof.
    intros Hca Hcb Hd Ha Hb.
    destruct a as [y s e|p s e cs], b as [y' s' e'|p' s' e' cs']; cbn [trees_alt alt_differs] in *.
    - destruct Ha as [<-|[]]. destruct Hb as [E|[]]. inversion E; subst.
      rewrite !N.eqb_refl in Hd. discriminate.
    - destruct Ha as [<-|[]]. apply in_map_iff in Hb. destruct Hb as (? & E & _). discriminate.
    - destruct Hb as [<-|[]]. apply in_map_iff in Ha. destruct Ha as (? & E & _). discriminate.
    - apply in_map_iff in Ha. destruct Ha as (ts & <- & Hts).
      apply in_map_iff in Hb. destruct Hb as (ts' & E & Hts'). inversion E; subst p' s' e' ts'.
      rewrite !N.eqb_refl in Hd. cbn [andb negb orb] in Hd.
      apply In_cart_F2 in Hts. apply In_cart_F2 in Hts'.
      assert (Hlen : length cs = length cs').
      { rewrite <- (map_length (fun c => nth c ats []) cs), <- (Forall2_len _ _ _ Hts).
        rewrite <- (map_length (fun c => nth c ats []) cs'), <- (Forall2_len _ _ _ Hts'). reflexivity. }
      rewrite Hlen, Nat.eqb_refl in Hd. cbn [negb orb] in Hd.
      apply existsb_exists in Hd. destruct Hd as ([c c'] & Hin & Hd). cbn [fst snd] in Hd.
      destruct (nth c sp None) as [x|] eqn:Ex; [|discriminate].
      destruct (nth c' sp None) as [x'|] eqn:Ex'; [|discriminate].
      apply negb_true_iff in Hd.
      (* the tree at that position lies in both child nodes *)
      destruct (common_tree (fun c => nth c ats []) cs cs' ts c c' Hts Hts' Hin) as (t & Ht & Ht').
      assert (Hc1 : In c cs) by (apply (in_combine_l _ _ _ _ Hin)).
      assert (Hc2 : In c' cs') by (apply (in_combine_r _ _ _ _ Hin)).
      assert (S1 : tree_span t = x) by (apply (child_span c); [apply Hca; exact Hc1|exact Ex|exact Ht]).
      assert (S2 : tree_span t = x') by (apply (child_span c'); [apply Hcb; exact Hc2|exact Ex'|exact Ht']).
      assert (span_eqb x x' = true) by (apply span_eqb_eq; congruence). congruence.
  Qed.

  Lemma node_step n :
    (forall a, In a n -> forall c, In c (alt_children a) -> (c < length asp)%nat) ->
    alts_separated sp n = true ->
    Rd (node_span n) (trees_node ats n).
  Proof.
    intros Hc Hsep. split.
    - unfold trees_node. apply NoDup_flat_map.
      + intros a Ha. apply alt_trees_nodup. exact (Hc a Ha).
      + clear -Hc Hsep HR Hpre. induction n as [|a r IH]; [exact I|].
        cbn [alts_separated] in Hsep. apply andb_true_iff in Hsep. destruct Hsep as [Ha Hr].
        split.
        * intros b Hb t Hta Htb. rewrite forallb_forall in Ha.
          apply (alts_disjoint a b t); [apply Hc; left; reflexivity|apply Hc; right; exact Hb|
                                        exact (Ha b Hb)|exact Hta|exact Htb].
        * apply IH; [intros x Hx; apply Hc; right; exact Hx|exact Hr].
    - intros x Hx t Ht. unfold node_span in Hx. destruct n as [|a0 r]; [discriminate|].
      destruct (forallb (fun b => span_eqb (alt_span a0) (alt_span b)) r) eqn:Hu; [|discriminate].
      inversion Hx; subst x.
      unfold trees_node in Ht. apply in_flat_map in Ht. destruct Ht as (a & Ha & Ht).
      assert (Hsp : alt_span a = alt_span a0).
      { destruct Ha as [<-|Ha]; [reflexivity|]. rewrite forallb_forall in Hu.
        symmetry. apply span_eqb_eq. exact (Hu a Ha). }
      rewrite <- Hsp. destruct a as [y s e|p s e cs]; cbn [trees_alt] in Ht.
      + destruct Ht as [<-|[]]. reflexivity.
      + apply in_map_iff in Ht. destruct Ht as (ts & <- & _). reflexivity.
  Qed.
End Step.

(* ---- the whole forest ------------------------------------------------------ *)

Lemma oks_at k pre n r : oks ok_node k (pre ++ n :: r) -> ok_node (k + length pre) n.
Proof.
  revert k. induction pre as [|m pre IH]; intros k H; cbn [app oks length] in *.
  - rewrite Nat.add_0_r. exact (proj1 H).
  - replace (k + S (length pre))%nat with (S k + length pre)%nat by lia. apply IH. exact (proj2 H).
Qed.

Lemma distinct_main (F : forest) :
  forest_wf F = true -> forest_distinct_ok F = true ->
  Forall2 Rd (spans_of F) (all_trees F).
Proof.
  intros Hwf Hd. unfold forest_distinct_ok in Hd. apply andb_true_iff in Hd. destruct Hd as [Hsep _].
  set (sp := spans_of F) in *.
  (* generalise: process a prefix/suffix split of F *)
  assert (G : forall pre suf, F = pre ++ suf ->
              Forall2 Rd (map node_span pre) (build trees_node [] pre) ->
              Forall2 Rd (map node_span (pre ++ suf)) (build trees_node (build trees_node [] pre) suf)).
  { intros pre suf. revert pre. induction suf as [|n r IH]; intros pre E HR.
    - rewrite app_nil_r. exact HR.
    - cbn [build]. replace (pre ++ n :: r) with ((pre ++ [n]) ++ r) by (rewrite <- app_assoc; reflexivity).
      rewrite <- build_snoc. apply IH; [rewrite <- app_assoc; exact E|].
      rewrite build_snoc, map_app. apply Forall2_app; [exact HR|]. constructor; [|constructor].
      (* the step for node n at index length pre *)
      assert (Hn_in : In n F) by (rewrite E; apply in_or_app; right; left; reflexivity).
      assert (Hlen : length (map node_span pre) = length pre) by apply map_length.
      apply (node_step sp (map node_span pre) (build trees_node [] pre) HR).
      + intros c Hc. rewrite Hlen in Hc. unfold sp, spans_of. rewrite E, map_app.
        rewrite app_nth1 by (rewrite map_length; exact Hc). reflexivity.
      + (* children of n are below it: from forest_wf *)
        intros a Ha c Hc. rewrite Hlen.
        pose proof (oks_of_wf 0 F Hwf) as Hoks. rewrite E in Hoks.
        destruct (oks_at 0 pre n r Hoks) as [_ Hn]. exact (Hn a Ha c Hc).
      + rewrite forallb_forall in Hsep. apply Hsep. exact Hn_in. }
  specialize (G [] F eq_refl). cbn in G. apply G. constructor.
Qed.

Theorem trees_distinct (F : forest) :
  forest_wf F = true -> forest_distinct_ok F = true -> NoDup (root_trees F).
Proof.
  intros Hwf Hd. pose proof (distinct_main F Hwf Hd) as H.
  unfold root_trees. destruct F as [|n r]; [cbn; constructor|].
  assert (Hne : spans_of (n :: r) <> []) by discriminate.
  pose proof (last_Forall2 Rd _ _ None [] H Hne) as HL. exact (proj1 HL).
Qed.

(* consequence for indexing: different indices give different trees *)
Theorem index_injective (F : forest) (i j : N) :
  forest_wf F = true -> forest_distinct_ok F = true -> F <> [] ->
  i < root_count F -> j < root_count F -> tree_at F i = tree_at F j -> i = j.
Proof.
  intros Hwf Hd Hne Hi Hj E.
  rewrite (index_correct F i Hwf Hne Hi), (index_correct F j Hwf Hne Hj) in E.
  inversion E as [E'].
  pose proof (trees_distinct F Hwf Hd) as Hnd.
  pose proof (count_correct F Hwf Hne) as Hc.
  assert (Hi' : (N.to_nat i < length (root_trees F))%nat) by lia.
  assert (Hj' : (N.to_nat j < length (root_trees F))%nat) by lia.
  rewrite NoDup_nth in Hnd. specialize (Hnd _ _ Hi' Hj' E'). lia.
Qed.
