(* shape_in decides (one direction is all the refutations need) whether a tree of a given
   shape unfolds from a node of a forest graph. *)
From Coq Require Import NArith Arith List Bool Lia.
From PV Require Import Spec.Cfg Model.Forest Model.ForestGraph Validators.ForestSound
  Proofs.ForestSoundProofs.
Import ListNotations.
Local Open Scope N_scope.

Definition shape_in_list (F : forest) : list tree -> list nat -> bool :=
  fix go (ts : list tree) (cs : list nat) {struct ts} : bool :=
    match ts, cs with
    | [], [] => true
    | t1 :: tr, c :: cr => shape_in F t1 c && go tr cr
    | _, _ => false
    end.

Lemma shape_in_node F p s e ts k :
  shape_in F (TNode p s e ts) k =
  existsb (fun a => match a with
                    | ATerm _ _ _ => false
                    | ANT p' _ _ cs => (p =? p') && shape_in_list F ts cs
                    end) (nth k F []).
Proof. reflexivity. Qed.

(* if some tree unfolding from k has the shape of t, shape_in finds it *)
Theorem shape_in_complete F :
  forall k t', unfolds F k t' -> forall t, shape t' = shape t -> shape_in F t k = true.
Proof.
  apply (unfolds_ind2 F
           (fun k t' _ => forall t, shape t' = shape t -> shape_in F t k = true)
           (fun cs ts' _ => forall ts, map shape ts' = map shape ts -> shape_in_list F ts cs = true)).
  - intros k y s e Hin t E. destruct t as [y' s' e'|p' s' e' ts]; cbn in E; [|discriminate].
    inversion E; subst. cbn [shape_in]. apply existsb_exists.
    exists (ATerm y' s' e'). split; [exact Hin|]. rewrite !N.eqb_refl. reflexivity.
  - intros k p s e cs ts' Hin Hl IH t E. destruct t as [y' s' e'|p' s' e' ts]; cbn in E; [discriminate|].
    inversion E; subst. rewrite shape_in_node. apply existsb_exists.
    exists (ANT p' s e cs). split; [exact Hin|]. rewrite N.eqb_refl. cbn [andb].
    apply IH. assumption.
  - intros ts E. destruct ts; [reflexivity|discriminate].
  - intros c cs t' ts' Hu IHu Hl IHl ts E. destruct ts as [|t ts]; [discriminate|].
    cbn in E. inversion E. cbn [shape_in_list]. rewrite (IHu t) by assumption.
    cbn [andb]. apply IHl. assumption.
Qed.

Corollary shape_in_false F k t :
  shape_in F t k = false -> forall t', unfolds F k t' -> shape t' <> shape t.
Proof.
  intros H t' Hu E. rewrite (shape_in_complete F k t' Hu t E) in H. discriminate.
Qed.

(* ---- exact membership ------------------------------------------------------------------ *)

Definition tree_in_list (F : forest) : list tree -> list nat -> bool :=
  fix go (ts : list tree) (cs : list nat) {struct ts} : bool :=
    match ts, cs with
    | [], [] => true
    | t1 :: tr, c :: cr => tree_in F t1 c && go tr cr
    | _, _ => false
    end.

Lemma tree_in_node F p s e ts k :
  tree_in F (TNode p s e ts) k =
  existsb (fun a => match a with
                    | ATerm _ _ _ => false
                    | ANT p' s' e' cs => (p =? p') && (s =? s') && (e =? e') && tree_in_list F ts cs
                    end) (nth k F []).
Proof. reflexivity. Qed.

Theorem tree_in_sound F : forall t k, tree_in F t k = true -> unfolds F k t.
Proof.
  induction t as [y s e|p s e ts IH] using tree_ind2; intros k H.
  - cbn [tree_in] in H. apply existsb_exists in H. destruct H as (a & Hin & Ha).
    destruct a as [y' s' e'|? ? ? ?]; [|discriminate].
    apply andb_true_iff in Ha. destruct Ha as [Ha He]. apply andb_true_iff in Ha. destruct Ha as [Hy Hs].
    apply N.eqb_eq in Hy, Hs, He. subst. constructor. exact Hin.
  - rewrite tree_in_node in H. apply existsb_exists in H. destruct H as (a & Hin & Ha).
    destruct a as [? ? ?|p' s' e' cs]; [discriminate|].
    apply andb_true_iff in Ha. destruct Ha as [Ha Hl]. apply andb_true_iff in Ha. destruct Ha as [Ha He].
    apply andb_true_iff in Ha. destruct Ha as [Hp Hs].
    apply N.eqb_eq in Hp, Hs, He. subst. econstructor; [exact Hin|].
    clear Hin. revert cs Hl. induction ts as [|t tr IHr]; intros cs Hl.
    + destruct cs; [constructor|discriminate].
    + destruct cs as [|c cr]; [discriminate|]. cbn [tree_in_list] in Hl.
      apply andb_true_iff in Hl. destruct Hl as [H1 H2]. cbn [All] in IH. destruct IH as [IHt IHtr].
      constructor; [apply IHt; exact H1|apply IHr; assumption].
Qed.

(* ---- reachability ------------------------------------------------------------------------ *)

Lemma reach_from_sound F : forall n seen k,
  In k (reach_from F n seen) -> exists r, In r seen /\ reach F r k.
Proof.
  induction n as [|n IH]; intros seen k H; cbn [reach_from] in H.
  - exists k. split; [exact H|constructor].
  - set (next := flat_map (fun k0 => flat_map alt_children (nth k0 F [])) seen) in *.
    set (fresh := filter (fun c => negb (existsb (Nat.eqb c) seen)) (nodup Nat.eq_dec next)) in *.
    assert (Hfresh : forall r, In r fresh -> exists k0 a, In k0 seen /\ In a (nth k0 F []) /\ In r (alt_children a)).
    { intros r Hr. unfold fresh in Hr. apply filter_In in Hr. destruct Hr as [Hr _].
      apply nodup_In in Hr. unfold next in Hr. apply in_flat_map in Hr. destruct Hr as (k0 & Hk0 & Hr).
      apply in_flat_map in Hr. destruct Hr as (a & Ha & Hr). eauto. }
    destruct fresh as [|f fr] eqn:Ef.
    + exists k. split; [exact H|constructor].
    + destruct (IH _ _ H) as (r & Hr & Hreach). apply in_app_or in Hr. destruct Hr as [Hr|Hr].
      * eauto.
      * destruct (Hfresh r Hr) as (k0 & a & Hk0 & Ha & Hc). exists k0. split; [exact Hk0|].
        econstructor; eassumption.
Qed.
