From Coq Require Import NArith List Bool Lia.
From PV Require Import Model.Errors.
Import ListNotations.
Local Open Scope N_scope.

(* rfind with an accumulator: position of the last newline *)
Lemma rfind_nl_spec l : forall i acc,
  match rfind_nl l i acc with
  | Some k =>
      (existsb (N.eqb NL) l = false /\ acc = Some k) \/
      (existsb (N.eqb NL) l = true /\ i <= k /\ k < i + N.of_nat (length l) /\
       N.of_nat (length (last_line l)) = i + N.of_nat (length l) - k - 1)
  | None => existsb (N.eqb NL) l = false /\ acc = None
  end.
Proof.
  induction l as [|c r IH]; intros i acc.
  - cbn. destruct acc; [left|]; auto.
  - cbn [rfind_nl]. specialize (IH (i + 1) (if c =? NL then Some i else acc)).
    cbn [existsb last_line length].
    destruct (rfind_nl r (i + 1) (if c =? NL then Some i else acc)) as [k|].
    + destruct IH as [[Hr Hacc]|(Hr & H1 & H2 & H3)].
      * rewrite Hr. destruct (N.eqb_spec c NL) as [->|Hne].
        -- inversion Hacc; subst k. right. cbn [orb N.eqb]. rewrite N.eqb_refl. cbn.
           repeat split; try lia.
        -- left. assert (E : (NL =? c) = false) by (apply N.eqb_neq; congruence).
           rewrite E. cbn. split; [reflexivity|exact Hacc].
      * rewrite Hr. right. rewrite orb_true_r. repeat split; try lia.
    + destruct IH as [Hr Hacc]. rewrite Hr.
      destruct (N.eqb_spec c NL) as [->|Hne]; [discriminate|].
      assert (E : (NL =? c) = false) by (apply N.eqb_neq; congruence).
      rewrite E. cbn. auto.
Qed.

Lemma last_line_no_nl l : existsb (N.eqb NL) l = false -> last_line l = l.
Proof.
  induction l as [|c r IH]; intros H; [reflexivity|].
  cbn [existsb] in H. apply orb_false_iff in H. destruct H as [Hc Hr].
  cbn [last_line]. rewrite Hr. rewrite N.eqb_sym in Hc. rewrite Hc. reflexivity.
Qed.

(* line = 1 + number of newlines before p; column = number of characters after the last
   newline before p, for every input and every position inside it *)
Theorem linecol_correct (w : list N) (p : N) :
  p <= N.of_nat (length w) ->
  let pre := firstn (N.to_nat p) w in
  pos_to_line_col w p = (1 + count_nl pre, N.of_nat (length (last_line pre))).
Proof.
  intros Hp pre. unfold pos_to_line_col. fold pre.
  assert (Hlen : N.of_nat (length pre) = p).
  { unfold pre. rewrite firstn_length. lia. }
  f_equal; [lia|].
  pose proof (rfind_nl_spec pre 0 None) as H.
  destruct (rfind_nl pre 0 None) as [k|].
  - destruct H as [[_ Habs]|(_ & _ & _ & H3)]; [discriminate|]. lia.
  - destruct H as [Hno _]. rewrite (last_line_no_nl _ Hno). lia.
Qed.

Theorem eof_iff (w : list N) (p : N) : is_eof w p = true <-> p = N.of_nat (length w).
Proof. unfold is_eof. apply N.eqb_eq. Qed.
