(* C08, losslessness at the level of STRINGS for the LR driver model: if the shifted tokens with
   their recorded layout spans tile the input (LRTraceProofs.tiles), then for every input text
   [s] (a list over any alphabet) the concatenation, over the tokens from left to right, of
   s[layout span] followed by s[start:end] is exactly s[from : end of the last token]:
   nothing is lost, duplicated or invented, whatever the text is. *)
From Coq Require Import NArith List Bool Lia Arith.
From PV Require Import Proofs.LRTraceProofs.
Import ListNotations.
Local Open Scope N_scope.

Section Slice.
  Context {A : Type}.

  (* Python's s[a:b] for 0 <= a <= b (clipped at len(s) like Python's slices) *)
  Definition slice (s : list A) (a b : N) : list A :=
    firstn (N.to_nat (b - a)) (skipn (N.to_nat a) s).

  Lemma firstn_firstn_skipn (n m : nat) : forall l : list A,
    firstn n l ++ firstn m (skipn n l) = firstn (n + m) l.
  Proof.
    induction n as [|n IH]; intros l; [reflexivity|].
    destruct l as [|x l]; cbn [firstn skipn app Nat.add].
    - destruct m; reflexivity.
    - rewrite IH. reflexivity.
  Qed.

  Lemma skipn_plus (m n : nat) : forall l : list A,
    skipn (m + n) l = skipn n (skipn m l).
  Proof.
    induction m as [|m IH]; intros l; [reflexivity|].
    destruct l as [|x l]; cbn [skipn Nat.add]; [destruct n; reflexivity|apply IH].
  Qed.

  Lemma slice_app (s : list A) (a b c : N) :
    a <= b -> b <= c -> slice s a b ++ slice s b c = slice s a c.
  Proof.
    intros Hab Hbc. unfold slice.
    replace (N.to_nat b) with (N.to_nat a + N.to_nat (b - a))%nat by lia.
    rewrite skipn_plus.
    rewrite firstn_firstn_skipn.
    f_equal. lia.
  Qed.

  Lemma slice_nil (s : list A) (a : N) : slice s a a = [].
  Proof. unfold slice. rewrite N.sub_diag. reflexivity. Qed.

  (* what the parser hands out for one token: its layout_content followed by its value *)
  Definition entry_text (s : list A) (x : tr_entry) : list A :=
    slice s (fst (te_lay x)) (snd (te_lay x)) ++ slice s (te_s x) (te_e x).

  Lemma last_end_ge skip :
    (forall p q, skip p = Some q -> p <= q) ->
    forall tr from, tiles skip from tr -> from <= last_end from tr.
  Proof.
    intros Hm tr. induction tr as [|x r IH]; intros from Ht; cbn [tiles last_end] in *.
    - lia.
    - destruct Ht as (_ & Hs & Hle & Hr). specialize (IH _ Hr). specialize (Hm _ _ Hs). lia.
  Qed.

  Theorem tiles_text skip (s : list A) :
    (forall p q, skip p = Some q -> p <= q) ->
    forall tr from, tiles skip from tr ->
      concat (map (entry_text s) tr) = slice s from (last_end from tr).
  Proof.
    intros Hm tr. induction tr as [|x r IH]; intros from Ht; cbn [tiles last_end map concat] in *.
    - rewrite slice_nil. reflexivity.
    - destruct Ht as (Hl & Hs & Hle & Hr).
      rewrite (IH _ Hr). unfold entry_text. rewrite Hl. cbn [fst snd].
      pose proof (Hm _ _ Hs) as H1. pose proof (last_end_ge skip Hm _ _ Hr) as H2.
      rewrite <- app_assoc.
      rewrite (slice_app s (te_s x) (te_e x) (last_end (te_e x) r) Hle H2).
      apply slice_app; lia.
  Qed.

  (* every piece is literally a piece of the input: spans in input order, no overlap *)
  Lemma tiles_ordered skip :
    (forall p q, skip p = Some q -> p <= q) ->
    forall tr from, tiles skip from tr ->
      Forall (fun x => from <= fst (te_lay x) /\ fst (te_lay x) <= snd (te_lay x) /\
                       snd (te_lay x) = te_s x /\ te_s x <= te_e x /\
                       te_e x <= last_end from tr) tr.
  Proof.
    intros Hm tr. induction tr as [|x r IH]; intros from Ht; cbn [tiles last_end] in *; [constructor|].
    destruct Ht as (Hl & Hs & Hle & Hr).
    pose proof (Hm _ _ Hs) as H1. pose proof (last_end_ge skip Hm _ _ Hr) as H2.
    constructor.
    - rewrite Hl. cbn [fst snd]. lia.
    - specialize (IH _ Hr). eapply Forall_impl; [|exact IH].
      cbn beta. intros y Hy. lia.
  Qed.
End Slice.
