(* The GLR driver model never ends in GLRCrash: with a table that passes table_struct and
   table_progress (Validators/TableProgress.v) and an iteration order of the revisit set that
   only yields members of the set it is computed from, none of the internal failures of
   GLRParser.parse can occur -- no head without lookahead token reaches _actor (AttributeError on
   head.token_ahead.symbol), every production reduced exists and its goto is defined (KeyError
   in root_head.state.gotos[...]), every state revisited is an active head (KeyError in
   self._active_heads[...]), and an accepted head always has a link (IndexError in
   results.pop() of Forest.__init__).  Third invariant on top of Proofs/GLRProofs.v. *)
From Coq Require Import NArith Arith List Bool Lia.
From PV Require Import Spec.Cfg Model.Table Model.Forest Model.LRDriver Model.Scan Model.Parser
  Model.GLR Validators.TableStruct Validators.TableProgress Proofs.LRNoCrashProofs
  Proofs.GLRProofs Proofs.GLRTokProofs.
Import ListNotations.

Section NoCrash.
  Variable g : grammar.
  Variable tb : table.
  Variable start : N.
  Variable terms : list term_info.
  Variable rx : N -> N -> option N.
  Variables in_len stop_id : N.
  Variables consume lexdis : bool.
  Variable skipws : N -> skres.
  Variable rorder : list nat -> list nat -> list nat.
  Hypothesis Hts : table_struct g tb start = true.
  Hypothesis Hpr : table_progress g tb stop_id = true.
  Hypothesis Hrord : forall keys other x, In x (rorder keys other) -> In x keys.

  Notation step := (glr_step g tb terms rx in_len stop_id consume lexdis skipws rorder).

  Definition has_tok (ns : list gnode) (h : nat) : Prop := exists t, n_tok (nth h ns dnode) = Some t.
  Definition has_par (ns : list gnode) (h : nat) : Prop :=
    n_state (nth h ns dnode) <> 0 -> n_parents (nth h ns dnode) <> [].
  Definition good_head (ns : list gnode) (h : nat) : Prop :=
    h < length ns /\ has_tok ns h /\ has_par ns h.

  Lemma has_tok_ext ns ps ns' ps' h :
    ext ns ps ns' ps' -> h < length ns -> has_tok ns h -> has_tok ns' h.
  Proof. intros (_ & _ & H & _) Hh [t Ht]. exists t. apply (H h Hh). exact Ht. Qed.

  Lemma has_par_ext ns ps ns' ps' h :
    ext ns ps ns' ps' -> h < length ns -> has_par ns h -> has_par ns' h.
  Proof.
    intros (_ & _ & H & _) Hh Hp. destruct (H h Hh) as (E & _ & _ & G). unfold has_par in *.
    rewrite E. intros Hs. specialize (Hp Hs). destruct (n_parents (nth h ns dnode)) as [|x r]; [congruence|].
    intros E0. specialize (G x (or_introl eq_refl)). rewrite E0 in G. destruct G.
  Qed.

  Lemma good_head_ext ns ps ns' ps' h :
    ext ns ps ns' ps' -> good_head ns h -> good_head ns' h.
  Proof.
    intros He (H1 & H2 & H3). pose proof He as (L1 & _).
    split; [lia|]. split; [eapply has_tok_ext; eassumption|eapply has_par_ext; eassumption].
  Qed.

  Definition persym3 (ns : list gnode) (d : list (N * list (nat * nat))) : Prop :=
    Forall (fun yd => Forall (fun sh => good_head ns (snd sh)) (snd yd)) d.

  Lemma persym3_ext ns ps ns' ps' d : ext ns ps ns' ps' -> persym3 ns d -> persym3 ns' d.
  Proof.
    intros He H. unfold persym3 in *. rewrite Forall_forall in *. intros yd Hyd. specialize (H yd Hyd).
    rewrite Forall_forall in *. intros x Hx. eapply good_head_ext; [exact He|apply H; exact Hx].
  Qed.

  Lemma ps_add3 ns d y s h : persym3 ns d -> good_head ns h -> persym3 ns (ps_add d y s h).
  Proof.
    intros Hd Hh. unfold ps_add. destruct (dget N.eqb y d) as [dd|] eqn:Eg.
    - apply dget_In in Eg. destruct Eg as (y' & Hin & _).
      unfold persym3 in *. apply Forall_dset; [exact Hd|]. cbn [snd].
      rewrite Forall_forall in Hd. specialize (Hd _ Hin). cbn [snd] in Hd.
      apply Forall_dset; [exact Hd|exact Hh].
    - unfold persym3. apply Forall_app. split; [exact Hd|]. constructor; [|constructor].
      cbn. constructor; [exact Hh|constructor].
  Qed.

  (* ---- _find_lookaheads -------------------------------------------------------------------- *)

  Lemma for_token3 st h tok st' h' :
    for_token st h tok = (st', h') -> h < length (s_nodes st) -> has_par (s_nodes st) h ->
    has_tok (s_nodes st') h' /\ has_par (s_nodes st') h'.
  Proof.
    unfold for_token, getn. intros H Hh Hp.
    destruct (n_tok (nth h (s_nodes st) dnode)) as [t|] eqn:Et.
    - destruct (tk_id t =? tk_id tok)%N.
      + injection H as <- <-. split; [exists t; exact Et|exact Hp].
      + injection H as <- <-. cbn [set_nodes s_nodes]. unfold has_tok, has_par.
        rewrite app_nth2, Nat.sub_diag by lia. cbn [nth n_tok n_state n_parents].
        split; [eauto|exact Hp].
    - injection H as <- <-. cbn [upd_node set_nodes s_nodes]. unfold has_tok, has_par.
      rewrite nth_list_upd_eq by exact Hh. cbn [n_set_tok n_tok n_state n_parents]. split; [eauto|exact Hp].
  Qed.

  Lemma assign_tokens3 : forall toks st h pos,
    heap_ok g tb (s_nodes st) (s_pars st) -> h < length (s_nodes st) ->
    persym_ok (s_nodes st) (s_persym st) -> has_par (s_nodes st) h ->
    persym3 (s_nodes st) (s_persym st) ->
    let st' := assign_tokens stop_id st h pos toks in
    persym3 (s_nodes st') (s_persym st').
  Proof.
    induction toks as [|[y len] r IH]; intros st h pos Hheap Hh Hpv Hp Hps; cbn [assign_tokens]; [exact Hps|].
    destruct (mk_token stop_id st y pos len) as [tok st1] eqn:Em.
    destruct (mk_token_same _ _ _ _ _ _ _ Em) as (En & Ep & Er).
    destruct (for_token st1 h tok) as [st2 h'] eqn:Ef.
    rewrite <- En, <- Ep in Hheap. rewrite <- En in Hh, Hp, Hps, Hpv.
    destruct (for_token_ok g tb _ _ _ _ _ Ef Hheap Hh) as (L1 & L2 & L3 & L4 & L5).
    destruct (for_token3 _ _ _ _ _ Ef Hh Hp) as [T1 T2].
    unfold regs in L5, Er. inversion L5 as [[A1 A2 A3 A4 A5 A6]]. inversion Er as [[C1 C2 C3 C4 C5 C6]].
    set (st3 := set_persym st2 (ps_add (s_persym st2) y (n_state (getn st2 h')) h')).
    apply (IH st3 h' pos); cbn [st3 set_persym s_nodes s_pars s_persym]; try assumption.
    - apply ps_add_ok; [|exact L3|reflexivity]. rewrite A2. eapply persym_ok_ext; [exact L2|]. rewrite C2. exact Hpv.
    - apply ps_add3; [|split; [exact L3|split; assumption]].
      rewrite A2. eapply persym3_ext; [exact L2|]. rewrite C2. exact Hps.
  Qed.

  Lemma find_la3 : forall act st st',
    find_la tb terms rx in_len stop_id consume lexdis skipws st act = FOk st' ->
    heap_ok g tb (s_nodes st) (s_pars st) -> persym_ok (s_nodes st) (s_persym st) ->
    dict_ok (s_nodes st) act -> Forall (fun sh => has_par (s_nodes st) (snd sh)) act ->
    persym3 (s_nodes st) (s_persym st) ->
    persym3 (s_nodes st') (s_persym st').
  Proof.
    induction act as [|[s h] r IH]; intros st st' H Hheap Hpv Hd Hpar Hps; cbn [find_la] in H.
    - inversion H; subst. exact Hps.
    - inversion Hd as [|x l [Hh Hs] Hr]; subst x l. cbn [fst snd] in Hh, Hs.
      inversion Hpar as [|x l Hp Hparr]; subst x l. cbn [snd] in Hp.
      destruct (n_tok (getn st h)) as [t|] eqn:Et.
      + apply IH in H; [exact H|exact Hheap| |exact Hr|exact Hparr|].
        * cbn [set_persym s_nodes s_persym]. apply ps_add_ok; [exact Hpv|exact Hh|reflexivity].
        * cbn [set_persym s_nodes s_persym]. apply ps_add3; [exact Hps|].
          split; [exact Hh|]. split; [exists t; exact Et|exact Hp].
      + destruct (skipws (n_pos (getn st h))) as [p| |] eqn:Esk; try discriminate.
        set (st1 := upd_node st h (n_set_pos p)) in *.
        set (ns := s_nodes st) in *. set (ps := s_pars st) in *.
        assert (Hs1 : n_state (n_set_pos p (nth h ns dnode)) = n_state (nth h ns dnode)) by reflexivity.
        assert (Ht1 : forall t, n_tok (nth h ns dnode) = Some t ->
                                n_tok (n_set_pos p (nth h ns dnode)) = Some t) by auto.
        pose proof (ext_upd_node ns ps h _ Hs1 Ht1 eq_refl (fun x H => H)) as He1.
        assert (Hheap1 : heap_ok g tb (s_nodes st1) (s_pars st1)).
        { cbn [st1 upd_node set_nodes s_nodes s_pars].
          apply heap_upd_node; [exact Hs1|exact Ht1|reflexivity|exact (fun x H => H)|exact Hheap|].
          intros _. apply (node_ok_same _ _ (nth h ns dnode)); [reflexivity|reflexivity|].
          eapply node_ok_ext; [exact He1|]. destruct Hheap as [_ Hn]. apply Hn. exact Hh. }
        assert (Hh1 : h < length (s_nodes st1)) by (cbn [st1 upd_node set_nodes s_nodes]; rewrite list_upd_length; exact Hh).
        assert (Hpv1 : persym_ok (s_nodes st1) (s_persym st1)).
        { cbn [st1 upd_node set_nodes s_nodes s_persym]. eapply persym_ok_ext; [exact He1|exact Hpv]. }
        assert (Hps1 : persym3 (s_nodes st1) (s_persym st1)).
        { cbn [st1 upd_node set_nodes s_nodes s_persym]. eapply persym3_ext; [exact He1|exact Hps]. }
        assert (Hp1 : has_par (s_nodes st1) h).
        { cbn [st1 upd_node set_nodes s_nodes]. eapply has_par_ext; [exact He1|exact Hh|exact Hp]. }
        set (toks := rev (tokens_at tb terms rx in_len stop_id consume lexdis (n_state (getn st h)) p)) in *.
        pose proof (assign_tokens_ok g tb stop_id toks st1 h p Hheap1 Hh1 Hpv1) as L. cbn zeta in L.
        destruct L as (L1 & L2 & L3 & L4 & L5).
        pose proof (assign_tokens3 toks st1 h p Hheap1 Hh1 Hpv1 Hp1 Hps1) as A. cbn zeta in A.
        assert (He : ext ns ps (s_nodes (assign_tokens stop_id st1 h p toks)) (s_pars (assign_tokens stop_id st1 h p toks))).
        { eapply ext_trans; [|exact L2]. cbn [st1 upd_node set_nodes s_nodes s_pars]. exact He1. }
        apply IH in H; [exact H|exact L1|exact L3| | |exact A].
        * eapply dict_ok_ext; [exact He|exact Hr].
        * unfold dict_ok in Hr. rewrite Forall_forall in *. intros x Hx.
          eapply has_par_ext; [exact He|exact (proj1 (Hr x Hx))|apply Hparr; exact Hx].
  Qed.

  (* ---- _do_shifts ---------------------------------------------------------------------------- *)

  Lemma create_link_par st hd root s e a st' cr pi :
    create_link st hd root s e a = (st', cr, pi) -> hd < length (s_nodes st) ->
    n_parents (nth hd (s_nodes st') dnode) <> [].
  Proof.
    unfold create_link, getn. intros H Hhd.
    destruct (dget key_eqb (node_id (nth root (s_nodes st) dnode)) (n_parents (nth hd (s_nodes st) dnode))) as [ep|] eqn:Eg.
    - injection H as <- <- <-. cbn [upd_par set_pars s_nodes]. apply dget_In in Eg.
      destruct Eg as (k' & Hin & _). intros E. rewrite E in Hin. destruct Hin.
    - injection H as <- <- <-. cbn [upd_node set_nodes set_pars s_nodes].
      rewrite nth_list_upd_eq by exact Hhd. cbn [n_add_parent n_parents]. intros E. apply app_eq_nil in E.
      destruct E as [_ E]. discriminate.
  Qed.

  Lemma shift_loop3 : forall todo st endp st' rest,
    shift_loop st todo endp = (st', rest) ->
    heap_ok g tb (s_nodes st) (s_pars st) -> dict_ok (s_nodes st) (s_active st) ->
    Forall (shift_ok tb (s_nodes st)) todo ->
    Forall (fun sh => has_par (s_nodes st) (snd sh)) (s_active st) ->
    Forall (fun sh => has_par (s_nodes st') (snd sh)) (s_active st').
  Proof.
    induction todo as [|[h s'] r IH]; intros st endp st' rest H Hheap Hd Htodo Hpar; cbn [shift_loop] in H.
    - inversion H; subst. exact Hpar.
    - inversion Htodo as [|x l (Hh & t & Ht & Hin) Hr]; subst x l. cbn [fst snd] in Hh, Ht, Hin.
      assert (Etk : tok_of st h = t). { unfold tok_of, getn. rewrite Ht. reflexivity. }
      rewrite Etk in H.
      destruct (match endp with Some e => (e <? tok_end t)%N | None => false end).
      { inversion H; subst. exact Hpar. }
      set (ns := s_nodes st) in *. set (ps := s_pars st) in *.
      set (sp := n_pos (getn st h)) in *. set (ep := (sp + tk_len t)%N) in *.
      destruct (dget Nat.eqb s' (s_active st)) as [sh|] eqn:Eg.
      + destruct (dget_dict _ _ _ _ Hd Eg) as [Hsh Hss].
        destruct (create_link st sh h sp ep (ATerm (tk_sym t) sp ep)) as [[st1 cr] pi] eqn:Ec.
        destruct (create_link_ok g tb _ _ _ _ _ _ _ _ _ Ec Hheap Hsh Hh) as (C1 & C2 & C3 & C4 & C5).
        { exists (T (tk_sym t)). split; [|reflexivity]. fold ns. rewrite Hss. exact Hin. }
        destruct (regs_regs3 _ _ C4) as [_ Ra].
        apply IH in H; [exact H|exact C1| | |].
        * rewrite Ra. eapply dict_ok_ext; eassumption.
        * rewrite Forall_forall in *. intros x Hx. eapply shift_ok_ext; [exact C2|apply Hr; exact Hx].
        * rewrite Ra. unfold dict_ok in Hd. rewrite Forall_forall in *. intros x Hx.
          eapply has_par_ext; [exact C2|exact (proj1 (Hd x Hx))|apply Hpar; exact Hx].
      + set (newn := mkNode s' ep (n_frontier (getn st h) + 1)%N None []) in *.
        set (st1 := set_nodes st (ns ++ [newn])) in *.
        set (st2 := set_active st1 (dset Nat.eqb s' (length ns) (s_active st1))) in *.
        pose proof (ext_app_node ns ps newn) as He1.
        assert (Hheap2 : heap_ok g tb (s_nodes st2) (s_pars st2)).
        { cbn [st2 st1 set_active set_nodes s_nodes s_pars]. apply heap_app_node; [exact Hheap|]. intros k q []. }
        assert (Hn2 : s_nodes st2 = ns ++ [newn]) by reflexivity.
        assert (Hlen : length (s_nodes st2) = S (length ns)) by (rewrite Hn2, app_length; cbn; lia).
        destruct (create_link st2 (length ns) h sp ep (ATerm (tk_sym t) sp ep)) as [[st3 cr] pi] eqn:Ec.
        destruct (create_link_ok g tb _ _ _ _ _ _ _ _ _ Ec Hheap2) as (C1 & C2 & C3 & C4 & C5); [lia|lia| |].
        { exists (T (tk_sym t)). split; [|reflexivity]. rewrite Hn2.
          rewrite (ext_nstate _ _ _ _ _ He1 Hh).
          replace (nstate (ns ++ [newn]) (length ns)) with s'
            by (unfold nstate; rewrite app_nth2, Nat.sub_diag by lia; reflexivity).
          exact Hin. }
        pose proof (create_link_par _ _ _ _ _ _ _ _ _ Ec ltac:(lia)) as Hnp.
        destruct (regs_regs3 _ _ C4) as [_ Ra].
        apply IH in H; [exact H|exact C1| | |].
        * rewrite Ra. eapply dict_ok_ext; [exact C2|].
          cbn [st2 st1 set_active set_nodes s_nodes s_active]. apply Forall_dset.
          -- eapply dict_ok_ext; [exact He1|exact Hd].
          -- cbn [fst snd]. split; [rewrite app_length; cbn; lia|].
             unfold nstate. rewrite app_nth2, Nat.sub_diag by lia. reflexivity.
        * rewrite Forall_forall in *. intros x Hx. eapply shift_ok_ext; [exact C2|].
          rewrite Hn2. eapply shift_ok_ext; [exact He1|apply Hr; exact Hx].
        * rewrite Ra. cbn [st2 st1 set_active set_nodes s_active]. apply Forall_dset.
          -- unfold dict_ok in Hd. rewrite Forall_forall in *. intros x Hx.
             eapply has_par_ext; [exact C2|rewrite Hlen; pose proof (proj1 (Hd x Hx)); lia|].
             rewrite Hn2. eapply has_par_ext; [exact He1|exact (proj1 (Hd x Hx))|apply Hpar; exact Hx].
          -- cbn [snd]. intros _. exact Hnp.
  Qed.

  (* ---- the invariant --------------------------------------------------------------------------- *)

  Inductive shape : list frame -> Prop :=
  | sh_loop : shape [FLoop]
  | sh_shift : shape [FShift]
  | sh_subs : shape [FSubs; FShift]
  | sh_inner inner : forallb is_inner inner = true -> shape (inner ++ suffix3).

  Definition regs3 (ns : list gnode) (st : gst) (loop : bool) : Prop :=
    (loop = false -> Forall (fun sh => good_head ns (snd sh)) (s_active st)) /\
    (loop = true -> Forall (fun sh => has_par ns (snd sh)) (s_active st)) /\
    persym3 ns (s_persym st) /\ Forall (good_head ns) (s_actor st) /\
    Forall (has_par ns) (s_accepted st).

  Definition nz_reduce (a : action) : Prop := match a with Reduce p => p <> 0%N | _ => True end.

  Definition frame3 (ns : list gnode) (act : list (nat * nat)) (f : frame) : Prop :=
    match f with
    | FLoop | FSubs | FActorLoop | FShift => True
    | FActor h _ => good_head ns h
    | FDoRed h p _ => good_head ns h /\ p <> 0%N
    | FRed h p _ _ _ => good_head ns h /\ p <> 0%N
    | FReduce h root p _ _ _ => good_head ns h /\ p <> 0%N /\ In (p, 0) (items tb (nstate ns root))
    | FRevisit _ _ states => Forall (fun s => dget Nat.eqb s act <> None) states
    | FRevActs rh _ acts => good_head ns rh /\ Forall nz_reduce acts
    end.

  Definition inv3 (st : gst) (fr : list frame) : Prop :=
    shape fr /\ regs3 (s_nodes st) st (loopb fr) /\ Forall (frame3 (s_nodes st) (s_active st)) fr.

  Definition nocrash (o : outcome) : Prop := match o with Fin (GLRCrash _) => False | _ => True end.

  Lemma shape_inner_top f k : shape (f :: k) -> is_inner f = true ->
    exists inner, k = inner ++ suffix3 /\ forallb is_inner inner = true.
  Proof.
    intros H Hf. inversion H as [E|E|E|inner Hin E]; subst; try discriminate.
    destruct inner as [|f' inner']; cbn in E; inversion E; subst; [discriminate|].
    cbn in Hin. apply andb_true_iff in Hin. destruct Hin as [_ Hin]. exists inner'. auto.
  Qed.

  Lemma shape_push (fs inner : list frame) :
    forallb is_inner fs = true -> forallb is_inner inner = true -> shape (fs ++ inner ++ suffix3).
  Proof. intros H1 H2. rewrite app_assoc. apply sh_inner. rewrite forallb_app, H1, H2. reflexivity. Qed.

  Lemma frame3_ext ns ps ns' ps' act act' f :
    ext ns ps ns' ps' -> (forall s, dget Nat.eqb s act <> None -> dget Nat.eqb s act' <> None) ->
    frame_ok g tb ns ps f -> frame3 ns act f -> frame3 ns' act' f.
  Proof.
    intros He Hact.
    destruct f as [| | | |h acts|h p upd|h p upd tp cur|h root p children s e|y par states|rh par acts];
      cbn [frame_ok frame3]; auto.
    - intros _ H. eapply good_head_ext; eassumption.
    - intros _ [H1 H2]. split; [eapply good_head_ext; eassumption|exact H2].
    - intros _ [H1 H2]. split; [eapply good_head_ext; eassumption|exact H2].
    - intros (_ & Hr & _) (H1 & H2 & H3). split; [eapply good_head_ext; eassumption|]. split; [exact H2|].
      rewrite (ext_nstate _ _ _ _ _ He Hr). exact H3.
    - intros _ H. rewrite Forall_forall in *. intros s Hs. apply Hact. apply H. exact Hs.
    - intros _ [H1 H2]. split; [eapply good_head_ext; eassumption|exact H2].
  Qed.

  Lemma frames3_ext ns ps ns' ps' act act' fr :
    ext ns ps ns' ps' -> (forall s, dget Nat.eqb s act <> None -> dget Nat.eqb s act' <> None) ->
    Forall (frame_ok g tb ns ps) fr -> Forall (frame3 ns act) fr -> Forall (frame3 ns' act') fr.
  Proof.
    intros He Hact H1 H2. induction fr as [|f r IH]; [constructor|].
    inversion H1; subst. inversion H2; subst. constructor; [eapply frame3_ext; eassumption|auto].
  Qed.

  Lemma dget_dset_keep {V} (d : list (nat * V)) k v s :
    dget Nat.eqb s d <> None -> dget Nat.eqb s (dset Nat.eqb k v d) <> None.
  Proof.
    induction d as [|[k' v'] r IH]; cbn; [congruence|].
    destruct (Nat.eqb s k') eqn:E1.
    - intros _. destruct (Nat.eqb k k') eqn:E2; cbn.
      + apply Nat.eqb_eq in E1, E2. subst. rewrite Nat.eqb_refl. discriminate.
      + rewrite E1. discriminate.
    - intros H. destruct (Nat.eqb k k') eqn:E2; cbn.
      + apply Nat.eqb_eq in E2. subst k'. rewrite E1. exact H.
      + rewrite E1. apply IH. exact H.
  Qed.

  Lemma In_key_dget {V} (d : list (nat * V)) s : In s (map fst d) -> dget Nat.eqb s d <> None.
  Proof.
    induction d as [|[k v] r IH]; cbn; [intros []|].
    destruct (Nat.eqb s k) eqn:E; [discriminate|]. intros [H|H]; [subst; rewrite Nat.eqb_refl in E; discriminate|auto].
  Qed.

  Lemma pop_last_nonempty {X} (l : list X) : l <> [] -> pop_last l <> None.
  Proof. destruct l as [|a r]; [congruence|]. cbn. destruct (pop_last r) as [[? ?]|]; discriminate. Qed.

  Lemma acc_state_nonzero ns h : acc_ok tb ns h -> n_state (nth h ns dnode) <> 0.
  Proof.
    intros [_ Hi] E. unfold nstate in Hi. rewrite E in Hi.
    pose proof (items0 g tb start Hts _ _ Hi). discriminate.
  Qed.

  Lemma build_forest_nocrash st :
    Forall (acc_ok tb (s_nodes st)) (s_accepted st) -> Forall (has_par (s_nodes st)) (s_accepted st) ->
    s_accepted st <> [] -> nocrash (Fin (build_forest st)).
  Proof.
    intros Ha Hp Hne. unfold build_forest.
    destruct (s_accepted st) as [|h r] eqn:E; [congruence|].
    inversion Ha; subst. inversion Hp; subst.
    assert (Hnp : n_parents (getn st h) <> []) by (apply H3; eapply acc_state_nonzero; eassumption).
    cbn [flat_map].
    destruct (pop_last (map snd (n_parents (getn st h)) ++ flat_map (fun h0 => map snd (n_parents (getn st h0))) r))
      as [[rest root]|] eqn:Ep; [exact I|].
    exfalso. revert Ep. apply pop_last_nonempty.
    destruct (n_parents (getn st h)); [congruence|]. discriminate.
  Qed.

  (* ---- steps -------------------------------------------------------------------------------------- *)

  Definition good_step (st : gst) (fr : list frame) : Prop :=
    nocrash (step st fr) /\ forall st' fr', step st fr = Go st' fr' -> inv3 st' fr'.

  Lemma shape_top_FLoop k : shape (FLoop :: k) -> k = [].
  Proof.
    intros H. inversion H as [E|E|E|inner Hin E]; subst; [reflexivity|].
    destruct inner as [|f r]; cbn in E; inversion E; subst. cbn in Hin. discriminate.
  Qed.
  Lemma shape_top_FShift k : shape (FShift :: k) -> k = [].
  Proof.
    intros H. inversion H as [E|E|E|inner Hin E]; subst; [reflexivity|].
    destruct inner as [|f r]; cbn in E; inversion E; subst. cbn in Hin. discriminate.
  Qed.
  Lemma shape_top_FSubs k : shape (FSubs :: k) -> k = [FShift].
  Proof.
    intros H. inversion H as [E|E|E|inner Hin E]; subst; [reflexivity|].
    destruct inner as [|f r]; cbn in E; inversion E; subst. cbn in Hin. discriminate.
  Qed.
  Lemma shape_top_FActorLoop k : shape (FActorLoop :: k) -> k = [FSubs; FShift].
  Proof.
    intros H. inversion H as [E|E|E|inner Hin E]; subst.
    destruct inner as [|f r]; cbn in E; inversion E; subst; [reflexivity|]. cbn in Hin. discriminate.
  Qed.

  Lemma step3_FLoop st k : inv g tb st (FLoop :: k) -> inv3 st (FLoop :: k) -> good_step st (FLoop :: k).
  Proof.
    intros (Hheap & (V1 & V2 & V3 & V4 & V5) & Hfr1) (Hsh & (_ & R2 & R3 & R4 & R5) & Hfr).
    pose proof (shape_top_FLoop _ Hsh) as ->. cbn [loopb] in R2. specialize (R2 eq_refl).
    unfold good_step. cbn [glr_step].
    destruct (s_active st) as [|a0 ar] eqn:Ea.
    - split; [|intros ? ? E; discriminate].
      destruct (s_accepted st) eqn:Eacc; [exact I|]. rewrite <- Eacc in *.
      apply build_forest_nocrash; [exact V5|exact R5|rewrite Eacc; discriminate].
    - rewrite <- Ea in *. clear Ea a0 ar.
      destruct (find_la tb terms rx in_len stop_id consume lexdis skipws (set_persym st []) (rev (s_active st)))
        as [st1| |] eqn:Ef; [|split; [exact I|intros ? ? E; discriminate]..].
      split; [exact I|]. intros st' fr' E. injection E as <- <-.
      destruct (find_la_ok g tb _ _ _ _ _ _ _ _ _ _ Ef) as (B1 & B2 & B3 & B4 & B5).
      { exact Hheap. } { constructor. } { apply Forall_rev. exact V1. }
      pose proof (find_la3 _ _ _ Ef Hheap) as C. cbn [set_persym s_nodes s_persym] in C.
      assert (C' : persym3 (s_nodes st1) (s_persym st1)).
      { apply C; [constructor|apply Forall_rev; exact V1|apply Forall_rev; exact R2|constructor]. }
      cbn [set_persym s_nodes s_pars] in B2. unfold regs4 in B5. inversion B5 as [[E1 E2 E3 E4]].
      cbn [set_persym s_actor s_trav s_shifter s_accepted] in E1, E2, E3, E4.
      split; [apply sh_subs|]. split.
      + cbn [loopb]. unfold regs3. rewrite B4, E1, E4.
        split; [intros _; constructor|]. split; [intros E; discriminate|]. split; [exact C'|]. split.
        * rewrite Forall_forall in *. intros h Hh. eapply good_head_ext; [exact B2|apply R4; exact Hh].
        * rewrite Forall_forall in *. intros h Hh. eapply has_par_ext; [exact B2|exact (proj1 (V5 h Hh))|apply R5; exact Hh].
      + constructor; [exact I|constructor; [exact I|constructor]].
  Qed.

  Lemma step3_FSubs st k : inv g tb st (FSubs :: k) -> inv3 st (FSubs :: k) -> good_step st (FSubs :: k).
  Proof.
    intros Hinv (Hsh & (R1 & R2 & R3 & R4 & R5) & Hfr).
    pose proof (shape_top_FSubs _ Hsh) as ->. cbn [loopb] in *.
    unfold good_step. cbn [glr_step].
    destruct (pop_last (s_persym st)) as [[rest [y d]]|] eqn:Ep.
    - split; [exact I|]. intros st' fr' E. injection E as <- <-. apply pop_last_app in Ep.
      unfold persym3 in R3. rewrite Ep in R3. apply Forall_app in R3. destruct R3 as [R3a R3b].
      inversion R3b as [|x l Hd _]; subst x l. cbn [snd] in Hd.
      split; [apply (sh_inner []); reflexivity|]. split.
      + cbn. unfold regs3. cbn. split; [intros _; exact Hd|]. split; [intros E; discriminate|].
        split; [exact R3a|]. split; [|exact R5].
        rewrite Forall_forall in *. intros h Hh. apply in_map_iff in Hh. destruct Hh as (x & <- & Hx). apply Hd. exact Hx.
      + constructor; [exact I|]. cbn [set_trav set_actor set_active set_persym s_nodes s_active].
        inversion Hfr; subst. constructor; [exact I|constructor; [exact I|constructor]].
    - split; [exact I|]. intros st' fr' E. injection E as <- <-.
      split; [apply sh_shift|]. split; [cbn [loopb]; split; [exact R1|split; [exact R2|split; [exact R3|split; assumption]]]|].
      constructor; [exact I|constructor].
  Qed.

  Lemma step3_FActorLoop st k :
    inv g tb st (FActorLoop :: k) -> inv3 st (FActorLoop :: k) -> good_step st (FActorLoop :: k).
  Proof.
    intros Hinv (Hsh & (R1 & R2 & R3 & R4 & R5) & Hfr).
    pose proof (shape_top_FActorLoop _ Hsh) as ->. cbn [loopb] in *.
    unfold good_step. cbn [glr_step].
    destruct (pop_last (s_actor st)) as [[rest h]|] eqn:Ep.
    - apply pop_last_app in Ep. rewrite Ep in R4. apply Forall_app in R4. destruct R4 as [R4a R4b].
      inversion R4b as [|x l Hh _]; subst x l. pose proof Hh as (_ & [t Ht] & _).
      unfold getn. rewrite Ht. split; [exact I|]. intros st' fr' E. injection E as <- <-.
      split; [apply (sh_inner [FActor h _]); reflexivity|]. split.
      + cbn. unfold regs3. cbn. split; [exact R1|]. split; [exact R2|]. split; [exact R3|]. split; assumption.
      + constructor; [exact Hh|]. cbn [set_actor s_nodes s_active]. exact Hfr.
    - split; [exact I|]. intros st' fr' E. injection E as <- <-.
      split; [apply sh_subs|]. split; [cbn [loopb]; split; [exact R1|split; [exact R2|split; [exact R3|split; assumption]]]|].
      inversion Hfr; assumption.
  Qed.

  (* an inner top frame replaced by inner frames, registers read by regs3 given anew *)
  Lemma inv3_replace st st' f k fs :
    inv3 st (f :: k) -> is_inner f = true -> forallb is_inner fs = true ->
    regs3 (s_nodes st') st' false ->
    Forall (frame3 (s_nodes st') (s_active st')) (fs ++ k) ->
    inv3 st' (fs ++ k).
  Proof.
    intros (Hsh & _ & _) Hf Hfs Hregs Hfr.
    destruct (shape_inner_top _ _ Hsh Hf) as (inner & -> & Hin).
    split; [apply shape_push; assumption|]. split; [|exact Hfr].
    rewrite app_assoc. rewrite (loopb_suffix (fs ++ inner)); [exact Hregs|].
    rewrite forallb_app, Hfs, Hin. reflexivity.
  Qed.

  Lemma inv3_regs_inner st f k : inv3 st (f :: k) -> is_inner f = true ->
    regs3 (s_nodes st) st false /\ frame3 (s_nodes st) (s_active st) f /\
    Forall (frame3 (s_nodes st) (s_active st)) k.
  Proof.
    intros (_ & Hr & Hfr) Hf. rewrite (loopb_inner _ _ Hf) in Hr. inversion Hfr; subst. auto.
  Qed.

  Lemma step3_FActor st h acts k :
    inv g tb st (FActor h acts :: k) -> inv3 st (FActor h acts :: k) -> good_step st (FActor h acts :: k).
  Proof.
    intros (Hheap & Hregs1 & Hfr1) Hinv3.
    destruct (inv3_regs_inner _ _ _ Hinv3 eq_refl) as ((R1 & R2 & R3 & R4 & R5) & Hh & Hk).
    cbn [frame3] in Hh.
    inversion Hfr1 as [|x l Hf1 _]; subst x l. cbn [frame_ok] in Hf1. destruct Hf1 as (Hhv & t & Ht & Hall).
    unfold good_step. cbn [glr_step]. destruct acts as [|[s'|p|] r]; (split; [exact I|]); intros st' fr' E; injection E as <- <-.
    - apply (inv3_replace st st _ k [] Hinv3); try reflexivity; [|exact Hk].
      split; [exact R1|split; [exact R2|split; [exact R3|split; assumption]]].
    - apply (inv3_replace st _ _ k [FActor h r] Hinv3); try reflexivity.
      + unfold regs3. cbn. split; [exact R1|split; [exact R2|split; [exact R3|split; assumption]]].
      + cbn [set_shifter s_nodes s_active]. constructor; [exact Hh|exact Hk].
    - inversion Hall as [|x l Hin _]; subst x l.
      apply (inv3_replace st st _ k [FDoRed h p None; FActor h r] Hinv3); try reflexivity.
      + split; [exact R1|split; [exact R2|split; [exact R3|split; assumption]]].
      + constructor; [|constructor; [exact Hh|exact Hk]]. cbn [frame3]. split; [exact Hh|].
        eapply (reduce_not_zero g tb stop_id Hpr). exact Hin.
    - apply (inv3_replace st _ _ k [FActor h r] Hinv3); try reflexivity.
      + unfold regs3. cbn. split; [exact R1|split; [exact R2|split; [exact R3|split; [exact R4|]]]].
        apply Forall_app. split; [exact R5|]. constructor; [exact (proj2 (proj2 Hh))|constructor].
      + cbn [set_accepted s_nodes s_active]. constructor; [exact Hh|exact Hk].
  Qed.

  Lemma step3_FDoRed st h p upd k :
    inv g tb st (FDoRed h p upd :: k) -> inv3 st (FDoRed h p upd :: k) -> good_step st (FDoRed h p upd :: k).
  Proof.
    intros (Hheap & Hregs1 & Hfr1) Hinv3.
    destruct (inv3_regs_inner _ _ _ Hinv3 eq_refl) as (Hregs & (Hh & Hnz) & Hk).
    inversion Hfr1 as [|x l Hf1 _]; subst x l. cbn [frame_ok] in Hf1. destruct Hf1 as (Hhv & (pr & Hp & Hi) & Hu).
    unfold good_step. cbn [glr_step]. rewrite Hp.
    destruct (length (rhs pr)) as [|n] eqn:El; (split; [exact I|]); intros st' fr' E; injection E as <- <-.
    - apply (inv3_replace st st _ k [FReduce h h p [] _ _] Hinv3); try reflexivity; [exact Hregs|].
      constructor; [|exact Hk]. cbn [frame3]. split; [exact Hh|]. split; [exact Hnz|]. exact Hi.
    - apply (inv3_replace st st _ k [FRed h p upd _ None] Hinv3); try reflexivity; [exact Hregs|].
      constructor; [|exact Hk]. cbn [frame3]. split; assumption.
  Qed.

  Lemma step3_FRed_pop st h p upd tp k :
    inv g tb st (FRed h p upd tp None :: k) -> inv3 st (FRed h p upd tp None :: k) ->
    good_step st (FRed h p upd tp None :: k).
  Proof.
    intros Hinv1 Hinv3.
    destruct (inv3_regs_inner _ _ _ Hinv3 eq_refl) as (Hregs & Hf & Hk).
    unfold good_step. cbn [glr_step]. destruct tp as [|pe tp'].
    - split; [exact I|]. intros st' fr' E. injection E as <- <-.
      apply (inv3_replace st st _ k [] Hinv3); try reflexivity; assumption.
    - split; [destruct (_ =? _)%N; exact I|]. intros st' fr' E.
      assert (Hgo : forall st1, s_nodes st1 = s_nodes st -> s_active st1 = s_active st ->
                regs3 (s_nodes st1) st1 false ->
                forall c, inv3 st1 (FRed h p upd tp' (Some c) :: k)).
      { intros st1 E1 E2 Hr c. apply (inv3_replace st st1 _ k [FRed h p upd tp' (Some c)] Hinv3); try reflexivity; [exact Hr|].
        rewrite E1, E2. constructor; [exact Hf|exact Hk]. }
      destruct (n_frontier (getn st (pe_node pe)) =? n_frontier (getn st h))%N; injection E as <- <-; apply Hgo; try reflexivity.
      + destruct Hregs as (R1 & R2 & R3 & R4 & R5). unfold regs3. cbn. split; [exact R1|split; [exact R2|split; [exact R3|split; assumption]]].
      + exact Hregs.
  Qed.

  Lemma step3_FRed_cur st h p upd tp c k :
    inv g tb st (FRed h p upd tp (Some c) :: k) -> inv3 st (FRed h p upd tp (Some c) :: k) ->
    good_step st (FRed h p upd tp (Some c) :: k).
  Proof.
    intros (Hheap & Hregs1 & Hfr1) Hinv3.
    destruct (inv3_regs_inner _ _ _ Hinv3 eq_refl) as (Hregs & Hf & Hk). pose proof Hf as [Hh Hnz].
    inversion Hfr1 as [|x l Hf1 _]; subst x l. cbn [frame_ok] in Hf1.
    destruct Hf1 as (_ & _ & pr & Hp & _ & (C1 & C2 & C3 & C4)).
    unfold good_step. cbn [glr_step]. destruct (c_pars c) as [|par rest] eqn:Ec.
    - split; [exact I|]. intros st' fr' E. injection E as <- <-.
      apply (inv3_replace st st _ k [FRed h p upd tp None] Hinv3); try reflexivity; [exact Hregs|].
      constructor; [exact Hf|exact Hk].
    - inversion C4 as [|x l (P1 & P2 & P3) _]; subst x l.
      destruct (c_len c) as [|n] eqn:El.
      + rewrite <- P3 in C2.
        destruct (link_back g tb start Hts _ _ par p pr 0 Hheap P1 Hp C2) as (X & _ & _ & Hr & Hi).
        destruct (c_trav c || c_um c); (split; [exact I|]); intros st' fr' E; injection E as <- <-.
        * apply (inv3_replace st st _ k [FReduce h _ p _ _ _; FRed h p upd tp (Some _)] Hinv3); try reflexivity; [exact Hregs|].
          constructor; [|constructor; [exact Hf|exact Hk]]. cbn [frame3]. split; [exact Hh|]. split; [exact Hnz|exact Hi].
        * apply (inv3_replace st st _ k [FRed h p upd tp (Some _)] Hinv3); try reflexivity; [exact Hregs|].
          constructor; [exact Hf|exact Hk].
      + split; [exact I|]. intros st' fr' E. injection E as <- <-.
        apply (inv3_replace st st _ k [FRed h p upd _ (Some _)] Hinv3); try reflexivity; [exact Hregs|].
        constructor; [exact Hf|exact Hk].
  Qed.

  Lemma step3_FRevisit st y par states k :
    inv g tb st (FRevisit y par states :: k) -> inv3 st (FRevisit y par states :: k) ->
    good_step st (FRevisit y par states :: k).
  Proof.
    intros Hinv1 Hinv3.
    destruct (inv3_regs_inner _ _ _ Hinv3 eq_refl) as (Hregs & Hf & Hk). cbn [frame3] in Hf.
    unfold good_step. cbn [glr_step]. destruct states as [|s r].
    - split; [exact I|]. intros st' fr' E. injection E as <- <-.
      apply (inv3_replace st st _ k [] Hinv3); try reflexivity; assumption.
    - inversion Hf as [|x l Hs Hr]; subst x l.
      destruct (dget Nat.eqb s (s_active st)) as [rh|] eqn:Eg; [|congruence].
      split; [exact I|]. intros st' fr' E. injection E as <- <-.
      apply (inv3_replace st st _ k [FRevActs rh par _; FRevisit y par r] Hinv3); try reflexivity; [exact Hregs|].
      constructor; [|constructor; [exact Hr|exact Hk]]. cbn [frame3]. split.
      + destruct Hregs as (R1 & _). apply dget_In in Eg. destruct Eg as (s2 & Hin & _).
        specialize (R1 eq_refl). rewrite Forall_forall in R1. exact (R1 _ Hin).
      + apply Forall_forall. intros a Ha. apply filter_In in Ha. destruct Ha as [Ha _].
        destruct a as [?|p|]; cbn; auto. eapply (reduce_not_zero g tb stop_id Hpr). exact Ha.
  Qed.

  Lemma step3_FRevActs st rh par acts k :
    inv g tb st (FRevActs rh par acts :: k) -> inv3 st (FRevActs rh par acts :: k) ->
    good_step st (FRevActs rh par acts :: k).
  Proof.
    intros Hinv1 Hinv3.
    destruct (inv3_regs_inner _ _ _ Hinv3 eq_refl) as (Hregs & (Hh & Hall) & Hk).
    unfold good_step. cbn [glr_step]. destruct acts as [|a r].
    - split; [exact I|]. intros st' fr' E. injection E as <- <-.
      apply (inv3_replace st st _ k [] Hinv3); try reflexivity; assumption.
    - inversion Hall as [|x l Ha Hr]; subst x l.
      destruct a as [s'|p|]; (split; [exact I|]); intros st' fr' E; injection E as <- <-.
      + apply (inv3_replace st st _ k [FRevActs rh par r] Hinv3); try reflexivity; [exact Hregs|].
        constructor; [split; assumption|exact Hk].
      + apply (inv3_replace st st _ k [FDoRed rh p (Some par); FRevActs rh par r] Hinv3); try reflexivity; [exact Hregs|].
        constructor; [split; [exact Hh|exact Ha]|constructor; [split; assumption|exact Hk]].
      + apply (inv3_replace st st _ k [FRevActs rh par r] Hinv3); try reflexivity; [exact Hregs|].
        constructor; [split; assumption|exact Hk].
  Qed.

  Lemma regs3_ext ns ps ns' ps' st st' :
    ext ns ps ns' ps' -> regs st' = regs st -> regs_ok tb ns st -> regs3 ns st false -> regs3 ns' st' false.
  Proof.
    intros He Hr (V1 & V2 & V3 & V4 & V5) (R1 & R2 & R3 & R4 & R5).
    unfold regs in Hr. inversion Hr as [[E1 E2 E3 E4 E5 E6]]. unfold regs3. rewrite E1, E2, E3, E6.
    split.
    { intros _. specialize (R1 eq_refl). rewrite Forall_forall in *. intros x Hx.
      eapply good_head_ext; [exact He|apply R1; exact Hx]. }
    split; [intros E; discriminate|]. split; [eapply persym3_ext; eassumption|]. split.
    { rewrite Forall_forall in *. intros x Hx. eapply good_head_ext; [exact He|apply R4; exact Hx]. }
    rewrite Forall_forall in *. intros x Hx. eapply has_par_ext; [exact He|exact (proj1 (V5 x Hx))|apply R5; exact Hx].
  Qed.

  Lemma step3_FReduce st h root p children s e k :
    inv g tb st (FReduce h root p children s e :: k) -> inv3 st (FReduce h root p children s e :: k) ->
    good_step st (FReduce h root p children s e :: k).
  Proof.
    intros (Hheap & Hregs1 & Hfr1) Hinv3.
    destruct (inv3_regs_inner _ _ _ Hinv3 eq_refl) as (Hregs & (Hh & Hnz & Hi0) & Hk).
    inversion Hfr1 as [|x l Hf1 Hk1]; subst x l. cbn [frame_ok] in Hf1.
    destruct Hf1 as (Hhv & Hroot & pr & Hp & Hch).
    pose proof Hh as (_ & [t Ht] & _).
    unfold good_step. cbn [glr_step]. rewrite Hp.
    set (ns := s_nodes st) in *. set (ps := s_pars st) in *.
    (* the goto exists *)
    assert (Hg : exists s', goto tb (n_state (getn st root)) (lhs pr) = Some s').
    { unfold items in Hi0. fold (nstate ns root) . unfold nstate in Hi0 |- *. unfold getn. fold ns.
      destruct (get_state tb (n_state (nth root ns dnode))) as [sta|] eqn:Es; [|destruct Hi0].
      destruct (progress_state g tb stop_id Hpr _ sta Es) as [_ Hgo].
      destruct (Hgo p Hi0 Hnz) as (pr' & s' & Hp' & Hgs). rewrite Hp in Hp'. inversion Hp'; subst pr'. eauto. }
    destruct Hg as [s' Eg]. rewrite Eg.
    assert (Hedge : edge tb (nstate ns root) (NT (lhs pr)) s') by exact Eg.
    assert (Halt : alt_ok g tb ns ps (NT (lhs pr)) (ANT p s e children)).
    { cbn. exists pr. split; [exact Hp|]. split; [reflexivity|exact Hch]. }
    pose proof Hregs1 as (V1 & V2 & V3 & V4 & V5).
    destruct (dget Nat.eqb s' (s_active st)) as [ah|] eqn:Ea.
    - destruct (dget_dict _ _ _ _ V1 Ea) as [Hah Hahs].
      destruct (create_link st ah root s e (ANT p s e children)) as [[st1 created] pi] eqn:Ec.
      destruct (create_link_ok g tb _ _ _ _ _ _ _ _ _ Ec Hheap Hah Hroot) as (C1 & C2 & C3 & C4 & C5).
      { exists (NT (lhs pr)). split; [|exact Halt]. fold ns. rewrite Hahs. exact Hedge. }
      assert (Hregs' : regs3 (s_nodes st1) st1 false) by (eapply regs3_ext; eassumption).
      assert (Eact : s_active st1 = s_active st) by (unfold regs in C4; inversion C4; reflexivity).
      assert (Hk' : Forall (frame3 (s_nodes st1) (s_active st1)) k).
      { rewrite Eact. eapply frames3_ext; [exact C2|intros s0 Hs0; exact Hs0|exact Hk1|exact Hk]. }
      destruct created.
      + destruct (dget Nat.eqb s' (s_trav st1)) as [tset|].
        * unfold getn. fold ns. rewrite Ht. split; [exact I|]. intros st' fr' E. injection E as <- <-.
          apply (inv3_replace st st1 _ k [FRevisit _ _ _] Hinv3); try reflexivity; [exact Hregs'|].
          constructor; [|exact Hk']. cbn [frame3]. apply Forall_forall. intros x Hx.
          apply Hrord in Hx. apply filter_In in Hx. destruct Hx as [Hx _]. apply In_key_dget. exact Hx.
        * split; [exact I|]. intros st' fr' E. injection E as <- <-.
          apply (inv3_replace st st1 _ k [] Hinv3); try reflexivity; assumption.
      + split; [exact I|]. intros st' fr' E. injection E as <- <-.
        apply (inv3_replace st st1 _ k [] Hinv3); try reflexivity; assumption.
    - set (newn := mkNode s' (n_pos (getn st h)) (n_frontier (getn st h)) (n_tok (getn st h)) []) in *.
      set (st1 := set_nodes st (ns ++ [newn])) in *.
      pose proof (ext_app_node ns ps newn) as He1.
      assert (Hheap1 : heap_ok g tb (s_nodes st1) (s_pars st1)).
      { cbn [st1 set_nodes s_nodes s_pars]. apply heap_app_node; [exact Hheap|]. intros kk q []. }
      assert (Hn1 : s_nodes st1 = ns ++ [newn]) by reflexivity.
      assert (Hlen : length (s_nodes st1) = S (length ns)) by (rewrite Hn1, app_length; cbn; lia).
      assert (Hnew : nth (length ns) (ns ++ [newn]) dnode = newn) by (rewrite app_nth2, Nat.sub_diag by lia; reflexivity).
      destruct (create_link st1 (length ns) root s e (ANT p s e children)) as [[st2 cr] pi] eqn:Ec.
      destruct (create_link_ok g tb _ _ _ _ _ _ _ _ _ Ec Hheap1) as (C1 & C2 & C3 & C4 & C5); [lia|lia| |].
      { exists (NT (lhs pr)). split.
        - rewrite Hn1. unfold nstate at 2. rewrite Hnew. cbn [newn n_state].
          rewrite (ext_nstate _ _ _ _ _ He1 Hroot). exact Hedge.
        - eapply alt_ok_ext; [|exact Halt]. cbn [st1 set_nodes s_nodes s_pars]. exact He1. }
      pose proof (create_link_par _ _ _ _ _ _ _ _ _ Ec ltac:(lia)) as Hnp.
      split; [exact I|]. intros st' fr' E. injection E as <- <-.
      assert (He : ext ns ps (s_nodes st2) (s_pars st2)).
      { eapply ext_trans; [|exact C2]. cbn [st1 set_nodes s_nodes s_pars]. exact He1. }
      assert (Hgood : good_head (s_nodes st2) (length ns)).
      { split; [lia|]. split.
        - apply (has_tok_ext _ _ _ _ _ C2); [lia|]. rewrite Hn1. unfold has_tok. rewrite Hnew.
          cbn [newn n_tok]. unfold getn. fold ns. eauto.
        - intros _. exact Hnp. }
      assert (Hr2 : regs st2 = regs st) by (rewrite C4; reflexivity).
      pose proof (regs3_ext _ _ _ _ _ _ He Hr2 Hregs1 Hregs) as (Q1 & Q2 & Q3 & Q4 & Q5).
      unfold regs in Hr2. inversion Hr2 as [[E1 E2 E3 E4 E5 E6]].
      apply (inv3_replace st _ _ k [] Hinv3); try reflexivity.
      + unfold regs3. cbn [set_active set_actor s_nodes s_active s_persym s_actor s_accepted].
        split; [intros _; apply Forall_dset; [exact (Q1 eq_refl)|exact Hgood]|].
        split; [intros E; discriminate|]. split; [exact Q3|].
        split; [apply Forall_app; split; [exact Q4|constructor; [exact Hgood|constructor]]|exact Q5].
      + cbn [app set_active set_actor s_nodes s_active]. rewrite E1.
        eapply frames3_ext; [exact He| |exact Hk1|exact Hk].
        intros s0 Hs0. apply dget_dset_keep. exact Hs0.
  Qed.

  Lemma step3_FShift st k : inv g tb st (FShift :: k) -> inv3 st (FShift :: k) -> good_step st (FShift :: k).
  Proof.
    intros (Hheap & Hregs1 & Hfr1) (Hsh & (R1 & R2 & R3 & R4 & R5) & Hfr).
    pose proof (shape_top_FShift _ Hsh) as ->. cbn [loopb] in *.
    pose proof Hregs1 as (V1 & V2 & V3 & V4 & V5).
    unfold good_step. cbn [glr_step].
    assert (Hinv' : inv3 (do_shifts st) [FLoop]).
    { unfold do_shifts. set (st0 := set_active st []).
      destruct (shift_loop st0 (rev (sort_desc st0 (s_shifter st0))) None) as [st1 rest] eqn:El. cbn zeta.
      destruct (shift_loop_ok g tb _ _ _ _ _ El) as (B1 & B2 & B3 & B4 & B5).
      { exact Hheap. } { constructor. } { apply Forall_rev. apply Forall_sort_desc. exact V4. }
      pose proof (shift_loop3 _ _ _ _ _ El Hheap) as C. cbn [st0 set_active s_nodes s_active] in C.
      assert (C' : Forall (fun sh => has_par (s_nodes st1) (snd sh)) (s_active st1)).
      { apply C; [constructor|apply Forall_rev; apply Forall_sort_desc; exact V4|constructor]. }
      unfold regs3 in B5. unfold GLRProofs.regs3 in B5. inversion B5 as [[E1 E2 E3 E4]].
      cbn [st0 set_active s_persym s_actor s_accepted s_nodes s_pars] in E1, E2, E4, B2.
      split; [apply sh_loop|]. split.
      - cbn [loopb]. unfold regs3. cbn [set_shifter s_nodes s_active s_persym s_actor s_accepted].
        rewrite E1, E2, E4. split; [intros E; discriminate|]. split; [intros _; exact C'|].
        split; [eapply persym3_ext; eassumption|]. split.
        + rewrite Forall_forall in *. intros x Hx. eapply good_head_ext; [exact B2|apply R4; exact Hx].
        + rewrite Forall_forall in *. intros x Hx. eapply has_par_ext; [exact B2|exact (proj1 (V5 x Hx))|apply R5; exact Hx].
      - constructor; [exact I|constructor]. }
    destruct (s_active (do_shifts st)); destruct (s_accepted (do_shifts st));
      (split; [exact I|]); intros st' fr' E; try discriminate; injection E as <- <-; exact Hinv'.
  Qed.

  Theorem step3_inv st fr : inv g tb st fr -> inv3 st fr -> good_step st fr.
  Proof.
    intros H1 H3. destruct fr as [|f k].
    - destruct H3 as (Hs & _). inversion Hs as [| | |inner Hin E]. destruct inner; discriminate.
    - destruct f as [| | | |h acts|h p upd|h p upd tp [c|]|h root p children s e|y par states|rh par acts].
      + apply step3_FLoop; assumption.
      + apply step3_FSubs; assumption.
      + apply step3_FActorLoop; assumption.
      + apply step3_FShift; assumption.
      + apply step3_FActor; assumption.
      + apply step3_FDoRed; assumption.
      + apply step3_FRed_cur; assumption.
      + apply step3_FRed_pop; assumption.
      + apply step3_FReduce; assumption.
      + apply step3_FRevisit; assumption.
      + apply step3_FRevActs; assumption.
  Qed.

  Lemma init_inv3 pos : inv3 (init_st pos) [FLoop].
  Proof.
    split; [apply sh_loop|]. split.
    - cbn [loopb]. unfold regs3, init_st. cbn. split; [intros E; discriminate|].
      split; [intros _; constructor; [|constructor]; intros E; cbn in E; congruence|].
      split; [constructor|]. split; constructor.
    - constructor; [exact I|constructor].
  Qed.

  Theorem run_nocrash : forall fuel st fr c,
    inv g tb st fr -> inv3 st fr ->
    glr_run g tb terms rx in_len stop_id consume lexdis skipws rorder fuel st fr <> GLRCrash c.
  Proof.
    induction fuel as [|f IH]; intros st fr c H1 H3; cbn [glr_run]; [discriminate|].
    destruct (step3_inv st fr H1 H3) as [Hn Hgo].
    destruct (step st fr) as [st' fr'|r] eqn:Es.
    - apply IH; [eapply step_inv; eassumption|apply Hgo; reflexivity].
    - intros ->. exact Hn.
  Qed.

  (* No internal failure: with a table passing table_struct and table_progress and an iteration
     order of the revisit set that yields only members of the set, the GLR driver model never
     returns GLRCrash -- for all scanners, inputs, positions and fuel. *)
  Theorem glr_no_crash fuel pos c :
    glr_parse g tb terms rx in_len stop_id consume lexdis skipws rorder fuel pos <> GLRCrash c.
  Proof. unfold glr_parse. apply run_nocrash; [apply init_inv|apply init_inv3]. Qed.
End NoCrash.

(* the assembled parser: the modelled CPython order satisfies the side condition *)
From PV Require Import Model.PySet Proofs.PySetProofs.
Theorem glr_full_no_crash (c : pconf) (inp : pinput) (fuel : nat) (pos start : N) (code : N) :
  table_struct (pc_g c) (pc_tb c) start = true ->
  table_progress (pc_g c) (pc_tb c) (pc_stop c) = true ->
  glr_parse_full c inp fuel pos <> GLRCrash code.
Proof.
  intros Hts Hpr. unfold glr_parse_full.
  apply (glr_no_crash (pc_g c) (pc_tb c) start (pc_terms c) (rx_of inp) (in_len inp) (pc_stop c)
           (pc_consume c) (pc_lexdis c) (glr_skipws c inp fuel) revisit_order Hts Hpr revisit_order_incl).
Qed.
