(* Soundness of the GLR driver model (Model/GLR.v): a GSS/forest invariant preserved by
   every machine step, for all tables with [table_struct], all scanner data, inputs, set
   iteration orders and fuel.  Conclusion (glr_sound): every tree that unfolds from the root
   of a returned forest is a derivation tree of the grammar rooted in the start symbol.

   Invariant (states only -- distinct GSS nodes with one id are conflated by the code, so
   nothing is said about node identity):
   - every link (Parent) connects two existing nodes whose states are joined by an edge of
     the automaton, and each of its alternatives carries the label X of such an edge:
     a token of terminal X, or a production with left-hand side X whose children are links
     into states all of whose incoming edges are labelled with the corresponding
     right-hand-side symbol (this is what the LR(0) items checked by table_struct give when
     a reduction path is walked backwards: lemma edge_back);
   - every entry of a node's parents dict is a link whose head has the node's state and whose
     root has the state recorded in the key;
   - the work lists hold existing nodes with the states they are filed under; the frames of
     reductions in progress hold item positions that justify the path walked so far.
   Links and alternatives are only ever added and the fields the invariant reads (state of a
   node, token once set, head/root of a link) never change: relation [ext]. *)
From Coq Require Import NArith Arith List Bool Lia.
From PV Require Import Spec.Cfg Model.Table Model.Forest Model.LRDriver Model.Scan Model.Parser
  Model.GLR Validators.TableStruct Validators.ForestSound Proofs.ForestSoundProofs.
Import ListNotations.

(* ---- lists, dicts ------------------------------------------------------------------------ *)

Lemma list_upd_length {X} i (f : X -> X) l : length (list_upd i f l) = length l.
Proof. revert i. induction l as [|x r IH]; intros [|i]; cbn; auto. Qed.

Lemma nth_list_upd_eq {X} i (f : X -> X) l d :
  i < length l -> nth i (list_upd i f l) d = f (nth i l d).
Proof.
  revert i. induction l as [|x r IH]; intros [|i] H; cbn in *; try lia; [reflexivity|].
  apply IH. lia.
Qed.

Lemma nth_list_upd_neq {X} i j (f : X -> X) l d :
  i <> j -> nth j (list_upd i f l) d = nth j l d.
Proof.
  revert i j. induction l as [|x r IH]; intros [|i] [|j] H; cbn; try reflexivity; try lia.
  apply IH. lia.
Qed.

Lemma list_upd_overflow {X} i (f : X -> X) l : length l <= i -> list_upd i f l = l.
Proof.
  revert i. induction l as [|x r IH]; intros [|i] H; cbn in *; try reflexivity; try lia.
  rewrite IH by lia. reflexivity.
Qed.

Lemma pop_last_app {X} (l : list X) r x : pop_last l = Some (r, x) -> l = r ++ [x].
Proof.
  revert r x. induction l as [|a l IH]; intros r x H; cbn in H; [discriminate|].
  destruct (pop_last l) as [[r' y]|] eqn:E.
  - inversion H; subst. cbn. rewrite (IH r' x eq_refl). reflexivity.
  - inversion H; subst. destruct l; [reflexivity|]. cbn in E.
    destruct (pop_last l) as [[? ?]|]; discriminate.
Qed.

Lemma dget_In {K V} (eqb : K -> K -> bool) k (d : list (K * V)) v :
  dget eqb k d = Some v -> exists k', In (k', v) d /\ eqb k k' = true.
Proof.
  induction d as [|[k' v'] r IH]; cbn; [discriminate|].
  destruct (eqb k k') eqn:E.
  - intros H; inversion H; subst. exists k'. split; [left; reflexivity|exact E].
  - intros H. destruct (IH H) as (k2 & Hin & He). exists k2. split; [right; exact Hin|exact He].
Qed.

Lemma dset_In {K V} (eqb : K -> K -> bool) k v (d : list (K * V)) x :
  In x (dset eqb k v d) -> x = (k, v) \/ In x d.
Proof.
  induction d as [|[k' v'] r IH]; cbn.
  - intros [<-|[]]. left; reflexivity.
  - destruct (eqb k k').
    + intros [<-|H]; [left; reflexivity|right; right; exact H].
    + intros [<-|H]; [right; left; reflexivity|].
      destruct (IH H) as [->|H']; [left; reflexivity|right; right; exact H'].
Qed.

Lemma Forall_dset {K V} (eqb : K -> K -> bool) (P : K * V -> Prop) k v d :
  Forall P d -> P (k, v) -> Forall P (dset eqb k v d).
Proof.
  intros Hd Hkv. apply Forall_forall. intros x Hx. apply dset_In in Hx.
  destruct Hx as [->|Hx]; [exact Hkv|]. rewrite Forall_forall in Hd. apply Hd. exact Hx.
Qed.

Lemma skipn_nth_error {X} (l : list X) n x :
  nth_error l n = Some x -> skipn n l = x :: skipn (S n) l.
Proof.
  revert n. induction l as [|a r IH]; intros [|n] H; cbn in *; try discriminate.
  - inversion H; reflexivity.
  - apply IH. exact H.
Qed.

(* ---- the invariant --------------------------------------------------------------------- *)

Section Inv.
  Variable g : grammar.
  Variable tb : table.
  Variable start : N.
  Hypothesis Hts : table_struct g tb start = true.

  Definition nstate (ns : list gnode) (i : nat) : nat := n_state (nth i ns dnode).
  Definition phead (ps : list gparent) (q : nat) : nat := p_head (nth q ps dpar).
  Definition proot (ps : list gparent) (q : nat) : nat := p_root (nth q ps dpar).

  (* every edge of the automaton into s' is labelled Y *)
  Definition usym (s' : nat) (Y : sym) : Prop := forall s X, edge tb s X s' -> X = Y.

  Definition child_ok (ns : list gnode) (ps : list gparent) (c : nat) (Y : sym) : Prop :=
    c < length ps /\ phead ps c < length ns /\ usym (nstate ns (phead ps c)) Y.

  Definition alt_ok (ns : list gnode) (ps : list gparent) (X : sym) (a : alt) : Prop :=
    match a with
    | ATerm y _ _ => X = T y
    | ANT p _ _ cs =>
        exists pr, get_prod g p = Some pr /\ X = NT (lhs pr) /\
                   Forall2 (child_ok ns ps) cs (rhs pr)
    end.

  Definition link_edge (ns : list gnode) (P : gparent) (X : sym) : Prop :=
    edge tb (nstate ns (p_root P)) X (nstate ns (p_head P)).

  Definition link_ok (ns : list gnode) (ps : list gparent) (P : gparent) : Prop :=
    p_head P < length ns /\ p_root P < length ns /\
    (exists X, link_edge ns P X) /\
    Forall (fun a => exists X, link_edge ns P X /\ alt_ok ns ps X a) (p_alts P).

  Definition node_ok (ns : list gnode) (ps : list gparent) (n : gnode) : Prop :=
    forall k q, In (k, q) (n_parents n) ->
      q < length ps /\ phead ps q < length ns /\ nstate ns (phead ps q) = n_state n /\
      proot ps q < length ns /\ nstate ns (proot ps q) = snd k.

  Definition heap_ok (ns : list gnode) (ps : list gparent) : Prop :=
    (forall q, q < length ps -> link_ok ns ps (nth q ps dpar)) /\
    (forall i, i < length ns -> node_ok ns ps (nth i ns dnode)).

  (* heaps only grow; the fields read by the invariant are stable *)
  Definition ext (ns : list gnode) (ps : list gparent) (ns' : list gnode) (ps' : list gparent) : Prop :=
    length ns <= length ns' /\ length ps <= length ps' /\
    (forall i, i < length ns ->
       n_state (nth i ns' dnode) = n_state (nth i ns dnode) /\
       (forall t, n_tok (nth i ns dnode) = Some t -> n_tok (nth i ns' dnode) = Some t) /\
       n_frontier (nth i ns' dnode) = n_frontier (nth i ns dnode) /\
       (forall x, In x (n_parents (nth i ns dnode)) -> In x (n_parents (nth i ns' dnode)))) /\
    (forall q, q < length ps ->
       p_head (nth q ps' dpar) = p_head (nth q ps dpar) /\
       p_root (nth q ps' dpar) = p_root (nth q ps dpar)).

  Lemma ext_refl ns ps : ext ns ps ns ps.
  Proof. repeat split; auto. Qed.

  Lemma ext_trans ns1 ps1 ns2 ps2 ns3 ps3 :
    ext ns1 ps1 ns2 ps2 -> ext ns2 ps2 ns3 ps3 -> ext ns1 ps1 ns3 ps3.
  Proof.
    intros (A1 & A2 & A3 & A4) (B1 & B2 & B3 & B4). split; [lia|]. split; [lia|]. split.
    - intros i Hi. destruct (A3 i Hi) as (E1 & T1 & F1 & G1). destruct (B3 i ltac:(lia)) as (E2 & T2 & F2 & G2).
      split; [congruence|]. split; [intros t Ht; apply T2, T1, Ht|]. split; [congruence|].
      intros x Hx. apply G2, G1, Hx.
    - intros q Hq. destruct (A4 q Hq) as [E1 R1]. destruct (B4 q ltac:(lia)) as [E2 R2].
      split; congruence.
  Qed.

  Lemma ext_nstate ns ps ns' ps' i : ext ns ps ns' ps' -> i < length ns -> nstate ns' i = nstate ns i.
  Proof. intros (_ & _ & H & _) Hi. unfold nstate. apply H. exact Hi. Qed.

  Lemma ext_phead ns ps ns' ps' q : ext ns ps ns' ps' -> q < length ps -> phead ps' q = phead ps q.
  Proof. intros (_ & _ & _ & H) Hq. unfold phead. apply H. exact Hq. Qed.

  Lemma ext_proot ns ps ns' ps' q : ext ns ps ns' ps' -> q < length ps -> proot ps' q = proot ps q.
  Proof. intros (_ & _ & _ & H) Hq. unfold proot. apply H. exact Hq. Qed.

  Lemma child_ok_ext ns ps ns' ps' c Y :
    ext ns ps ns' ps' -> child_ok ns ps c Y -> child_ok ns' ps' c Y.
  Proof.
    intros He (Hc & Hh & Hu). pose proof He as (L1 & L2 & _).
    unfold child_ok. rewrite (ext_phead _ _ _ _ _ He Hc), (ext_nstate _ _ _ _ _ He Hh).
    split; [lia|]. split; [lia|exact Hu].
  Qed.

  Lemma alt_ok_ext ns ps ns' ps' X a :
    ext ns ps ns' ps' -> alt_ok ns ps X a -> alt_ok ns' ps' X a.
  Proof.
    intros He. destruct a as [y s e|p s e cs]; cbn; [auto|].
    intros (pr & Hp & HX & Hcs). exists pr. split; [exact Hp|]. split; [exact HX|].
    induction Hcs as [|c Y cs' ys Hc Hr IH]; constructor; [|exact IH].
    eapply child_ok_ext; eassumption.
  Qed.

  Lemma link_edge_ext ns ps ns' ps' P X :
    ext ns ps ns' ps' -> p_head P < length ns -> p_root P < length ns ->
    link_edge ns P X -> link_edge ns' P X.
  Proof.
    intros He Hh Hr. unfold link_edge.
    rewrite (ext_nstate _ _ _ _ _ He Hh), (ext_nstate _ _ _ _ _ He Hr). auto.
  Qed.

  Lemma link_ok_ext ns ps ns' ps' P :
    ext ns ps ns' ps' -> link_ok ns ps P -> link_ok ns' ps' P.
  Proof.
    intros He (Hh & Hr & (X & HX) & Ha). pose proof He as (L1 & L2 & _).
    split; [lia|]. split; [lia|]. split.
    - exists X. eapply link_edge_ext; eassumption.
    - rewrite Forall_forall in *. intros a Hin. destruct (Ha a Hin) as (Y & HY & Hok).
      exists Y. split; [eapply link_edge_ext; eassumption|eapply alt_ok_ext; eassumption].
  Qed.

  Lemma node_ok_ext ns ps ns' ps' n :
    ext ns ps ns' ps' -> node_ok ns ps n -> node_ok ns' ps' n.
  Proof.
    intros He Hn k q Hin. destruct (Hn k q Hin) as (Hq & Hh & Hs & Hr & Hk).
    pose proof He as (L1 & L2 & _).
    rewrite (ext_phead _ _ _ _ _ He Hq), (ext_proot _ _ _ _ _ He Hq),
      (ext_nstate _ _ _ _ _ He Hh), (ext_nstate _ _ _ _ _ He Hr).
    repeat split; try lia; assumption.
  Qed.

  Lemma node_ok_same ns ps n n' :
    n_parents n' = n_parents n -> n_state n' = n_state n -> node_ok ns ps n -> node_ok ns ps n'.
  Proof. intros Hp Hs H k q Hin. rewrite Hp in Hin. rewrite Hs. apply H. exact Hin. Qed.

  (* ---- the four heap operations --------------------------------------------------------- *)

  (* A: update node i by a function that keeps the state and a token already set *)
  Lemma ext_upd_node ns ps i f :
    n_state (f (nth i ns dnode)) = n_state (nth i ns dnode) ->
    (forall t, n_tok (nth i ns dnode) = Some t -> n_tok (f (nth i ns dnode)) = Some t) ->
    n_frontier (f (nth i ns dnode)) = n_frontier (nth i ns dnode) ->
    (forall x, In x (n_parents (nth i ns dnode)) -> In x (n_parents (f (nth i ns dnode)))) ->
    ext ns ps (list_upd i f ns) ps.
  Proof.
    intros Hs Ht Hf Hg. split; [rewrite list_upd_length; lia|]. split; [lia|]. split; [|auto].
    intros j Hj. destruct (Nat.eq_dec i j) as [->|Hne].
    - rewrite nth_list_upd_eq by exact Hj. split; [apply Hs|]. split; [apply Ht|]. split; [apply Hf|apply Hg].
    - rewrite nth_list_upd_neq by exact Hne. auto.
  Qed.

  Lemma heap_upd_node ns ps i f :
    n_state (f (nth i ns dnode)) = n_state (nth i ns dnode) ->
    (forall t, n_tok (nth i ns dnode) = Some t -> n_tok (f (nth i ns dnode)) = Some t) ->
    n_frontier (f (nth i ns dnode)) = n_frontier (nth i ns dnode) ->
    (forall x, In x (n_parents (nth i ns dnode)) -> In x (n_parents (f (nth i ns dnode)))) ->
    heap_ok ns ps ->
    (i < length ns -> node_ok (list_upd i f ns) ps (f (nth i ns dnode))) ->
    heap_ok (list_upd i f ns) ps.
  Proof.
    intros Hs Ht Hf Hg [Hl Hn] Hnew. pose proof (ext_upd_node ns ps i f Hs Ht Hf Hg) as He. split.
    - intros q Hq. eapply link_ok_ext; [exact He|apply Hl; exact Hq].
    - intros j Hj. rewrite list_upd_length in Hj. destruct (Nat.eq_dec i j) as [->|Hne].
      + rewrite nth_list_upd_eq by exact Hj. apply Hnew. exact Hj.
      + rewrite nth_list_upd_neq by exact Hne. eapply node_ok_ext; [exact He|apply Hn; exact Hj].
  Qed.

  (* B: allocate a node *)
  Lemma ext_app_node ns ps n : ext ns ps (ns ++ [n]) ps.
  Proof.
    split; [rewrite app_length; lia|]. split; [lia|]. split; [|auto].
    intros i Hi. rewrite app_nth1 by exact Hi. auto.
  Qed.

  Lemma heap_app_node ns ps n :
    heap_ok ns ps -> node_ok (ns ++ [n]) ps n -> heap_ok (ns ++ [n]) ps.
  Proof.
    intros [Hl Hn] Hnew. pose proof (ext_app_node ns ps n) as He. split.
    - intros q Hq. eapply link_ok_ext; [exact He|apply Hl; exact Hq].
    - intros i Hi. rewrite app_length in Hi. cbn in Hi.
      destruct (Nat.lt_ge_cases i (length ns)) as [Hlt|Hge].
      + rewrite app_nth1 by exact Hlt. eapply node_ok_ext; [exact He|apply Hn; exact Hlt].
      + assert (i = length ns) by lia. subst i. rewrite app_nth2, Nat.sub_diag by lia. exact Hnew.
  Qed.

  (* C: allocate a link *)
  Lemma ext_app_par ns ps P : ext ns ps ns (ps ++ [P]).
  Proof.
    split; [lia|]. split; [rewrite app_length; lia|]. split; [auto|].
    intros q Hq. rewrite app_nth1 by exact Hq. auto.
  Qed.

  Lemma heap_app_par ns ps P :
    heap_ok ns ps -> link_ok ns (ps ++ [P]) P -> heap_ok ns (ps ++ [P]).
  Proof.
    intros [Hl Hn] Hnew. pose proof (ext_app_par ns ps P) as He. split.
    - intros q Hq. rewrite app_length in Hq. cbn in Hq.
      destruct (Nat.lt_ge_cases q (length ps)) as [Hlt|Hge].
      + rewrite app_nth1 by exact Hlt. eapply link_ok_ext; [exact He|apply Hl; exact Hlt].
      + assert (q = length ps) by lia. subst q. rewrite app_nth2, Nat.sub_diag by lia. exact Hnew.
    - intros i Hi. eapply node_ok_ext; [exact He|apply Hn; exact Hi].
  Qed.

  (* D: add alternatives to link q *)
  Lemma ext_add_alts ns ps q al : ext ns ps ns (list_upd q (p_add_alts al) ps).
  Proof.
    split; [lia|]. split; [rewrite list_upd_length; lia|]. split; [auto|].
    intros j Hj. destruct (Nat.eq_dec q j) as [->|Hne].
    - rewrite nth_list_upd_eq by exact Hj. auto.
    - rewrite nth_list_upd_neq by exact Hne. auto.
  Qed.

  Lemma heap_add_alts ns ps q al :
    heap_ok ns ps ->
    Forall (fun a => exists X, link_edge ns (nth q ps dpar) X /\ alt_ok ns ps X a) al ->
    heap_ok ns (list_upd q (p_add_alts al) ps).
  Proof.
    intros [Hl Hn] Hal. pose proof (ext_add_alts ns ps q al) as He. split.
    - intros j Hj. rewrite list_upd_length in Hj. destruct (Nat.eq_dec q j) as [->|Hne].
      + rewrite nth_list_upd_eq by exact Hj.
        destruct (Hl j Hj) as (Hh & Hr & HX & Ha).
        split; [exact Hh|]. split; [exact Hr|]. split; [exact HX|].
        cbn [p_add_alts p_alts p_head p_root]. apply Forall_app. split.
        * rewrite Forall_forall in *. intros a Hin. destruct (Ha a Hin) as (Y & HY & Hok).
          exists Y. split; [exact HY|eapply alt_ok_ext; eassumption].
        * rewrite Forall_forall in *. intros a Hin. destruct (Hal a Hin) as (Y & HY & Hok).
          exists Y. split; [exact HY|eapply alt_ok_ext; eassumption].
      + rewrite nth_list_upd_neq by exact Hne. eapply link_ok_ext; [exact He|apply Hl; exact Hj].
    - intros i Hi. eapply node_ok_ext; [exact He|apply Hn; exact Hi].
  Qed.

  (* ---- create_link ------------------------------------------------------------------------ *)

  Definition regs (st : gst) :=
    (s_active st, s_persym st, s_actor st, s_trav st, s_shifter st, s_accepted st).

  Lemma key_eqb_snd a b : key_eqb a b = true -> snd a = snd b.
  Proof. unfold key_eqb. intros H. apply andb_true_iff in H. destruct H as [_ H]. apply Nat.eqb_eq. exact H. Qed.

  Lemma create_link_ok st hd root s e a st' created pi :
    create_link st hd root s e a = (st', created, pi) ->
    heap_ok (s_nodes st) (s_pars st) ->
    hd < length (s_nodes st) -> root < length (s_nodes st) ->
    (exists X, edge tb (nstate (s_nodes st) root) X (nstate (s_nodes st) hd) /\
               alt_ok (s_nodes st) (s_pars st) X a) ->
    heap_ok (s_nodes st') (s_pars st') /\
    ext (s_nodes st) (s_pars st) (s_nodes st') (s_pars st') /\
    pi < length (s_pars st') /\ regs st' = regs st /\
    length (s_nodes st') = length (s_nodes st).
  Proof.
    unfold create_link. intros H Hheap Hhd Hroot (X & HX & Ha).
    destruct (dget key_eqb (node_id (getn st root)) (n_parents (getn st hd))) as [ep|] eqn:Eg.
    - inversion H; subst; clear H. cbn [upd_par set_pars s_nodes s_pars].
      apply dget_In in Eg. destruct Eg as (k' & Hin & Hk). apply key_eqb_snd in Hk. cbn in Hk.
      destruct Hheap as [Hl Hn]. pose proof (Hn hd Hhd k' pi Hin) as (Hq & Hh & Hs & Hr & Hkk).
      split; [|split; [apply ext_add_alts|split; [rewrite list_upd_length; exact Hq|split; [reflexivity|reflexivity]]]].
      apply heap_add_alts; [split; assumption|]. constructor; [|constructor].
      exists X. split; [|exact Ha]. unfold link_edge. fold (proot (s_pars st) pi) (phead (s_pars st) pi).
      rewrite Hs, Hkk, <- Hk. exact HX.
    - inversion H; subst; clear H. cbn [upd_node set_nodes set_pars s_nodes s_pars].
      set (ns := s_nodes st) in *. set (ps := s_pars st) in *.
      set (key := node_id (getn st root)) in *.
      set (P := mkPar hd root s e [a]).
      assert (Hlk : link_ok ns (ps ++ [P]) P).
      { split; [exact Hhd|]. split; [exact Hroot|]. split; [exists X; exact HX|].
        constructor; [|constructor]. exists X. split; [exact HX|].
        eapply alt_ok_ext; [apply ext_app_par|exact Ha]. }
      pose proof (heap_app_par ns ps P Hheap Hlk) as Hheap1.
      assert (Hs : forall n, n_state (n_add_parent key (length ps) n) = n_state n) by reflexivity.
      assert (Ht : forall n t, n_tok n = Some t -> n_tok (n_add_parent key (length ps) n) = Some t) by auto.
      assert (Hg : forall n x, In x (n_parents n) -> In x (n_parents (n_add_parent key (length ps) n))).
      { intros n x Hx. cbn [n_add_parent n_parents]. apply in_or_app. left. exact Hx. }
      split.
      + apply heap_upd_node; [apply Hs|apply Ht|reflexivity|apply Hg|exact Hheap1|]. intros _.
        pose proof (ext_upd_node ns (ps ++ [P]) hd _ (Hs _) (Ht _) eq_refl (Hg _)) as He.
        intros k q Hin. cbn [n_add_parent n_parents n_state] in Hin |- *. apply in_app_or in Hin.
        destruct Hin as [Hin|[Hin|[]]].
        * destruct Hheap1 as [_ Hn1]. eapply node_ok_ext; [exact He|apply Hn1; exact Hhd|exact Hin].
        * inversion Hin; subst k q; clear Hin.
          unfold phead, proot. rewrite app_nth2, Nat.sub_diag by lia. cbn [nth P p_head p_root].
          rewrite list_upd_length. split; [rewrite app_length; cbn; lia|]. split; [exact Hhd|]. split.
          -- unfold nstate. rewrite nth_list_upd_eq by exact Hhd. reflexivity.
          -- split; [exact Hroot|]. rewrite (ext_nstate _ _ _ _ _ He Hroot). reflexivity.
      + split.
        * eapply ext_trans; [apply ext_app_par|apply ext_upd_node; [apply Hs|apply Ht|reflexivity|apply Hg]].
        * split; [rewrite app_length; cbn; lia|]. split; [reflexivity|apply list_upd_length].
  Qed.

  (* ---- registers and frames --------------------------------------------------------------- *)

  Definition dict_ok (ns : list gnode) (d : list (nat * nat)) : Prop :=
    Forall (fun sh => snd sh < length ns /\ nstate ns (snd sh) = fst sh) d.

  Definition shift_ok (ns : list gnode) (e : nat * nat) : Prop :=
    fst e < length ns /\
    exists t, n_tok (nth (fst e) ns dnode) = Some t /\
              In (Shift (snd e)) (cell tb (nstate ns (fst e)) (tk_sym t)).

  Definition acc_ok (ns : list gnode) (h : nat) : Prop :=
    h < length ns /\ In (0%N, 1) (items tb (nstate ns h)).

  Definition regs_ok (ns : list gnode) (st : gst) : Prop :=
    dict_ok ns (s_active st) /\
    Forall (fun yd => dict_ok ns (snd yd)) (s_persym st) /\
    Forall (fun h => h < length ns) (s_actor st) /\
    Forall (shift_ok ns) (s_shifter st) /\
    Forall (acc_ok ns) (s_accepted st).

  Lemma dict_ok_ext ns ps ns' ps' d : ext ns ps ns' ps' -> dict_ok ns d -> dict_ok ns' d.
  Proof.
    intros He H. unfold dict_ok in *. rewrite Forall_forall in *. intros x Hx.
    destruct (H x Hx) as [H1 H2]. pose proof He as (L1 & _).
    rewrite (ext_nstate _ _ _ _ _ He H1). split; [lia|exact H2].
  Qed.

  Lemma shift_ok_ext ns ps ns' ps' e : ext ns ps ns' ps' -> shift_ok ns e -> shift_ok ns' e.
  Proof.
    intros He (H1 & t & Ht & Hin). pose proof He as (L1 & _ & H3 & _).
    split; [lia|]. exists t. split; [apply (proj1 (proj2 (H3 _ H1))); exact Ht|].
    rewrite (ext_nstate _ _ _ _ _ He H1). exact Hin.
  Qed.

  Lemma acc_ok_ext ns ps ns' ps' h : ext ns ps ns' ps' -> acc_ok ns h -> acc_ok ns' h.
  Proof.
    intros He (H1 & H2). pose proof He as (L1 & _).
    split; [lia|]. rewrite (ext_nstate _ _ _ _ _ He H1). exact H2.
  Qed.

  Lemma regs_ok_ext ns ps ns' ps' st st' :
    ext ns ps ns' ps' -> regs st' = regs st -> regs_ok ns st -> regs_ok ns' st'.
  Proof.
    intros He Hr (H1 & H2 & H3 & H4 & H5). unfold regs in Hr. inversion Hr as [[E1 E2 E3 E4 E5 E6]].
    unfold regs_ok. rewrite E1, E2, E3, E5, E6. pose proof He as (L1 & _).
    split; [eapply dict_ok_ext; eassumption|]. split.
    { rewrite Forall_forall in *. intros x Hx. eapply dict_ok_ext; [exact He|apply H2; exact Hx]. }
    split. { rewrite Forall_forall in *. intros x Hx. specialize (H3 x Hx). lia. }
    split. { rewrite Forall_forall in *. intros x Hx. eapply shift_ok_ext; [exact He|apply H4; exact Hx]. }
    rewrite Forall_forall in *. intros x Hx. eapply acc_ok_ext; [exact He|apply H5; exact Hx].
  Qed.

  Definition red_item (ns : list gnode) (h : nat) (p : N) : Prop :=
    exists pr, get_prod g p = Some pr /\ In (p, length (rhs pr)) (items tb (nstate ns h)).

  Definition pe_ok (ns : list gnode) (ps : list gparent) (p : N) (pr : prod) (pe : pentry) : Prop :=
    pe_node pe < length ns /\ pe_len pe <> 0 /\
    In (p, pe_len pe) (items tb (nstate ns (pe_node pe))) /\
    Forall2 (child_ok ns ps) (pe_results pe) (skipn (pe_len pe) (rhs pr)).

  Definition par_at (ns : list gnode) (ps : list gparent) (node q : nat) : Prop :=
    q < length ps /\ phead ps q < length ns /\ nstate ns (phead ps q) = nstate ns node.

  Definition cur_ok (ns : list gnode) (ps : list gparent) (p : N) (pr : prod) (c : pcur) : Prop :=
    c_node c < length ns /\
    In (p, S (c_len c)) (items tb (nstate ns (c_node c))) /\
    Forall2 (child_ok ns ps) (c_results c) (skipn (S (c_len c)) (rhs pr)) /\
    Forall (par_at ns ps (c_node c)) (c_pars c).

  Definition frame_ok (ns : list gnode) (ps : list gparent) (f : frame) : Prop :=
    match f with
    | FLoop | FSubs | FActorLoop | FShift => True
    | FActor h acts =>
        h < length ns /\
        exists t, n_tok (nth h ns dnode) = Some t /\
                  Forall (fun a => In a (cell tb (nstate ns h) (tk_sym t))) acts
    | FDoRed h p upd =>
        h < length ns /\ red_item ns h p /\ (forall u, upd = Some u -> u < length ps)
    | FRed h p upd tp cur =>
        h < length ns /\ (forall u, upd = Some u -> u < length ps) /\
        exists pr, get_prod g p = Some pr /\ Forall (pe_ok ns ps p pr) tp /\
                   match cur with None => True | Some c => cur_ok ns ps p pr c end
    | FReduce h root p children s e =>
        h < length ns /\ root < length ns /\
        exists pr, get_prod g p = Some pr /\ Forall2 (child_ok ns ps) children (rhs pr)
    | FRevisit y par states => par < length ps
    | FRevActs rh par acts =>
        rh < length ns /\ par < length ps /\
        exists y, Forall (fun a => In a (cell tb (nstate ns rh) y)) acts
    end.

  Lemma Forall2_child_ext ns ps ns' ps' cs ys :
    ext ns ps ns' ps' -> Forall2 (child_ok ns ps) cs ys -> Forall2 (child_ok ns' ps') cs ys.
  Proof.
    intros He H. induction H as [|c Y cs' ys' Hc Hr IH]; constructor; [|exact IH].
    eapply child_ok_ext; eassumption.
  Qed.

  Lemma frame_ok_ext ns ps ns' ps' f :
    ext ns ps ns' ps' -> frame_ok ns ps f -> frame_ok ns' ps' f.
  Proof.
    intros He. pose proof He as (L1 & L2 & H3 & _).
    destruct f as [| | | |h acts|h p upd|h p upd tp cur|h root p children s e|y par states|rh par acts];
      cbn [frame_ok]; auto.
    - intros (Hh & t & Ht & Hall). split; [lia|]. exists t. split; [apply (proj1 (proj2 (H3 _ Hh))); exact Ht|].
      rewrite (ext_nstate _ _ _ _ _ He Hh). exact Hall.
    - intros (Hh & (pr & Hp & Hi) & Hu). split; [lia|]. split.
      + exists pr. split; [exact Hp|]. rewrite (ext_nstate _ _ _ _ _ He Hh). exact Hi.
      + intros u Eu. specialize (Hu u Eu). lia.
    - intros (Hh & Hu & pr & Hp & Htp & Hcur). split; [lia|]. split.
      { intros u Eu. specialize (Hu u Eu). lia. }
      exists pr. split; [exact Hp|]. split.
      + rewrite Forall_forall in *. intros pe Hin. destruct (Htp pe Hin) as (A1 & A2 & A3 & A4).
        split; [lia|]. split; [exact A2|]. split; [rewrite (ext_nstate _ _ _ _ _ He A1); exact A3|].
        eapply Forall2_child_ext; eassumption.
      + destruct cur as [c|]; [|exact I]. destruct Hcur as (A1 & A2 & A3 & A4).
        split; [lia|]. split; [rewrite (ext_nstate _ _ _ _ _ He A1); exact A2|].
        split; [eapply Forall2_child_ext; eassumption|].
        rewrite Forall_forall in *. intros q Hq. destruct (A4 q Hq) as (B1 & B2 & B3).
        unfold par_at. rewrite (ext_phead _ _ _ _ _ He B1), (ext_nstate _ _ _ _ _ He B2),
          (ext_nstate _ _ _ _ _ He A1). split; [lia|]. split; [lia|exact B3].
    - intros (Hh & Hr & pr & Hp & Hc). split; [lia|]. split; [lia|]. exists pr. split; [exact Hp|].
      eapply Forall2_child_ext; eassumption.
    - intros H. lia.
    - intros (Hh & Hp & y & Hall). split; [lia|]. split; [lia|]. exists y.
      rewrite (ext_nstate _ _ _ _ _ He Hh). exact Hall.
  Qed.

  Lemma frames_ok_ext ns ps ns' ps' fr :
    ext ns ps ns' ps' -> Forall (frame_ok ns ps) fr -> Forall (frame_ok ns' ps') fr.
  Proof.
    intros He H. rewrite Forall_forall in *. intros f Hf. eapply frame_ok_ext; [exact He|apply H; exact Hf].
  Qed.

  Definition inv (st : gst) (fr : list frame) : Prop :=
    heap_ok (s_nodes st) (s_pars st) /\ regs_ok (s_nodes st) st /\
    Forall (frame_ok (s_nodes st) (s_pars st)) fr.

  (* ---- what table_struct says about the actions of a cell ------------------------------------- *)

  Lemma cell_action_ok s y a : In a (cell tb s y) -> action_ok g tb s y a = true.
  Proof.
    unfold cell. destruct (get_state tb s) as [sta|] eqn:Es; [|intros []].
    destruct (assoc y (st_actions sta)) as [l|] eqn:Ea; [|intros []].
    intros Hin. pose proof (state_ok_at g tb start Hts s sta Es) as Hok. unfold state_ok in Hok.
    apply andb_true_iff in Hok. destruct Hok as [Hok _].
    apply andb_true_iff in Hok. destruct Hok as [Hok _].
    rewrite forallb_forall in Hok. specialize (Hok _ (assoc_In _ _ _ Ea)). cbn in Hok.
    rewrite forallb_forall in Hok. exact (Hok _ Hin).
  Qed.

  Lemma reduce_item ns h y p : In (Reduce p) (cell tb (nstate ns h) y) -> red_item ns h p.
  Proof.
    intros H. apply cell_action_ok in H. cbn in H.
    destruct (get_prod g p) as [pr|] eqn:Ep; [|discriminate].
    exists pr. split; [exact Ep|]. apply has_item_In. exact H.
  Qed.

  Lemma accept_item s y : In Accept (cell tb s y) -> In (0%N, 1) (items tb s).
  Proof. intros H. apply cell_action_ok in H. cbn in H. apply has_item_In. exact H. Qed.

  Lemma shift_edge s y s' : In (Shift s') (cell tb s y) -> edge tb s (T y) s'.
  Proof. auto. Qed.

  (* an item with the dot after position d in the head state of a link: the link's edge is
     labelled rhs[d], all edges into that state are, and the root state holds the item with
     the dot before it *)
  Lemma link_back ns ps q p pr d :
    heap_ok ns ps -> q < length ps -> get_prod g p = Some pr ->
    In (p, S d) (items tb (nstate ns (phead ps q))) ->
    exists X, nth_error (rhs pr) d = Some X /\ usym (nstate ns (phead ps q)) X /\
              proot ps q < length ns /\ In (p, d) (items tb (nstate ns (proot ps q))).
  Proof.
    intros [Hl _] Hq Hp Hin. destruct (Hl q Hq) as (Hh & Hr & (X & HX) & _).
    unfold link_edge in HX. fold (phead ps q) (proot ps q) in HX, Hr.
    destruct (edge_back g tb start Hts _ _ _ _ _ HX Hin) as (_ & Hin' & pr' & Hp' & Hn).
    rewrite Hp in Hp'. inversion Hp'; subst pr'. exists X. split; [exact Hn|]. split.
    - intros s X' He. destruct (edge_back g tb start Hts _ _ _ _ _ He Hin) as (_ & _ & pr2 & Hp2 & Hn2).
      rewrite Hp in Hp2. inversion Hp2; subst pr2. congruence.
    - split; assumption.
  Qed.

  (* ---- _find_lookaheads ------------------------------------------------------------------------ *)

  Section Steps.
  Variable terms : list term_info.
  Variable rx : N -> N -> option N.
  Variables in_len stop_id : N.
  Variables consume lexdis : bool.
  Variable skipws : N -> skres.
  Variable rorder : list nat -> list nat -> list nat.

  Definition persym_ok (ns : list gnode) (ps : list (N * list (nat * nat))) : Prop :=
    Forall (fun yd => dict_ok ns (snd yd)) ps.

  Definition regs4 (st : gst) := (s_actor st, s_trav st, s_shifter st, s_accepted st).

  Lemma persym_ok_ext ns ps ns' ps' d : ext ns ps ns' ps' -> persym_ok ns d -> persym_ok ns' d.
  Proof.
    intros He H. unfold persym_ok in *. rewrite Forall_forall in *. intros x Hx.
    eapply dict_ok_ext; [exact He|apply H; exact Hx].
  Qed.

  Lemma ps_add_ok ns d y s h :
    persym_ok ns d -> h < length ns -> nstate ns h = s -> persym_ok ns (ps_add d y s h).
  Proof.
    intros Hd Hh Hs. unfold ps_add. destruct (dget N.eqb y d) as [dd|] eqn:Eg.
    - apply dget_In in Eg. destruct Eg as (y' & Hin & _).
      unfold persym_ok in *. apply Forall_dset; [exact Hd|]. cbn [snd].
      rewrite Forall_forall in Hd. specialize (Hd _ Hin). cbn [snd] in Hd.
      apply Forall_dset; [exact Hd|]. cbn. auto.
    - unfold persym_ok. apply Forall_app. split; [exact Hd|]. constructor; [|constructor].
      cbn. constructor; [|constructor]. cbn. auto.
  Qed.

  Lemma for_token_ok st h tok st' h' :
    for_token st h tok = (st', h') ->
    heap_ok (s_nodes st) (s_pars st) -> h < length (s_nodes st) ->
    heap_ok (s_nodes st') (s_pars st') /\
    ext (s_nodes st) (s_pars st) (s_nodes st') (s_pars st') /\
    h' < length (s_nodes st') /\ nstate (s_nodes st') h' = nstate (s_nodes st) h /\
    regs st' = regs st.
  Proof.
    unfold for_token. intros H Hheap Hh. unfold getn in H.
    destruct (n_tok (nth h (s_nodes st) dnode)) as [t|] eqn:Et.
    - destruct (tk_id t =? tk_id tok)%N.
      + inversion H; subst. split; [exact Hheap|]. split; [apply ext_refl|]. auto.
      + inversion H; subst; clear H. cbn [set_nodes s_nodes s_pars].
        set (ns := s_nodes st) in *. set (ps := s_pars st) in *.
        set (n' := mkNode _ _ _ _ _).
        pose proof (ext_app_node ns ps n') as He.
        split.
        * apply heap_app_node; [exact Hheap|].
          apply (node_ok_same _ _ (nth h ns dnode)); [reflexivity|reflexivity|].
          eapply node_ok_ext; [exact He|]. destruct Hheap as [_ Hn]. apply Hn. exact Hh.
        * split; [exact He|]. split; [rewrite app_length; cbn; lia|]. split; [|reflexivity].
          unfold nstate. rewrite app_nth2, Nat.sub_diag by lia. reflexivity.
    - inversion H; subst; clear H. cbn [upd_node set_nodes s_nodes s_pars].
      set (ns := s_nodes st) in *. set (ps := s_pars st) in *.
      assert (Hs : n_state (n_set_tok (Some tok) (nth h' ns dnode)) = n_state (nth h' ns dnode)) by reflexivity.
      assert (Ht : forall t, n_tok (nth h' ns dnode) = Some t ->
                             n_tok (n_set_tok (Some tok) (nth h' ns dnode)) = Some t).
      { intros t E. rewrite Et in E. discriminate. }
      pose proof (ext_upd_node ns ps h' _ Hs Ht eq_refl (fun x H => H)) as He.
      split.
      + apply heap_upd_node; [exact Hs|exact Ht|reflexivity|exact (fun x H => H)|exact Hheap|]. intros _.
        apply (node_ok_same _ _ (nth h' ns dnode)); [reflexivity|reflexivity|].
        eapply node_ok_ext; [exact He|]. destruct Hheap as [_ Hn]. apply Hn. exact Hh.
      + split; [exact He|]. split; [rewrite list_upd_length; exact Hh|]. split; [|reflexivity].
        unfold nstate. rewrite nth_list_upd_eq by exact Hh. reflexivity.
  Qed.

  Lemma mk_token_same st y pos len tok st1 :
    mk_token stop_id st y pos len = (tok, st1) ->
    s_nodes st1 = s_nodes st /\ s_pars st1 = s_pars st /\ regs st1 = regs st.
  Proof.
    unfold mk_token. destruct (y =? stop_id)%N; intros H; inversion H; subst; auto.
  Qed.

  Lemma assign_tokens_ok : forall toks st h pos,
    heap_ok (s_nodes st) (s_pars st) -> h < length (s_nodes st) ->
    persym_ok (s_nodes st) (s_persym st) ->
    let st' := assign_tokens stop_id st h pos toks in
    heap_ok (s_nodes st') (s_pars st') /\
    ext (s_nodes st) (s_pars st) (s_nodes st') (s_pars st') /\
    persym_ok (s_nodes st') (s_persym st') /\
    s_active st' = s_active st /\ regs4 st' = regs4 st.
  Proof.
    induction toks as [|[y len] r IH]; intros st h pos Hheap Hh Hps; cbn [assign_tokens].
    - split; [exact Hheap|]. split; [apply ext_refl|]. auto.
    - destruct (mk_token stop_id st y pos len) as [tok st1] eqn:Em.
      destruct (mk_token_same _ _ _ _ _ _ Em) as (En & Ep & Er).
      destruct (for_token st1 h tok) as [st2 h'] eqn:Ef.
      rewrite <- En, <- Ep in Hheap. rewrite <- En in Hh.
      destruct (for_token_ok _ _ _ _ _ Ef Hheap Hh) as (Hheap2 & He2 & Hh2 & Hs2 & Er2).
      set (st3 := set_persym st2 (ps_add (s_persym st2) y (n_state (getn st2 h')) h')).
      assert (Hps3 : persym_ok (s_nodes st3) (s_persym st3)).
      { cbn [st3 set_persym s_nodes s_persym]. apply ps_add_ok; [|exact Hh2|reflexivity].
        unfold regs in Er2, Er. inversion Er2 as [[A1 A2 A3 A4 A5 A6]]. inversion Er as [[B1 B2 B3 B4 B5 B6]].
        rewrite A2, B2. eapply persym_ok_ext; [exact He2|]. rewrite En. exact Hps. }
      specialize (IH st3 h' pos Hheap2 Hh2 Hps3). cbn zeta in IH.
      destruct IH as (I1 & I2 & I3 & I4 & I5).
      split; [exact I1|]. split.
      { eapply ext_trans; [|exact I2]. cbn [st3 set_persym s_nodes s_pars].
        rewrite <- En, <- Ep. exact He2. }
      split; [exact I3|].
      unfold regs in Er2, Er. inversion Er2 as [[A1 A2 A3 A4 A5 A6]]. inversion Er as [[B1 B2 B3 B4 B5 B6]].
      split.
      + rewrite I4. cbn [st3 set_persym s_active]. congruence.
      + rewrite I5. unfold regs4. cbn [st3 set_persym s_actor s_trav s_shifter s_accepted]. congruence.
  Qed.

  Lemma find_la_ok : forall act st st',
    find_la tb terms rx in_len stop_id consume lexdis skipws st act = FOk st' ->
    heap_ok (s_nodes st) (s_pars st) -> persym_ok (s_nodes st) (s_persym st) ->
    dict_ok (s_nodes st) act ->
    heap_ok (s_nodes st') (s_pars st') /\
    ext (s_nodes st) (s_pars st) (s_nodes st') (s_pars st') /\
    persym_ok (s_nodes st') (s_persym st') /\
    s_active st' = [] /\ regs4 st' = regs4 st.
  Proof.
    induction act as [|[s h] r IH]; intros st st' H Hheap Hps Hd; cbn [find_la] in H.
    - inversion H; subst. cbn. split; [exact Hheap|]. split; [apply ext_refl|]. auto.
    - inversion Hd as [|x l [Hh Hs] Hr]; subst x l. cbn [fst snd] in Hh, Hs.
      destruct (n_tok (getn st h)) as [t|] eqn:Et.
      + apply IH in H; [exact H|exact Hheap| |exact Hr].
        cbn [set_persym s_nodes s_persym]. apply ps_add_ok; [exact Hps|exact Hh|reflexivity].
      + destruct (skipws (n_pos (getn st h))) as [p| |] eqn:Esk; try discriminate.
        set (st1 := upd_node st h (n_set_pos p)) in *.
        set (ns := s_nodes st) in *. set (ps := s_pars st) in *.
        assert (Hs1 : n_state (n_set_pos p (nth h ns dnode)) = n_state (nth h ns dnode)) by reflexivity.
        assert (Ht1 : forall t, n_tok (nth h ns dnode) = Some t ->
                                n_tok (n_set_pos p (nth h ns dnode)) = Some t) by auto.
        pose proof (ext_upd_node ns ps h _ Hs1 Ht1 eq_refl (fun x H => H)) as He1.
        assert (Hheap1 : heap_ok (s_nodes st1) (s_pars st1)).
        { cbn [st1 upd_node set_nodes s_nodes s_pars]. apply heap_upd_node; [exact Hs1|exact Ht1|reflexivity|exact (fun x H => H)|exact Hheap|].
          intros _. apply (node_ok_same _ _ (nth h ns dnode)); [reflexivity|reflexivity|].
          eapply node_ok_ext; [exact He1|]. destruct Hheap as [_ Hn]. apply Hn. exact Hh. }
        assert (Hh1 : h < length (s_nodes st1)).
        { cbn [st1 upd_node set_nodes s_nodes]. rewrite list_upd_length. exact Hh. }
        assert (Hps1 : persym_ok (s_nodes st1) (s_persym st1)).
        { cbn [st1 upd_node set_nodes s_nodes s_persym]. eapply persym_ok_ext; [exact He1|exact Hps]. }
        pose proof (assign_tokens_ok
                      (rev (tokens_at tb terms rx in_len stop_id consume lexdis (n_state (getn st h)) p))
                      st1 h p Hheap1 Hh1 Hps1) as Ha.
        cbn zeta in Ha. destruct Ha as (A1 & A2 & A3 & A4 & A5).
        apply IH in H; [|exact A1|exact A3|].
        * destruct H as (B1 & B2 & B3 & B4 & B5). split; [exact B1|]. split.
          { eapply ext_trans; [|exact B2]. eapply ext_trans; [|exact A2].
            cbn [st1 upd_node set_nodes s_nodes s_pars]. exact He1. }
          split; [exact B3|]. split; [exact B4|]. rewrite B5, A5. reflexivity.
        * eapply dict_ok_ext; [exact A2|]. cbn [st1 upd_node set_nodes s_nodes s_pars].
          eapply dict_ok_ext; [exact He1|exact Hr].
  Qed.

  (* ---- _do_shifts --------------------------------------------------------------------------- *)

  Lemma Forall_ins_desc (P : nat * nat -> Prop) st x l :
    P x -> Forall P l -> Forall P (ins_desc st x l).
  Proof.
    intros Hx. induction l as [|y r IH]; intros Hl; cbn.
    - constructor; [exact Hx|constructor].
    - inversion Hl; subst. destruct (sh_key st x <? sh_key st y)%N.
      + constructor; [assumption|apply IH; assumption].
      + constructor; [exact Hx|exact Hl].
  Qed.

  Lemma Forall_sort_desc (P : nat * nat -> Prop) st l : Forall P l -> Forall P (sort_desc st l).
  Proof.
    unfold sort_desc. induction l as [|x r IH]; intros H; cbn; [constructor|].
    inversion H; subst. apply Forall_ins_desc; [assumption|apply IH; assumption].
  Qed.

  Definition regs3 (st : gst) := (s_persym st, s_actor st, s_trav st, s_accepted st).

  Lemma regs_regs3 st st' : regs st' = regs st -> regs3 st' = regs3 st /\ s_active st' = s_active st.
  Proof. unfold regs, regs3. intros H. inversion H. split; congruence. Qed.

  Lemma dget_dict ns d s h : dict_ok ns d -> dget Nat.eqb s d = Some h -> h < length ns /\ nstate ns h = s.
  Proof.
    intros Hd Hg. apply dget_In in Hg. destruct Hg as (s' & Hin & He). apply Nat.eqb_eq in He. subst s'.
    unfold dict_ok in Hd. rewrite Forall_forall in Hd. exact (Hd _ Hin).
  Qed.

  Lemma shift_loop_ok : forall todo st endp st' rest,
    shift_loop st todo endp = (st', rest) ->
    heap_ok (s_nodes st) (s_pars st) -> dict_ok (s_nodes st) (s_active st) ->
    Forall (shift_ok (s_nodes st)) todo ->
    heap_ok (s_nodes st') (s_pars st') /\
    ext (s_nodes st) (s_pars st) (s_nodes st') (s_pars st') /\
    dict_ok (s_nodes st') (s_active st') /\ Forall (shift_ok (s_nodes st')) rest /\
    regs3 st' = regs3 st.
  Proof.
    induction todo as [|[h s'] r IH]; intros st endp st' rest H Hheap Hd Htodo; cbn [shift_loop] in H.
    - inversion H; subst. split; [exact Hheap|]. split; [apply ext_refl|]. auto.
    - inversion Htodo as [|x l (Hh & t & Ht & Hin) Hr]; subst x l. cbn [fst snd] in Hh, Ht, Hin.
      assert (Etk : tok_of st h = t). { unfold tok_of, getn. rewrite Ht. reflexivity. }
      rewrite Etk in H.
      destruct (match endp with Some e => (e <? tok_end t)%N | None => false end).
      { inversion H; subst. split; [exact Hheap|]. split; [apply ext_refl|]. auto. }
      set (ns := s_nodes st) in *. set (ps := s_pars st) in *.
      set (sp := n_pos (getn st h)) in *. set (ep := (sp + tk_len t)%N) in *.
      destruct (dget Nat.eqb s' (s_active st)) as [sh|] eqn:Eg.
      + destruct (dget_dict _ _ _ _ Hd Eg) as [Hsh Hss].
        destruct (create_link st sh h sp ep (ATerm (tk_sym t) sp ep)) as [[st1 cr] pi] eqn:Ec.
        destruct (create_link_ok _ _ _ _ _ _ _ _ _ Ec Hheap Hsh Hh) as (C1 & C2 & C3 & C4 & C5).
        { exists (T (tk_sym t)). split; [|reflexivity]. fold ns. rewrite Hss. exact Hin. }
        destruct (regs_regs3 _ _ C4) as [R3 Ra].
        apply IH in H; [|exact C1| |].
        * destruct H as (B1 & B2 & B3 & B4 & B5). split; [exact B1|]. split; [eapply ext_trans; eassumption|].
          split; [exact B3|]. split; [exact B4|]. congruence.
        * rewrite Ra. eapply dict_ok_ext; eassumption.
        * rewrite Forall_forall in *. intros x Hx. eapply shift_ok_ext; [exact C2|apply Hr; exact Hx].
      + set (newn := mkNode s' ep (n_frontier (getn st h) + 1)%N None []) in *.
        set (st1 := set_nodes st (ns ++ [newn])) in *.
        set (st2 := set_active st1 (dset Nat.eqb s' (length ns) (s_active st1))) in *.
        pose proof (ext_app_node ns ps newn) as He1.
        assert (Hheap2 : heap_ok (s_nodes st2) (s_pars st2)).
        { cbn [st2 st1 set_active set_nodes s_nodes s_pars]. apply heap_app_node; [exact Hheap|].
          intros k q []. }
        assert (Hn2 : s_nodes st2 = ns ++ [newn]) by reflexivity.
        assert (Hlen : length (s_nodes st2) = S (length ns)) by (rewrite Hn2, app_length; cbn; lia).
        destruct (create_link st2 (length ns) h sp ep (ATerm (tk_sym t) sp ep)) as [[st3 cr] pi] eqn:Ec.
        destruct (create_link_ok _ _ _ _ _ _ _ _ _ Ec Hheap2) as (C1 & C2 & C3 & C4 & C5); [lia|lia| |].
        { exists (T (tk_sym t)). split; [|reflexivity]. rewrite Hn2.
          rewrite (ext_nstate _ _ _ _ _ He1 Hh).
          replace (nstate (ns ++ [newn]) (length ns)) with s'
            by (unfold nstate; rewrite app_nth2, Nat.sub_diag by lia; reflexivity).
          exact Hin. }
        destruct (regs_regs3 _ _ C4) as [R3 Ra].
        apply IH in H; [|exact C1| |].
        * destruct H as (B1 & B2 & B3 & B4 & B5). split; [exact B1|]. split.
          { eapply ext_trans; [|exact B2]. eapply ext_trans; [|exact C2]. rewrite Hn2. exact He1. }
          split; [exact B3|]. split; [exact B4|]. rewrite B5, R3. reflexivity.
        * rewrite Ra. eapply dict_ok_ext; [exact C2|].
          cbn [st2 st1 set_active set_nodes s_nodes s_active].
          apply Forall_dset.
          -- eapply dict_ok_ext; [exact He1|exact Hd].
          -- cbn [fst snd]. split; [rewrite app_length; cbn; lia|].
             unfold nstate. rewrite app_nth2, Nat.sub_diag by lia. reflexivity.
        * rewrite Forall_forall in *. intros x Hx. eapply shift_ok_ext; [exact C2|].
          rewrite Hn2. eapply shift_ok_ext; [exact He1|apply Hr; exact Hx].
  Qed.

  Lemma do_shifts_ok st :
    heap_ok (s_nodes st) (s_pars st) -> regs_ok (s_nodes st) st ->
    let st' := do_shifts st in
    heap_ok (s_nodes st') (s_pars st') /\
    ext (s_nodes st) (s_pars st) (s_nodes st') (s_pars st') /\
    regs_ok (s_nodes st') st'.
  Proof.
    intros Hheap (Ha & Hp & Hact & Hsh & Hacc). unfold do_shifts.
    set (st0 := set_active st []).
    destruct (shift_loop st0 (rev (sort_desc st0 (s_shifter st0))) None) as [st1 rest] eqn:El.
    cbn zeta.
    destruct (shift_loop_ok _ _ _ _ _ El) as (B1 & B2 & B3 & B4 & B5).
    { exact Hheap. } { constructor. }
    { apply Forall_rev. apply Forall_sort_desc. exact Hsh. }
    cbn [set_shifter s_nodes s_pars]. split; [exact B1|]. split; [exact B2|].
    unfold regs3 in B5. inversion B5 as [[E1 E2 E3 E4]].
    unfold regs_ok. cbn [set_shifter s_active s_persym s_actor s_shifter s_accepted s_nodes].
    cbn [st0 set_active s_persym s_actor s_accepted] in E1, E2, E4.
    split; [exact B3|]. split; [rewrite E1; eapply persym_ok_ext; [exact B2|exact Hp]|].
    split. { rewrite E2. pose proof B2 as (L1 & _). rewrite Forall_forall in *. intros x Hx. specialize (Hact x Hx).
             cbn [st0 set_active s_nodes] in L1. lia. }
    split; [apply Forall_rev; exact B4|].
    rewrite E4. rewrite Forall_forall in *. intros x Hx. eapply acc_ok_ext; [exact B2|apply Hacc; exact Hx].
  Qed.

  (* ---- one machine step preserves the invariant ------------------------------------------------ *)

  Notation step := (glr_step g tb terms rx in_len stop_id consume lexdis skipws rorder).

  Lemma inv_frames_tail st f k : inv st (f :: k) -> inv st k.
  Proof. intros (H1 & H2 & H3). inversion H3; subst. split; [exact H1|]. split; [exact H2|assumption]. Qed.

  (* registers replaced, heap untouched *)
  Lemma regs_ok_intro ns st :
    dict_ok ns (s_active st) -> persym_ok ns (s_persym st) ->
    Forall (fun h => h < length ns) (s_actor st) -> Forall (shift_ok ns) (s_shifter st) ->
    Forall (acc_ok ns) (s_accepted st) -> regs_ok ns st.
  Proof. intros H1 H2 H3 H4 H5. split; [exact H1|]. split; [exact H2|]. split; [exact H3|]. split; [exact H4|exact H5]. Qed.

  Lemma step_FLoop st k st' fr' :
    inv st (FLoop :: k) -> step st (FLoop :: k) = Go st' fr' -> inv st' fr'.
  Proof.
    intros (Hheap & (Ha & Hp & Hact & Hsh & Hacc) & Hfr) H. cbn [glr_step] in H.
    destruct (s_active st) as [|a0 ar] eqn:Ea; [discriminate|]. rewrite <- Ea in *. clear Ea a0 ar.
    destruct (find_la tb terms rx in_len stop_id consume lexdis skipws (set_persym st []) (rev (s_active st)))
      as [st1| |] eqn:Ef; try discriminate.
    inversion H; subst st1 fr'; clear H.
    destruct (find_la_ok _ _ _ Ef) as (B1 & B2 & B3 & B4 & B5).
    { exact Hheap. } { constructor. } { apply Forall_rev. exact Ha. }
    cbn [set_persym s_nodes s_pars] in B2. unfold regs4 in B5. inversion B5 as [[E1 E2 E3 E4]].
    cbn [set_persym s_actor s_trav s_shifter s_accepted] in E1, E2, E3, E4.
    split; [exact B1|]. split.
    - apply regs_ok_intro.
      + rewrite B4. constructor.
      + exact B3.
      + rewrite E1. pose proof B2 as (L1 & _). rewrite Forall_forall in *. intros x Hx. specialize (Hact x Hx). lia.
      + rewrite E3. rewrite Forall_forall in *. intros x Hx. eapply shift_ok_ext; [exact B2|apply Hsh; exact Hx].
      + rewrite E4. rewrite Forall_forall in *. intros x Hx. eapply acc_ok_ext; [exact B2|apply Hacc; exact Hx].
    - constructor; [exact I|]. constructor; [exact I|]. inversion Hfr; subst.
      eapply frames_ok_ext; eassumption.
  Qed.

  Lemma step_FSubs st k st' fr' :
    inv st (FSubs :: k) -> step st (FSubs :: k) = Go st' fr' -> inv st' fr'.
  Proof.
    intros Hinv H. pose proof Hinv as (Hheap & (Ha & Hp & Hact & Hsh & Hacc) & Hfr). cbn [glr_step] in H.
    destruct (pop_last (s_persym st)) as [[rest [y d]]|] eqn:Ep.
    - inversion H; subst; clear H. apply pop_last_app in Ep.
      fold (persym_ok (s_nodes st) (s_persym st)) in Hp. rewrite Ep in Hp.
      unfold persym_ok in Hp. apply Forall_app in Hp. destruct Hp as [Hp1 Hp2].
      inversion Hp2 as [|x l Hd _]; subst x l. cbn [snd] in Hd.
      split; [exact Hheap|]. split.
      + apply regs_ok_intro; cbn; try assumption.
        unfold dict_ok in Hd. rewrite Forall_forall in *. intros h Hh. apply in_map_iff in Hh.
        destruct Hh as (x & <- & Hx). exact (proj1 (Hd x Hx)).
      + constructor; [exact I|]. exact Hfr.
    - inversion H; subst. eapply inv_frames_tail. exact Hinv.
  Qed.

  Lemma step_FActorLoop st k st' fr' :
    inv st (FActorLoop :: k) -> step st (FActorLoop :: k) = Go st' fr' -> inv st' fr'.
  Proof.
    intros Hinv H. pose proof Hinv as (Hheap & (Ha & Hp & Hact & Hsh & Hacc) & Hfr). cbn [glr_step] in H.
    destruct (pop_last (s_actor st)) as [[rest h]|] eqn:Ep.
    - destruct (n_tok (getn st h)) as [t|] eqn:Et; [|discriminate].
      inversion H; subst; clear H. apply pop_last_app in Ep. rewrite Ep in Hact.
      apply Forall_app in Hact. destruct Hact as [Hr Hh]. inversion Hh as [|x l Hh' _]; subst x l.
      split; [exact Hheap|]. split.
      + apply regs_ok_intro; cbn; assumption.
      + constructor; [|exact Hfr]. cbn [frame_ok set_actor s_nodes]. split; [exact Hh'|].
        exists t. split; [exact Et|]. apply Forall_forall. auto.
    - inversion H; subst. eapply inv_frames_tail. exact Hinv.
  Qed.

  Lemma step_FShift st k st' fr' :
    inv st (FShift :: k) -> step st (FShift :: k) = Go st' fr' -> inv st' fr'.
  Proof.
    intros (Hheap & Hregs & Hfr) H. cbn [glr_step] in H.
    destruct (do_shifts_ok st Hheap Hregs) as (B1 & B2 & B3). cbn zeta in *.
    assert (Hgo : st' = do_shifts st /\ fr' = FLoop :: k).
    { destruct (s_active (do_shifts st)); destruct (s_accepted (do_shifts st));
        try discriminate; inversion H; auto. }
    destruct Hgo as [-> ->]. split; [exact B1|]. split; [exact B3|].
    constructor; [exact I|]. inversion Hfr; subst. eapply frames_ok_ext; eassumption.
  Qed.

  Lemma step_FActor st h acts k st' fr' :
    inv st (FActor h acts :: k) -> step st (FActor h acts :: k) = Go st' fr' -> inv st' fr'.
  Proof.
    intros Hinv H. pose proof Hinv as (Hheap & (Ha & Hp & Hact & Hsh & Hacc) & Hfr). cbn [glr_step] in H.
    inversion Hfr as [|x l Hf Hk]; subst x l. cbn [frame_ok] in Hf. destruct Hf as (Hh & t & Ht & Hall).
    destruct acts as [|[s'|p|] r].
    - inversion H; subst. eapply inv_frames_tail. exact Hinv.
    - inversion H; subst; clear H. inversion Hall as [|x l Hin Hr]; subst x l.
      split; [exact Hheap|]. split.
      + apply regs_ok_intro; cbn; try assumption. apply Forall_app. split; [exact Hsh|].
        constructor; [|constructor]. split; [exact Hh|]. exists t. split; [exact Ht|exact Hin].
      + constructor; [|exact Hk]. cbn. split; [exact Hh|]. exists t. split; [exact Ht|exact Hr].
    - inversion H; subst; clear H. inversion Hall as [|x l Hin Hr]; subst x l.
      split; [exact Hheap|]. split; [apply regs_ok_intro; assumption|].
      constructor.
      + cbn. split; [exact Hh|]. split; [eapply reduce_item; exact Hin|]. intros u E. discriminate.
      + constructor; [|exact Hk]. cbn. split; [exact Hh|]. exists t. split; [exact Ht|exact Hr].
    - inversion H; subst; clear H. inversion Hall as [|x l Hin Hr]; subst x l.
      split; [exact Hheap|]. split.
      + apply regs_ok_intro; cbn; try assumption. apply Forall_app. split; [exact Hacc|].
        constructor; [|constructor]. split; [exact Hh|]. eapply accept_item. exact Hin.
      + constructor; [|exact Hk]. cbn. split; [exact Hh|]. exists t. split; [exact Ht|exact Hr].
  Qed.

  Lemma step_FDoRed st h p upd k st' fr' :
    inv st (FDoRed h p upd :: k) -> step st (FDoRed h p upd :: k) = Go st' fr' -> inv st' fr'.
  Proof.
    intros (Hheap & Hregs & Hfr) H. cbn [glr_step] in H.
    inversion Hfr as [|x l Hf Hk]; subst x l. cbn [frame_ok] in Hf. destruct Hf as (Hh & (pr & Hp & Hi) & Hu).
    rewrite Hp in H. destruct (length (rhs pr)) as [|n] eqn:El.
    - inversion H; subst; clear H. split; [exact Hheap|]. split; [exact Hregs|].
      constructor; [|exact Hk]. cbn. split; [exact Hh|]. split; [exact Hh|]. exists pr. split; [exact Hp|].
      apply length_zero_iff_nil in El. rewrite El. constructor.
    - inversion H; subst; clear H. split; [exact Hheap|]. split; [exact Hregs|].
      constructor; [|exact Hk]. cbn [frame_ok]. split; [exact Hh|]. split; [exact Hu|].
      exists pr. split; [exact Hp|]. split; [|exact I]. constructor; [|constructor].
      unfold pe_ok. cbn [pe_node pe_len pe_results]. split; [exact Hh|]. split; [discriminate|].
      split; [exact Hi|]. rewrite <- El, skipn_all. constructor.
  Qed.

  Lemma node_eq_state a b : node_eq a b = true -> n_state a = n_state b.
  Proof.
    unfold node_eq. intros H. apply andb_true_iff in H. destruct H as [H _].
    apply key_eqb_snd in H. exact H.
  Qed.

  Lemma step_FRed_pop st h p upd tp k st' fr' :
    inv st (FRed h p upd tp None :: k) -> step st (FRed h p upd tp None :: k) = Go st' fr' -> inv st' fr'.
  Proof.
    intros Hinv H. pose proof Hinv as (Hheap & Hregs & Hfr). cbn [glr_step] in H.
    inversion Hfr as [|x l Hf Hk]; subst x l. cbn [frame_ok] in Hf.
    destruct Hf as (Hh & Hu & pr & Hp & Htp & _).
    destruct tp as [|pe tp'].
    - inversion H; subst. eapply inv_frames_tail. exact Hinv.
    - inversion Htp as [|x l (A1 & A2 & A3 & A4) Htp']; subst x l.
      set (ns := s_nodes st) in *. set (ps := s_pars st) in *.
      set (um := match upd with
                 | Some u => node_eq (getn st (p_head (getp st u))) (getn st (pe_node pe))
                 | None => false
                 end) in *.
      set (pars := if um then match upd with Some u => [u] | None => [] end
                   else map snd (n_parents (getn st (pe_node pe)))) in *.
      assert (Hpars : Forall (par_at ns ps (pe_node pe)) pars).
      { unfold pars. destruct um eqn:Eum.
        - destruct upd as [u|]; [|constructor]. constructor; [|constructor].
          specialize (Hu u eq_refl). destruct Hheap as [Hl _]. destruct (Hl u Hu) as (B1 & _).
          unfold um in Eum. apply node_eq_state in Eum.
          split; [exact Hu|]. split; [exact B1|]. exact Eum.
        - apply Forall_forall. intros q Hq. apply in_map_iff in Hq. destruct Hq as ([kk q'] & <- & Hin).
          destruct Hheap as [_ Hn]. destruct (Hn _ A1 kk q' Hin) as (B1 & B2 & B3 & _).
          split; [exact B1|]. split; [exact B2|exact B3]. }
      assert (Hcur : cur_ok ns ps p pr
                       (mkCur (pe_node pe) (pe_results pe) (pred (pe_len pe)) (pe_last pe) (pe_trav pe) um pars)).
      { unfold cur_ok. cbn [c_node c_len c_results c_pars].
        replace (S (pred (pe_len pe))) with (pe_len pe) by lia.
        split; [exact A1|]. split; [exact A3|]. split; [exact A4|exact Hpars]. }
      assert (Hgo : forall st1, s_nodes st1 = ns -> s_pars st1 = ps -> regs_ok ns st1 ->
                inv st1 (FRed h p upd tp'
                  (Some (mkCur (pe_node pe) (pe_results pe) (pred (pe_len pe)) (pe_last pe) (pe_trav pe) um pars)) :: k)).
      { intros st1 E1 E2 Hr. unfold inv. rewrite E1, E2. split; [exact Hheap|]. split; [exact Hr|].
        constructor; [|exact Hk]. cbn [frame_ok]. split; [exact Hh|]. split; [exact Hu|].
        exists pr. split; [exact Hp|]. split; [exact Htp'|exact Hcur]. }
      destruct (n_frontier (getn st (pe_node pe)) =? n_frontier (getn st h))%N;
        inversion H; subst; apply Hgo; try reflexivity; exact Hregs.
  Qed.

  Lemma step_FRed_cur st h p upd tp c k st' fr' :
    inv st (FRed h p upd tp (Some c) :: k) ->
    step st (FRed h p upd tp (Some c) :: k) = Go st' fr' -> inv st' fr'.
  Proof.
    intros Hinv H. pose proof Hinv as (Hheap & Hregs & Hfr). cbn [glr_step] in H.
    inversion Hfr as [|x l Hf Hk]; subst x l. cbn [frame_ok] in Hf.
    destruct Hf as (Hh & Hu & pr & Hp & Htp & (C1 & C2 & C3 & C4)).
    set (ns := s_nodes st) in *. set (ps := s_pars st) in *.
    destruct (c_pars c) as [|par rest] eqn:Ec.
    - inversion H; subst; clear H. split; [exact Hheap|]. split; [exact Hregs|].
      constructor; [|exact Hk]. cbn [frame_ok]. split; [exact Hh|]. split; [exact Hu|].
      exists pr. split; [exact Hp|]. split; [exact Htp|exact I].
    - inversion C4 as [|x l (P1 & P2 & P3) Hrest]; subst x l.
      pose proof C2 as C2'. rewrite <- P3 in C2'.
      destruct (link_back ns ps par p pr (c_len c) Hheap P1 Hp C2') as (X & Hn & Hus & Hr & Hi).
      assert (Hnew : Forall2 (child_ok ns ps) (par :: c_results c) (skipn (c_len c) (rhs pr))).
      { rewrite (skipn_nth_error _ _ _ Hn). constructor; [|exact C3].
        split; [exact P1|]. split; [exact P2|exact Hus]. }
      set (c' := mkCur (c_node c) (c_results c) (c_len c) (c_last c) (c_trav c || c_um c) (c_um c) rest) in *.
      assert (Hc' : cur_ok ns ps p pr c').
      { unfold cur_ok. cbn [c' c_node c_len c_results c_pars].
        split; [exact C1|]. split; [exact C2|]. split; [exact C3|exact Hrest]. }
      fold (proot ps par) in Hr, Hi.
      destruct (c_len c) as [|n] eqn:El.
      + destruct (c_trav c || c_um c) eqn:Etr.
        * inversion H; subst; clear H. split; [exact Hheap|]. split; [exact Hregs|].
          constructor.
          { cbn [frame_ok]. split; [exact Hh|]. split; [exact Hr|]. exists pr. split; [exact Hp|].
            cbn [skipn] in Hnew. exact Hnew. }
          constructor; [|exact Hk]. cbn [frame_ok]. split; [exact Hh|]. split; [exact Hu|].
          exists pr. split; [exact Hp|]. split; [exact Htp|]. exact Hc'.
        * inversion H; subst; clear H. split; [exact Hheap|]. split; [exact Hregs|].
          constructor; [|exact Hk]. cbn [frame_ok]. split; [exact Hh|]. split; [exact Hu|].
          exists pr. split; [exact Hp|]. split; [exact Htp|]. exact Hc'.
      + inversion H; subst; clear H. split; [exact Hheap|]. split; [exact Hregs|].
        constructor; [|exact Hk]. cbn [frame_ok]. split; [exact Hh|]. split; [exact Hu|].
        exists pr. split; [exact Hp|]. split; [|exact Hc'].
        constructor; [|exact Htp]. unfold pe_ok. cbn [pe_node pe_len pe_results].
        split; [exact Hr|]. split; [discriminate|]. split; [exact Hi|exact Hnew].
  Qed.

  Lemma step_FRevisit st y par states k st' fr' :
    inv st (FRevisit y par states :: k) -> step st (FRevisit y par states :: k) = Go st' fr' -> inv st' fr'.
  Proof.
    intros Hinv H. pose proof Hinv as (Hheap & Hregs & Hfr). cbn [glr_step] in H.
    inversion Hfr as [|x l Hf Hk]; subst x l. cbn [frame_ok] in Hf.
    destruct states as [|s r].
    - inversion H; subst. eapply inv_frames_tail. exact Hinv.
    - destruct (dget Nat.eqb s (s_active st)) as [rh|] eqn:Eg; [|discriminate].
      inversion H; subst; clear H. destruct Hregs as (Ha & Hrest).
      destruct (dget_dict _ _ _ _ Ha Eg) as [Hrh _].
      split; [exact Hheap|]. split; [split; assumption|].
      constructor.
      + cbn [frame_ok]. split; [exact Hrh|]. split; [exact Hf|].
        exists y. apply Forall_forall. intros a Ha'. apply filter_In in Ha'. exact (proj1 Ha').
      + constructor; [exact Hf|exact Hk].
  Qed.

  Lemma step_FRevActs st rh par acts k st' fr' :
    inv st (FRevActs rh par acts :: k) -> step st (FRevActs rh par acts :: k) = Go st' fr' -> inv st' fr'.
  Proof.
    intros Hinv H. pose proof Hinv as (Hheap & Hregs & Hfr). cbn [glr_step] in H.
    inversion Hfr as [|x l Hf Hk]; subst x l. cbn [frame_ok] in Hf. destruct Hf as (Hrh & Hpar & y & Hall).
    destruct acts as [|a r].
    - inversion H; subst. eapply inv_frames_tail. exact Hinv.
    - inversion Hall as [|x l Hin Hr]; subst x l.
      assert (Hrest : frame_ok (s_nodes st) (s_pars st) (FRevActs rh par r)).
      { cbn [frame_ok]. split; [exact Hrh|]. split; [exact Hpar|]. exists y. exact Hr. }
      destruct a as [s'|p|]; inversion H; subst; clear H.
      + split; [exact Hheap|]. split; [exact Hregs|]. constructor; [exact Hrest|exact Hk].
      + split; [exact Hheap|]. split; [exact Hregs|]. constructor; [|constructor; [exact Hrest|exact Hk]].
        cbn [frame_ok]. split; [exact Hrh|]. split; [eapply reduce_item; exact Hin|].
        intros u E. inversion E; subst. exact Hpar.
      + split; [exact Hheap|]. split; [exact Hregs|]. constructor; [exact Hrest|exact Hk].
  Qed.

  Lemma step_FReduce st h root p children s e k st' fr' :
    inv st (FReduce h root p children s e :: k) ->
    step st (FReduce h root p children s e :: k) = Go st' fr' -> inv st' fr'.
  Proof.
    intros Hinv H. pose proof Hinv as (Hheap & Hregs & Hfr). cbn [glr_step] in H.
    inversion Hfr as [|x l Hf Hk]; subst x l. cbn [frame_ok] in Hf.
    destruct Hf as (Hh & Hroot & pr & Hp & Hch).
    rewrite Hp in H.
    set (ns := s_nodes st) in *. set (ps := s_pars st) in *.
    destruct (goto tb (n_state (getn st root)) (lhs pr)) as [s'|] eqn:Eg; [|discriminate].
    assert (Hedge : edge tb (nstate ns root) (NT (lhs pr)) s') by exact Eg.
    assert (Halt : alt_ok ns ps (NT (lhs pr)) (ANT p s e children)).
    { cbn. exists pr. split; [exact Hp|]. split; [reflexivity|exact Hch]. }
    pose proof Hregs as (Ha & Hps & Hact & Hsh & Hacc).
    destruct (dget Nat.eqb s' (s_active st)) as [ah|] eqn:Ea.
    - destruct (dget_dict _ _ _ _ Ha Ea) as [Hah Hahs].
      destruct (create_link st ah root s e (ANT p s e children)) as [[st1 created] pi] eqn:Ec.
      destruct (create_link_ok _ _ _ _ _ _ _ _ _ Ec Hheap Hah Hroot) as (C1 & C2 & C3 & C4 & C5).
      { exists (NT (lhs pr)). split; [|exact Halt]. fold ns. rewrite Hahs. exact Hedge. }
      assert (Hregs1 : regs_ok (s_nodes st1) st1) by (eapply regs_ok_ext; eassumption).
      assert (Hk1 : Forall (frame_ok (s_nodes st1) (s_pars st1)) k) by (eapply frames_ok_ext; eassumption).
      assert (Hdone : inv st1 k) by (split; [exact C1|split; assumption]).
      destruct created.
      + destruct (dget Nat.eqb s' (s_trav st1)) as [tset|].
        * destruct (n_tok (getn st h)) as [t|]; [|discriminate].
          inversion H; subst; clear H. split; [exact C1|]. split; [exact Hregs1|].
          constructor; [exact C3|exact Hk1].
        * inversion H; subst. exact Hdone.
      + inversion H; subst. exact Hdone.
    - set (newn := mkNode s' (n_pos (getn st h)) (n_frontier (getn st h)) (n_tok (getn st h)) []) in *.
      set (st1 := set_nodes st (ns ++ [newn])) in *.
      pose proof (ext_app_node ns ps newn) as He1.
      assert (Hheap1 : heap_ok (s_nodes st1) (s_pars st1)).
      { cbn [st1 set_nodes s_nodes s_pars]. apply heap_app_node; [exact Hheap|]. intros kk q []. }
      assert (Hn1 : s_nodes st1 = ns ++ [newn]) by reflexivity.
      assert (Hlen : length (s_nodes st1) = S (length ns)) by (rewrite Hn1, app_length; cbn; lia).
      assert (Hnew : nstate (ns ++ [newn]) (length ns) = s').
      { unfold nstate. rewrite app_nth2, Nat.sub_diag by lia. reflexivity. }
      destruct (create_link st1 (length ns) root s e (ANT p s e children)) as [[st2 cr] pi] eqn:Ec.
      destruct (create_link_ok _ _ _ _ _ _ _ _ _ Ec Hheap1) as (C1 & C2 & C3 & C4 & C5); [lia|lia| |].
      { exists (NT (lhs pr)). split.
        - rewrite Hn1, Hnew, (ext_nstate _ _ _ _ _ He1 Hroot). exact Hedge.
        - eapply alt_ok_ext; [|exact Halt]. cbn [st1 set_nodes s_nodes s_pars]. exact He1. }
      injection H as <- <-.
      assert (He : ext ns ps (s_nodes st2) (s_pars st2)).
      { eapply ext_trans; [|exact C2]. cbn [st1 set_nodes s_nodes s_pars]. exact He1. }
      unfold regs in C4. inversion C4 as [[E1 E2 E3 E4 E5 E6]].
      cbn [st1 set_nodes s_active s_persym s_actor s_trav s_shifter s_accepted] in E1, E2, E3, E4, E5, E6.
      assert (Hnh : length ns < length (s_nodes st2)) by lia.
      assert (Hnhs : nstate (s_nodes st2) (length ns) = s').
      { rewrite (ext_nstate _ _ _ _ _ C2) by lia. rewrite Hn1. exact Hnew. }
      split; [exact C1|]. split.
      + apply regs_ok_intro; cbn [set_active set_actor s_active s_persym s_actor s_shifter s_accepted s_nodes].
        * rewrite E1. apply Forall_dset; [eapply dict_ok_ext; eassumption|]. cbn [fst snd]. split; assumption.
        * rewrite E2. eapply persym_ok_ext; eassumption.
        * rewrite E3. apply Forall_app. split.
          -- pose proof He as (L1 & _). rewrite Forall_forall in *. intros x Hx. specialize (Hact x Hx). lia.
          -- constructor; [exact Hnh|constructor].
        * rewrite E5. rewrite Forall_forall in *. intros x Hx. eapply shift_ok_ext; [exact He|apply Hsh; exact Hx].
        * rewrite E6. rewrite Forall_forall in *. intros x Hx. eapply acc_ok_ext; [exact He|apply Hacc; exact Hx].
      + cbn [set_active set_actor s_nodes s_pars]. eapply frames_ok_ext; eassumption.
  Qed.

  Theorem step_inv st fr st' fr' : inv st fr -> step st fr = Go st' fr' -> inv st' fr'.
  Proof.
    intros Hinv H. destruct fr as [|f k]; [discriminate|].
    destruct f as [| | | |h acts|h p upd|h p upd tp [c|]|h root p children s e|y par states|rh par acts].
    - eapply step_FLoop; eassumption.
    - eapply step_FSubs; eassumption.
    - eapply step_FActorLoop; eassumption.
    - eapply step_FShift; eassumption.
    - eapply step_FActor; eassumption.
    - eapply step_FDoRed; eassumption.
    - eapply step_FRed_cur; eassumption.
    - eapply step_FRed_pop; eassumption.
    - eapply step_FReduce; eassumption.
    - eapply step_FRevisit; eassumption.
    - eapply step_FRevActs; eassumption.
  Qed.

  Lemma init_inv pos : inv (init_st pos) [FLoop].
  Proof.
    unfold inv, init_st. cbn [s_nodes s_pars]. split.
    - split.
      + intros q Hq. cbn in Hq. lia.
      + intros i Hi. cbn in Hi. assert (i = 0) by lia. subst i. cbn. intros k q [].
    - split.
      + apply regs_ok_intro; cbn; try constructor; [|constructor].
        cbn. split; [lia|reflexivity].
      + constructor; [exact I|constructor].
  Qed.

  (* ---- the returned forest ---------------------------------------------------------------------- *)

  Lemma alt_ok_fun ns ps X X' a : alt_ok ns ps X a -> alt_ok ns ps X' a -> X = X'.
  Proof.
    destruct a as [y s e|p s e cs]; cbn.
    - congruence.
    - intros (pr & Hp & -> & _) (pr' & Hp' & -> & _). congruence.
  Qed.

  (* a link whose head state holds the item S' -> start . is labelled with the start symbol *)
  Lemma accept_link ns ps q :
    heap_ok ns ps -> q < length ps -> In (0%N, 1) (items tb (nstate ns (phead ps q))) ->
    forall X, link_edge ns (nth q ps dpar) X -> X = NT start.
  Proof.
    intros Hheap Hq Hi X HX. unfold link_edge in HX. fold (phead ps q) (proot ps q) in HX.
    destruct (edge_back g tb start Hts _ _ _ _ _ HX Hi) as (_ & _ & pr & Hp & Hn).
    destruct (prod0 g tb start Hts) as (pr0 & Hp0 & Hr0). rewrite Hp0 in Hp. inversion Hp; subst pr.
    rewrite Hr0 in Hn. cbn in Hn. congruence.
  Qed.

  Definition merge_step (root : nat) (cur : list gparent) (r : nat) : list gparent :=
    list_upd root (p_add_alts (p_alts (nth r cur dpar))) cur.

  Lemma merge_fold ps root rs0 : forall rs cur,
    incl rs rs0 ->
    (length cur = length ps /\
     (forall q, q <> root -> nth q cur dpar = nth q ps dpar) /\
     (forall a, In a (p_alts (nth root cur dpar)) ->
                In a (p_alts (nth root ps dpar)) \/ exists r, In r rs0 /\ In a (p_alts (nth r ps dpar)))) ->
    let cur' := fold_left (merge_step root) rs cur in
    length cur' = length ps /\
    (forall q, q <> root -> nth q cur' dpar = nth q ps dpar) /\
    (forall a, In a (p_alts (nth root cur' dpar)) ->
               In a (p_alts (nth root ps dpar)) \/ exists r, In r rs0 /\ In a (p_alts (nth r ps dpar))).
  Proof.
    induction rs as [|r rs IH]; intros cur Hincl Q; cbn [fold_left]; [exact Q|].
    apply IH; [intros x Hx; apply Hincl; right; exact Hx|].
    destruct Q as (Q1 & Q2 & Q3). unfold merge_step. split; [rewrite list_upd_length; exact Q1|]. split.
    - intros q Hq. rewrite nth_list_upd_neq by congruence. apply Q2. exact Hq.
    - intros a Ha. destruct (Nat.lt_ge_cases root (length cur)) as [Hlt|Hge].
      + rewrite nth_list_upd_eq in Ha by exact Hlt. cbn [p_add_alts p_alts] in Ha.
        apply in_app_or in Ha. destruct Ha as [Ha|Ha]; [apply Q3; exact Ha|].
        destruct (Nat.eq_dec r root) as [->|Hne]; [apply Q3; exact Ha|].
        rewrite (Q2 r Hne) in Ha. right. exists r. split; [apply Hincl; left; reflexivity|exact Ha].
      + rewrite list_upd_overflow in Ha by exact Hge. apply Q3. exact Ha.
  Qed.

  Theorem build_forest_sound st nodes root :
    heap_ok (s_nodes st) (s_pars st) -> Forall (acc_ok (s_nodes st)) (s_accepted st) ->
    build_forest st = GLRForest nodes root ->
    forall t, unfolds (glr_forest nodes root) (length nodes) t ->
              wf_tree g t /\ root_sym g t = Some (NT start).
  Proof.
    intros Hheap Hacc Hb. unfold build_forest in Hb.
    set (ns := s_nodes st) in *. set (ps := s_pars st) in *.
    set (results := flat_map (fun h => map snd (n_parents (getn st h))) (s_accepted st)) in *.
    destruct (pop_last results) as [[rest root0]|] eqn:Ep; [|discriminate].
    apply pop_last_app in Ep.
    set (ps' := fold_left (fun cur r => list_upd root0 (p_add_alts (p_alts (nth r cur dpar))) cur)
                          (rev rest) ps) in *.
    inversion Hb; subst nodes root; clear Hb. rename root0 into root.
    (* every result is a link into a state holding the accept item *)
    assert (Hres : forall r, In r results ->
              r < length ps /\ In (0%N, 1) (items tb (nstate ns (phead ps r)))).
    { intros r Hr. unfold results in Hr. apply in_flat_map in Hr. destruct Hr as (h & Hh & Hr).
      apply in_map_iff in Hr. destruct Hr as ([kk q] & <- & Hin). cbn [snd].
      rewrite Forall_forall in Hacc. destruct (Hacc h Hh) as [Hhv Hi].
      pose proof Hheap as [_ Hn]. destruct (Hn h Hhv kk q Hin) as (B1 & B2 & B3 & _).
      split; [exact B1|]. rewrite B3. exact Hi. }
    assert (Hroot_in : In root results) by (rewrite Ep; apply in_or_app; right; left; reflexivity).
    destruct (Hres root Hroot_in) as [Hrootv Hrooti].
    (* the merged heap *)
    destruct (merge_fold ps root rest (rev rest) ps) as (M1 & M2 & M3).
    { intros x Hx. apply in_rev. exact Hx. }
    { split; [reflexivity|]. split; [reflexivity|]. intros a Ha. left. exact Ha. }
    cbn zeta in M1, M2, M3. change (fold_left (merge_step root) (rev rest) ps) with ps' in M1, M2, M3.
    assert (Halts : forall a, In a (p_alts (nth root ps' dpar)) ->
              alt_ok ns ps (NT start) a).
    { intros a Ha. assert (Hex : exists r, In r results /\ In a (p_alts (nth r ps dpar))).
      { destruct (M3 a Ha) as [H1|(r & Hr & H1)]; [exists root; auto|].
        exists r. split; [|exact H1]. rewrite Ep. apply in_or_app. left. exact Hr. }
      destruct Hex as (r & Hr & Hin). destruct (Hres r Hr) as [Hrv Hri].
      pose proof Hheap as [Hl _]. destruct (Hl r Hrv) as (_ & _ & _ & Hal).
      rewrite Forall_forall in Hal. destruct (Hal a Hin) as (X & HX & Hok).
      rewrite (accept_link ns ps r Hheap Hrv Hri X HX) in Hok. exact Hok. }
    assert (Hrootsym : forall Y, usym (nstate ns (phead ps root)) Y -> NT start = Y).
    { intros Y HY. pose proof Hheap as [Hl Hn]. destruct (Hl root Hrootv) as (_ & _ & (X0 & HX0) & _).
      pose proof (accept_link ns ps root Hheap Hrootv Hrooti X0 HX0) as E. subst X0.
      unfold link_edge in HX0. fold (phead ps root) in HX0. eapply HY. exact HX0. }
    set (N := length ps).
    assert (HN : @length pnode (map p_alts ps') = N) by (rewrite map_length; exact M1).
    rewrite HN.
    set (F := glr_forest (map p_alts ps') root).
    set (hsF := fun k => if k <? N then nstate ns (phead ps k) else nstate ns (phead ps root)).
    assert (HnthF : forall k, k < N -> nth k F [] = p_alts (nth k ps' dpar)).
    { intros k Hk. unfold F, glr_forest. rewrite app_nth1 by (rewrite HN; exact Hk).
      change [] with (p_alts dpar). apply map_nth. }
    assert (HnthN : nth N F [] = p_alts (nth root ps' dpar)).
    { unfold F, glr_forest. rewrite app_nth2 by (rewrite HN; lia). rewrite HN, Nat.sub_diag. cbn [nth].
      change [] with (p_alts dpar). apply map_nth. }
    assert (HG : forall k a, In a (nth k F []) ->
              exists X, (forall Y, usym (hsF k) Y -> X = Y) /\ alt_ok ns ps X a).
    { intros k a Ha. destruct (Nat.lt_ge_cases k N) as [Hlt|Hge].
      - rewrite (HnthF k Hlt) in Ha. unfold hsF. replace (k <? N) with true by (symmetry; apply Nat.ltb_lt; exact Hlt).
        destruct (Nat.eq_dec k root) as [->|Hne].
        + exists (NT start). split; [exact Hrootsym|apply Halts; exact Ha].
        + rewrite (M2 k Hne) in Ha. pose proof Hheap as [Hl _]. destruct (Hl k Hlt) as (_ & _ & _ & Hal).
          rewrite Forall_forall in Hal. destruct (Hal a Ha) as (X & HX & Hok). exists X. split; [|exact Hok].
          intros Y HY. unfold link_edge in HX. fold (phead ps k) in HX. eapply HY. exact HX.
      - destruct (Nat.eq_dec k N) as [->|Hne].
        + rewrite HnthN in Ha. unfold hsF. rewrite Nat.ltb_irrefl.
          exists (NT start). split; [exact Hrootsym|apply Halts; exact Ha].
        + rewrite nth_overflow in Ha; [destruct Ha|].
          unfold F, glr_forest. rewrite app_length, HN. cbn. lia. }
    (* every tree unfolding from a node is a derivation rooted in the symbol of one of its alternatives *)
    assert (Htree : forall k t, unfolds F k t ->
              wf_tree g t /\
              exists X a, In a (nth k F []) /\ alt_ok ns ps X a /\ root_sym g t = Some X /\
                          (forall Y, usym (hsF k) Y -> X = Y)).
    { apply (unfolds_ind2 F
               (fun k t _ => wf_tree g t /\
                  exists X a, In a (nth k F []) /\ alt_ok ns ps X a /\ root_sym g t = Some X /\
                              (forall Y, usym (hsF k) Y -> X = Y))
               (fun cs ts _ => forall ys, Forall2 (child_ok ns ps) cs ys ->
                  All (wf_tree g) ts /\ map (root_sym g) ts = map Some ys)).
      - intros k y s e Hin. split; [exact I|]. destruct (HG k _ Hin) as (X & HXu & Hok).
        exists X, (ATerm y s e). split; [exact Hin|]. split; [exact Hok|]. split; [|exact HXu].
        cbn in Hok. subst X. reflexivity.
      - intros k p s e cs ts Hin Hl IH. destruct (HG k _ Hin) as (X & HXu & Hok).
        pose proof Hok as (pr & Hp & EX & Hcs). destruct (IH _ Hcs) as [Hall Hroots]. split.
        + cbn [wf_tree]. split; [exists pr; split; [exact Hp|exact Hroots]|exact Hall].
        + exists X, (ANT p s e cs). split; [exact Hin|]. split; [exact Hok|]. split; [|exact HXu].
          cbn [root_sym]. rewrite Hp. cbn. subst X. reflexivity.
      - intros ys H. inversion H; subst. split; [exact I|reflexivity].
      - intros c cs t ts Hu IHu Hl IHl ys H. inversion H as [|c' Y cs' ys' Hc Hr]; subst.
        destruct (IHl _ Hr) as [Hall Hroots]. destruct IHu as (Hwf & X & a & _ & _ & Hrs & HXu).
        destruct Hc as (Hcv & _ & Hus).
        assert (X = Y).
        { apply HXu. unfold hsF. replace (c <? N) with true by (symmetry; apply Nat.ltb_lt; exact Hcv). exact Hus. }
        subst Y. split; [cbn [All]; split; assumption|]. cbn [map]. rewrite Hrs, Hroots. reflexivity. }
    intros t Ht. destruct (Htree N t Ht) as (Hwf & X & a & Hin & Hok & Hrs & _).
    split; [exact Hwf|]. rewrite HnthN in Hin.
    rewrite (alt_ok_fun ns ps X (NT start) a Hok (Halts a Hin)) in Hrs. exact Hrs.
  Qed.

  (* ---- runs ------------------------------------------------------------------------------------- *)

  Lemma step_fin_forest st fr nodes root :
    step st fr = Fin (GLRForest nodes root) ->
    exists k, fr = FLoop :: k /\ build_forest st = GLRForest nodes root.
  Proof.
    intros H. destruct fr as [|f k]; [discriminate|].
    destruct f as [| | | |h acts|h p upd|h p upd tp [c|]|h root' p children s e|y par states|rh par acts];
      cbn [glr_step] in H.
    - exists k. split; [reflexivity|].
      destruct (s_active st); [|destruct (find_la _ _ _ _ _ _ _ _ _ _); discriminate].
      destruct (s_accepted st); [discriminate|]. inversion H. reflexivity.
    - destruct (pop_last (s_persym st)) as [[? [? ?]]|]; discriminate.
    - destruct (pop_last (s_actor st)) as [[? ?]|]; [|discriminate].
      destruct (n_tok _); discriminate.
    - destruct (s_active (do_shifts st)); destruct (s_accepted (do_shifts st)); discriminate.
    - destruct acts as [|[?|?|] ?]; discriminate.
    - destruct (get_prod g p); [|discriminate]. destruct (length (rhs p0)); discriminate.
    - destruct (c_pars c); [discriminate|]. destruct (c_len c); [|discriminate].
      destruct (c_trav c || c_um c); discriminate.
    - destruct tp; [discriminate|]. destruct (_ =? _)%N; discriminate.
    - destruct (get_prod g p); [|discriminate]. destruct (goto tb _ _); [|discriminate].
      destruct (dget Nat.eqb n (s_active st)).
      + destruct (create_link st n0 root' s e (ANT p s e children)) as [[? []] ?].
        * destruct (dget Nat.eqb n (s_trav g0)); [|discriminate]. destruct (n_tok _); discriminate.
        * discriminate.
      + destruct (create_link _ _ _ _ _ _) as [[? ?] ?]. discriminate.
    - destruct states; [discriminate|]. destruct (dget _ _ _); discriminate.
    - destruct acts as [|[?|?|] ?]; discriminate.
  Qed.

  Theorem run_sound : forall fuel st fr nodes root,
    inv st fr ->
    glr_run g tb terms rx in_len stop_id consume lexdis skipws rorder fuel st fr = GLRForest nodes root ->
    forall t, unfolds (glr_forest nodes root) (length nodes) t ->
              wf_tree g t /\ root_sym g t = Some (NT start).
  Proof.
    induction fuel as [|f IH]; intros st fr nodes root Hinv H; cbn [glr_run] in H; [discriminate|].
    destruct (step st fr) as [st' fr'|r] eqn:Es.
    - eapply IH; [eapply step_inv; eassumption|exact H].
    - subst r. destruct (step_fin_forest _ _ _ _ Es) as (k & -> & Hb).
      destruct Hinv as (Hheap & (_ & _ & _ & _ & Hacc) & _).
      eapply build_forest_sound; eassumption.
  Qed.
  End Steps.

  (* Soundness of the GLR driver model: for every table that passes table_struct, every
     scanner (terminal data, recognizer oracle, consume_input, lexical disambiguation), every
     layout skipper, every iteration order of the revisit set, every start position and all
     fuel: each tree that unfolds from the root of a returned forest -- through any sharing and
     any cycles -- is a derivation tree of the grammar whose root is the start symbol. *)
  Theorem glr_sound terms rx in_len stop_id consume lexdis skipws rorder fuel pos nodes root :
    glr_parse g tb terms rx in_len stop_id consume lexdis skipws rorder fuel pos = GLRForest nodes root ->
    forall t, unfolds (glr_forest nodes root) (pred (length (glr_forest nodes root))) t ->
              wf_tree g t /\ root_sym g t = Some (NT start).
  Proof.
    unfold glr_parse. intros H t Ht.
    replace (pred (length (glr_forest nodes root))) with (length nodes) in Ht
      by (unfold glr_forest; rewrite app_length; cbn; lia).
    eapply run_sound; [apply init_inv|exact H|exact Ht].
  Qed.
End Inv.

(* the whole parser of Model/GLR.v, Section Full: scanner of Model/Scan.v, ws/LAYOUT skipping,
   CPython's set order *)
Theorem glr_full_sound (c : pconf) (inp : pinput) (fuel : nat) (pos start : N) nodes root :
  table_struct (pc_g c) (pc_tb c) start = true ->
  glr_parse_full c inp fuel pos = GLRForest nodes root ->
  forall t, unfolds (glr_forest nodes root) (pred (length (glr_forest nodes root))) t ->
            wf_tree (pc_g c) t /\ root_sym (pc_g c) t = Some (NT start).
Proof. intros Hts H. unfold glr_parse_full in H. eapply glr_sound; eassumption. Qed.
