(* Soundness of Validators/ForestSound.v. *)
From Coq Require Import NArith List Bool Lia Arith PeanoNat.
From PV Require Import Spec.Cfg Model.Forest Validators.ForestSound Proofs.ForestProofs.
Import ListNotations.
Local Open Scope N_scope.

(* ---- what a good tree is ------------------------------------------------- *)

Definition lf_s (l : N * N * N) : N := snd (fst l).
Definition lf_e (l : N * N * N) : N := snd l.
Definition lf_y (l : N * N * N) : N := fst (fst l).

Fixpoint ordered_t (cs : list tree) : Prop :=
  match cs with
  | c1 :: ((c2 :: _) as r) => t_end c1 <= t_start c2 /\ ordered_t r
  | _ => True
  end.

(* spans: every node has s <= e; an interior node spans from the start of its first
   child to the end of its last child; siblings are in input order and do not overlap;
   a node without children is empty *)
Fixpoint spans_ok (t : tree) : Prop :=
  match t with
  | TLeaf _ s e => s <= e
  | TNode _ s e cs =>
      s <= e /\
      match cs with
      | [] => s = e
      | c0 :: _ => s = t_start c0 /\ e = t_end (last cs c0) /\ ordered_t cs
      end /\
      All spans_ok cs
  end.

Lemma last_cons_default {X} (l : list X) x d : last (x :: l) d = last l x.
Proof.
  revert x d. induction l as [|a r IH]; intros x d; [reflexivity|].
  change (last (x :: a :: r) d) with (last (a :: r) d). rewrite (IH a d), (IH a x). reflexivity.
Qed.

Lemma last_app_cons {X} (l1 l2 : list X) c d : last (l1 ++ c :: l2) d = last l2 c.
Proof.
  revert d. induction l1 as [|x r IH]; intros d; cbn [app].
  - apply last_cons_default.
  - rewrite last_cons_default. apply IH.
Qed.

Section Sem.
  Variable g : grammar.
  Variable tokok : N -> N -> N -> bool.
  Variable sk : N -> N.
  Variable strict : bool.

  Fixpoint chain_ok (l : list (N * N * N)) : Prop :=
    match l with
    | a :: ((b :: _) as r) => sk (lf_e a) = lf_s b /\ chain_ok r
    | _ => True
    end.

  Definition bounds (l : list (N * N * N)) : option (N * N) :=
    match l with
    | [] => None
    | a :: r => Some (lf_s a, lf_e (last r a))
    end.

  Definition leaf_ok (l : N * N * N) : Prop := tokok (lf_y l) (lf_s l) (lf_e l) = true.

  Definition good (t : tree) (sm : nsum) : Prop :=
    wf_tree g t /\ root_sym g t = Some (sm_sym sm) /\
    (strict = true -> t_start t = sm_s sm /\ t_end t = sm_e sm /\ spans_ok t) /\
    chain_ok (leaves t) /\ bounds (leaves t) = sm_fl sm /\
    All leaf_ok (leaves t).

  (* ---- list lemmas ------------------------------------------------------- *)

  Lemma chain_app l1 l2 :
    chain_ok l1 -> chain_ok l2 ->
    match bounds l1, bounds l2 with
    | Some (_, e1), Some (s2, _) => sk e1 = s2
    | _, _ => True
    end ->
    chain_ok (l1 ++ l2).
  Proof.
    induction l1 as [|a r IH]; intros H1 H2 Hb; [exact H2|].
    destruct r as [|b r'].
    - cbn [app]. destruct l2 as [|c l2']; [exact I|].
      cbn [chain_ok]. split; [|exact H2]. cbn in Hb. exact Hb.
    - cbn [app chain_ok] in *. destruct H1 as [Hab Hr]. split; [exact Hab|].
      apply IH; [exact Hr|exact H2|].
      cbn [bounds] in *. destruct (bounds l2) as [[s2 e2]|]; [|exact I].
      rewrite last_cons_default in Hb. exact Hb.
  Qed.

  Lemma bounds_app l1 l2 :
    bounds (l1 ++ l2) =
    match bounds l1, bounds l2 with
    | None, b => b
    | Some b1, None => Some b1
    | Some (s1, _), Some (_, e2) => Some (s1, e2)
    end.
  Proof.
    destruct l1 as [|a r]; [cbn; destruct (bounds l2) as [[? ?]|]; reflexivity|].
    destruct l2 as [|c l2']; [rewrite app_nil_r; reflexivity|].
    cbn [app bounds]. f_equal. f_equal.
    rewrite last_app_cons. reflexivity.
  Qed.

  Lemma All_app_leaf (l1 l2 : list (N * N * N)) :
    All leaf_ok l1 -> All leaf_ok l2 -> All leaf_ok (l1 ++ l2).
  Proof. intros. apply All_app. split; assumption. Qed.

  (* ---- the chain fold ---------------------------------------------------- *)

  Lemma chain_sound ts kids :
    Forall2 (fun t k => chain_ok (leaves t) /\ bounds (leaves t) = sm_fl k) ts kids ->
    forall L0 cur fl,
      chain_ok L0 -> bounds L0 = cur -> chain sk kids cur = Some fl ->
      chain_ok (L0 ++ flat_map leaves ts) /\ bounds (L0 ++ flat_map leaves ts) = fl.
  Proof.
    induction 1 as [|t k ts kids [Hc Hb] Hrest IH]; intros L0 cur fl HL0 Hcur Hch.
    - cbn in Hch. inversion Hch; subst. cbn. rewrite app_nil_r. split; [exact HL0|reflexivity].
    - cbn [chain] in Hch. cbn [flat_map]. rewrite app_assoc.
      destruct (sm_fl k) as [[fs le]|] eqn:Hk.
      + destruct cur as [[fs0 le0]|].
        * destruct (N.eqb_spec (sk le0) fs) as [He|]; [|discriminate].
          apply (IH (L0 ++ leaves t) (Some (fs0, le)) fl); [| |exact Hch].
          -- apply chain_app; [exact HL0|exact Hc|]. rewrite Hcur, Hb. exact He.
          -- rewrite bounds_app, Hcur, Hb. reflexivity.
        * apply (IH (L0 ++ leaves t) (Some (fs, le)) fl); [| |exact Hch].
          -- apply chain_app; [exact HL0|exact Hc|]. rewrite Hcur. exact I.
          -- rewrite bounds_app, Hcur, Hb. reflexivity.
      + assert (Hl : leaves t = []).
        { destruct (leaves t); [reflexivity|]. try rewrite Hk in Hb. discriminate. }
        rewrite Hl, app_nil_r. apply (IH L0 cur fl); assumption.
  Qed.

  Lemma ordered_sound ts kids :
    Forall2 (fun t k => t_start t = sm_s k /\ t_end t = sm_e k) ts kids ->
    ordered kids = true -> ordered_t ts.
  Proof.
    induction 1 as [|t k ts kids [Hs He] Hrest IH]; intros Ho; [exact I|].
    destruct Hrest as [|t2 k2 ts2 kids2 [Hs2 He2] Hrest2]; [exact I|].
    cbn [ordered] in Ho. apply andb_true_iff in Ho. destruct Ho as [Hle Ho].
    cbn [ordered_t]. split; [apply N.leb_le in Hle; lia|].
    apply IH. exact Ho.
  Qed.

  Lemma all_some_map {X Y} (f : X -> option Y) l ys :
    all_some (map f l) = Some ys -> Forall2 (fun x y => f x = Some y) l ys.
  Proof.
    revert ys. induction l as [|x r IH]; intros ys H; cbn in H.
    - inversion H; constructor.
    - destruct (f x) as [y|] eqn:Hx; [|discriminate].
      destruct (all_some (map f r)) as [ys'|]; [|discriminate].
      inversion H; subst. constructor; [exact Hx|apply IH; reflexivity].
  Qed.

  Lemma Forall2_last {X Y} (R : X -> Y -> Prop) l l' dx dy :
    Forall2 R l l' -> R dx dy -> R (last l dx) (last l' dy).
  Proof.
    induction 1 as [|x y l l' Hxy Hl IH]; intros Hd; [exact Hd|].
    destruct Hl as [|x' y' l l' Hxy' Hl']; [exact Hxy|].
    cbn [last] in *. apply IH. exact Hd.
  Qed.

  (* ---- tree-level soundness ---------------------------------------------- *)

  Theorem tsum_sound t : forall sm, tsum g tokok sk strict t = Some sm -> good t sm.
  Proof.
    induction t as [y s e|p s e cs IH] using tree_ind2; intros sm H.
    - cbn [tsum] in H. unfold check_leaf in H.
      destruct (tokok y s e && (s <=? e)) eqn:Hc; [|discriminate].
      apply andb_true_iff in Hc. destruct Hc as [Ht Hle]. apply N.leb_le in Hle.
      inversion H; subst. unfold good. cbn.
      split; [exact I|]. split; [reflexivity|]. split.
      { intros Hs. rewrite Hs. repeat split; try reflexivity. exact Hle. }
      split; [exact I|]. split; [reflexivity|]. split; [exact Ht|exact I].
    - cbn [tsum] in H.
      destruct (all_some (map (tsum g tokok sk strict) cs)) as [kids|] eqn:Hall; [|discriminate].
      apply all_some_map in Hall.
      assert (Hgood : Forall2 good cs kids).
      { clear H. revert kids Hall. induction cs as [|c r IHr]; intros kids Hall.
        - inversion Hall; constructor.
        - inversion Hall as [|? k ? kids' Hk Hr']; subst. destruct IH as [Hc Hrr].
          constructor; [apply Hc; exact Hk|apply IHr; assumption]. }
      clear IH Hall.
      unfold check_node in H.
      destruct (get_prod g p) as [pr|] eqn:Hp; [|discriminate].
      destruct (list_eqb sym_eqb (map sm_sym kids) (rhs pr)) eqn:Hsyms; cbn [negb] in H; [|discriminate].
      apply (list_eqb_eq sym_eqb sym_eqb_eq) in Hsyms.
      destruct (strict && negb (s <=? e)) eqn:G1; [discriminate|].
      destruct (strict && negb (match kids with
                | [] => s =? e
                | k0 :: _ => (s =? sm_s k0) && (e =? sm_e (last kids k0)) && ordered kids
                end)) eqn:G2; [discriminate|].
      destruct (chain sk kids None) as [fl|] eqn:Hch; [|discriminate].
      inversion H; subst sm. clear H.
      assert (Hchain : chain_ok (flat_map leaves cs) /\ bounds (flat_map leaves cs) = fl).
      { apply (chain_sound cs kids) with (L0 := []) (cur := None); [|exact I|reflexivity|exact Hch].
        clear -Hgood. induction Hgood as [|c k cs kids Hg Hr IHr]; constructor; [|exact IHr].
        destruct Hg as (_ & _ & _ & Hc & Hb & _). split; assumption. }
      destruct Hchain as [Hc1 Hc2].
      unfold good. cbn [wf_tree root_sym t_start t_end leaves sm_sym sm_s sm_e sm_fl fst snd].
      rewrite Hp. cbn [option_map].
      split.
      { split.
        - exists pr. split; [reflexivity|]. rewrite <- Hsyms.
          clear -Hgood. induction Hgood as [|c k cs kids Hg Hr IHr]; [reflexivity|].
          cbn [map]. destruct Hg as (_ & Hroot & _). rewrite Hroot, IHr. reflexivity.
        - apply All_In. intros c Hc.
          clear -Hgood Hc. induction Hgood as [|c' k cs kids Hg Hr IHr]; [destruct Hc|].
          destruct Hc as [->|Hc]; [apply Hg|apply IHr; exact Hc]. }
      split; [reflexivity|].
      split.
      { intros Hs. pose proof Hs as Hs'. rewrite Hs in G1, G2. rewrite Hs. cbn [andb] in G1, G2.
        apply negb_false_iff in G1. apply negb_false_iff in G2. apply N.leb_le in G1.
        split; [reflexivity|]. split; [reflexivity|].
        assert (HF : Forall2 (fun t k => t_start t = sm_s k /\ t_end t = sm_e k /\ spans_ok t) cs kids).
        { clear -Hgood Hs'. induction Hgood as [|c k cs kids Hg Hr IHr]; constructor; [|exact IHr].
          destruct Hg as (_ & _ & Hsp & _). apply Hsp. exact Hs'. }
        cbn [spans_ok]. split; [exact G1|]. split.
        - destruct HF as [|c0 k0 cs' kids' Hg0 Hr0].
          + apply N.eqb_eq. exact G2.
          + apply andb_true_iff in G2. destruct G2 as [G2 Hord].
            apply andb_true_iff in G2. destruct G2 as [Hs0 He0].
            apply N.eqb_eq in Hs0. apply N.eqb_eq in He0.
            assert (HF2 : Forall2 (fun t k => t_start t = sm_s k /\ t_end t = sm_e k)
                                  (c0 :: cs') (k0 :: kids')).
            { constructor; [destruct Hg0 as (A & B & _); auto|].
              clear -Hr0. induction Hr0 as [|c k cs kids Hg Hr IHr]; constructor; [|exact IHr].
              destruct Hg as (A & B & _); auto. }
            split; [destruct Hg0 as (A & _); congruence|].
            split; [|apply (ordered_sound _ _ HF2 Hord)].
            rewrite He0.
            pose proof (Forall2_last (fun t k => t_start t = sm_s k /\ t_end t = sm_e k)
                                     _ _ c0 k0 HF2) as HL.
            destruct HL as [_ HL]; [destruct Hg0 as (A & B & _); auto|].
            symmetry. exact HL.
        - apply All_In. intros c Hc.
          clear -HF Hc. induction HF as [|c' k cs kids Hg Hr IHr]; [destruct Hc|].
          destruct Hc as [->|Hc]; [apply Hg|apply IHr; exact Hc]. }
      split; [exact Hc1|]. split; [exact Hc2|].
      clear -Hgood. induction Hgood as [|c k cs kids Hg Hr IHr]; [exact I|].
      cbn [flat_map]. apply All_app. split; [apply Hg|exact IHr].
  Qed.

  (* ---- forest-level ------------------------------------------------------ *)

  Lemma nsum_eqb_eq a b : nsum_eqb a b = true -> a = b.
  Proof.
    destruct a as [[[xa sa] ea] fa], b as [[[xb sb] eb] fb]. unfold nsum_eqb. cbn.
    intros H. apply andb_true_iff in H. destruct H as [H Hf].
    apply andb_true_iff in H. destruct H as [H He].
    apply andb_true_iff in H. destruct H as [Hx Hs].
    apply sym_eqb_eq in Hx. apply N.eqb_eq in Hs. apply N.eqb_eq in He. subst.
    destruct fa as [[? ?]|], fb as [[? ?]|]; try discriminate; [|reflexivity].
    apply andb_true_iff in Hf. destruct Hf as [H1 H2].
    apply N.eqb_eq in H1. apply N.eqb_eq in H2. subst. reflexivity.
  Qed.

  Definition Rf (osm : option nsum) (ts : list tree) : Prop :=
    forall sm, osm = Some sm -> forall t, In t ts -> tsum g tokok sk strict t = Some sm.

  Lemma In_cart {X} (ls : list (list X)) (xs : list X) :
    In xs (cart ls) -> Forall2 (fun x l => In x l) xs ls.
  Proof.
    revert xs. induction ls as [|l r IH]; intros xs H; cbn in H.
    - destruct H as [<-|[]]. constructor.
    - apply in_flat_map in H. destruct H as (x & Hx & H).
      apply in_map_iff in H. destruct H as (xs' & <- & H).
      constructor; [exact Hx|apply IH; exact H].
  Qed.

  Lemma Rf_nth sums ats c sm :
    Forall2 Rf sums ats -> nth c sums None = Some sm ->
    forall t, In t (nth c ats []) -> tsum g tokok sk strict t = Some sm.
  Proof.
    intros H. revert c. induction H as [|o ts sums ats Ho Hr IH]; intros c Hn t Ht.
    - destruct c; discriminate.
    - destruct c as [|c]; cbn in *.
      + apply (Ho sm Hn t Ht).
      + apply (IH c Hn t Ht).
  Qed.

  Lemma alt_sound sums ats a sm :
    Forall2 Rf sums ats -> fsum_alt g tokok sk strict sums a = Some sm ->
    forall t, In t (trees_alt ats a) -> tsum g tokok sk strict t = Some sm.
  Proof.
    intros HR Ha t Ht. destruct a as [y s e|p s e cs]; cbn [fsum_alt trees_alt] in *.
    - destruct Ht as [<-|[]]. exact Ha.
    - apply in_map_iff in Ht. destruct Ht as (ts & <- & Hts).
      apply In_cart in Hts.
      destruct (all_some (map (fun c => nth c sums None) cs)) as [kids|] eqn:Hall; [|discriminate].
      apply all_some_map in Hall.
      cbn [tsum].
      assert (E : all_some (map (tsum g tokok sk strict) ts) = Some kids).
      { clear Ha. revert ts Hts. induction Hall as [|c k cs kids Hk Hr IHr]; intros ts Hts.
        - cbn in Hts. inversion Hts; reflexivity.
        - cbn [map] in Hts. inversion Hts as [|t0 ? ts' ? Ht0 Hts']; subst.
          cbn [map all_some]. rewrite (Rf_nth _ _ _ _ HR Hk t0 Ht0), (IHr ts' Hts'). reflexivity. }
      rewrite E. exact Ha.
  Qed.

  Lemma node_sound sums ats n :
    Forall2 Rf sums ats -> Rf (fsum_node g tokok sk strict sums n) (trees_node ats n).
  Proof.
    intros HR sm Hn t Ht. unfold fsum_node in Hn.
    destruct n as [|a r]; [discriminate|].
    destruct (fsum_alt g tokok sk strict sums a) as [sm0|] eqn:Ha; [|discriminate].
    destruct (forallb _ r) eqn:Hall; [|discriminate]. inversion Hn; subst sm0.
    unfold trees_node in Ht. cbn [flat_map] in Ht. apply in_app_or in Ht.
    destruct Ht as [Ht|Ht].
    - apply (alt_sound _ _ _ _ HR Ha t Ht).
    - apply in_flat_map in Ht. destruct Ht as (b & Hb & Ht).
      rewrite forallb_forall in Hall. specialize (Hall b Hb).
      destruct (fsum_alt g tokok sk strict sums b) as [sm'|] eqn:Hb'; [|discriminate].
      apply nsum_eqb_eq in Hall. subst sm'.
      apply (alt_sound _ _ _ _ HR Hb' t Ht).
  Qed.

  Lemma below_sound (below : forest) :
    Forall2 Rf (build (fsum_node g tokok sk strict) [] below) (all_trees below).
  Proof.
    unfold all_trees.
    apply (build2 (fsum_node g tokok sk strict) trees_node Rf (fun _ _ => True)).
    - intros ax ay n HR _. apply node_sound. exact HR.
    - constructor.
    - generalize (length (@nil (option nsum))). clear.
      induction below as [|n r IH]; intros k; cbn [oks]; [exact I|split; [exact I|apply IH]].
  Qed.

  Variables (start pos0 in_len : N) (consume : bool).

  Theorem forest_ok_sound F :
    forest_ok g tokok sk strict start pos0 in_len consume F = true ->
    forall t, In t (root_trees F) ->
    exists sm, tsum g tokok sk strict t = Some sm /\ root_ok sk start pos0 in_len consume sm = true.
  Proof.
    unfold forest_ok. destruct (rev F) as [|root rbelow] eqn:Hrev; [discriminate|].
    assert (HF : F = rev rbelow ++ [root]).
    { rewrite <- (rev_involutive F), Hrev. reflexivity. }
    intros H t Ht. apply andb_true_iff in H. destruct H as [_ H].
    unfold root_trees, all_trees in Ht. rewrite HF, build_snoc, last_last in Ht.
    fold (all_trees (rev rbelow)) in Ht.
    unfold trees_node in Ht. apply in_flat_map in Ht. destruct Ht as (a & Ha & Ht).
    rewrite forallb_forall in H. specialize (H a Ha).
    destruct (fsum_alt g tokok sk strict _ a) as [sm|] eqn:Hsm; [|discriminate].
    exists sm. split; [|exact H].
    apply (alt_sound _ _ _ _ (below_sound (rev rbelow)) Hsm t Ht).
  Qed.
End Sem.

(* ---- consequences stated for users --------------------------------------- *)

Lemma spans_le t : spans_ok t -> t_start t <= t_end t.
Proof. destruct t as [y s e|p s e cs]; cbn; [auto|]. intros [H _]. exact H. Qed.

(* children of an ordered list lie between the start of the first and the end of the last *)
Lemma ordered_between c0 cs :
  ordered_t (c0 :: cs) -> All spans_ok (c0 :: cs) ->
  forall c, In c (c0 :: cs) -> t_start c0 <= t_start c /\ t_end c <= t_end (last cs c0).
Proof.
  revert c0. induction cs as [|c1 r IH]; intros c0 Ho Ha c Hc.
  - destruct Hc as [<-|[]]. cbn. destruct Ha as [Ha _]. apply spans_le in Ha. lia.
  - cbn [ordered_t] in Ho. destruct Ho as [H01 Ho]. destruct Ha as [Ha0 Ha].
    pose proof (spans_le _ Ha0) as Hle0.
    change (last (c1 :: r) c0) with (last (c1 :: r) c0).
    rewrite last_cons_default.
    destruct Hc as [<-|Hc].
    + destruct (IH c1 Ho Ha c1 (or_introl eq_refl)) as [_ H2].
      pose proof (spans_le _ (proj1 Ha)). split; lia.
    + destruct (IH c1 Ho Ha c Hc) as [H1 H2]. split; lia.
Qed.

Fixpoint subtrees (t : tree) : list tree :=
  t :: match t with TNode _ _ _ cs => flat_map subtrees cs | TLeaf _ _ _ => [] end.

(* C08: every node of a tree with good spans lies inside the root's span and has
   start <= end *)
Theorem spans_nested t : spans_ok t ->
  forall n, In n (subtrees t) ->
    t_start t <= t_start n /\ t_end n <= t_end t /\ t_start n <= t_end n.
Proof.
  induction t as [y s e|p s e cs IH] using tree_ind2; intros Hsp n Hn.
  - destruct Hn as [<-|[]]. cbn in *. lia.
  - destruct Hn as [<-|Hn]; [pose proof (spans_le _ Hsp); cbn in *; lia|].
    cbn [spans_ok] in Hsp. destruct Hsp as (Hle & Hcs & Hall).
    apply in_flat_map in Hn. destruct Hn as (c & Hc & Hn).
    rewrite All_In in IH. rewrite All_In in Hall.
    destruct (IH c Hc (Hall c Hc) n Hn) as (H1 & H2 & H3).
    destruct cs as [|c0 r]; [destruct Hc|].
    destruct Hcs as (Hs & He & Ho).
    assert (Hall' : All spans_ok (c0 :: r)) by (apply All_In; exact Hall).
    destruct (ordered_between c0 r Ho Hall' c Hc) as [Hb1 Hb2].
    cbn [t_start t_end]. rewrite last_cons_default in He. subst s e. lia.
Qed.

Section UserFacing.
  Variable g : grammar.
  Variable tokok : N -> N -> N -> bool.
  Variable sk : N -> N.
  Variable strict : bool.
  Variables (start pos0 in_len : N) (consume : bool).

  (* every tree represented by a forest that passes forest_ok is a derivation tree of
     the input: productions applied correctly, root = start symbol, spans nested and
     ordered, leaves a tokenisation of the input *)
  Theorem forest_valid F :
    forest_ok g tokok sk strict start pos0 in_len consume F = true ->
    forall t, In t (root_trees F) ->
      wf_tree g t /\ root_sym g t = Some (NT start) /\ (strict = true -> spans_ok t) /\
      chain_ok sk (leaves t) /\ All (leaf_ok tokok) (leaves t) /\
      match bounds (leaves t) with
      | None => consume = true -> sk pos0 = in_len
      | Some (fs, le) => fs = sk pos0 /\ le <= in_len /\ (consume = true -> sk le = in_len)
      end.
  Proof.
    intros HF t Ht.
    destruct (forest_ok_sound g tokok sk strict start pos0 in_len consume F HF t Ht) as (sm & Hsm & Hroot).
    destruct (tsum_sound g tokok sk strict t sm Hsm) as (Hwf & Hrs & Hsp & Hch & Hb & Hlf).
    unfold root_ok in Hroot. apply andb_true_iff in Hroot. destruct Hroot as [Hsym Hfl].
    apply sym_eqb_eq in Hsym. rewrite Hsym in Hrs.
    split; [exact Hwf|]. split; [exact Hrs|]. split; [intros Hs; apply Hsp; exact Hs|]. split; [exact Hch|].
    split; [exact Hlf|]. rewrite Hb.
    destruct (sm_fl sm) as [[fs le]|].
    - apply andb_true_iff in Hfl. destruct Hfl as [Hfl Hle].
      apply andb_true_iff in Hfl. destruct Hfl as [Hfs Hcons].
      apply N.eqb_eq in Hfs. apply N.leb_le in Hle. split; [exact Hfs|]. split; [exact Hle|].
      intros ->. cbn in Hcons. apply N.eqb_eq in Hcons. exact Hcons.
    - intros ->. cbn in Hfl. apply N.eqb_eq in Hfl. exact Hfl.
  Qed.
End UserFacing.

(* ---- labelled (cycle-tolerant) validator ----------------------------------------------- *)

Scheme unfolds_ind2 := Induction for unfolds Sort Prop
  with unfolds_list_ind2 := Induction for unfolds_list Sort Prop.

Section LabelledSound.
  Variable g : grammar.
  Variable tokok : N -> N -> N -> bool.
  Variable sk : N -> N.
  Variable strict : bool.

  Lemma nodes_consistent_nth labels k0 ns k n :
    nodes_consistent g tokok sk strict labels k0 ns = true ->
    nth_error ns k = Some n -> node_consistent g tokok sk strict labels (k0 + k) n = true.
  Proof.
    revert k0 k. induction ns as [|m r IH]; intros k0 k H Hn; [destruct k; discriminate|].
    cbn in H. apply andb_true_iff in H. destruct H as [Hm Hr].
    destruct k as [|k]; cbn in Hn.
    - inversion Hn; subst. rewrite Nat.add_0_r. exact Hm.
    - replace (k0 + S k)%nat with (S k0 + k)%nat by lia. apply IH; assumption.
  Qed.

  Lemma onsum_eqb_eq a b : onsum_eqb a b = true -> exists x, a = Some x /\ b = Some x.
  Proof.
    destruct a as [x|], b as [y|]; cbn; try discriminate. intros H.
    apply nsum_eqb_eq in H. subst. eauto.
  Qed.

  (* every tree unfolding from a consistent part of the forest has its node's label *)
  Theorem unfolds_label (below : forest) (labels : list (option nsum)) :
    nodes_consistent g tokok sk strict labels 0 below = true ->
    forall k t, unfolds below k t ->
      exists sm, nth k labels None = Some sm /\ tsum g tokok sk strict t = Some sm.
  Proof.
    intros Hc.
    apply (unfolds_ind2 below
             (fun k t _ => exists sm, nth k labels None = Some sm /\ tsum g tokok sk strict t = Some sm)
             (fun cs ts _ => forall kids, all_some (map (fun c => nth c labels None) cs) = Some kids ->
                                          all_some (map (tsum g tokok sk strict) ts) = Some kids)).
    - intros k y s e Hin.
      destruct (nth_error below k) as [n|] eqn:En;
        [|apply nth_error_None in En; rewrite nth_overflow in Hin by exact En; destruct Hin].
      rewrite (nth_error_nth _ _ _ En) in Hin.
      pose proof (nodes_consistent_nth labels 0 below k n Hc En) as Hn. cbn in Hn.
      unfold node_consistent in Hn. rewrite forallb_forall in Hn. specialize (Hn _ Hin).
      apply onsum_eqb_eq in Hn. destruct Hn as (x & Hx & Hl). exists x. split; [exact Hl|exact Hx].
    - intros k p s e cs ts Hin Hl IH.
      destruct (nth_error below k) as [n|] eqn:En;
        [|apply nth_error_None in En; rewrite nth_overflow in Hin by exact En; destruct Hin].
      rewrite (nth_error_nth _ _ _ En) in Hin.
      pose proof (nodes_consistent_nth labels 0 below k n Hc En) as Hn. cbn in Hn.
      unfold node_consistent in Hn. rewrite forallb_forall in Hn. specialize (Hn _ Hin).
      apply onsum_eqb_eq in Hn. destruct Hn as (x & Hx & Hlab). exists x. split; [exact Hlab|].
      cbn [fsum_alt] in Hx. cbn [tsum].
      destruct (all_some (map (fun c => nth c labels None) cs)) as [kids|] eqn:Hk; [|discriminate].
      rewrite (IH kids eq_refl). exact Hx.
    - intros kids H. cbn in H. inversion H. reflexivity.
    - intros c cs t ts Hu IHu Hl IHl kids H. cbn [map all_some] in *.
      destruct IHu as (sm & Hlab & Hts). rewrite Hlab in H. rewrite Hts.
      destruct (all_some (map (fun c0 => nth c0 labels None) cs)) as [ks|] eqn:Hk; [|discriminate].
      rewrite (IHl ks eq_refl). exact H.
  Qed.

  Variables (start pos0 in_len : N) (consume : bool).

  (* the trees that unfold from the ROOT: choose a root alternative, unfold its children in
     the part of the forest below the root *)
  Inductive root_unfolds (F : forest) : tree -> Prop :=
  | ru_term below root y s e : F = below ++ [root] -> In (ATerm y s e) root ->
                               root_unfolds F (TLeaf y s e)
  | ru_nt below root p s e cs ts : F = below ++ [root] -> In (ANT p s e cs) root ->
                                   unfolds_list below cs ts -> root_unfolds F (TNode p s e ts).

  Theorem forest_labelled_valid F labels :
    forest_ok_labelled g tokok sk strict start pos0 in_len consume F labels = true ->
    forall t, root_unfolds F t ->
    exists sm, tsum g tokok sk strict t = Some sm /\ root_ok sk start pos0 in_len consume sm = true.
  Proof.
    unfold forest_ok_labelled. destruct (rev F) as [|root rbelow] eqn:Hrev; [discriminate|].
    assert (HF : F = rev rbelow ++ [root]) by (rewrite <- (rev_involutive F), Hrev; reflexivity).
    intros H t Ht. apply andb_true_iff in H. destruct H as [H Hroot].
    apply andb_true_iff in H. destruct H as [Hc _].
    rewrite forallb_forall in Hroot.
    assert (Hsame : forall below' root', F = below' ++ [root'] -> below' = rev rbelow /\ root' = root).
    { intros b' r' E. rewrite HF in E. apply app_inj_tail in E. destruct E; auto. }
    destruct Ht as [below' root' y s e E Hin | below' root' p s e cs ts E Hin Hl].
    - destruct (Hsame _ _ E) as [-> ->]. specialize (Hroot _ Hin). cbn [fsum_alt] in Hroot.
      cbn [tsum]. destruct (check_leaf tokok strict y s e) as [sm|]; [|discriminate]. eauto.
    - destruct (Hsame _ _ E) as [-> ->]. specialize (Hroot _ Hin). cbn [fsum_alt] in Hroot.
      cbn [tsum].
      destruct (all_some (map (fun c => nth c labels None) cs)) as [kids|] eqn:Hk; [|discriminate].
      assert (Hkids : all_some (map (tsum g tokok sk strict) ts) = Some kids).
      { clear -Hc Hl Hk. revert kids Hk. induction Hl as [|c cs t ts Hu Hl IH]; intros kids Hk.
        - cbn in *. exact Hk.
        - cbn [map all_some] in *.
          destruct (unfolds_label _ _ Hc _ _ Hu) as (sm & Hlab & Hts). rewrite Hlab in Hk. rewrite Hts.
          destruct (all_some (map (fun c0 => nth c0 labels None) cs)) as [ks|] eqn:Hks; [|discriminate].
          rewrite (IH ks eq_refl). exact Hk. }
      rewrite Hkids. destruct (check_node g sk strict p s e kids) as [sm|]; [|discriminate]. eauto.
  Qed.
End LabelledSound.

(* cyclic forests: every finite tree unfolding from the root (the last node) of a forest that
   passes the full labelled check is a derivation tree of the input *)
Theorem forest_labelled_full_valid g tokok sk strict start pos0 in_len consume F labels :
  forest_ok_labelled_full g tokok sk strict start pos0 in_len consume F labels = true ->
  forall t, unfolds F (pred (length F)) t ->
    wf_tree g t /\ root_sym g t = Some (NT start) /\ (strict = true -> spans_ok t) /\
    chain_ok sk (leaves t) /\ All (leaf_ok tokok) (leaves t) /\
    match bounds (leaves t) with
    | None => consume = true -> sk pos0 = in_len
    | Some (fs, le) => fs = sk pos0 /\ le <= in_len /\ (consume = true -> sk le = in_len)
    end.
Proof.
  unfold forest_ok_labelled_full. intros H t Ht.
  apply andb_true_iff in H. destruct H as [H _].
  apply andb_true_iff in H. destruct H as [Hc Hroot].
  destruct (unfolds_label g tokok sk strict F labels Hc _ _ Ht) as (sm & Hlab & Hsm).
  rewrite Hlab in Hroot.
  destruct (tsum_sound g tokok sk strict t sm Hsm) as (Hwf & Hrs & Hsp & Hch & Hb & Hlf).
  unfold root_ok in Hroot. apply andb_true_iff in Hroot. destruct Hroot as [Hsym Hfl].
  apply sym_eqb_eq in Hsym. rewrite Hsym in Hrs.
  split; [exact Hwf|]. split; [exact Hrs|]. split; [intros Hs; apply Hsp; exact Hs|]. split; [exact Hch|].
  split; [exact Hlf|]. rewrite Hb.
  destruct (sm_fl sm) as [[fs le]|].
  - apply andb_true_iff in Hfl. destruct Hfl as [Hfl Hle].
    apply andb_true_iff in Hfl. destruct Hfl as [Hfs Hcons].
    apply N.eqb_eq in Hfs. apply N.leb_le in Hle. split; [exact Hfs|]. split; [exact Hle|].
    intros ->. cbn in Hcons. apply N.eqb_eq in Hcons. exact Hcons.
  - intros ->. cbn in Hfl. apply N.eqb_eq in Hfl. exact Hfl.
Qed.
