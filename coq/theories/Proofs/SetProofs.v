(* Facts about the list representation of Python sets of terminals and of dicts
   nonterminal -> set used by the table-construction model (Model/First.v). *)
From Coq Require Import NArith List Bool Lia Arith.
From PV Require Import Spec.Cfg Model.First.
Import ListNotations.
Local Open Scope N_scope.

Lemma nmem_In x l : nmem x l = true <-> In x l.
Proof.
  unfold nmem. rewrite existsb_exists. split.
  - intros (y & Hy & E). apply N.eqb_eq in E. subst. exact Hy.
  - intros H. exists x. split; [exact H|apply N.eqb_refl].
Qed.

Lemma nmem_false x l : nmem x l = false <-> ~ In x l.
Proof.
  rewrite <- nmem_In. destruct (nmem x l); split; intros H; congruence.
Qed.

Lemma nsubset_spec a b : nsubset a b = true <-> (forall x, In x a -> In x b).
Proof.
  unfold nsubset. rewrite forallb_forall. split.
  - intros H x Hx. apply nmem_In. apply H. exact Hx.
  - intros H x Hx. apply nmem_In. apply H. exact Hx.
Qed.

Lemma nsubset_false a b : nsubset a b = false -> exists x, In x a /\ ~ In x b.
Proof.
  induction a as [|y r IH]; cbn; [discriminate|].
  destruct (nmem y b) eqn:E; cbn.
  - intros H. destruct (IH H) as (x & Hx & Hn). exists x. split; [right; exact Hx|exact Hn].
  - intros _. exists y. split; [left; reflexivity|]. apply nmem_false. exact E.
Qed.

Lemma nadd_In a y x : In x (nadd a y) <-> In x a \/ x = y.
Proof.
  unfold nadd. destruct (nmem y a) eqn:E.
  - apply nmem_In in E. split; [auto|]. intros [H| ->]; assumption.
  - rewrite in_app_iff. cbn. split; intros H; intuition (subst; auto).
Qed.

Lemma nadd_NoDup a y : NoDup a -> NoDup (nadd a y).
Proof.
  intros H. unfold nadd. destruct (nmem y a) eqn:E; [exact H|].
  apply nmem_false in E.
  apply NoDup_rev in H. rewrite <- (rev_involutive (a ++ [y])). apply NoDup_rev.
  rewrite rev_app_distr. cbn. constructor; [|exact H].
  intros Hin. apply E. apply in_rev. exact Hin.
Qed.

Lemma nadd_length a y : (length a <= length (nadd a y))%nat.
Proof. unfold nadd. destruct (nmem y a); [lia|]. rewrite app_length. cbn. lia. Qed.

Lemma nadd_length_new a y : ~ In y a -> length (nadd a y) = S (length a).
Proof.
  intros H. apply nmem_false in H. unfold nadd. rewrite H. rewrite app_length. cbn. lia.
Qed.

Lemma nunion_In b : forall a x, In x (nunion a b) <-> In x a \/ In x b.
Proof.
  unfold nunion. induction b as [|y r IH]; intros a x; cbn [fold_left].
  - cbn. tauto.
  - rewrite IH, nadd_In. cbn. split; intros H.
    + destruct H as [[H|H]|H]; auto.
    + destruct H as [H|[H|H]]; auto.
Qed.

Lemma nunion_NoDup b : forall a, NoDup a -> NoDup (nunion a b).
Proof.
  unfold nunion. induction b as [|y r IH]; intros a H; cbn [fold_left]; [exact H|].
  apply IH. apply nadd_NoDup. exact H.
Qed.

Lemma nunion_length b : forall a, (length a <= length (nunion a b))%nat.
Proof.
  unfold nunion. induction b as [|y r IH]; intros a; cbn [fold_left]; [lia|].
  specialize (IH (nadd a y)). pose proof (nadd_length a y). lia.
Qed.

Lemma nunion_length_new b : forall a x, In x b -> ~ In x a ->
  (length a < length (nunion a b))%nat.
Proof.
  unfold nunion. induction b as [|y r IH]; intros a x Hb Ha; [destruct Hb|].
  cbn [fold_left]. destruct Hb as [->|Hb].
  - pose proof (nunion_length r (nadd a x)) as H1. unfold nunion in H1.
    rewrite (nadd_length_new a x Ha) in H1. lia.
  - destruct (nmem x (nadd a y)) eqn:E.
    + apply nmem_In in E. apply nadd_In in E. destruct E as [E|E]; [contradiction|]. subst y.
      pose proof (nunion_length r (nadd a x)) as H1. unfold nunion in H1.
      rewrite (nadd_length_new a x Ha) in H1. lia.
    + apply nmem_false in E. specialize (IH (nadd a y) x Hb E).
      pose proof (nadd_length a y). lia.
Qed.

Lemma nremove_In x l y : In y (nremove x l) <-> In y l /\ y <> x.
Proof.
  unfold nremove. rewrite filter_In. rewrite negb_true_iff, N.eqb_neq. tauto.
Qed.

Lemma nremove_NoDup x l : NoDup l -> NoDup (nremove x l).
Proof. intros H. unfold nremove. apply NoDup_filter. exact H. Qed.

Lemma ndiff_In a b x : In x (ndiff a b) <-> In x a /\ ~ In x b.
Proof. unfold ndiff. rewrite filter_In, negb_true_iff, nmem_false. tauto. Qed.

Lemma nmeets_spec a b : nmeets a b = true <-> exists x, In x a /\ In x b.
Proof.
  unfold nmeets. rewrite existsb_exists. split; intros (x & H1 & H2); exists x;
    (split; [exact H1|apply nmem_In; exact H2]).
Qed.

(* ---- upd_nth / fget / fupd ---------------------------------------------------- *)
Lemma upd_nth_length {X} i (v : X) l : length (upd_nth i v l) = length l.
Proof. revert i. induction l as [|x r IH]; intros [|i]; cbn; auto. Qed.

Lemma nth_upd_nth_eq {X} i (v d : X) l : (i < length l)%nat -> nth i (upd_nth i v l) d = v.
Proof.
  revert i. induction l as [|x r IH]; intros [|i] H; cbn in *; try lia; auto. apply IH. lia.
Qed.

Lemma nth_upd_nth_neq {X} i j (v d : X) l : i <> j -> nth j (upd_nth i v l) d = nth j l d.
Proof.
  revert i j. induction l as [|x r IH]; intros [|i] [|j] H; cbn; auto; try congruence.
Qed.

Lemma upd_nth_overflow {X} i (v : X) l : (length l <= i)%nat -> upd_nth i v l = l.
Proof.
  revert i. induction l as [|x r IH]; intros [|i] H; cbn in *; auto; try lia.
  rewrite IH by lia. reflexivity.
Qed.

Lemma fupd_length a v fs : length (fupd a v fs) = length fs.
Proof. apply upd_nth_length. Qed.

Lemma fget_fupd_eq a v fs : (N.to_nat a < length fs)%nat -> fget (fupd a v fs) a = v.
Proof. intros H. unfold fget, fupd. apply nth_upd_nth_eq. exact H. Qed.

Lemma fget_fupd_neq a b v fs : a <> b -> fget (fupd a v fs) b = fget fs b.
Proof.
  intros H. unfold fget, fupd. apply nth_upd_nth_neq. intros E. apply H.
  apply N2Nat.inj. exact E.
Qed.

Lemma fget_fupd a b v fs :
  fget (fupd a v fs) b = if (a =? b) && (N.to_nat a <? length fs)%nat then v else fget fs b.
Proof.
  destruct (N.eqb_spec a b) as [->|Hne]; cbn [andb].
  - destruct (Nat.ltb_spec (N.to_nat b) (length fs)) as [H|H].
    + apply fget_fupd_eq. exact H.
    + unfold fupd. rewrite upd_nth_overflow by exact H. reflexivity.
  - apply fget_fupd_neq. exact Hne.
Qed.

Lemma fget_repeat n a : fget (repeat [] n) a = [].
Proof.
  unfold fget. generalize (N.to_nat a) as k. induction n as [|n IH]; intros [|k]; cbn; auto.
Qed.

(* total size of a dict of sets *)
Fixpoint fsize (fs : fsets) : nat :=
  match fs with [] => O | s :: r => (length s + fsize r)%nat end.

Lemma fsize_upd_nth i v fs :
  (i < length fs)%nat ->
  (fsize (upd_nth i v fs) + length (nth i fs []) = fsize fs + length v)%nat.
Proof.
  revert i. induction fs as [|s r IH]; intros [|i] H; cbn in *; try lia.
  specialize (IH i ltac:(lia)). lia.
Qed.

Lemma fsize_fupd a v fs :
  (N.to_nat a < length fs)%nat ->
  (fsize (fupd a v fs) + length (fget fs a) = fsize fs + length v)%nat.
Proof. intros H. unfold fupd, fget. apply fsize_upd_nth. exact H. Qed.

(* a duplicate-free list of numbers below n has at most n elements *)
Lemma NoDup_bounded_length (l : list N) (n : nat) :
  NoDup l -> (forall x, In x l -> (N.to_nat x < n)%nat) -> (length l <= n)%nat.
Proof.
  intros Hnd Hb.
  assert (Hincl : incl l (map N.of_nat (seq 0 n))).
  { intros x Hx. apply in_map_iff. exists (N.to_nat x). split; [apply N2Nat.id|].
    apply in_seq. specialize (Hb x Hx). lia. }
  pose proof (NoDup_incl_length Hnd Hincl) as H. rewrite map_length, seq_length in H. exact H.
Qed.

Lemma fsize_bound (fs : fsets) (n : nat) :
  (forall s, In s fs -> (length s <= n)%nat) -> (fsize fs <= length fs * n)%nat.
Proof.
  induction fs as [|s r IH]; intros H; cbn; [lia|].
  specialize (IH (fun s' Hs => H s' (or_intror Hs))).
  specialize (H s (or_introl eq_refl)). lia.
Qed.
