(* Second invariant of the GLR driver model: positions.  Under a condition on the scan data
   that keeps all heads of one frontier in step (no two tokens of different lengths are ever
   recognised at one input position: [tokens_uniform]), with consume_input on, every tree
   of the returned forest is a derivation whose leaves are a tokenisation of the whole
   input (each leaf matched by its recognizer, consecutive leaves separated by layout only).
   Without the condition the statement is false of the faithful model
   (GLRWitness.glr_model_overlap).

   The invariant assigns to every frontier number f a raw position P f (where the tokens
   shifted into frontier f end); a processed node of frontier f stands at sk (P f); a link
   from a root of frontier f to a head of frontier f' covers exactly the input between
   sk (P f) and P f' in every one of its alternatives (a token, or a chain of child links
   whose frontiers connect).  Frontier numbers stand in for node identity: links are keyed
   by "<frontier>_<state>", and under the condition all nodes of one frontier share one
   position. *)
From Coq Require Import NArith Arith List Bool Lia.
From PV Require Import Spec.Cfg Model.Table Model.Forest Model.LRDriver Model.Scan Model.Parser
  Model.GLR Validators.TableStruct Validators.ForestSound Proofs.ForestSoundProofs Proofs.GLRProofs.
Import ListNotations.

(* ---- the scanner: what a token list can contain ------------------------------------------- *)

Section ScanFacts.
  Variable terms : list term_info.
  Variable rx : N -> N -> option N.
  Variables in_len stop_id : N.
  Variables consume lexdis : bool.

  Lemma recognize_rx : forall acts flags pos last acc x,
    In x (recognize terms rx acts flags pos last acc) ->
    In x acc \/ rx (fst x) pos = Some (snd x).
  Proof.
    induction acts as [|[t al] r IH]; intros flags pos last acc x H; cbn [recognize] in H; [auto|].
    destruct ((match last with Some lp => (prior_of terms t <? lp)%N | None => false end)
              && negb (match acc with [] => true | _ => false end)); [auto|].
    destruct (rx t pos) as [len|] eqn:Er.
    - destruct (match flags with f :: _ => f | [] => false end).
      + apply in_app_or in H. destruct H as [H|[<-|[]]]; [auto|right; exact Er].
      + apply IH in H. destruct H as [H|H]; [|auto].
        apply in_app_or in H. destruct H as [H|[<-|[]]]; [auto|right; exact Er].
    - apply IH in H. exact H.
  Qed.

  Lemma lexdis_incl toks x : In x (lexical_disambiguation terms toks) -> In x toks.
  Proof.
    unfold lexical_disambiguation. destruct toks as [|a [|b r]]; auto.
    set (l := a :: b :: r).
    set (longest := filter (fun t => (snd t =? max_len l)%N) l).
    assert (Hl : forall y, In y longest -> In y l) by (intros y Hy; apply filter_In in Hy; tauto).
    destruct longest as [|c [|d r']] eqn:E.
    - intros [].
    - intros H. apply Hl. exact H.
    - destruct (filter (fun t => prefer_of terms (fst t)) (c :: d :: r')) eqn:Ep.
      + intros H. apply Hl. exact H.
      + intros H. apply Hl. rewrite <- Ep in H. apply filter_In in H. tauto.
  Qed.

  Lemma next_tokens_facts sta pos y l :
    In (y, l) (next_tokens terms rx in_len stop_id consume lexdis sta pos) ->
    (y = stop_id /\ l = 0%N /\ (consume = true -> pos = in_len)) \/
    (rx y pos = Some l /\ (pos < in_len)%N).
  Proof.
    unfold next_tokens. intros H.
    assert (H' : In (y, l)
       ((if has_key stop_id (st_actions sta) && (negb consume || (pos =? in_len)%N)
         then [(stop_id, 0%N)] else []) ++
        (if (pos <? in_len)%N then recognize terms rx (st_actions sta) (st_finish sta) pos None [] else []))).
    { destruct lexdis; [apply lexdis_incl; exact H|exact H]. }
    clear H. apply in_app_or in H'. destruct H' as [H|H].
    - destruct (has_key stop_id (st_actions sta) && (negb consume || (pos =? in_len)%N)) eqn:E; [|destruct H].
      destruct H as [H|[]]. inversion H; subst. left. split; [reflexivity|]. split; [reflexivity|].
      intros Hc. apply andb_true_iff in E. destruct E as [_ E]. rewrite Hc in E. cbn in E.
      apply N.eqb_eq. exact E.
    - destruct (pos <? in_len)%N eqn:E; [|destruct H]. apply N.ltb_lt in E.
      apply recognize_rx in H. destruct H as [[]|H]. right. split; [exact H|exact E].
  Qed.
End ScanFacts.

(* ---- the position invariant ----------------------------------------------------------------- *)

Section Tok.
  Variable g : grammar.
  Variable tb : table.
  Variable start : N.
  Hypothesis Hts : table_struct g tb start = true.
  Variable terms : list term_info.
  Variable rx : N -> N -> option N.
  Variables in_len stop_id : N.
  Variables consume lexdis : bool.
  Variable skipws : N -> skres.
  Variable rorder : list nat -> list nat -> list nat.
  Variable sk : N -> N.

  Notation tokens := (tokens_at tb terms rx in_len stop_id consume lexdis).

  Hypothesis Hsk : forall p q, skipws p = SkOk q -> q = sk p.
  Hypothesis Hsk_ge : forall p, (p <= sk p)%N.
  Hypothesis Hrxstop : forall p, rx stop_id p = None.
  Hypothesis Hrxpos : forall y p l, rx y p = Some l -> (1 <= l)%N.
  Hypothesis Hnoshift : forall s s', ~ In (Shift s') (cell tb s stop_id).
  Hypothesis Haccstop : forall s y, In Accept (cell tb s y) -> y = stop_id.
  (* all tokens recognised at one position have one length *)
  Hypothesis Huni : forall s s' p y l y' l',
    In (y, l) (tokens s p) -> In (y', l') (tokens s' p) -> y <> stop_id -> y' <> stop_id -> l = l'.

  Lemma tokens_facts s pos y l :
    In (y, l) (tokens s pos) ->
    (y = stop_id /\ (consume = true -> pos = in_len)) \/
    (y <> stop_id /\ rx y pos = Some l /\ (pos < in_len)%N).
  Proof.
    unfold tokens_at. destruct (get_state tb s) as [sta|]; [|intros []].
    intros H. apply next_tokens_facts in H. destruct H as [(E1 & _ & E3)|(E1 & E2)].
    - left. split; [exact E1|exact E3].
    - right. split; [|split; assumption]. intros ->. rewrite Hrxstop in E1. discriminate.
  Qed.

  Definition nfr (ns : list gnode) (i : nat) : N := n_frontier (nth i ns dnode).

  (* the lookahead of a node standing at [pos] *)
  Definition tok_ok (pos : N) (t : token) : Prop :=
    (tk_sym t = stop_id /\ (consume = true -> pos = in_len)) \/
    (tk_sym t <> stop_id /\ tk_pos t = pos /\ exists s, In (tk_sym t, tk_len t) (tokens s pos)).

  Definition proc (P : N -> N) (n : gnode) : Prop :=
    n_pos n = sk (P (n_frontier n)) /\ forall t, n_tok n = Some t -> tok_ok (n_pos n) t.

  Definition fresh (P : N -> N) (K : N) (n : gnode) : Prop :=
    n_frontier n = K /\ n_tok n = None /\ n_pos n = P K.

  (* [loop]: between _do_shifts and _find_lookaheads the shifted heads are not processed yet *)
  Definition nnode_ok (P : N -> N) (K : N) (loop : bool) (n : gnode) : Prop :=
    (n_frontier n <= K)%N /\ (n_state n = 0 -> n_frontier n = 0%N) /\
    (proc P n \/ (loop = true /\ fresh P K n)).

  Fixpoint chain_fr (ns : list gnode) (ps : list gparent) (f : N) (cs : list nat) (f' : N) : Prop :=
    match cs with
    | [] => f = f'
    | c :: r =>
        c < length ps /\ proot ps c < length ns /\ phead ps c < length ns /\
        nfr ns (proot ps c) = f /\ chain_fr ns ps (nfr ns (phead ps c)) r f'
    end.

  Definition alt_pos_ok (P : N -> N) (ns : list gnode) (ps : list gparent) (fr fh : N) (a : alt) : Prop :=
    match a with
    | ATerm y s e =>
        fh = (fr + 1)%N /\ s = sk (P fr) /\ e = P fh /\ exists l, rx y s = Some l /\ e = (s + l)%N
    | ANT _ _ _ cs => chain_fr ns ps fr cs fh
    end.

  Definition link2_ok (P : N -> N) (K : N) (ns : list gnode) (ps : list gparent) (L : gparent) : Prop :=
    (nfr ns (p_head L) <= K)%N /\
    Forall (alt_pos_ok P ns ps (nfr ns (p_root L)) (nfr ns (p_head L))) (p_alts L).

  Definition node2_ok (ns : list gnode) (ps : list gparent) (n : gnode) : Prop :=
    forall k q, In (k, q) (n_parents n) ->
      nfr ns (phead ps q) = n_frontier n /\ nfr ns (proot ps q) = fst k.

  Definition heap2_ok (P : N -> N) (K : N) (loop : bool) (ns : list gnode) (ps : list gparent) : Prop :=
    (forall q, q < length ps -> link2_ok P K ns ps (nth q ps dpar)) /\
    (forall i, i < length ns -> nnode_ok P K loop (nth i ns dnode) /\ node2_ok ns ps (nth i ns dnode)).

  (* ---- stability ---------------------------------------------------------------------------- *)

  Lemma ext_nfr ns ps ns' ps' i : ext ns ps ns' ps' -> i < length ns -> nfr ns' i = nfr ns i.
  Proof. intros (_ & _ & H & _) Hi. unfold nfr. apply (H i Hi). Qed.

  Lemma chain_fr_ext ns ps ns' ps' : ext ns ps ns' ps' ->
    forall cs f f', chain_fr ns ps f cs f' -> chain_fr ns' ps' f cs f'.
  Proof.
    intros He. pose proof He as (L1 & L2 & _).
    induction cs as [|c r IH]; intros f f' H; cbn [chain_fr] in *; [exact H|].
    destruct H as (H1 & H2 & H3 & H4 & H5).
    rewrite (ext_proot _ _ _ _ _ He H1), (ext_phead _ _ _ _ _ He H1),
      (ext_nfr _ _ _ _ _ He H2), (ext_nfr _ _ _ _ _ He H3).
    split; [lia|]. split; [lia|]. split; [lia|]. split; [exact H4|]. apply IH. exact H5.
  Qed.

  Lemma alt_pos_ok_ext P ns ps ns' ps' fr fh a :
    ext ns ps ns' ps' -> alt_pos_ok P ns ps fr fh a -> alt_pos_ok P ns' ps' fr fh a.
  Proof.
    intros He. destruct a as [y s e|p s e cs]; cbn [alt_pos_ok]; [auto|].
    apply chain_fr_ext. exact He.
  Qed.

  Lemma link2_ok_ext P K ns ps ns' ps' L :
    ext ns ps ns' ps' -> p_head L < length ns -> p_root L < length ns ->
    link2_ok P K ns ps L -> link2_ok P K ns' ps' L.
  Proof.
    intros He Hh Hr (H1 & H2). unfold link2_ok.
    rewrite (ext_nfr _ _ _ _ _ He Hh), (ext_nfr _ _ _ _ _ He Hr). split; [exact H1|].
    rewrite Forall_forall in *. intros a Ha. eapply alt_pos_ok_ext; [exact He|apply H2; exact Ha].
  Qed.

  Lemma node2_ok_ext ns ps ns' ps' n :
    ext ns ps ns' ps' -> node_ok ns ps n -> node2_ok ns ps n -> node2_ok ns' ps' n.
  Proof.
    intros He Hn1 Hn k q Hin. destruct (Hn1 k q Hin) as (Hq & Hh & _ & Hr & _).
    destruct (Hn k q Hin) as [A1 A2].
    rewrite (ext_phead _ _ _ _ _ He Hq), (ext_proot _ _ _ _ _ He Hq),
      (ext_nfr _ _ _ _ _ He Hh), (ext_nfr _ _ _ _ _ He Hr). split; assumption.
  Qed.

  (* heap growth that leaves position and token of every existing node alone (everything except
     _find_lookaheads) *)
  Definition exts (ns : list gnode) (ps : list gparent) (ns' : list gnode) (ps' : list gparent) : Prop :=
    ext ns ps ns' ps' /\
    forall i, i < length ns ->
      n_pos (nth i ns' dnode) = n_pos (nth i ns dnode) /\ n_tok (nth i ns' dnode) = n_tok (nth i ns dnode).

  Lemma exts_refl ns ps : exts ns ps ns ps.
  Proof. split; [apply ext_refl|auto]. Qed.

  Lemma exts_trans ns1 ps1 ns2 ps2 ns3 ps3 :
    exts ns1 ps1 ns2 ps2 -> exts ns2 ps2 ns3 ps3 -> exts ns1 ps1 ns3 ps3.
  Proof.
    intros [E1 S1] [E2 S2]. split; [eapply ext_trans; eassumption|].
    intros i Hi. pose proof E1 as (L1 & _). destruct (S1 i Hi) as [A1 A2].
    destruct (S2 i ltac:(lia)) as [B1 B2]. split; congruence.
  Qed.

  Lemma exts_node ns ps ns' ps' i :
    exts ns ps ns' ps' -> i < length ns ->
    n_frontier (nth i ns' dnode) = n_frontier (nth i ns dnode) /\
    n_state (nth i ns' dnode) = n_state (nth i ns dnode) /\
    n_pos (nth i ns' dnode) = n_pos (nth i ns dnode) /\
    n_tok (nth i ns' dnode) = n_tok (nth i ns dnode).
  Proof.
    intros [(_ & _ & H & _) S] Hi. destruct (H i Hi) as (A1 & _ & A3 & _). destruct (S i Hi) as [B1 B2].
    repeat split; assumption.
  Qed.

  Lemma nnode_ok_same P K loop n n' :
    n_frontier n' = n_frontier n -> n_state n' = n_state n -> n_pos n' = n_pos n -> n_tok n' = n_tok n ->
    nnode_ok P K loop n -> nnode_ok P K loop n'.
  Proof.
    intros E1 E2 E3 E4 (H1 & H2 & H3). unfold nnode_ok, proc, fresh in *.
    rewrite E1, E2, E3, E4. split; [exact H1|]. split; [exact H2|exact H3].
  Qed.

  Definition head_ok (P : N -> N) (K : N) (ns : list gnode) (h : nat) : Prop :=
    nfr ns h = K /\ proc P (nth h ns dnode) /\ exists t, n_tok (nth h ns dnode) = Some t.

  Lemma head_ok_exts P K ns ps ns' ps' h :
    exts ns ps ns' ps' -> h < length ns -> head_ok P K ns h -> head_ok P K ns' h.
  Proof.
    intros He Hh (H1 & H2 & H3). destruct (exts_node _ _ _ _ _ He Hh) as (A1 & A2 & A3 & A4).
    unfold head_ok, nfr, proc in *. rewrite A1, A3, A4. destruct H2 as [H2 H2']. repeat split; assumption.
  Qed.

  (* ---- create_link ------------------------------------------------------------------------- *)

  Lemma key_eqb_fst a b : key_eqb a b = true -> fst a = fst b.
  Proof. unfold key_eqb. intros H. apply andb_true_iff in H. destruct H as [H _]. apply N.eqb_eq. exact H. Qed.

  Lemma create_link2_ok P K loop st hd root s e a st' created pi :
    create_link st hd root s e a = (st', created, pi) ->
    heap_ok g tb (s_nodes st) (s_pars st) -> heap2_ok P K loop (s_nodes st) (s_pars st) ->
    hd < length (s_nodes st) -> root < length (s_nodes st) ->
    (nfr (s_nodes st) hd <= K)%N ->
    alt_pos_ok P (s_nodes st) (s_pars st) (nfr (s_nodes st) root) (nfr (s_nodes st) hd) a ->
    heap2_ok P K loop (s_nodes st') (s_pars st') /\
    exts (s_nodes st) (s_pars st) (s_nodes st') (s_pars st').
  Proof.
    unfold create_link. intros H Hheap [Hl2 Hn2] Hhd Hroot HK Ha.
    pose proof Hheap as [Hl Hn].
    destruct (dget key_eqb (node_id (getn st root)) (n_parents (getn st hd))) as [ep|] eqn:Eg.
    - inversion H; subst; clear H. cbn [upd_par set_pars s_nodes s_pars].
      set (ns := s_nodes st) in *. set (ps := s_pars st) in *.
      apply dget_In in Eg. destruct Eg as (k' & Hin & Hk). apply key_eqb_fst in Hk. cbn [node_id fst] in Hk.
      destruct (Hn hd Hhd k' pi Hin) as (Hq & Hh & _ & Hr & _).
      destruct (proj2 (Hn2 hd Hhd) k' pi Hin) as [F1 F2].
      pose proof (ext_add_alts ns ps pi [a]) as He.
      split; [|split; [exact He|auto]]. split.
      + intros q Hq'. rewrite list_upd_length in Hq'. destruct (Nat.eq_dec pi q) as [->|Hne].
        * rewrite nth_list_upd_eq by exact Hq'. destruct (Hl2 q Hq') as [A1 A2].
          unfold link2_ok. cbn [p_add_alts p_alts p_head p_root]. split; [exact A1|].
          apply Forall_app. split.
          -- rewrite Forall_forall in *. intros x Hx. eapply alt_pos_ok_ext; [exact He|apply A2; exact Hx].
          -- constructor; [|constructor]. fold (phead ps q) (proot ps q). rewrite F1, F2, <- Hk.
             eapply alt_pos_ok_ext; [exact He|exact Ha].
        * rewrite nth_list_upd_neq by exact Hne. destruct (Hl q Hq') as (B1 & B2 & _).
          eapply link2_ok_ext; [exact He|exact B1|exact B2|apply Hl2; exact Hq'].
      + intros i Hi. destruct (Hn2 i Hi) as [C1 C2]. split; [exact C1|].
        eapply node2_ok_ext; [exact He|apply Hn; exact Hi|exact C2].
    - inversion H; subst; clear H. cbn [upd_node set_nodes set_pars s_nodes s_pars].
      set (ns := s_nodes st) in *. set (ps := s_pars st) in *.
      set (key := node_id (getn st root)) in *. set (L := mkPar hd root s e [a]).
      set (f := n_add_parent key (length ps)).
      pose proof (ext_app_par ns ps L) as He1.
      assert (He2 : ext ns (ps ++ [L]) (list_upd hd f ns) (ps ++ [L])).
      { apply ext_upd_node; try reflexivity; [auto|]. intros x Hx. cbn [f n_add_parent n_parents]. apply in_or_app. left. exact Hx. }
      pose proof (ext_trans _ _ _ _ _ _ He1 He2) as He.
      assert (Hsame : forall i, i < length ns ->
                n_pos (nth i (list_upd hd f ns) dnode) = n_pos (nth i ns dnode) /\
                n_tok (nth i (list_upd hd f ns) dnode) = n_tok (nth i ns dnode)).
      { intros i Hi. destruct (Nat.eq_dec hd i) as [->|Hne].
        - rewrite nth_list_upd_eq by exact Hi. auto.
        - rewrite nth_list_upd_neq by exact Hne. auto. }
      split; [|split; [exact He|exact Hsame]]. split.
      + intros q Hq. rewrite app_length in Hq. cbn in Hq.
        destruct (Nat.lt_ge_cases q (length ps)) as [Hlt|Hge].
        * rewrite app_nth1 by exact Hlt. destruct (Hl q Hlt) as (B1 & B2 & _).
          eapply link2_ok_ext; [exact He|exact B1|exact B2|apply Hl2; exact Hlt].
        * assert (q = length ps) by lia. subst q. rewrite app_nth2, Nat.sub_diag by lia. cbn [nth].
          unfold link2_ok. cbn [L p_head p_root p_alts].
          rewrite (ext_nfr _ _ _ _ _ He Hhd), (ext_nfr _ _ _ _ _ He Hroot). split; [exact HK|].
          constructor; [|constructor]. eapply alt_pos_ok_ext; [exact He|exact Ha].
      + intros i Hi. rewrite list_upd_length in Hi. destruct (Hn2 i Hi) as [C1 C2].
        destruct (Nat.eq_dec hd i) as [->|Hne].
        * rewrite nth_list_upd_eq by exact Hi. split.
          -- eapply nnode_ok_same; [| | | |exact C1]; reflexivity.
          -- intros k q Hin. cbn [f n_add_parent n_parents n_frontier] in Hin |- *.
             apply in_app_or in Hin. destruct Hin as [Hin|[Hin|[]]].
             ++ eapply node2_ok_ext; [exact He|apply Hn; exact Hi|exact C2|exact Hin].
             ++ inversion Hin; subst k q; clear Hin. unfold phead, proot.
                rewrite app_nth2, Nat.sub_diag by lia. cbn [nth L p_head p_root].
                rewrite (ext_nfr _ _ _ _ _ He Hi), (ext_nfr _ _ _ _ _ He Hroot). split; reflexivity.
        * rewrite nth_list_upd_neq by exact Hne. split; [exact C1|].
          eapply node2_ok_ext; [exact He|apply Hn; exact Hi|exact C2].
  Qed.

  (* ---- registers, frames, control shape ----------------------------------------------------- *)

  Definition loopb (fr : list frame) : bool := match fr with FLoop :: _ => true | _ => false end.

  (* accepted heads are recorded in the order of their frontiers *)
  Definition acc_sorted (ns : list gnode) (l : list nat) : Prop :=
    forall l1 h l2, l = l1 ++ h :: l2 -> Forall (fun h' => (nfr ns h' <= nfr ns h)%N) l1.

  Definition regs2_ok (P : N -> N) (K : N) (ns : list gnode) (st : gst) (loop : bool) : Prop :=
    (if loop
     then Forall (fun sh => fresh P K (nth (snd sh) ns dnode)) (s_active st) /\
          NoDup (map snd (s_active st)) /\
          (forall i, i < length ns -> proc P (nth i ns dnode) \/ In i (map snd (s_active st)))
     else Forall (fun sh => head_ok P K ns (snd sh)) (s_active st)) /\
    Forall (fun yd => Forall (fun sh => head_ok P K ns (snd sh)) (snd yd)) (s_persym st) /\
    Forall (head_ok P K ns) (s_actor st) /\
    Forall (fun e => head_ok P K ns (fst e)) (s_shifter st) /\
    (Forall (fun h => (consume = true -> sk (P (nfr ns h)) = in_len) /\ (nfr ns h <= K)%N) (s_accepted st) /\
     acc_sorted ns (s_accepted st)).

  Definition frame2_ok (P : N -> N) (K : N) (ns : list gnode) (ps : list gparent) (f : frame) : Prop :=
    match f with
    | FLoop | FSubs | FActorLoop | FShift => True
    | FActor h _ => head_ok P K ns h
    | FDoRed h _ _ => head_ok P K ns h
    | FRed h _ _ tp cur =>
        head_ok P K ns h /\
        Forall (fun pe => chain_fr ns ps (nfr ns (pe_node pe)) (pe_results pe) K) tp /\
        match cur with
        | None => True
        | Some c => chain_fr ns ps (nfr ns (c_node c)) (c_results c) K /\
                    Forall (fun q => nfr ns (phead ps q) = nfr ns (c_node c)) (c_pars c)
        end
    | FReduce h root _ children _ _ => head_ok P K ns h /\ chain_fr ns ps (nfr ns root) children K
    | FRevisit _ _ _ => True
    | FRevActs rh _ _ => head_ok P K ns rh
    end.

  Definition is_inner (f : frame) : bool :=
    match f with
    | FActor _ _ | FDoRed _ _ _ | FRed _ _ _ _ _ | FReduce _ _ _ _ _ _ | FRevisit _ _ _
    | FRevActs _ _ _ => true
    | _ => false
    end.

  Definition suffix3 : list frame := [FActorLoop; FSubs; FShift].

  Inductive ctrl (st : gst) : list frame -> Prop :=
  | c_loop : s_actor st = [] -> s_shifter st = [] -> ctrl st [FLoop]
  | c_shift : s_persym st = [] -> s_actor st = [] -> ctrl st [FShift]
  | c_subs : s_actor st = [] -> ctrl st [FSubs; FShift]
  | c_inner inner : forallb is_inner inner = true -> ctrl st (inner ++ suffix3).

  Definition inv2 (P : N -> N) (K : N) (st : gst) (fr : list frame) : Prop :=
    (forall i, (i < K)%N -> (sk (P i) < in_len)%N) /\
    heap2_ok P K (loopb fr) (s_nodes st) (s_pars st) /\
    regs2_ok P K (s_nodes st) st (loopb fr) /\
    Forall (frame2_ok P K (s_nodes st) (s_pars st)) fr /\
    ctrl st fr.

  (* an inner frame on top: the rest is inner frames above the three loop frames *)
  Lemma ctrl_inner_top st f k :
    ctrl st (f :: k) -> is_inner f = true ->
    exists inner, k = inner ++ suffix3 /\ forallb is_inner inner = true.
  Proof.
    intros H Hf. inversion H as [Ha Hs E|Hp Ha E|Ha E|inner Hin E]; subst; try discriminate.
    destruct inner as [|f' inner'].
    - cbn in E. inversion E; subst. discriminate.
    - cbn in E. inversion E; subst. cbn in Hin. apply andb_true_iff in Hin. destruct Hin as [_ Hin].
      exists inner'. split; [reflexivity|exact Hin].
  Qed.

  Lemma ctrl_push st (fs : list frame) inner :
    forallb is_inner fs = true -> forallb is_inner inner = true -> ctrl st (fs ++ inner ++ suffix3).
  Proof.
    intros H1 H2. rewrite app_assoc. apply c_inner. rewrite forallb_app, H1, H2. reflexivity.
  Qed.

  Lemma loopb_inner f k : is_inner f = true -> loopb (f :: k) = false.
  Proof. destruct f; cbn; congruence. Qed.

  Lemma loopb_suffix inner : forallb is_inner inner = true -> loopb (inner ++ suffix3) = false.
  Proof. destruct inner as [|f r]; [reflexivity|]. cbn. intros H. apply andb_true_iff in H. destruct H as [H _]. destruct f; cbn in *; congruence. Qed.

  (* ctrl only reads registers *)
  Lemma ctrl_regs st st' fr :
    s_actor st' = s_actor st -> s_shifter st' = s_shifter st -> s_persym st' = s_persym st ->
    ctrl st fr -> ctrl st' fr.
  Proof.
    intros E1 E2 E3 H. inversion H; subst.
    - apply c_loop; congruence.
    - apply c_shift; congruence.
    - apply c_subs; congruence.
    - apply c_inner. assumption.
  Qed.

  Lemma ctrl_inner_any st st' fr : loopb fr = false ->
    (forall f k, fr = f :: k -> is_inner f = true) -> ctrl st fr -> ctrl st' fr.
  Proof.
    intros _ Hf H. inversion H; subst; try (specialize (Hf _ _ eq_refl); discriminate).
    apply c_inner. assumption.
  Qed.

  (* stability of frames and registers under exts *)
  Lemma frame2_ok_exts P K ns ps ns' ps' f :
    exts ns ps ns' ps' -> frame_ok g tb ns ps f -> frame2_ok P K ns ps f -> frame2_ok P K ns' ps' f.
  Proof.
    intros He. pose proof He as [Hx _]. pose proof Hx as (L1 & L2 & _).
    destruct f as [| | | |h acts|h p upd|h p upd tp cur|h root p children s e|y par states|rh par acts];
      cbn [frame_ok frame2_ok]; auto.
    - intros (Hh & _) H. eapply head_ok_exts; eassumption.
    - intros (Hh & _) H. eapply head_ok_exts; eassumption.
    - intros (Hh & _ & pr & _ & Htp & Hcur) (H1 & H2 & H3). split; [eapply head_ok_exts; eassumption|]. split.
      + rewrite Forall_forall in *. intros pe Hpe. destruct (Htp pe Hpe) as (A1 & _).
        rewrite (ext_nfr _ _ _ _ _ Hx A1). eapply chain_fr_ext; [exact Hx|apply H2; exact Hpe].
      + destruct cur as [c|]; [|exact I]. destruct Hcur as (A1 & _ & _ & A4). destruct H3 as [B1 B2].
        rewrite (ext_nfr _ _ _ _ _ Hx A1). split; [eapply chain_fr_ext; [exact Hx|exact B1]|].
        rewrite Forall_forall in *. intros q Hq. destruct (A4 q Hq) as (C1 & C2 & _).
        rewrite (ext_phead _ _ _ _ _ Hx C1), (ext_nfr _ _ _ _ _ Hx C2). apply B2. exact Hq.
    - intros (Hh & Hr & _) (H1 & H2). split; [eapply head_ok_exts; eassumption|].
      rewrite (ext_nfr _ _ _ _ _ Hx Hr). eapply chain_fr_ext; [exact Hx|exact H2].
    - intros (Hh & _) H. eapply head_ok_exts; eassumption.
  Qed.

  Lemma frames2_ok_exts P K ns ps ns' ps' fr :
    exts ns ps ns' ps' -> Forall (frame_ok g tb ns ps) fr -> Forall (frame2_ok P K ns ps) fr ->
    Forall (frame2_ok P K ns' ps') fr.
  Proof.
    intros He H1 H2. induction fr as [|f r IH]; [constructor|].
    inversion H1; subst. inversion H2; subst. constructor; [eapply frame2_ok_exts; eassumption|auto].
  Qed.

  (* the registers in processing mode (loop = false), stable under exts when they are unchanged *)
  Lemma Forall_head_exts P K ns ps ns' ps' (l : list nat) :
    exts ns ps ns' ps' -> Forall (fun h => h < length ns) l ->
    Forall (head_ok P K ns) l -> Forall (head_ok P K ns') l.
  Proof.
    intros He Hv H. rewrite Forall_forall in *. intros h Hh. eapply head_ok_exts; [exact He|apply Hv; exact Hh|apply H; exact Hh].
  Qed.

  Lemma acc_sorted_ext ns ps ns' ps' l :
    ext ns ps ns' ps' -> Forall (fun h => h < length ns) l -> acc_sorted ns l -> acc_sorted ns' l.
  Proof.
    intros He Hv H l1 h l2 E. specialize (H l1 h l2 E). subst l.
    apply Forall_app in Hv. destruct Hv as [Hv1 Hv2]. inversion Hv2 as [|x r Hh _]; subst x r.
    rewrite Forall_forall in *. intros h' Hh'.
    rewrite (ext_nfr _ _ _ _ _ He Hh), (ext_nfr _ _ _ _ _ He (Hv1 h' Hh')). apply H. exact Hh'.
  Qed.

  Lemma acc_sorted_snoc ns l h :
    acc_sorted ns l -> Forall (fun h' => (nfr ns h' <= nfr ns h)%N) l -> acc_sorted ns (l ++ [h]).
  Proof.
    intros Hs Hall l1 x l2 E. destruct l2 as [|y r].
    - apply app_inj_tail in E. destruct E as [<- <-]. exact Hall.
    - assert (E' : l = l1 ++ x :: removelast (y :: r)).
      { apply (f_equal (@removelast nat)) in E. rewrite removelast_last in E.
        rewrite E. rewrite removelast_app by discriminate. cbn [removelast]. reflexivity. }
      exact (Hs _ _ _ E').
  Qed.

  Lemma acc_valid ns st : Forall (acc_ok tb ns) (s_accepted st) -> Forall (fun h => h < length ns) (s_accepted st).
  Proof. intros H. rewrite Forall_forall in *. intros h Hh. exact (proj1 (H h Hh)). Qed.

  Lemma regs2_ok_exts P K ns ps ns' ps' st st' :
    exts ns ps ns' ps' -> regs st' = regs st -> regs_ok tb ns st ->
    regs2_ok P K ns st false -> regs2_ok P K ns' st' false.
  Proof.
    intros He Hr (V1 & V2 & V3 & V4 & V5) (H1 & H2 & H3 & H4 & H5).
    unfold regs in Hr. inversion Hr as [[E1 E2 E3 E4 E5 E6]]. pose proof He as [Hx _].
    unfold regs2_ok. rewrite E1, E2, E3, E5, E6. split.
    { unfold dict_ok in V1. rewrite Forall_forall in *. intros x Hx'.
      eapply head_ok_exts; [exact He|exact (proj1 (V1 x Hx'))|apply H1; exact Hx']. }
    split.
    { rewrite Forall_forall in *. intros yd Hyd. specialize (V2 yd Hyd). specialize (H2 yd Hyd).
      unfold dict_ok in V2. rewrite Forall_forall in *. intros x Hx'.
      eapply head_ok_exts; [exact He|exact (proj1 (V2 x Hx'))|apply H2; exact Hx']. }
    split; [eapply Forall_head_exts; eassumption|]. split.
    { rewrite Forall_forall in *. intros x Hx'. eapply head_ok_exts; [exact He|exact (proj1 (V4 x Hx'))|apply H4; exact Hx']. }
    destruct H5 as [H5 H5s]. split; [|eapply acc_sorted_ext; [exact Hx|apply acc_valid; exact V5|exact H5s]].
    rewrite Forall_forall in *. intros h Hh. destruct (V5 h Hh) as [Hv _].
    rewrite (ext_nfr _ _ _ _ _ Hx Hv). apply H5. exact Hh.
  Qed.

  (* ---- steps that do not move the frontier ----------------------------------------------------- *)

  Notation step := (glr_step g tb terms rx in_len stop_id consume lexdis skipws rorder).

  Lemma pop_last_none {X} (l : list X) : pop_last l = None -> l = [].
  Proof.
    destruct l as [|a r]; [reflexivity|]. cbn. destruct (pop_last r) as [[? ?]|]; discriminate.
  Qed.

  Lemma ctrl_top_FSubs st k : ctrl st (FSubs :: k) -> k = [FShift] /\ s_actor st = [].
  Proof.
    intros H. inversion H as [| |Ha|inner Hin E]; subst; [auto|].
    destruct inner as [|f r]; cbn in E; inversion E; subst. cbn in Hin. discriminate.
  Qed.

  Lemma ctrl_top_FActorLoop st k : ctrl st (FActorLoop :: k) -> k = [FSubs; FShift].
  Proof.
    intros H. inversion H as [| | |inner Hin E]; subst.
    destruct inner as [|f r]; cbn in E; inversion E; subst; [reflexivity|]. cbn in Hin. discriminate.
  Qed.

  Lemma step2_FSubs P K st k st' fr' :
    inv g tb st (FSubs :: k) -> inv2 P K st (FSubs :: k) ->
    step st (FSubs :: k) = Go st' fr' -> inv2 P K st' fr'.
  Proof.
    intros Hinv (Hlt & Hheap & Hregs & Hfr & Hc) H. cbn [glr_step] in H.
    destruct (ctrl_top_FSubs _ _ Hc) as [-> Hact]. cbn [loopb] in *.
    destruct Hregs as (R1 & R2 & R3 & R4 & R5).
    destruct (pop_last (s_persym st)) as [[rest [y d]]|] eqn:Ep.
    - inversion H; subst; clear H. apply pop_last_app in Ep. rewrite Ep in R2.
      apply Forall_app in R2. destruct R2 as [R2a R2b]. inversion R2b as [|x l Hd _]; subst x l. cbn [snd] in Hd.
      split; [exact Hlt|]. split; [exact Hheap|]. split.
      + unfold regs2_ok. cbn. split; [exact Hd|]. split; [exact R2a|]. split; [|split; assumption].
        rewrite Forall_forall in *. intros h Hh. apply in_map_iff in Hh. destruct Hh as (x & <- & Hx). apply Hd. exact Hx.
      + split; [constructor; [exact I|exact Hfr]|]. apply (c_inner _ []). reflexivity.
    - inversion H; subst; clear H. apply pop_last_none in Ep.
      split; [exact Hlt|]. split; [exact Hheap|]. split; [split; [exact R1|split; [exact R2|split; [exact R3|split; assumption]]]|].
      split; [inversion Hfr; assumption|]. apply c_shift; assumption.
  Qed.

  Lemma step2_FActorLoop P K st k st' fr' :
    inv g tb st (FActorLoop :: k) -> inv2 P K st (FActorLoop :: k) ->
    step st (FActorLoop :: k) = Go st' fr' -> inv2 P K st' fr'.
  Proof.
    intros Hinv (Hlt & Hheap & Hregs & Hfr & Hc) H. cbn [glr_step] in H.
    pose proof (ctrl_top_FActorLoop _ _ Hc) as ->. cbn [loopb] in *.
    destruct Hregs as (R1 & R2 & R3 & R4 & R5).
    destruct (pop_last (s_actor st)) as [[rest h]|] eqn:Ep.
    - destruct (n_tok (getn st h)) as [t|] eqn:Et; [|discriminate].
      inversion H; subst; clear H. apply pop_last_app in Ep. rewrite Ep in R3.
      apply Forall_app in R3. destruct R3 as [R3a R3b]. inversion R3b as [|x l Hh _]; subst x l.
      split; [exact Hlt|]. split; [exact Hheap|]. split.
      + unfold regs2_ok. cbn. split; [exact R1|]. split; [exact R2|]. split; [exact R3a|split; assumption].
      + split; [constructor; [exact Hh|exact Hfr]|].
        apply (c_inner _ [FActor h _]). reflexivity.
    - inversion H; subst; clear H. apply pop_last_none in Ep.
      split; [exact Hlt|]. split; [exact Hheap|]. split; [split; [exact R1|split; [exact R2|split; [exact R3|split; assumption]]]|].
      split; [inversion Hfr; assumption|]. apply c_subs. exact Ep.
  Qed.

  (* same heap, same registers except possibly shifter/accepted/trav: rebuild inv2 *)
  Lemma step2_FActor P K st h acts k st' fr' :
    inv g tb st (FActor h acts :: k) -> inv2 P K st (FActor h acts :: k) ->
    step st (FActor h acts :: k) = Go st' fr' -> inv2 P K st' fr'.
  Proof.
    intros (Hheap1 & Hregs1 & Hfr1) (Hlt & Hheap & Hregs & Hfr & Hc) H. cbn [glr_step] in H.
    destruct (ctrl_inner_top _ _ _ Hc eq_refl) as (inner & -> & Hin).
    cbn [loopb] in *.
    destruct Hregs as (R1 & R2 & R3 & R4 & R5).
    inversion Hfr as [|x l Hh Hk]; subst x l. cbn [frame2_ok] in Hh.
    inversion Hfr1 as [|x l Hf1 Hk1]; subst x l. cbn [frame_ok] in Hf1. destruct Hf1 as (Hhv & t & Ht & Hall).
    assert (Hl0 : loopb (inner ++ suffix3) = false) by (apply loopb_suffix; exact Hin).
    destruct acts as [|[s'|p|] r].
    - inversion H; subst; clear H. unfold inv2. rewrite Hl0.
      split; [exact Hlt|]. split; [exact Hheap|]. split; [split; [exact R1|split; [exact R2|split; [exact R3|split; assumption]]]|].
      split; [exact Hk|]. apply c_inner. exact Hin.
    - inversion H; subst; clear H. cbn [loopb].
      split; [exact Hlt|]. split; [exact Hheap|]. split.
      + unfold regs2_ok. cbn. split; [exact R1|]. split; [exact R2|]. split; [exact R3|]. split; [|exact R5].
        apply Forall_app. split; [exact R4|]. constructor; [exact Hh|constructor].
      + split; [constructor; [exact Hh|exact Hk]|]. apply (ctrl_push _ [FActor h r]); [reflexivity|exact Hin].
    - inversion H; subst; clear H. cbn [loopb].
      split; [exact Hlt|]. split; [exact Hheap|]. split; [split; [exact R1|split; [exact R2|split; [exact R3|split; assumption]]]|].
      split; [constructor; [exact Hh|constructor; [exact Hh|exact Hk]]|].
      apply (ctrl_push _ [FDoRed h p None; FActor h r]); [reflexivity|exact Hin].
    - inversion H; subst; clear H. cbn [loopb].
      split; [exact Hlt|]. split; [exact Hheap|]. split.
      + unfold regs2_ok. cbn. split; [exact R1|]. split; [exact R2|]. split; [exact R3|]. split; [exact R4|].
        destruct R5 as [R5 R5s]. destruct Hh as (F1 & (F2 & F3) & _). split.
        * apply Forall_app. split; [exact R5|]. constructor; [|constructor].
          inversion Hall as [|x l Hacc _]; subst x l. apply Haccstop in Hacc.
          destruct (F3 t Ht) as [[_ E]|[E _]]; [|congruence].
          unfold nfr in *. rewrite F1. split; [|lia]. intros Hcon. rewrite <- F1, <- F2. exact (E Hcon).
        * apply acc_sorted_snoc; [exact R5s|]. rewrite F1. rewrite Forall_forall in *. intros h' Hh'.
          exact (proj2 (R5 h' Hh')).
      + split; [constructor; [exact Hh|exact Hk]|]. apply (ctrl_push _ [FActor h r]); [reflexivity|exact Hin].
  Qed.

  (* replace an inner top frame by inner frames; heap and the registers read by regs2_ok unchanged *)
  Lemma inv2_replace P K st st' f k fs :
    inv2 P K st (f :: k) -> is_inner f = true -> forallb is_inner fs = true ->
    s_nodes st' = s_nodes st -> s_pars st' = s_pars st ->
    s_active st' = s_active st -> s_persym st' = s_persym st -> s_actor st' = s_actor st ->
    s_shifter st' = s_shifter st -> s_accepted st' = s_accepted st ->
    Forall (frame2_ok P K (s_nodes st) (s_pars st)) fs ->
    inv2 P K st' (fs ++ k).
  Proof.
    intros (Hlt & Hheap & Hregs & Hfr & Hc) Hf Hfs En Ep E1 E2 E3 E4 E5 Hnew.
    destruct (ctrl_inner_top _ _ _ Hc Hf) as (inner & -> & Hin).
    rewrite (loopb_inner _ _ Hf) in *.
    assert (Hl0 : loopb (fs ++ inner ++ suffix3) = false).
    { rewrite app_assoc. apply loopb_suffix. rewrite forallb_app, Hfs, Hin. reflexivity. }
    unfold inv2. rewrite Hl0, En, Ep. split; [exact Hlt|]. split; [exact Hheap|]. split.
    - unfold regs2_ok in *. rewrite E1, E2, E3, E4, E5. exact Hregs.
    - split; [apply Forall_app; split; [exact Hnew|inversion Hfr; assumption]|].
      apply ctrl_push; assumption.
  Qed.

  Lemma step2_FDoRed P K st h p upd k st' fr' :
    inv g tb st (FDoRed h p upd :: k) -> inv2 P K st (FDoRed h p upd :: k) ->
    step st (FDoRed h p upd :: k) = Go st' fr' -> inv2 P K st' fr'.
  Proof.
    intros Hinv1 Hinv2 H. cbn [glr_step] in H.
    pose proof Hinv2 as (_ & _ & _ & Hfr & _). inversion Hfr as [|x l Hh _]; subst x l. cbn [frame2_ok] in Hh.
    destruct (get_prod g p) as [pr|]; [|discriminate].
    destruct (length (rhs pr)) as [|n].
    - injection H as <- <-.
      apply (inv2_replace P K st st _ k [FReduce h h p [] _ _] Hinv2); try reflexivity.
      constructor; [|constructor]. cbn [frame2_ok chain_fr]. split; [exact Hh|exact (proj1 Hh)].
    - injection H as <- <-.
      apply (inv2_replace P K st st _ k [FRed h p upd _ None] Hinv2); try reflexivity.
      constructor; [|constructor]. cbn [frame2_ok]. split; [exact Hh|]. split; [|exact I].
      constructor; [|constructor]. cbn [pe_node pe_results chain_fr]. exact (proj1 Hh).
  Qed.

  Lemma node_eq_frontier a b : node_eq a b = true -> n_frontier a = n_frontier b.
  Proof.
    unfold node_eq. intros H. apply andb_true_iff in H. destruct H as [H _].
    apply key_eqb_fst in H. exact H.
  Qed.

  Lemma step2_FRed_pop P K st h p upd tp k st' fr' :
    inv g tb st (FRed h p upd tp None :: k) -> inv2 P K st (FRed h p upd tp None :: k) ->
    step st (FRed h p upd tp None :: k) = Go st' fr' -> inv2 P K st' fr'.
  Proof.
    intros Hinv1 Hinv2 H. cbn [glr_step] in H.
    pose proof Hinv1 as (Hheap1 & _ & Hfr1).
    pose proof Hinv2 as (_ & (_ & Hn2) & _ & Hfr & _).
    inversion Hfr as [|x l Hf _]; subst x l. cbn [frame2_ok] in Hf. destruct Hf as (Hh & Htp & _).
    inversion Hfr1 as [|x l Hf1 _]; subst x l. cbn [frame_ok] in Hf1.
    destruct Hf1 as (_ & Hu & pr & _ & Htp1 & _).
    destruct tp as [|pe tp'].
    - injection H as <- <-. apply (inv2_replace P K st st _ k [] Hinv2); try reflexivity. constructor.
    - inversion Htp as [|x l Hpe Htp']; subst x l. inversion Htp1 as [|x l (A1 & _) _]; subst x l.
      set (ns := s_nodes st) in *. set (ps := s_pars st) in *.
      assert (Hgo : forall st1, s_nodes st1 = ns -> s_pars st1 = ps ->
                s_active st1 = s_active st -> s_persym st1 = s_persym st -> s_actor st1 = s_actor st ->
                s_shifter st1 = s_shifter st -> s_accepted st1 = s_accepted st ->
                forall um pars,
                  Forall (fun q => nfr ns (phead ps q) = nfr ns (pe_node pe)) pars ->
                  inv2 P K st1 (FRed h p upd tp'
                    (Some (mkCur (pe_node pe) (pe_results pe) (pred (pe_len pe)) (pe_last pe) (pe_trav pe) um pars)) :: k)).
      { intros st1 E1 E2 E3 E4 E5 E6 E7 um pars Hpars.
        apply (inv2_replace P K st st1 _ k [FRed h p upd tp' _] Hinv2); try reflexivity; try assumption.
        constructor; [|constructor]. cbn [frame2_ok c_node c_results c_pars].
        split; [exact Hh|]. split; [exact Htp'|]. split; [exact Hpe|exact Hpars]. }
      assert (Hpars : Forall (fun q => nfr ns (phead ps q) = nfr ns (pe_node pe))
                (if match upd with
                    | Some u => node_eq (getn st (p_head (getp st u))) (getn st (pe_node pe))
                    | None => false
                    end
                 then match upd with Some u => [u] | None => [] end
                 else map snd (n_parents (getn st (pe_node pe))))).
      { destruct (match upd with
                  | Some u => node_eq (getn st (p_head (getp st u))) (getn st (pe_node pe))
                  | None => false
                  end) eqn:Eum.
        - destruct upd as [u|]; [|constructor]. constructor; [|constructor].
          apply node_eq_frontier in Eum. exact Eum.
        - apply Forall_forall. intros q Hq. apply in_map_iff in Hq. destruct Hq as ([kk q'] & <- & Hin).
          exact (proj1 (proj2 (Hn2 _ A1) kk q' Hin)). }
      destruct (n_frontier (getn st (pe_node pe)) =? n_frontier (getn st h))%N;
        injection H as <- <-; apply Hgo; try reflexivity; exact Hpars.
  Qed.

  Lemma step2_FRed_cur P K st h p upd tp c k st' fr' :
    inv g tb st (FRed h p upd tp (Some c) :: k) -> inv2 P K st (FRed h p upd tp (Some c) :: k) ->
    step st (FRed h p upd tp (Some c) :: k) = Go st' fr' -> inv2 P K st' fr'.
  Proof.
    intros Hinv1 Hinv2 H. cbn [glr_step] in H.
    pose proof Hinv1 as (Hheap1 & _ & Hfr1).
    pose proof Hinv2 as (_ & _ & _ & Hfr & _).
    inversion Hfr as [|x l Hf _]; subst x l. cbn [frame2_ok] in Hf. destruct Hf as (Hh & Htp & Hc1 & Hc2).
    inversion Hfr1 as [|x l Hf1 _]; subst x l. cbn [frame_ok] in Hf1.
    destruct Hf1 as (_ & _ & pr & _ & _ & (_ & _ & _ & C4)).
    set (ns := s_nodes st) in *. set (ps := s_pars st) in *.
    destruct (c_pars c) as [|par rest] eqn:Ec.
    - injection H as <- <-.
      apply (inv2_replace P K st st _ k [FRed h p upd tp None] Hinv2); try reflexivity.
      constructor; [|constructor]. cbn [frame2_ok]. split; [exact Hh|]. split; [exact Htp|exact I].
    - inversion C4 as [|x l (P1 & P2 & _) _]; subst x l.
      inversion Hc2 as [|x l Hpf Hrest]; subst x l.
      destruct Hheap1 as [Hl _]. destruct (Hl par P1) as (_ & Hr & _). fold (proot ps par) in Hr.
      assert (Hnew : chain_fr ns ps (nfr ns (proot ps par)) (par :: c_results c) K).
      { cbn [chain_fr]. split; [exact P1|]. split; [exact Hr|]. split; [exact P2|]. split; [reflexivity|].
        rewrite Hpf. exact Hc1. }
      set (c' := mkCur (c_node c) (c_results c) (c_len c) (c_last c) (c_trav c || c_um c) (c_um c) rest).
      assert (Hc' : frame2_ok P K ns ps (FRed h p upd tp (Some c'))).
      { cbn [frame2_ok c' c_node c_results c_pars]. split; [exact Hh|]. split; [exact Htp|]. split; [exact Hc1|exact Hrest]. }
      destruct (c_len c) as [|n] eqn:El.
      + destruct (c_trav c || c_um c) eqn:Etr.
        * injection H as <- <-.
          apply (inv2_replace P K st st _ k [FReduce h _ p _ _ _; FRed h p upd tp (Some _)] Hinv2); try reflexivity.
          constructor; [|constructor; [|constructor]].
          -- cbn [frame2_ok]. split; [exact Hh|]. exact Hnew.
          -- exact Hc'.
        * injection H as <- <-.
          apply (inv2_replace P K st st _ k [FRed h p upd tp (Some _)] Hinv2); try reflexivity.
          constructor; [|constructor]. exact Hc'.
      + injection H as <- <-.
        apply (inv2_replace P K st st _ k [FRed h p upd _ (Some _)] Hinv2); try reflexivity.
        constructor; [|constructor]. cbn [frame2_ok c_node c_results c_pars].
        split; [exact Hh|]. split; [|split; [exact Hc1|exact Hrest]].
        constructor; [|exact Htp]. cbn [pe_node pe_results]. exact Hnew.
  Qed.

  Lemma step2_FRevisit P K st y par states k st' fr' :
    inv g tb st (FRevisit y par states :: k) -> inv2 P K st (FRevisit y par states :: k) ->
    step st (FRevisit y par states :: k) = Go st' fr' -> inv2 P K st' fr'.
  Proof.
    intros Hinv1 Hinv2 H. cbn [glr_step] in H.
    pose proof Hinv2 as (_ & _ & (R1 & _) & _ & _). cbn [loopb] in R1.
    destruct states as [|s r].
    - injection H as <- <-. apply (inv2_replace P K st st _ k [] Hinv2); try reflexivity. constructor.
    - destruct (dget Nat.eqb s (s_active st)) as [rh|] eqn:Eg; [|discriminate].
      injection H as <- <-. apply dget_In in Eg. destruct Eg as (s2 & Hin & _).
      rewrite Forall_forall in R1. specialize (R1 _ Hin). cbn [snd] in R1.
      apply (inv2_replace P K st st _ k [FRevActs rh par _; FRevisit y par r] Hinv2); try reflexivity.
      constructor; [exact R1|constructor; [exact I|constructor]].
  Qed.

  Lemma step2_FRevActs P K st rh par acts k st' fr' :
    inv g tb st (FRevActs rh par acts :: k) -> inv2 P K st (FRevActs rh par acts :: k) ->
    step st (FRevActs rh par acts :: k) = Go st' fr' -> inv2 P K st' fr'.
  Proof.
    intros Hinv1 Hinv2 H. cbn [glr_step] in H.
    pose proof Hinv2 as (_ & _ & _ & Hfr & _). inversion Hfr as [|x l Hh _]; subst x l. cbn [frame2_ok] in Hh.
    destruct acts as [|a r].
    - injection H as <- <-. apply (inv2_replace P K st st _ k [] Hinv2); try reflexivity. constructor.
    - destruct a as [s'|p|]; injection H as <- <-.
      + apply (inv2_replace P K st st _ k [FRevActs rh par r] Hinv2); try reflexivity.
        constructor; [exact Hh|constructor].
      + apply (inv2_replace P K st st _ k [FDoRed rh p (Some par); FRevActs rh par r] Hinv2); try reflexivity.
        constructor; [exact Hh|constructor; [exact Hh|constructor]].
      + apply (inv2_replace P K st st _ k [FRevActs rh par r] Hinv2); try reflexivity.
        constructor; [exact Hh|constructor].
  Qed.

  (* ---- _reduce ------------------------------------------------------------------------------------ *)

  Lemma create_link_regs st hd root s e a st' cr pi :
    create_link st hd root s e a = (st', cr, pi) -> regs st' = regs st.
  Proof.
    unfold create_link. destruct (dget _ _ _); intros H; inversion H; subst; reflexivity.
  Qed.

  Lemma exts_app_node ns ps n : exts ns ps (ns ++ [n]) ps.
  Proof.
    split; [apply ext_app_node|]. intros i Hi. rewrite app_nth1 by exact Hi. auto.
  Qed.

  Lemma heap2_app_node P K loop ns ps n :
    heap_ok g tb ns ps -> heap2_ok P K loop ns ps ->
    nnode_ok P K loop n -> n_parents n = [] -> heap2_ok P K loop (ns ++ [n]) ps.
  Proof.
    intros [Hl Hn] [Hl2 Hn2] Hnn Hpar. pose proof (ext_app_node ns ps n) as He. split.
    - intros q Hq. destruct (Hl q Hq) as (B1 & B2 & _).
      eapply link2_ok_ext; [exact He|exact B1|exact B2|apply Hl2; exact Hq].
    - intros i Hi. rewrite app_length in Hi. cbn in Hi.
      destruct (Nat.lt_ge_cases i (length ns)) as [Hlt|Hge].
      + rewrite app_nth1 by exact Hlt. destruct (Hn2 i Hlt) as [C1 C2]. split; [exact C1|].
        eapply node2_ok_ext; [exact He|apply Hn; exact Hlt|exact C2].
      + assert (i = length ns) by lia. subst i. rewrite app_nth2, Nat.sub_diag by lia. cbn [nth].
        split; [exact Hnn|]. intros k q Hin. rewrite Hpar in Hin. destruct Hin.
  Qed.

  (* replace an inner top frame after a heap growth that keeps positions and tokens *)
  Lemma inv2_replace_exts P K st st' f k fs :
    inv g tb st (f :: k) -> inv2 P K st (f :: k) -> is_inner f = true -> forallb is_inner fs = true ->
    exts (s_nodes st) (s_pars st) (s_nodes st') (s_pars st') ->
    heap2_ok P K false (s_nodes st') (s_pars st') ->
    regs2_ok P K (s_nodes st') st' false ->
    Forall (frame2_ok P K (s_nodes st') (s_pars st')) fs ->
    inv2 P K st' (fs ++ k).
  Proof.
    intros (_ & _ & Hfr1) (Hlt & _ & _ & Hfr & Hc) Hf Hfs He Hheap' Hregs' Hnew.
    destruct (ctrl_inner_top _ _ _ Hc Hf) as (inner & -> & Hin).
    assert (Hl0 : loopb (fs ++ inner ++ suffix3) = false).
    { rewrite app_assoc. apply loopb_suffix. rewrite forallb_app, Hfs, Hin. reflexivity. }
    unfold inv2. rewrite Hl0. split; [exact Hlt|]. split; [exact Hheap'|]. split; [exact Hregs'|]. split.
    - apply Forall_app. split; [exact Hnew|]. inversion Hfr; subst. inversion Hfr1; subst.
      eapply frames2_ok_exts; eassumption.
    - apply ctrl_push; assumption.
  Qed.

  Lemma step2_FReduce P K st h root p children s e k st' fr' :
    inv g tb st (FReduce h root p children s e :: k) ->
    inv2 P K st (FReduce h root p children s e :: k) ->
    step st (FReduce h root p children s e :: k) = Go st' fr' -> inv2 P K st' fr'.
  Proof.
    intros Hinv1 Hinv2 H. cbn [glr_step] in H.
    pose proof Hinv1 as (Hheap1 & Hregs1 & Hfr1).
    pose proof Hinv2 as (Hlt & Hheap & Hregs & Hfr & Hc). cbn [loopb] in Hheap, Hregs.
    inversion Hfr as [|x l Hf _]; subst x l. cbn [frame2_ok] in Hf. destruct Hf as (Hh & Hch).
    inversion Hfr1 as [|x l Hf1 _]; subst x l. cbn [frame_ok] in Hf1.
    destruct Hf1 as (Hhv & Hroot & pr & Hp & _).
    rewrite Hp in H.
    set (ns := s_nodes st) in *. set (ps := s_pars st) in *.
    destruct (goto tb (n_state (getn st root)) (lhs pr)) as [s'|] eqn:Eg; [|discriminate].
    pose proof Hregs as (R1 & R2 & R3 & R4 & R5).
    pose proof Hregs1 as (V1 & V2 & V3 & V4 & V5).
    destruct (dget Nat.eqb s' (s_active st)) as [ah|] eqn:Ea.
    - destruct (dget_dict _ _ _ _ V1 Ea) as [Hah _].
      assert (Hahk : head_ok P K ns ah).
      { apply dget_In in Ea. destruct Ea as (s2 & Hin & _). rewrite Forall_forall in R1. exact (R1 _ Hin). }
      destruct (create_link st ah root s e (ANT p s e children)) as [[st1 created] pi] eqn:Ec.
      destruct (create_link2_ok P K false _ _ _ _ _ _ _ _ _ Ec Hheap1 Hheap Hah Hroot) as [C1 C2].
      { fold ns. rewrite (proj1 Hahk). lia. }
      { cbn [alt_pos_ok]. fold ns. rewrite (proj1 Hahk). exact Hch. }
      pose proof (create_link_regs _ _ _ _ _ _ _ _ _ Ec) as Cr.
      assert (Hregs' : regs2_ok P K (s_nodes st1) st1 false) by (eapply regs2_ok_exts; eassumption).
      assert (Hgo : forall fs, forallb is_inner fs = true ->
                Forall (frame2_ok P K (s_nodes st1) (s_pars st1)) fs -> inv2 P K st1 (fs ++ k)).
      { intros fs Hfs Hnew. eapply (inv2_replace_exts P K st st1); try eassumption. reflexivity. }
      destruct created.
      + destruct (dget Nat.eqb s' (s_trav st1)) as [tset|].
        * destruct (n_tok (getn st h)) as [t|]; [|discriminate].
          injection H as <- <-. apply (Hgo [FRevisit _ _ _]); [reflexivity|]. constructor; [exact I|constructor].
        * injection H as <- <-. apply (Hgo []); [reflexivity|constructor].
      + injection H as <- <-. apply (Hgo []); [reflexivity|constructor].
    - set (hn := getn st h) in *.
      set (newn := mkNode s' (n_pos hn) (n_frontier hn) (n_tok hn) []) in *.
      set (st1 := set_nodes st (ns ++ [newn])) in *.
      destruct Hh as (F1 & (F2 & F3) & (t & Ft)).
      assert (Hs'0 : s' <> 0).
      { apply (edge_nonzero g tb start Hts (n_state (getn st root)) (NT (lhs pr))). exact Eg. }
      assert (Hnn : nnode_ok P K false newn).
      { unfold nnode_ok. cbn [newn n_frontier n_state]. unfold hn, getn. fold ns. unfold nfr in F1.
        split; [rewrite F1; lia|]. split; [intros E; congruence|]. left. split; assumption. }
      assert (Hheap1' : heap_ok g tb (s_nodes st1) (s_pars st1)).
      { cbn [st1 set_nodes s_nodes s_pars]. apply heap_app_node; [exact Hheap1|]. intros kk q []. }
      assert (Hheap2' : heap2_ok P K false (s_nodes st1) (s_pars st1)).
      { cbn [st1 set_nodes s_nodes s_pars]. apply heap2_app_node; [exact Hheap1|exact Hheap|exact Hnn|reflexivity]. }
      pose proof (exts_app_node ns ps newn) as Hx1.
      assert (Hn1 : s_nodes st1 = ns ++ [newn]) by reflexivity.
      assert (Hnew_fr : nfr (ns ++ [newn]) (length ns) = K).
      { unfold nfr. rewrite app_nth2, Nat.sub_diag by lia. cbn [nth newn n_frontier]. exact F1. }
      destruct (create_link st1 (length ns) root s e (ANT p s e children)) as [[st2 cr] pi] eqn:Ec.
      destruct (create_link2_ok P K false _ _ _ _ _ _ _ _ _ Ec Hheap1' Hheap2') as [C1 C2].
      { rewrite Hn1, app_length. cbn. lia. } { rewrite Hn1, app_length. cbn. lia. }
      { rewrite Hn1, Hnew_fr. lia. }
      { cbn [alt_pos_ok]. rewrite Hn1, Hnew_fr, (ext_nfr _ _ _ _ _ (proj1 Hx1) Hroot).
        eapply chain_fr_ext; [exact (proj1 Hx1)|exact Hch]. }
      pose proof (create_link_regs _ _ _ _ _ _ _ _ _ Ec) as Cr.
      injection H as <- <-.
      assert (Hx : exts ns ps (s_nodes st2) (s_pars st2)).
      { eapply exts_trans; [|exact C2]. cbn [st1 set_nodes s_nodes s_pars]. exact Hx1. }
      assert (Hnh : head_ok P K (s_nodes st2) (length ns)).
      { assert (Hlt' : length ns < length (s_nodes st1)) by (rewrite Hn1, app_length; cbn; lia).
        apply (head_ok_exts P K _ _ _ _ _ C2 Hlt'). rewrite Hn1. unfold head_ok.
        rewrite Hnew_fr. unfold proc. rewrite app_nth2, Nat.sub_diag by lia. cbn [nth newn n_pos n_frontier n_tok].
        split; [reflexivity|]. split; [split; assumption|]. exists t. exact Ft. }
      assert (Hr2 : regs st2 = regs st) by (rewrite Cr; reflexivity).
      assert (Hregs2 : regs2_ok P K (s_nodes st2) st2 false) by (eapply regs2_ok_exts; eassumption).
      unfold regs in Hr2. inversion Hr2 as [[E1 E2 E3 E4 E5 E6]].
      destruct Hregs2 as (Q1 & Q2 & Q3 & Q4 & Q5).
      apply (inv2_replace_exts P K st _ _ k [] Hinv1 Hinv2); try reflexivity.
      + cbn [set_active set_actor s_nodes s_pars]. exact Hx.
      + cbn [set_active set_actor s_nodes s_pars]. exact C1.
      + unfold regs2_ok. cbn [set_active set_actor s_nodes s_active s_persym s_actor s_shifter s_accepted].
        split; [apply Forall_dset; [exact Q1|exact Hnh]|]. split; [exact Q2|].
        split; [apply Forall_app; split; [exact Q3|constructor; [exact Hnh|constructor]]|]. split; assumption.
      + constructor.
  Qed.

  (* ---- _find_lookaheads ------------------------------------------------------------------------- *)

  Lemma heap2_upd_node P K loop ns ps i f :
    heap_ok g tb ns ps -> heap2_ok P K loop ns ps -> i < length ns ->
    n_state (f (nth i ns dnode)) = n_state (nth i ns dnode) ->
    (forall t, n_tok (nth i ns dnode) = Some t -> n_tok (f (nth i ns dnode)) = Some t) ->
    n_frontier (f (nth i ns dnode)) = n_frontier (nth i ns dnode) ->
    n_parents (f (nth i ns dnode)) = n_parents (nth i ns dnode) ->
    nnode_ok P K loop (f (nth i ns dnode)) ->
    heap2_ok P K loop (list_upd i f ns) ps.
  Proof.
    intros [Hl Hn] [Hl2 Hn2] Hi Hs Ht Hf Hp Hnn.
    assert (Hg : forall x, In x (n_parents (nth i ns dnode)) -> In x (n_parents (f (nth i ns dnode)))) by (intros x Hx; rewrite Hp; exact Hx).
    pose proof (ext_upd_node ns ps i f Hs Ht Hf Hg) as He. split.
    - intros q Hq. destruct (Hl q Hq) as (B1 & B2 & _).
      eapply link2_ok_ext; [exact He|exact B1|exact B2|apply Hl2; exact Hq].
    - intros j Hj. rewrite list_upd_length in Hj. destruct (Hn2 j Hj) as [C1 C2].
      destruct (Nat.eq_dec i j) as [->|Hne].
      + rewrite nth_list_upd_eq by exact Hj. split; [exact Hnn|].
        assert (C2' : node2_ok (list_upd j f ns) ps (nth j ns dnode))
          by (eapply node2_ok_ext; [exact He|apply Hn; exact Hj|exact C2]).
        intros k q Hin. rewrite Hp in Hin. rewrite Hf. apply C2'. exact Hin.
      + rewrite nth_list_upd_neq by exact Hne. split; [exact C1|].
        eapply node2_ok_ext; [exact He|apply Hn; exact Hj|exact C2].
  Qed.

  (* all old nodes but h are untouched, and h too if it already had a token *)
  Definition same_except (h : nat) (ns ns' : list gnode) : Prop :=
    length ns <= length ns' /\
    forall i, i < length ns -> (i <> h \/ n_tok (nth i ns dnode) <> None) -> nth i ns' dnode = nth i ns dnode.

  Lemma for_token2_ok P K st h tok st' h' :
    for_token st h tok = (st', h') ->
    heap_ok g tb (s_nodes st) (s_pars st) -> heap2_ok P K true (s_nodes st) (s_pars st) ->
    h < length (s_nodes st) -> nfr (s_nodes st) h = K -> proc P (nth h (s_nodes st) dnode) ->
    tok_ok (n_pos (nth h (s_nodes st) dnode)) tok ->
    heap2_ok P K true (s_nodes st') (s_pars st') /\
    head_ok P K (s_nodes st') h' /\
    n_pos (nth h' (s_nodes st') dnode) = n_pos (nth h (s_nodes st) dnode) /\
    same_except h (s_nodes st) (s_nodes st') /\
    proc P (nth h (s_nodes st') dnode) /\
    (forall i, length (s_nodes st) <= i -> i < length (s_nodes st') -> proc P (nth i (s_nodes st') dnode)) /\
    (h' = h \/ h' = length (s_nodes st)).
  Proof.
    unfold for_token. intros H Hheap1 Hheap Hh HK Hproc Htok. unfold getn in H.
    set (ns := s_nodes st) in *. set (ps := s_pars st) in *.
    destruct Hproc as [Hp1 Hp2].
    destruct (n_tok (nth h ns dnode)) as [t|] eqn:Et.
    - destruct (tk_id t =? tk_id tok)%N.
      + injection H as <- <-. fold ns ps. split; [exact Hheap|]. split.
        { split; [exact HK|]. split; [split; [exact Hp1|rewrite Et; exact Hp2]|]. exists t. exact Et. }
        split; [reflexivity|]. split; [split; [lia|intros i _ _; reflexivity]|]. split; [split; [exact Hp1|rewrite Et; exact Hp2]|].
        split; [intros i H1 H2; lia|left; reflexivity].
      + injection H as <- <-. cbn [set_nodes s_nodes s_pars]. fold ns ps.
        set (n' := mkNode (n_state (nth h ns dnode)) (n_pos (nth h ns dnode)) (n_frontier (nth h ns dnode))
                          (Some tok) (n_parents (nth h ns dnode))).
        assert (Hproc' : proc P n').
        { split; [exact Hp1|]. cbn [n' n_tok n_pos]. intros t' E. inversion E; subst. exact Htok. }
        destruct (proj2 Hheap h Hh) as [(N1 & N2 & _) N4].
        pose proof (ext_app_node ns ps n') as He.
        split.
        * destruct Hheap1 as [Hl Hn]. destruct Hheap as [Hl2 Hn2]. split.
          -- intros q Hq. destruct (Hl q Hq) as (B1 & B2 & _).
             eapply link2_ok_ext; [exact He|exact B1|exact B2|apply Hl2; exact Hq].
          -- intros i Hi. rewrite app_length in Hi. cbn in Hi.
             destruct (Nat.lt_ge_cases i (length ns)) as [Hlt|Hge].
             ++ rewrite app_nth1 by exact Hlt. destruct (Hn2 i Hlt) as [C1 C2]. split; [exact C1|].
                eapply node2_ok_ext; [exact He|apply Hn; exact Hlt|exact C2].
             ++ assert (i = length ns) by lia. subst i. rewrite app_nth2, Nat.sub_diag by lia. cbn [nth].
                split; [split; [exact N1|split; [exact N2|left; exact Hproc']]|].
                assert (C2' : node2_ok (ns ++ [n']) ps (nth h ns dnode))
                  by (eapply node2_ok_ext; [exact He|apply Hn; exact Hh|exact N4]).
                intros k q Hin. exact (C2' k q Hin).
        * split.
          { unfold head_ok, nfr. rewrite app_nth2, Nat.sub_diag by lia. cbn [nth].
            split; [exact HK|]. split; [exact Hproc'|]. exists tok. reflexivity. }
          split; [rewrite app_nth2, Nat.sub_diag by lia; reflexivity|].
          split; [split; [rewrite app_length; lia|intros i Hi _; rewrite app_nth1 by exact Hi; reflexivity]|].
          split; [rewrite app_nth1 by exact Hh; split; [exact Hp1|rewrite Et; exact Hp2]|].
          split; [|right; reflexivity].
          intros i H1 H2. rewrite app_length in H2. cbn in H2. assert (i = length ns) by lia. subst i.
          rewrite app_nth2, Nat.sub_diag by lia. exact Hproc'.
    - injection H as <- <-. cbn [upd_node set_nodes s_nodes s_pars]. fold ns ps.
      assert (Hproc' : proc P (n_set_tok (Some tok) (nth h ns dnode))).
      { split; [exact Hp1|]. cbn [n_set_tok n_tok n_pos]. intros t' E. inversion E; subst. exact Htok. }
      destruct (proj2 Hheap h Hh) as [(N1 & N2 & _) _].
      split.
      + apply heap2_upd_node; try assumption; try reflexivity.
        * intros t E. rewrite Et in E. discriminate.
        * split; [exact N1|]. split; [exact N2|]. left. exact Hproc'.
      + split.
        { unfold head_ok, nfr. rewrite nth_list_upd_eq by exact Hh. cbn [n_set_tok n_frontier].
          split; [exact HK|]. split; [exact Hproc'|]. exists tok. reflexivity. }
        split; [rewrite nth_list_upd_eq by exact Hh; reflexivity|].
        split; [split; [rewrite list_upd_length; lia|]|].
        { intros i Hi [Hne|Hne]; [rewrite nth_list_upd_neq by congruence; reflexivity|].
          destruct (Nat.eq_dec h i) as [->|Hne']; [rewrite Et in Hne; congruence|].
          rewrite nth_list_upd_neq by exact Hne'. reflexivity. }
        split; [rewrite nth_list_upd_eq by exact Hh; exact Hproc'|].
        split; [|left; reflexivity].
        intros i H1 H2. rewrite list_upd_length in H2. lia.
  Qed.

  Definition persym2_ok (P : N -> N) (K : N) (ns : list gnode) (d : list (N * list (nat * nat))) : Prop :=
    Forall (fun yd => Forall (fun sh => head_ok P K ns (snd sh)) (snd yd)) d.

  Lemma head_ok_same P K ns ns' i :
    nth i ns' dnode = nth i ns dnode -> head_ok P K ns i -> head_ok P K ns' i.
  Proof. unfold head_ok, nfr. intros ->. auto. Qed.

  Lemma persym2_same P K ns ns' h d :
    same_except h ns ns' -> persym_ok ns d -> persym2_ok P K ns d -> persym2_ok P K ns' d.
  Proof.
    intros [_ Hs] Hv H. unfold persym2_ok, persym_ok in *. rewrite Forall_forall in *. intros yd Hyd.
    specialize (H yd Hyd). specialize (Hv yd Hyd). unfold dict_ok in Hv. rewrite Forall_forall in *.
    intros x Hx. specialize (H x Hx). destruct (Hv x Hx) as [Hlt _].
    apply (head_ok_same P K ns); [|exact H]. apply Hs; [exact Hlt|]. right.
    destruct H as (_ & _ & t & Ht). rewrite Ht. discriminate.
  Qed.

  Lemma ps_add2_ok P K ns d y s h :
    persym2_ok P K ns d -> head_ok P K ns h -> persym2_ok P K ns (ps_add d y s h).
  Proof.
    intros Hd Hh. unfold ps_add. destruct (dget N.eqb y d) as [dd|] eqn:Eg.
    - apply dget_In in Eg. destruct Eg as (y' & Hin & _).
      unfold persym2_ok in *. apply Forall_dset; [exact Hd|]. cbn [snd].
      rewrite Forall_forall in Hd. specialize (Hd _ Hin). cbn [snd] in Hd.
      apply Forall_dset; [exact Hd|exact Hh].
    - unfold persym2_ok. apply Forall_app. split; [exact Hd|]. constructor; [|constructor].
      cbn. constructor; [exact Hh|constructor].
  Qed.

  Lemma mk_token_ok st y pos len tok st1 s0 :
    mk_token stop_id st y pos len = (tok, st1) -> In (y, len) (tokens s0 pos) -> tok_ok pos tok.
  Proof.
    unfold mk_token. intros H Hin. destruct (tokens_facts _ _ _ _ Hin) as [[E1 E2]|(E1 & E2 & E3)].
    - subst y. rewrite N.eqb_refl in H. injection H as <- <-. left. split; [reflexivity|exact E2].
    - destruct (N.eqb_spec y stop_id) as [->|Hne]; [congruence|]. injection H as <- <-.
      right. cbn [tk_sym tk_pos tk_len]. split; [exact E1|]. split; [reflexivity|]. exists s0. exact Hin.
  Qed.

  Lemma assign_tokens2_ok P K s0 : forall toks st h pos,
    heap_ok g tb (s_nodes st) (s_pars st) -> heap2_ok P K true (s_nodes st) (s_pars st) ->
    h < length (s_nodes st) -> nfr (s_nodes st) h = K -> proc P (nth h (s_nodes st) dnode) ->
    n_pos (nth h (s_nodes st) dnode) = pos ->
    (forall y l, In (y, l) toks -> In (y, l) (tokens s0 pos)) ->
    persym_ok (s_nodes st) (s_persym st) -> persym2_ok P K (s_nodes st) (s_persym st) ->
    let st' := assign_tokens stop_id st h pos toks in
    heap2_ok P K true (s_nodes st') (s_pars st') /\
    persym2_ok P K (s_nodes st') (s_persym st') /\
    same_except h (s_nodes st) (s_nodes st') /\
    proc P (nth h (s_nodes st') dnode) /\
    (forall i, length (s_nodes st) <= i -> i < length (s_nodes st') -> proc P (nth i (s_nodes st') dnode)).
  Proof.
    induction toks as [|[y len] r IH]; intros st h pos Hheap1 Hheap Hh HK Hproc Hpos Htoks Hpv Hps;
      cbn [assign_tokens].
    - split; [exact Hheap|]. split; [exact Hps|]. split; [split; [lia|auto]|]. split; [exact Hproc|].
      intros i H1 H2. lia.
    - destruct (mk_token stop_id st y pos len) as [tok st1] eqn:Em.
      destruct (mk_token_same _ _ _ _ _ _ _ Em) as (En & Ep & Er).
      pose proof (mk_token_ok _ _ _ _ _ _ s0 Em (Htoks y len (or_introl eq_refl))) as Htok.
      destruct (for_token st1 h tok) as [st2 h'] eqn:Ef.
      rewrite <- En, <- Ep in Hheap1, Hheap. rewrite <- En in Hh, HK, Hproc, Hpos, Hpv, Hps.
      rewrite <- Hpos in Htok.
      destruct (for_token_ok g tb _ _ _ _ _ Ef Hheap1 Hh) as (L1 & L2 & L3 & L4 & L5).
      destruct (for_token2_ok P K _ _ _ _ _ Ef Hheap1 Hheap Hh HK Hproc Htok) as (B1 & B2 & B3 & B4 & B5 & B6 & B7).
      set (st3 := set_persym st2 (ps_add (s_persym st2) y (n_state (getn st2 h')) h')).
      unfold regs in L5, Er. inversion L5 as [[A1 A2 A3 A4 A5 A6]]. inversion Er as [[C1 C2 C3 C4 C5 C6]].
      assert (Hpv3 : persym_ok (s_nodes st3) (s_persym st3)).
      { cbn [st3 set_persym s_nodes s_persym]. apply ps_add_ok; [|exact L3|reflexivity].
        rewrite A2. eapply persym_ok_ext; [exact L2|]. rewrite C2. exact Hpv. }
      assert (Hps3 : persym2_ok P K (s_nodes st3) (s_persym st3)).
      { cbn [st3 set_persym s_nodes s_persym]. apply ps_add2_ok; [|exact B2].
        rewrite A2. eapply persym2_same; [exact B4| |].
        - rewrite C2. exact Hpv.
        - rewrite C2. exact Hps. }
      assert (HK' : nfr (s_nodes st3) h' = K) by exact (proj1 B2).
      assert (Hproc' : proc P (nth h' (s_nodes st3) dnode)) by exact (proj1 (proj2 B2)).
      assert (Hpos' : n_pos (nth h' (s_nodes st3) dnode) = pos) by (cbn [st3 set_persym s_nodes]; rewrite B3; exact Hpos).
      specialize (IH st3 h' pos L1 B1 L3 HK' Hproc' Hpos' (fun y0 l0 H0 => Htoks y0 l0 (or_intror H0)) Hpv3 Hps3).
      cbn zeta in IH. destruct IH as (I1 & I2 & I3 & I4 & I5).
      cbn [st3 set_persym s_nodes] in I3, I5.
      destruct B4 as [B4l B4s]. destruct I3 as [I3l I3s].
      rewrite <- En.
      split; [exact I1|]. split; [exact I2|]. split; [split; [lia|]|]. 2: split.
      + intros i Hi Hc. destruct B7 as [->| ->].
        * rewrite I3s; [apply B4s; assumption|lia|].
          destruct Hc as [Hc|Hc]; [left; exact Hc|]. right. rewrite B4s; [exact Hc|exact Hi|right; exact Hc].
        * rewrite I3s; [apply B4s; assumption|lia|left; lia].
      + destruct B7 as [->| ->]; [exact I4|].
        rewrite I3s; [exact B5|lia|left; lia].
      + intros i H1 H2. destruct (Nat.lt_ge_cases i (length (s_nodes st2))) as [Hlt|Hge].
        * destruct (Nat.eq_dec i h') as [->|Hne]; [exact I4|].
          rewrite I3s; [apply B6; assumption|exact Hlt|left; exact Hne].
        * apply I5; assumption.
  Qed.

  Lemma find_la2_ok P K : forall act st st',
    find_la tb terms rx in_len stop_id consume lexdis skipws st act = FOk st' ->
    heap_ok g tb (s_nodes st) (s_pars st) -> heap2_ok P K true (s_nodes st) (s_pars st) ->
    persym_ok (s_nodes st) (s_persym st) -> persym2_ok P K (s_nodes st) (s_persym st) ->
    Forall (fun sh => snd sh < length (s_nodes st) /\ fresh P K (nth (snd sh) (s_nodes st) dnode)) act ->
    NoDup (map snd act) ->
    (forall i, i < length (s_nodes st) -> proc P (nth i (s_nodes st) dnode) \/ In i (map snd act)) ->
    heap2_ok P K false (s_nodes st') (s_pars st') /\ persym2_ok P K (s_nodes st') (s_persym st').
  Proof.
    induction act as [|[s h] r IH]; intros st st' H Hheap1 Hheap Hpv Hps Hact Hnd Hcov; cbn [find_la] in H.
    - inversion H; subst. cbn [set_active s_nodes s_pars s_persym]. split; [|exact Hps].
      destruct Hheap as [Hl2 Hn2]. split; [exact Hl2|]. intros i Hi. destruct (Hn2 i Hi) as [(N1 & N2 & N3) N4].
      split; [|exact N4]. split; [exact N1|]. split; [exact N2|]. left.
      destruct (Hcov i Hi) as [Hp|[]]. exact Hp.
    - inversion Hact as [|x l [Hh Hfresh] Hr]; subst x l. cbn [snd] in Hh, Hfresh.
      destruct Hfresh as (F1 & F2 & F3). cbn [map snd] in Hnd. inversion Hnd as [|x l Hnotin Hnd']; subst x l.
      unfold getn in H. set (ns := s_nodes st) in *. set (ps := s_pars st) in *. rewrite F2, F3 in H.
      destruct (skipws (P K)) as [p| |] eqn:Esk; try discriminate. apply Hsk in Esk. subst p.
      set (p := sk (P K)) in *.
      set (st1 := upd_node st h (n_set_pos p)) in *.
      assert (Hs1 : n_state (n_set_pos p (nth h ns dnode)) = n_state (nth h ns dnode)) by reflexivity.
      assert (Ht1 : forall t, n_tok (nth h ns dnode) = Some t ->
                              n_tok (n_set_pos p (nth h ns dnode)) = Some t) by auto.
      pose proof (ext_upd_node ns ps h _ Hs1 Ht1 eq_refl (fun x H => H)) as He1.
      assert (Hheap1' : heap_ok g tb (s_nodes st1) (s_pars st1)).
      { cbn [st1 upd_node set_nodes s_nodes s_pars]. apply heap_upd_node; [exact Hs1|exact Ht1|reflexivity|exact (fun x H => H)|exact Hheap1|].
        intros _. apply (node_ok_same _ _ (nth h ns dnode)); [reflexivity|reflexivity|].
        eapply node_ok_ext; [exact He1|]. destruct Hheap1 as [_ Hn]. apply Hn. exact Hh. }
      destruct (proj2 Hheap h Hh) as [(N1 & N2 & _) _].
      assert (Hproc1 : proc P (n_set_pos p (nth h ns dnode))).
      { split; [cbn [n_set_pos n_pos n_frontier]; rewrite F1; reflexivity|].
        cbn [n_set_pos n_tok]. intros t E. rewrite F2 in E. discriminate. }
      assert (Hheap2' : heap2_ok P K true (s_nodes st1) (s_pars st1)).
      { cbn [st1 upd_node set_nodes s_nodes s_pars]. apply heap2_upd_node; try assumption; try reflexivity.
        split; [exact N1|]. split; [exact N2|]. left. exact Hproc1. }
      assert (Hh1 : h < length (s_nodes st1)) by (cbn [st1 upd_node set_nodes s_nodes]; rewrite list_upd_length; exact Hh).
      assert (Hnth1 : nth h (s_nodes st1) dnode = n_set_pos p (nth h ns dnode)).
      { cbn [st1 upd_node set_nodes s_nodes]. apply nth_list_upd_eq. exact Hh. }
      assert (Hpv1 : persym_ok (s_nodes st1) (s_persym st1)).
      { cbn [st1 upd_node set_nodes s_nodes s_persym]. eapply persym_ok_ext; [exact He1|exact Hpv]. }
      assert (Hsame1 : same_except h ns (s_nodes st1)).
      { cbn [st1 upd_node set_nodes s_nodes]. fold ns. split; [rewrite list_upd_length; lia|].
        intros i Hi [Hne|Hne]; [rewrite nth_list_upd_neq by congruence; reflexivity|].
        destruct (Nat.eq_dec h i) as [->|Hne']; [rewrite F2 in Hne; congruence|].
        rewrite nth_list_upd_neq by exact Hne'. reflexivity. }
      assert (Hps1 : persym2_ok P K (s_nodes st1) (s_persym st1)).
      { cbn [st1 upd_node set_nodes s_persym]. eapply persym2_same; [exact Hsame1|exact Hpv|exact Hps]. }
      set (toks := rev (tokens (n_state (nth h ns dnode)) p)) in *.
      pose proof (assign_tokens_ok g tb stop_id toks st1 h p Hheap1' Hh1 Hpv1) as L. cbn zeta in L.
      destruct L as (L1 & L2 & L3 & L4 & L5).
      pose proof (assign_tokens2_ok P K (n_state (nth h ns dnode)) toks st1 h p Hheap1' Hheap2' Hh1) as A.
      cbn zeta in A. destruct A as (A1 & A2 & A3 & A4 & A5).
      { unfold nfr. rewrite Hnth1. exact F1. } { rewrite Hnth1. exact Hproc1. } { rewrite Hnth1. reflexivity. }
      { intros y l Hin. unfold toks in Hin. apply in_rev in Hin. exact Hin. } { exact Hpv1. } { exact Hps1. }
      set (st2 := assign_tokens stop_id st1 h p toks) in *.
      destruct A3 as [A3l A3s]. destruct Hsame1 as [S1l S1s].
      apply IH in H; [exact H|exact L1|exact A1|exact L3|exact A2| |exact Hnd'|].
      + rewrite Forall_forall in *. intros x Hx. destruct (Hr x Hx) as [Hxv Hxf].
        assert (Hne : snd x <> h).
        { intros E. apply Hnotin. rewrite <- E. apply in_map. exact Hx. }
        split; [lia|]. rewrite A3s; [|lia|left; exact Hne]. rewrite S1s; [exact Hxf|exact Hxv|left; exact Hne].
      + intros i Hi. destruct (Nat.lt_ge_cases i (length ns)) as [Hlt|Hge].
        * destruct (Nat.eq_dec i h) as [->|Hne]; [left; exact A4|].
          rewrite A3s; [|lia|left; exact Hne]. rewrite S1s; [|exact Hlt|left; exact Hne].
          destruct (Hcov i Hlt) as [Hp|[E|Hin]]; [left; exact Hp|cbn in E; congruence|right; exact Hin].
        * left. assert (Hlen1 : length (s_nodes st1) = length ns)
            by (cbn [st1 upd_node set_nodes s_nodes]; apply list_upd_length).
          apply A5; [lia|exact Hi].
  Qed.

  Lemma step2_FLoop P K st k st' fr' :
    inv g tb st (FLoop :: k) -> inv2 P K st (FLoop :: k) ->
    step st (FLoop :: k) = Go st' fr' -> inv2 P K st' fr'.
  Proof.
    intros (Hheap1 & (V1 & V2 & V3 & V4 & V5) & Hfr1) (Hlt & Hheap & Hregs & Hfr & Hc) H. cbn [glr_step] in H.
    assert (Hk : k = [] /\ s_actor st = [] /\ s_shifter st = []).
    { inversion Hc as [Ha Hs| | |inner Hin E]; subst; [auto|]. destruct inner as [|f r]; cbn in E; inversion E; subst.
      cbn in Hin. discriminate. }
    destruct Hk as (-> & Hact & Hsh). cbn [loopb] in *.
    destruct Hregs as ((R1 & R1n & R1c) & R2 & R3 & R4 & R5).
    destruct (s_active st) as [|a0 ar] eqn:Ea; [discriminate|]. rewrite <- Ea in *. clear Ea a0 ar.
    destruct (find_la tb terms rx in_len stop_id consume lexdis skipws (set_persym st []) (rev (s_active st)))
      as [st1| |] eqn:Ef; try discriminate.
    injection H as <- <-.
    destruct (find_la_ok g tb _ _ _ _ _ _ _ _ _ _ Ef) as (B1 & B2 & B3 & B4 & B5).
    { exact Hheap1. } { constructor. } { apply Forall_rev. exact V1. }
    destruct (find_la2_ok P K _ _ _ Ef) as [C1 C2].
    { exact Hheap1. } { exact Hheap. } { constructor. } { constructor. }
    { apply Forall_rev. unfold dict_ok in V1. rewrite Forall_forall in *. intros x Hx.
      split; [exact (proj1 (V1 x Hx))|apply R1; exact Hx]. }
    { rewrite map_rev. apply NoDup_rev. exact R1n. }
    { cbn [set_persym s_nodes]. intros i Hi. destruct (R1c i Hi) as [Hp|Hin]; [left; exact Hp|].
      right. rewrite map_rev. apply in_rev. rewrite rev_involutive. exact Hin. }
    cbn [set_persym s_nodes s_pars] in B2. unfold regs4 in B5. inversion B5 as [[E1 E2 E3 E4]].
    cbn [set_persym s_actor s_trav s_shifter s_accepted] in E1, E2, E3, E4.
    unfold inv2. cbn [loopb]. split; [exact Hlt|]. split; [exact C1|]. split.
    - unfold regs2_ok. rewrite B4, E1, E3, E4, Hact, Hsh.
      split; [constructor|]. split; [exact C2|]. split; [constructor|]. split; [constructor|].
      destruct R5 as [R5 R5s]. split; [|eapply acc_sorted_ext; [exact B2|apply acc_valid; exact V5|exact R5s]].
      rewrite Forall_forall in *. intros h Hh. destruct (V5 h Hh) as [Hv _].
      rewrite (ext_nfr _ _ _ _ _ B2 Hv). apply R5. exact Hh.
    - split; [constructor; [exact I|constructor; [exact I|constructor]]|].
      apply c_subs. rewrite E1. exact Hact.
  Qed.

  (* ---- _do_shifts ------------------------------------------------------------------------------- *)

  Lemma proc_exts P ns ps ns' ps' i :
    exts ns ps ns' ps' -> i < length ns -> proc P (nth i ns dnode) -> proc P (nth i ns' dnode).
  Proof.
    intros He Hi Hp. destruct (exts_node _ _ _ _ _ He Hi) as (A1 & _ & A3 & A4).
    unfold proc in *. rewrite A1, A3, A4. exact Hp.
  Qed.

  Lemma fresh_exts P K ns ps ns' ps' i :
    exts ns ps ns' ps' -> i < length ns -> fresh P K (nth i ns dnode) -> fresh P K (nth i ns' dnode).
  Proof.
    intros He Hi Hp. destruct (exts_node _ _ _ _ _ He Hi) as (A1 & _ & A3 & A4).
    unfold fresh in *. rewrite A1, A3, A4. exact Hp.
  Qed.

  (* what _do_shifts needs to know of an entry of _for_shifter *)
  Definition sh2_ok (P : N -> N) (K L : N) (ns : list gnode) (e : nat * nat) : Prop :=
    nfr ns (fst e) = K /\ n_pos (nth (fst e) ns dnode) = sk (P K) /\
    exists t, n_tok (nth (fst e) ns dnode) = Some t /\ tk_pos t = sk (P K) /\ tk_len t = L /\
              rx (tk_sym t) (sk (P K)) = Some L.

  Lemma sh2_ok_exts P K L ns ps ns' ps' e :
    exts ns ps ns' ps' -> fst e < length ns -> sh2_ok P K L ns e -> sh2_ok P K L ns' e.
  Proof.
    intros He Hi H. destruct (exts_node _ _ _ _ _ He Hi) as (A1 & _ & A3 & A4).
    unfold sh2_ok, nfr in *. rewrite A1, A3, A4. exact H.
  Qed.

  Lemma dset_fresh_key {V} (d : list (nat * V)) k v :
    dget Nat.eqb k d = None -> dset Nat.eqb k v d = d ++ [(k, v)].
  Proof.
    induction d as [|[k' v'] r IH]; cbn; [reflexivity|].
    destruct (Nat.eqb k k'); [discriminate|]. intros H. rewrite (IH H). reflexivity.
  Qed.

  Lemma NoDup_app_cons_last {X} (l : list X) x : NoDup l -> ~ In x l -> NoDup (l ++ [x]).
  Proof.
    induction l as [|a r IH]; intros Hn Hx; cbn.
    - constructor; [intros []|constructor].
    - inversion Hn; subst. constructor.
      + intros Hin. apply in_app_or in Hin. destruct Hin as [Hin|[<-|[]]]; [auto|]. apply Hx. left. reflexivity.
      + apply IH; [assumption|]. intros Hin. apply Hx. right. exact Hin.
  Qed.

  Definition active2_ok (P : N -> N) (K : N) (ns : list gnode) (act : list (nat * nat)) : Prop :=
    Forall (fun sh => fresh P K (nth (snd sh) ns dnode)) act /\
    NoDup (map snd act) /\
    (forall i, i < length ns -> proc P (nth i ns dnode) \/ In i (map snd act)).

  Lemma active2_exts P K ns ps ns' ps' act :
    exts ns ps ns' ps' -> length ns' = length ns -> dict_ok ns act ->
    active2_ok P K ns act -> active2_ok P K ns' act.
  Proof.
    intros He Hlen Hd (A1 & A2 & A3). split; [|split; [exact A2|]].
    - unfold dict_ok in Hd. rewrite Forall_forall in *. intros x Hx.
      eapply fresh_exts; [exact He|exact (proj1 (Hd x Hx))|apply A1; exact Hx].
    - intros i Hi. rewrite Hlen in Hi. destruct (A3 i Hi) as [Hp|Hin]; [left|right; exact Hin].
      eapply proc_exts; eassumption.
  Qed.

  Lemma shift_loop2_ok P' K L (Kp := (K + 1)%N) :
    (P' Kp = sk (P' K) + L)%N ->
    forall todo st endp st' rest,
    shift_loop st todo endp = (st', rest) ->
    heap_ok g tb (s_nodes st) (s_pars st) -> heap2_ok P' Kp true (s_nodes st) (s_pars st) ->
    dict_ok (s_nodes st) (s_active st) -> active2_ok P' Kp (s_nodes st) (s_active st) ->
    Forall (fun e => shift_ok tb (s_nodes st) e /\ sh2_ok P' K L (s_nodes st) e) todo ->
    (endp = None \/ endp = Some (sk (P' K) + L)%N) ->
    rest = [] /\ heap2_ok P' Kp true (s_nodes st') (s_pars st') /\
    active2_ok P' Kp (s_nodes st') (s_active st').
  Proof.
    intros HP'. induction todo as [|[h s'] r IH]; intros st endp st' rest H Hheap1 Hheap Hd Hact Htodo Hendp;
      cbn [shift_loop] in H.
    - inversion H; subst. auto.
    - inversion Htodo as [|x l [Hs1 Hs2] Hr]; subst x l.
      pose proof Hs1 as (Hh & t & Ht & Hin). destruct Hs2 as (F1 & F2 & t' & Ht' & T1 & T2 & T3).
      cbn [fst snd] in Hh, Ht, Hin, F1, F2, Ht', T1, T2, T3.
      rewrite Ht in Ht'. inversion Ht'; subst t'. clear Ht'.
      assert (Etk : tok_of st h = t). { unfold tok_of, getn. rewrite Ht. reflexivity. }
      rewrite Etk in H.
      assert (Eend : tok_end t = (sk (P' K) + L)%N) by (unfold tok_end; rewrite T1, T2; reflexivity).
      assert (Hnb : match endp with Some e => (e <? tok_end t)%N | None => false end = false).
      { destruct Hendp as [->| ->]; [reflexivity|]. rewrite Eend. apply N.ltb_irrefl. }
      rewrite Hnb in H. unfold getn in H.
      set (ns := s_nodes st) in *. set (ps := s_pars st) in *. rewrite F2, T2 in H.
      set (sp := sk (P' K)) in *. set (ep := (sp + L)%N) in *.
      assert (Halt : forall ns1 ps1 fh, fh = Kp ->
                alt_pos_ok P' ns1 ps1 K fh (ATerm (tk_sym t) sp ep)).
      { intros ns1 ps1 fh ->. cbn [alt_pos_ok]. split; [reflexivity|]. split; [reflexivity|].
        split; [symmetry; exact HP'|]. exists L. split; [exact T3|reflexivity]. }
      destruct (dget Nat.eqb s' (s_active st)) as [sh|] eqn:Eg.
      + destruct (dget_dict _ _ _ _ Hd Eg) as [Hsh Hss].
        assert (Hshf : fresh P' Kp (nth sh ns dnode)).
        { apply dget_In in Eg. destruct Eg as (s2 & Hin2 & _). destruct Hact as (A1 & _).
          rewrite Forall_forall in A1. exact (A1 _ Hin2). }
        destruct (create_link st sh h sp ep (ATerm (tk_sym t) sp ep)) as [[st1 cr] pi] eqn:Ec.
        destruct (create_link_ok g tb _ _ _ _ _ _ _ _ _ Ec Hheap1 Hsh Hh) as (C1 & C2 & C3 & C4 & C5).
        { exists (T (tk_sym t)). split; [|reflexivity]. fold ns. rewrite Hss. exact Hin. }
        destruct (create_link2_ok P' Kp true _ _ _ _ _ _ _ _ _ Ec Hheap1 Hheap Hsh Hh) as [D1 D2].
        { fold ns. unfold nfr. rewrite (proj1 Hshf). lia. }
        { fold ns. rewrite F1. apply Halt. unfold nfr. exact (proj1 Hshf). }
        destruct (regs_regs3 _ _ C4) as [_ Ra].
        apply IH in H; [exact H|exact C1|exact D1| | | |right; rewrite Eend; reflexivity].
        * rewrite Ra. eapply dict_ok_ext; eassumption.
        * rewrite Ra. eapply active2_exts; eassumption.
        * rewrite Forall_forall in *. intros x Hx. destruct (Hr x Hx) as [X1 X2]. split.
          -- eapply shift_ok_ext; [exact C2|exact X1].
          -- eapply sh2_ok_exts; [exact D2|exact (proj1 X1)|exact X2].
      + set (newn := mkNode s' ep (n_frontier (nth h ns dnode) + 1)%N None []) in *.
        set (st1 := set_nodes st (ns ++ [newn])) in *.
        set (st2 := set_active st1 (dset Nat.eqb s' (length ns) (s_active st1))) in *.
        pose proof (ext_app_node ns ps newn) as He1. pose proof (exts_app_node ns ps newn) as Hx1.
        assert (Hs'0 : s' <> 0).
        { apply (edge_nonzero g tb start Hts (nstate ns h) (T (tk_sym t))). exact Hin. }
        assert (Hfr : n_frontier newn = Kp).
        { cbn [newn n_frontier]. unfold nfr in F1. rewrite F1. reflexivity. }
        assert (Hnf : fresh P' Kp newn).
        { split; [exact Hfr|]. split; [reflexivity|]. cbn [newn n_pos]. unfold ep, sp. symmetry. exact HP'. }
        assert (Hnn : nnode_ok P' Kp true newn).
        { split; [rewrite Hfr; lia|]. split; [intros E; cbn [newn n_state] in E; congruence|]. right. auto. }
        assert (Hheap1' : heap_ok g tb (s_nodes st2) (s_pars st2)).
        { cbn [st2 st1 set_active set_nodes s_nodes s_pars]. apply heap_app_node; [exact Hheap1|]. intros kk q []. }
        assert (Hheap2' : heap2_ok P' Kp true (s_nodes st2) (s_pars st2)).
        { cbn [st2 st1 set_active set_nodes s_nodes s_pars]. apply heap2_app_node; [exact Hheap1|exact Hheap|exact Hnn|reflexivity]. }
        assert (Hn2 : s_nodes st2 = ns ++ [newn]) by reflexivity.
        assert (Hnth : nth (length ns) (ns ++ [newn]) dnode = newn) by (rewrite app_nth2, Nat.sub_diag by lia; reflexivity).
        assert (Hd2 : dict_ok (s_nodes st2) (s_active st2)).
        { cbn [st2 st1 set_active set_nodes s_nodes s_active]. apply Forall_dset.
          - eapply dict_ok_ext; [exact He1|exact Hd].
          - cbn [fst snd]. split; [rewrite app_length; cbn; lia|]. unfold nstate. rewrite Hnth. reflexivity. }
        assert (Hact2 : active2_ok P' Kp (s_nodes st2) (s_active st2)).
        { cbn [st2 st1 set_active set_nodes s_nodes s_active]. rewrite (dset_fresh_key _ _ _ Eg).
          destruct Hact as (A1 & A2 & A3). split; [|split].
          - apply Forall_app. split.
            + unfold dict_ok in Hd. rewrite Forall_forall in *. intros x Hx.
              eapply fresh_exts; [exact Hx1|exact (proj1 (Hd x Hx))|apply A1; exact Hx].
            + constructor; [|constructor]. cbn [snd]. rewrite Hnth. exact Hnf.
          - rewrite map_app. cbn [map snd]. apply NoDup_app_cons_last; [exact A2|].
            intros Hin'. apply in_map_iff in Hin'. destruct Hin' as (x & Ex & Hx).
            unfold dict_ok in Hd. rewrite Forall_forall in Hd. specialize (Hd x Hx). lia.
          - intros i Hi. rewrite app_length in Hi. cbn in Hi. rewrite map_app. cbn [map snd].
            destruct (Nat.lt_ge_cases i (length ns)) as [Hlt|Hge].
            + destruct (A3 i Hlt) as [Hp|Hin']; [left|right; apply in_or_app; left; exact Hin'].
              eapply proc_exts; eassumption.
            + right. apply in_or_app. right. left. lia. }
        destruct (create_link st2 (length ns) h sp ep (ATerm (tk_sym t) sp ep)) as [[st3 cr] pi] eqn:Ec.
        assert (Hlen2 : length (s_nodes st2) = S (length ns)) by (rewrite Hn2, app_length; cbn; lia).
        destruct (create_link_ok g tb _ _ _ _ _ _ _ _ _ Ec Hheap1') as (C1 & C2 & C3 & C4 & C5); [lia|lia| |].
        { exists (T (tk_sym t)). split; [|reflexivity]. rewrite Hn2.
          rewrite (ext_nstate _ _ _ _ _ He1 Hh).
          replace (nstate (ns ++ [newn]) (length ns)) with s' by (unfold nstate; rewrite Hnth; reflexivity).
          exact Hin. }
        destruct (create_link2_ok P' Kp true _ _ _ _ _ _ _ _ _ Ec Hheap1' Hheap2') as [D1 D2]; [lia|lia| | |].
        { rewrite Hn2. unfold nfr. rewrite Hnth, Hfr. lia. }
        { rewrite Hn2. rewrite (ext_nfr _ _ _ _ _ He1 Hh), F1. apply Halt. unfold nfr. rewrite Hnth. exact Hfr. }
        destruct (regs_regs3 _ _ C4) as [_ Ra].
        apply IH in H; [exact H|exact C1|exact D1| | | |right; reflexivity].
        * rewrite Ra. eapply dict_ok_ext; eassumption.
        * rewrite Ra. eapply active2_exts; eassumption.
        * rewrite Forall_forall in *. intros x Hx. destruct (Hr x Hx) as [X1 X2]. split.
          -- eapply shift_ok_ext; [exact C2|]. rewrite Hn2. eapply shift_ok_ext; [exact He1|exact X1].
          -- eapply sh2_ok_exts; [exact D2| |].
             ++ rewrite Hlen2. pose proof (proj1 X1). lia.
             ++ rewrite Hn2. eapply sh2_ok_exts; [exact Hx1|exact (proj1 X1)|exact X2].
  Qed.

  Lemma proc_reindex P P' K n :
    (forall f, (f <= K)%N -> P' f = P f) -> (n_frontier n <= K)%N -> proc P n -> proc P' n.
  Proof. intros HP Hf [H1 H2]. split; [rewrite (HP _ Hf); exact H1|exact H2]. Qed.

  Lemma heap2_reindex P P' K ns ps :
    (forall f, (f <= K)%N -> P' f = P f) ->
    heap2_ok P K false ns ps -> heap2_ok P' (K + 1)%N true ns ps.
  Proof.
    intros HP [Hl2 Hn2]. split.
    - intros q Hq. destruct (Hl2 q Hq) as [A1 A2]. split; [lia|].
      rewrite Forall_forall in *. intros a Ha. specialize (A2 a Ha).
      destruct a as [y s e|p s e cs]; cbn [alt_pos_ok] in *; [|exact A2].
      destruct A2 as (B1 & B2 & B3 & B4). split; [exact B1|].
      rewrite (HP _ A1). rewrite HP by lia. auto.
    - intros i Hi. destruct (Hn2 i Hi) as [(N1 & N2 & N3) N4]. split; [|exact N4].
      split; [lia|]. split; [exact N2|]. left. destruct N3 as [Hp|[E _]]; [|discriminate].
      eapply proc_reindex; eassumption.
  Qed.

  (* the entries of _for_shifter: processed heads of frontier K whose tokens all have one length *)
  Lemma shifter_sh2 P K ns e0 es :
    Forall (shift_ok tb ns) (e0 :: es) -> Forall (fun e => head_ok P K ns (fst e)) (e0 :: es) ->
    exists L, (sk (P K) < in_len)%N /\ Forall (fun e => sh2_ok P K L ns e) (e0 :: es).
  Proof.
    intros Hv Hh.
    assert (Hall : forall e, In e (e0 :: es) ->
              nfr ns (fst e) = K /\ n_pos (nth (fst e) ns dnode) = sk (P K) /\
              exists t s, n_tok (nth (fst e) ns dnode) = Some t /\ tk_sym t <> stop_id /\
                          tk_pos t = sk (P K) /\ In (tk_sym t, tk_len t) (tokens s (sk (P K)))).
    { intros e He. rewrite Forall_forall in Hv, Hh. destruct (Hv e He) as (_ & t & Ht & Hin).
      destruct (Hh e He) as (F1 & (F2 & F3) & _). unfold nfr in F1. rewrite F1 in F2.
      split; [exact F1|]. split; [exact F2|].
      assert (Hns : tk_sym t <> stop_id). { intros E. rewrite E in Hin. exact (Hnoshift _ _ Hin). }
      destruct (F3 t Ht) as [[E _]|(_ & E2 & s & E3)]; [congruence|].
      rewrite F2 in E2, E3. exists t, s. repeat split; assumption. }
    destruct (Hall e0 (or_introl eq_refl)) as (_ & _ & t0 & s0 & Ht0 & Hn0 & _ & Hin0).
    exists (tk_len t0). split.
    - destruct (tokens_facts _ _ _ _ Hin0) as [[E _]|(_ & _ & E)]; [congruence|exact E].
    - apply Forall_forall. intros e He. destruct (Hall e He) as (A1 & A2 & t & s & Ht & Hn & Hp & Hin).
      split; [exact A1|]. split; [exact A2|]. exists t. split; [exact Ht|]. split; [exact Hp|].
      assert (El : tk_len t = tk_len t0) by (eapply Huni; eassumption).
      split; [exact El|]. rewrite <- El.
      destruct (tokens_facts _ _ _ _ Hin) as [[E _]|(_ & E & _)]; [congruence|exact E].
  Qed.

  Lemma step2_FShift P K st k st' fr' :
    inv g tb st (FShift :: k) -> inv2 P K st (FShift :: k) ->
    step st (FShift :: k) = Go st' fr' ->
    exists P' K', inv2 P' K' st' fr' /\ P' 0%N = P 0%N.
  Proof.
    intros (Hheap1 & (V1 & V2 & V3 & V4 & V5) & Hfr1) (Hlt & Hheap & Hregs & Hfr & Hc) H. cbn [glr_step] in H.
    assert (Hk : k = [] /\ s_persym st = [] /\ s_actor st = []).
    { inversion Hc as [|Hp Ha| |inner Hin E]; subst; [auto|]. destruct inner as [|f r]; cbn in E; inversion E; subst.
      cbn in Hin. discriminate. }
    destruct Hk as (-> & Hper & Hact). cbn [loopb] in *.
    destruct Hregs as (R1 & R2 & R3 & R4 & R5).
    assert (Hgo : st' = do_shifts st /\ fr' = [FLoop]).
    { destruct (s_active (do_shifts st)); destruct (s_accepted (do_shifts st)); try discriminate; inversion H; auto. }
    destruct Hgo as [-> ->]. clear H.
    set (ns := s_nodes st) in *. set (ps := s_pars st) in *.
    set (st0 := set_active st []).
    assert (Hallproc : forall i, i < length ns -> proc P (nth i ns dnode)).
    { intros i Hi. destruct (proj2 Hheap i Hi) as [(_ & _ & [Hp|[E _]]) _]; [exact Hp|discriminate]. }
    destruct (s_shifter st) as [|e0 es] eqn:Esh.
    - (* nothing to shift *)
      exists P, K. split; [|reflexivity].
      assert (Ed : do_shifts st = set_shifter st0 []).
      { unfold do_shifts. fold st0. cbn [st0 set_active s_shifter]. rewrite Esh. reflexivity. }
      rewrite Ed. unfold inv2. cbn [loopb set_shifter st0 set_active s_nodes s_pars]. fold ns ps.
      split; [exact Hlt|]. split.
      { destruct Hheap as [Hl2 Hn2]. split; [exact Hl2|]. intros i Hi. destruct (Hn2 i Hi) as [(N1 & N2 & N3) N4].
        split; [|exact N4]. split; [exact N1|]. split; [exact N2|]. left. apply Hallproc. exact Hi. }
      split.
      { unfold regs2_ok. cbn [set_shifter st0 set_active s_active s_persym s_actor s_shifter s_accepted].
        rewrite Hper, Hact. split; [split; [constructor|split; [constructor|intros i Hi; left; apply Hallproc; exact Hi]]|].
        split; [constructor|]. split; [constructor|]. split; [constructor|exact R5]. }
      split; [constructor; [exact I|constructor]|]. apply c_loop; [exact Hact|reflexivity].
    - rewrite <- Esh in *.
      destruct (shifter_sh2 P K ns e0 es) as (L & HltK & Hsh2).
      { rewrite <- Esh. exact V4. } { rewrite <- Esh. exact R4. }
      rewrite <- Esh in Hsh2.
      set (Kp := (K + 1)%N).
      set (P' := fun f => if (f =? Kp)%N then (sk (P K) + L)%N else P f).
      assert (HP : forall f, (f <= K)%N -> P' f = P f).
      { intros f Hf. unfold P'. destruct (N.eqb_spec f Kp) as [E|_]; [unfold Kp in E; lia|reflexivity]. }
      assert (HP' : P' Kp = (sk (P' K) + L)%N).
      { unfold P' at 1. rewrite N.eqb_refl. rewrite (HP K) by lia. reflexivity. }
      exists P', Kp. split; [|apply HP; lia].
      pose proof (heap2_reindex P P' K ns ps HP Hheap) as Hheap'.
      unfold do_shifts. fold st0.
      destruct (shift_loop st0 (rev (sort_desc st0 (s_shifter st0))) None) as [st1 rest] eqn:El.
      cbn zeta.
      destruct (shift_loop_ok g tb _ _ _ _ _ El) as (B1 & B2 & B3 & B4 & B5).
      { exact Hheap1. } { constructor. }
      { apply Forall_rev. apply Forall_sort_desc. exact V4. }
      destruct (shift_loop2_ok P' K L HP' _ _ _ _ _ El) as (C1 & C2 & C3).
      { exact Hheap1. } { exact Hheap'. } { constructor. }
      { split; [constructor|]. split; [constructor|]. intros i Hi. left.
        eapply proc_reindex; [exact HP| |apply Hallproc; exact Hi].
        destruct (proj2 Hheap i Hi) as [(N1 & _) _]. exact N1. }
      { apply Forall_rev. apply Forall_sort_desc. cbn [st0 set_active s_shifter s_nodes].
        rewrite Forall_forall in *. intros e He. split; [apply V4; exact He|].
        destruct (Hsh2 e He) as (A1 & A2 & t & A3 & A4 & A5 & A6). fold ns.
        split; [exact A1|]. rewrite (HP K) by lia. split; [exact A2|]. exists t. auto. }
      { left. reflexivity. }
      subst rest. cbn [rev].
      unfold regs3 in B5. inversion B5 as [[E1 E2 E3 E4]].
      cbn [st0 set_active s_persym s_actor s_accepted] in E1, E2, E4.
      cbn [st0 set_active s_nodes s_pars] in B2. fold ns ps in B2.
      unfold inv2. cbn [loopb set_shifter s_nodes s_pars]. split.
      { intros i Hi. destruct (N.eq_dec i K) as [->|Hne].
        - rewrite (HP K) by lia. exact HltK.
        - rewrite (HP i) by (unfold Kp in Hi; lia). apply Hlt. unfold Kp in Hi. lia. }
      split; [exact C2|]. split.
      { unfold regs2_ok. cbn [set_shifter s_active s_persym s_actor s_shifter s_accepted s_nodes].
        rewrite E1, E2, E4, Hper, Hact. split; [exact C3|]. split; [constructor|]. split; [constructor|].
        split; [constructor|]. destruct R5 as [R5 R5s].
        split; [|eapply acc_sorted_ext; [exact B2|apply acc_valid; exact V5|exact R5s]].
        rewrite Forall_forall in *. intros h Hh. destruct (V5 h Hh) as [Hv _].
        rewrite (ext_nfr _ _ _ _ _ B2 Hv). destruct (R5 h Hh) as [A1 A2].
        rewrite (HP _ A2). split; [exact A1|unfold Kp; lia]. }
      split; [constructor; [exact I|constructor]|]. apply c_loop; [cbn [set_shifter s_actor]; congruence|reflexivity].
  Qed.

  (* ---- every step ------------------------------------------------------------------------------- *)

  Theorem step2_inv P K st fr st' fr' :
    inv g tb st fr -> inv2 P K st fr -> step st fr = Go st' fr' ->
    exists P' K', inv2 P' K' st' fr' /\ P' 0%N = P 0%N.
  Proof.
    intros H1 H2 H. destruct fr as [|f k]; [discriminate|].
    destruct f as [| | | |h acts|h p upd|h p upd tp [c|]|h root p children s e|y par states|rh par acts].
    - exists P, K. split; [|reflexivity]. eapply step2_FLoop; eassumption.
    - exists P, K. split; [|reflexivity]. eapply step2_FSubs; eassumption.
    - exists P, K. split; [|reflexivity]. eapply step2_FActorLoop; eassumption.
    - eapply step2_FShift; eassumption.
    - exists P, K. split; [|reflexivity]. eapply step2_FActor; eassumption.
    - exists P, K. split; [|reflexivity]. eapply step2_FDoRed; eassumption.
    - exists P, K. split; [|reflexivity]. eapply step2_FRed_cur; eassumption.
    - exists P, K. split; [|reflexivity]. eapply step2_FRed_pop; eassumption.
    - exists P, K. split; [|reflexivity]. eapply step2_FReduce; eassumption.
    - exists P, K. split; [|reflexivity]. eapply step2_FRevisit; eassumption.
    - exists P, K. split; [|reflexivity]. eapply step2_FRevActs; eassumption.
  Qed.

  Lemma init_inv2 pos : inv2 (fun _ => pos) 0%N (init_st pos) [FLoop].
  Proof.
    unfold inv2, init_st. cbn [loopb s_nodes s_pars]. split; [intros i Hi; lia|]. split.
    - split.
      + intros q Hq. cbn in Hq. lia.
      + intros i Hi. cbn in Hi. assert (i = 0) by lia. subst i. cbn [nth]. split.
        * split; [cbn; lia|]. split; [reflexivity|]. right. split; [reflexivity|].
          split; [reflexivity|]. split; reflexivity.
        * intros k q [].
    - split.
      + unfold regs2_ok. cbn. split.
        * split; [constructor; [|constructor]; split; [reflexivity|split; reflexivity]|].
          split; [constructor; [intros []|constructor]|].
          intros i Hi. right. left. lia.
        * split; [constructor|]. split; [constructor|]. split; [constructor|]. split; [constructor|].
          intros l1 h l2 E. destruct l1; discriminate.
      + split; [constructor; [exact I|constructor]|]. apply c_loop; reflexivity.
  Qed.

  (* ---- the returned forest ----------------------------------------------------------------------- *)

  Definition tokok (y s e : N) : bool :=
    match rx y s with Some l => (s + l =? e)%N | None => false end.

  (* the leaves [l] tile the input between frontiers f and f' *)
  Definition lspan (P : N -> N) (l : list (N * N * N)) (f f' : N) : Prop :=
    chain_ok sk l /\ All (leaf_ok tokok) l /\
    bounds l = (if (f =? f')%N then None else Some (sk (P f), P f')) /\ (f <= f')%N.

  Lemma lspan_app P l1 l2 f f1 f' :
    lspan P l1 f f1 -> lspan P l2 f1 f' -> lspan P (l1 ++ l2) f f'.
  Proof.
    intros (A1 & A2 & A3 & A4) (B1 & B2 & B3 & B4). split.
    - apply chain_app; [exact A1|exact B1|]. rewrite A3, B3.
      destruct (f =? f1)%N; [exact I|]. destruct (f1 =? f')%N; [exact I|]. reflexivity.
    - split; [apply All_app; split; assumption|]. split; [|lia].
      rewrite bounds_app, A3, B3.
      destruct (N.eqb_spec f f1) as [->|N1]; destruct (N.eqb_spec f1 f') as [->|N2].
      + reflexivity.
      + reflexivity.
      + destruct (N.eqb_spec f f') as [E|_]; [congruence|reflexivity].
      + destruct (N.eqb_spec f f') as [E|_]; [lia|reflexivity].
  Qed.

  Lemma item00_state0 s : In (0%N, 0) (items tb s) -> s = 0.
  Proof.
    intros H. destruct s as [|s]; [reflexivity|]. exfalso.
    unfold items in H. destruct (get_state tb (S s)) as [sta|] eqn:Es; [|destruct H].
    pose proof (state_ok_at g tb start Hts _ sta Es) as Hok. unfold state_ok in Hok.
    apply andb_true_iff in Hok. destruct Hok as [_ Hok]. cbn in Hok.
    apply negb_true_iff in Hok. apply has_item_In in H. congruence.
  Qed.

  Lemma lspan_nil P l f : lspan P l f f -> l = [].
  Proof.
    intros (_ & _ & Hb & _). rewrite N.eqb_refl in Hb. destruct l; [reflexivity|discriminate].
  Qed.

  Lemma flat_map_last {X Y} (f : X -> list Y) : forall l rest x,
    flat_map f l = rest ++ [x] ->
    exists l1 h l2, l = l1 ++ h :: l2 /\ In x (f h) /\ (forall h', In h' l2 -> f h' = []).
  Proof.
    induction l as [|a l' IH] using rev_ind; intros rest x E.
    - destruct rest; discriminate.
    - rewrite flat_map_app in E. cbn [flat_map] in E. rewrite app_nil_r in E.
      destruct (f a) as [|y0 ys0] eqn:Ea using rev_ind.
      + rewrite app_nil_r in E. destruct (IH _ _ E) as (l1 & h & l2 & -> & Hin & Hz).
        exists l1, h, (l2 ++ [a]). split; [rewrite <- app_assoc; reflexivity|]. split; [exact Hin|].
        intros h' Hh'. apply in_app_or in Hh'. destruct Hh' as [Hh'|[<-|[]]]; [apply Hz; exact Hh'|exact Ea].
      + clear IHys0. rewrite app_assoc in E. apply app_inj_tail in E. destruct E as [_ <-].
        exists l', a, []. split; [reflexivity|]. split; [rewrite Ea; apply in_or_app; right; left; reflexivity|].
        intros h' [].
  Qed.

  (* what every tree of the returned forest satisfies: its leaves tile the input from the start
     position to the end of an accepted frontier *)
  Theorem build_forest2_sound P K st kf nodes root :
    inv g tb st (FLoop :: kf) -> inv2 P K st (FLoop :: kf) ->
    build_forest st = GLRForest nodes root ->
    forall t, unfolds (glr_forest nodes root) (length nodes) t ->
      exists fe, (fe <= K)%N /\ (consume = true -> sk (P fe) = in_len) /\ lspan P (leaves t) 0%N fe.
  Proof.
    intros (Hheap1 & (_ & _ & _ & _ & Hacc1) & _) (Hlt & Hheap & Hregs & _ & _) Hb.
    destruct Hregs as (_ & _ & _ & _ & Hacc2 & Hsorted). unfold build_forest in Hb.
    set (ns := s_nodes st) in *. set (ps := s_pars st) in *.
    set (pf := fun h => map snd (n_parents (getn st h))) in *.
    set (results := flat_map pf (s_accepted st)) in *.
    destruct (pop_last results) as [[rest root0]|] eqn:Ep; [|discriminate].
    apply pop_last_app in Ep.
    set (ps' := fold_left (fun cur r => list_upd root0 (p_add_alts (p_alts (nth r cur dpar))) cur)
                          (rev rest) ps) in *.
    inversion Hb; subst nodes root; clear Hb. rename root0 into root.
    pose proof Hheap1 as [Hl Hn]. pose proof Hheap as [Hl2 Hn2].
    rewrite Forall_forall in Hacc1, Hacc2.
    (* a link of an accepted head goes from frontier 0 to the head's frontier *)
    assert (Hlink : forall h r, In h (s_accepted st) -> In r (pf h) ->
              r < length ps /\ nfr ns (proot ps r) = 0%N /\ nfr ns (phead ps r) = nfr ns h).
    { intros h r Hh Hr. unfold pf in Hr. apply in_map_iff in Hr. destruct Hr as ([kk q] & <- & Hin). cbn [snd].
      destruct (Hacc1 h Hh) as [Hhv Hi]. unfold getn in Hin. fold ns in Hin.
      destruct (Hn h Hhv kk q Hin) as (B1 & B2 & B3 & B4 & _).
      destruct (proj2 (Hn2 h Hhv) kk q Hin) as [F1 _]. fold (nfr ns h) in F1.
      split; [exact B1|]. split; [|exact F1].
      destruct (Hl q B1) as (_ & _ & (X & HX) & _). unfold link_edge in HX. fold (phead ps q) (proot ps q) in HX.
      rewrite B3 in HX. destruct (edge_back g tb start Hts _ _ _ _ _ HX Hi) as (_ & Hi0 & _).
      apply item00_state0 in Hi0. destruct (proj1 (Hn2 _ B4)) as (_ & Hz & _). apply Hz. exact Hi0. }
    (* the root is a link of the last accepted head that has links *)
    destruct (flat_map_last pf _ _ _ Ep) as (l1 & hs & l2 & Eacc & Hroot_in & Hl2z).
    assert (Hhs : In hs (s_accepted st)) by (rewrite Eacc; apply in_or_app; right; left; reflexivity).
    destruct (Hlink hs root Hhs Hroot_in) as (Hrootv & Hroot0 & HrootF).
    set (Fr := nfr ns hs) in *.
    pose proof (Hsorted _ _ _ Eacc) as Hle1. rewrite Forall_forall in Hle1.
    set (accf := fun fe => (fe <= Fr)%N /\ (fe <= K)%N /\ (consume = true -> sk (P fe) = in_len)).
    assert (HaccF : accf Fr).
    { destruct (Hacc2 hs Hhs) as [A1 A2]. split; [lia|]. split; assumption. }
    assert (Hres : forall r, In r results ->
              r < length ps /\ nfr ns (proot ps r) = 0%N /\ accf (nfr ns (phead ps r))).
    { intros r Hr. unfold results in Hr. apply in_flat_map in Hr. destruct Hr as (h & Hh & Hr).
      destruct (Hlink h r Hh Hr) as (A1 & A2 & A3). split; [exact A1|]. split; [exact A2|]. rewrite A3.
      destruct (Hacc2 h Hh) as [C1 C2]. split; [|split; assumption].
      rewrite Eacc in Hh. apply in_app_or in Hh. destruct Hh as [Hh|[<-|Hh]].
      - apply Hle1. exact Hh.
      - unfold Fr. lia.
      - rewrite (Hl2z h Hh) in Hr. destruct Hr. }
    destruct (merge_fold ps root rest (rev rest) ps) as (M1 & M2 & M3).
    { intros x Hx. apply in_rev. exact Hx. }
    { split; [reflexivity|]. split; [reflexivity|]. intros a Ha. left. exact Ha. }
    cbn zeta in M1, M2, M3. change (fold_left (merge_step root) (rev rest) ps) with ps' in M1, M2, M3.
    set (N0 := length ps).
    assert (HN : @length pnode (map p_alts ps') = N0) by (rewrite map_length; exact M1).
    rewrite HN.
    set (Fo := glr_forest (map p_alts ps') root).
    set (frF := fun k => if k <? N0 then nfr ns (proot ps k) else 0%N).
    set (fhF := fun k => if k <? N0 then nfr ns (phead ps k) else Fr).
    assert (HnthF : forall k, k < N0 -> nth k Fo [] = p_alts (nth k ps' dpar)).
    { intros k Hk. unfold Fo, glr_forest. rewrite app_nth1 by (rewrite HN; exact Hk).
      change [] with (p_alts dpar). apply map_nth. }
    assert (HnthN : nth N0 Fo [] = p_alts (nth root ps' dpar)).
    { unfold Fo, glr_forest. rewrite app_nth2 by (rewrite HN; lia). rewrite HN, Nat.sub_diag. cbn [nth].
      change [] with (p_alts dpar). apply map_nth. }
    assert (Hrootalts : forall a, In a (p_alts (nth root ps' dpar)) ->
              exists fe, accf fe /\ alt_pos_ok P ns ps 0%N fe a).
    { intros a Ha. assert (Hex : exists r, In r results /\ In a (p_alts (nth r ps dpar))).
      { destruct (M3 a Ha) as [H1|(r & Hr & H1)].
        - exists root. split; [rewrite Ep; apply in_or_app; right; left; reflexivity|exact H1].
        - exists r. split; [|exact H1]. rewrite Ep. apply in_or_app. left. exact Hr. }
      destruct Hex as (r & Hr & Hin). destruct (Hres r Hr) as (Hrv & Hr0 & Hra).
      destruct (Hl2 r Hrv) as [_ Hal]. rewrite Forall_forall in Hal. specialize (Hal a Hin).
      fold (proot ps r) (phead ps r) in Hal. rewrite Hr0 in Hal. eauto. }
    assert (HG : forall k a, In a (nth k Fo []) ->
              alt_pos_ok P ns ps (frF k) (fhF k) a \/
              (frF k = 0%N /\ fhF k = Fr /\ exists fe, accf fe /\ alt_pos_ok P ns ps 0%N fe a)).
    { intros k a Ha. unfold frF, fhF. destruct (Nat.lt_ge_cases k N0) as [Hlt'|Hge].
      - rewrite (HnthF k Hlt') in Ha. replace (k <? N0) with true by (symmetry; apply Nat.ltb_lt; exact Hlt').
        destruct (Nat.eq_dec k root) as [->|Hne].
        + right. split; [exact Hroot0|]. split; [exact HrootF|]. apply Hrootalts. exact Ha.
        + left. rewrite (M2 k Hne) in Ha. destruct (Hl2 k Hlt') as [_ Hal]. rewrite Forall_forall in Hal. exact (Hal a Ha).
      - destruct (Nat.eq_dec k N0) as [->|Hne].
        + rewrite HnthN in Ha. rewrite Nat.ltb_irrefl. right. split; [reflexivity|]. split; [reflexivity|].
          apply Hrootalts. exact Ha.
        + rewrite nth_overflow in Ha; [destruct Ha|]. unfold Fo, glr_forest. rewrite app_length, HN. cbn. lia. }
    (* spans: exact, or cut short at an earlier accepted frontier (through the merged root link) *)
    set (wspan := fun l f f' => lspan P l f f' \/
                    (f = 0%N /\ f' = Fr /\ exists fe, accf fe /\ lspan P l 0%N fe)).
    assert (wspan_le : forall l f f', wspan l f f' -> (f <= f')%N).
    { intros l f f' [(_ & _ & _ & H)|(-> & -> & _)]; lia. }
    assert (wspan_app : forall la lb f f1 f', wspan la f f1 -> wspan lb f1 f' -> (f' <= Fr)%N -> wspan (la ++ lb) f f').
    { intros la lb f f1 f' [A|(-> & -> & fe & Af & A)] [B|(E1 & -> & fe' & Bf & B)] Hf'.
      - left. eapply lspan_app; eassumption.
      - subst f1. assert (f = 0%N) by (destruct A as (_ & _ & _ & A); lia). subst f.
        rewrite (lspan_nil _ _ _ A). right. split; [reflexivity|]. split; [reflexivity|]. exists fe'. auto.
      - assert (f' = Fr) by (destruct B as (_ & _ & _ & B); lia). subst f'.
        rewrite (lspan_nil _ _ _ B), app_nil_r. right. split; [reflexivity|]. split; [reflexivity|]. exists fe. auto.
      - assert (fe' = 0%N) by (destruct Bf as (Bf & _); lia). subst fe'.
        rewrite (lspan_nil _ _ _ B), app_nil_r. right. split; [reflexivity|]. split; [reflexivity|]. exists fe. auto. }
    assert (Htree : forall k t, unfolds Fo k t -> (fhF k <= Fr)%N -> wspan (leaves t) (frF k) (fhF k)).
    { apply (unfolds_ind2 Fo
               (fun k t _ => (fhF k <= Fr)%N -> wspan (leaves t) (frF k) (fhF k))
               (fun cs ts _ => forall f f', chain_fr ns ps f cs f' -> (f' <= Fr)%N ->
                                            wspan (flat_map leaves ts) f f')).
      - intros k y s e Hin Hle.
        assert (Hleaf : forall fr fh, alt_pos_ok P ns ps fr fh (ATerm y s e) -> lspan P (leaves (TLeaf y s e)) fr fh).
        { intros fr fh HA. cbn [alt_pos_ok] in HA. destruct HA as (E1 & E2 & E3 & l & E4 & E5).
          cbn [leaves]. split; [exact I|]. split.
          - cbn [All]. split; [|exact I]. unfold leaf_ok, tokok. cbn [lf_y lf_s lf_e fst snd].
            rewrite E4. apply N.eqb_eq. symmetry. exact E5.
          - split; [|lia]. cbn [bounds last lf_s lf_e fst snd]. rewrite E1.
            destruct (N.eqb_spec fr (fr + 1)%N) as [E|_]; [lia|]. rewrite <- E1, <- E2, <- E3. reflexivity. }
        destruct (HG k _ Hin) as [HA|(E1 & E2 & fe & Hf & HA)].
        + left. apply Hleaf. exact HA.
        + right. split; [exact E1|]. split; [exact E2|]. exists fe. split; [exact Hf|apply Hleaf; exact HA].
      - intros k p s e cs ts Hin Hl' IH Hle. cbn [leaves].
        destruct (HG k _ Hin) as [HA|(E1 & E2 & fe & Hf & HA)]; cbn [alt_pos_ok] in HA.
        + apply IH; assumption.
        + destruct (IH _ _ HA (proj1 Hf)) as [B|(_ & E3 & fe' & Bf & B)].
          * right. split; [exact E1|]. split; [exact E2|]. exists fe. auto.
          * right. split; [exact E1|]. split; [exact E2|]. exists fe'. auto.
      - intros f f' H Hle. cbn [chain_fr] in H. subst f'. cbn [flat_map]. left. split; [exact I|]. split; [exact I|].
        split; [rewrite N.eqb_refl; reflexivity|lia].
      - intros c cs t ts Hu IHu Hl' IHl f f' H Hle. cbn [chain_fr] in H. destruct H as (C1 & _ & _ & C4 & C5).
        cbn [flat_map]. pose proof (IHl _ _ C5 Hle) as Wl. pose proof (wspan_le _ _ _ Wl) as Hle1'.
        apply (wspan_app _ _ f (nfr ns (phead ps c)) f'); [|exact Wl|exact Hle].
        unfold frF, fhF in IHu. replace (c <? N0) with true in IHu by (symmetry; apply Nat.ltb_lt; exact C1).
        rewrite C4 in IHu. apply IHu. lia. }
    intros t Ht. specialize (Htree N0 t Ht). unfold frF, fhF in Htree. rewrite Nat.ltb_irrefl in Htree.
    destruct (Htree ltac:(lia)) as [A|(_ & _ & fe & (F1 & F2 & F3) & A)].
    - exists Fr. destruct HaccF as (F1 & F2 & F3). auto.
    - exists fe. auto.
  Qed.

  (* ---- runs ------------------------------------------------------------------------------------- *)

  (* the conclusion: the leaves are a tokenisation of a prefix of the input (of the whole
     input when consume_input is on) *)
  Definition tok_result (pos : N) (t : tree) : Prop :=
    chain_ok sk (leaves t) /\ All (leaf_ok tokok) (leaves t) /\
    match bounds (leaves t) with
    | None => consume = true -> sk pos = in_len
    | Some (fs, le) => fs = sk pos /\ (consume = true -> (le <= in_len)%N /\ sk le = in_len)
    end.

  Lemma lspan_tok_result P pos t fe :
    P 0%N = pos -> (consume = true -> sk (P fe) = in_len) -> lspan P (leaves t) 0%N fe -> tok_result pos t.
  Proof.
    intros E0 Hc (T1 & T2 & T3 & T4). split; [exact T1|]. split; [exact T2|]. rewrite T3.
    destruct (N.eqb_spec 0%N fe) as [<-|Hne].
    - intros Hcon. rewrite <- E0. apply Hc. exact Hcon.
    - rewrite E0. split; [reflexivity|]. intros Hcon. specialize (Hc Hcon). split; [|exact Hc].
      rewrite <- Hc. apply Hsk_ge.
  Qed.

  Theorem run2_sound : forall fuel P K st fr nodes root,
    inv g tb st fr -> inv2 P K st fr ->
    glr_run g tb terms rx in_len stop_id consume lexdis skipws rorder fuel st fr = GLRForest nodes root ->
    forall t, unfolds (glr_forest nodes root) (length nodes) t -> tok_result (P 0%N) t.
  Proof.
    induction fuel as [|f IH]; intros P K st fr nodes root H1 H2 H; cbn [glr_run] in H; [discriminate|].
    destruct (step st fr) as [st' fr'|r] eqn:Es.
    - destruct (step2_inv _ _ _ _ _ _ H1 H2 Es) as (P' & K' & H2' & E0).
      pose proof (step_inv g tb start Hts _ _ _ _ _ _ _ _ _ _ _ _ H1 Es) as H1'.
      intros t Ht. rewrite <- E0. eapply IH; eassumption.
    - subst r. destruct (step_fin_forest _ _ _ _ _ _ _ _ _ _ _ _ _ _ Es) as (k & -> & Hb).
      intros t Ht. destruct (build_forest2_sound P K st k nodes root H1 H2 Hb t Ht) as (fe & _ & Hc & Hs).
      eapply lspan_tok_result; [reflexivity|exact Hc|exact Hs].
  Qed.

  (* Tokenisation soundness of the GLR driver model under the condition that keeps the heads
     of a frontier in step: every tree of the returned forest has leaves that start right after
     the leading layout, are matched by their recognizers and follow one another separated by
     layout only -- a tokenisation of a prefix of the input; with consume_input on, of the whole
     input (only layout after the last leaf). *)
  Theorem glr_tok_sound fuel pos nodes root :
    glr_parse g tb terms rx in_len stop_id consume lexdis skipws rorder fuel pos = GLRForest nodes root ->
    forall t, unfolds (glr_forest nodes root) (pred (length (glr_forest nodes root))) t ->
      tok_result pos t.
  Proof.
    unfold glr_parse. intros H t Ht.
    replace (pred (length (glr_forest nodes root))) with (length nodes) in Ht
      by (unfold glr_forest; rewrite app_length; cbn; lia).
    exact (run2_sound fuel (fun _ => pos) 0%N _ _ _ _ (init_inv g tb pos) (init_inv2 pos) H t Ht).
  Qed.
End Tok.
