(* With a table that passes table_struct and table_progress the LR driver model never ends
   in LRCrash: the impl's driver cannot raise KeyError / IndexError / AttributeError, its
   only outcomes are a result, SyntaxError, DisambiguationError (or a layout SyntaxError). *)
From Coq Require Import NArith List Bool Lia Arith.
From PV Require Import Spec.Cfg Model.Table Spec.NLR Validators.TableStruct Validators.TableProgress
  Model.LRDriver Proofs.LRProofs.
Import ListNotations.
Local Open Scope N_scope.

Definition is_crash (r : lr_result) : bool := match r with LRCrash _ => true | _ => false end.

Section NoCrash.
  Variable g : grammar.
  Variable tb : table.
  Variable start : N.
  Variable skipws : N -> option N.
  Variable next_token : nat -> N -> tokres.
  Variable stop_id : N.
  Variable consume_input in_layout : bool.
  Hypothesis Hts : table_struct g tb start = true.
  Hypothesis Hpr : table_progress g tb stop_id = true.

  Notation step := (lr_step g tb skipws next_token stop_id consume_input in_layout).
  Notation run := (lr_run g tb skipws next_token stop_id consume_input in_layout).
  Notation sok := (stack_ok g tb).

  Lemma progress_state s st : get_state tb s = Some st ->
    forallb (cell_shape_ok stop_id) (st_actions st) = true /\
    forall q, In (q, O) (st_items st) -> q <> 0 ->
      exists pr s', get_prod g q = Some pr /\ goto tb s (lhs pr) = Some s'.
  Proof.
    intros Hs. pose proof Hpr as H. unfold table_progress in H. rewrite forallb_forall in H.
    unfold get_state in Hs. pose proof (nth_error_In _ _ Hs) as Hin. specialize (H st Hin).
    apply andb_true_iff in H. destruct H as [H1 H2]. split; [exact H1|].
    intros q Hq Hne. rewrite forallb_forall in H2. specialize (H2 _ Hq). cbn in H2.
    apply orb_true_iff in H2. destruct H2 as [H2|H2]; [apply N.eqb_eq in H2; congruence|].
    destruct (get_prod g q) as [pr|]; [|discriminate].
    destruct (assoc (lhs pr) (st_gotos st)) as [s'|] eqn:Ea; [|discriminate].
    exists pr, s'. split; [reflexivity|]. unfold goto. unfold get_state. rewrite Hs. exact Ea.
  Qed.

  Lemma cell_actions_ok s y a : In a (cell tb s y) -> action_ok g tb s y a = true.
  Proof.
    unfold cell. destruct (get_state tb s) as [st|] eqn:Es; [|intros []].
    destruct (assoc y (st_actions st)) as [l|] eqn:Ea; [|intros []].
    intros Hin. pose proof (state_ok_at g tb start Hts s st Es) as Hok. unfold state_ok in Hok.
    apply andb_true_iff in Hok. destruct Hok as [Hok _].
    apply andb_true_iff in Hok. destruct Hok as [Hok _].
    rewrite forallb_forall in Hok. specialize (Hok _ (assoc_In _ _ _ Ea)). cbn in Hok.
    rewrite forallb_forall in Hok. exact (Hok _ Hin).
  Qed.

  Lemma cell_shape s y : cell tb s y <> [] ->
    cell_shape_ok stop_id (y, cell tb s y) = true.
  Proof.
    unfold cell. destruct (get_state tb s) as [st|] eqn:Es; [|congruence].
    destruct (assoc y (st_actions st)) as [l|] eqn:Ea; [|congruence].
    intros _. destruct (progress_state s st Es) as [H _]. rewrite forallb_forall in H.
    exact (H _ (assoc_In _ _ _ Ea)).
  Qed.

  (* a REDUCE in the cell of the top state can be carried out *)
  Lemma reduce_possible stk y p pr :
    sok (to_stack stk) -> In (Reduce p) (cell tb (top_state (to_stack stk)) y) ->
    get_prod g p = Some pr -> p <> 0 ->
    length (firstn (length (rhs pr)) stk) = length (rhs pr) /\
    exists r0 rest s', skipn (length (rhs pr)) stk = r0 :: rest /\
                       goto tb (e_state r0) (lhs pr) = Some s'.
  Proof.
    intros Hok Hin Hp Hne.
    pose proof (cell_actions_ok _ _ _ Hin) as Ha. cbn in Ha. rewrite Hp in Ha.
    apply has_item_In in Ha.
    destruct (path g tb start Hts _ Hok p _ pr Ha Hp) as (popped & rest & E & Hlen & Hrest & _ & H0 & _).
    assert (Hl : length (to_stack stk) = length stk) by (unfold to_stack; apply map_length).
    assert (Hfl : length (firstn (length (rhs pr)) stk) = length (rhs pr)).
    { rewrite firstn_length. rewrite <- Hl, E, app_length. lia. }
    split; [exact Hfl|].
    assert (Hsk : to_stack (skipn (length (rhs pr)) stk) = rest).
    { unfold to_stack. rewrite <- skipn_map. fold (to_stack stk). rewrite E, <- Hlen.
      clear. induction popped; cbn; auto. }
    destruct (skipn (length (rhs pr)) stk) as [|r0 rest'] eqn:Hs.
    - cbn in Hsk. subst rest. exfalso. inversion Hrest.
    - cbn [to_stack map] in Hsk. subst rest. cbn [top_state] in H0.
      unfold items in H0. destruct (get_state tb (e_state r0)) as [st|] eqn:Es; [|destruct H0].
      destruct (progress_state _ st Es) as [_ Hg]. destruct (Hg p H0 Hne) as (pr' & s' & Hp' & Hgo).
      rewrite Hp in Hp'. inversion Hp'; subst pr'. eauto.
  Qed.

  Lemma reduce_not_zero s y p : In (Reduce p) (cell tb s y) -> p <> 0.
  Proof.
    intros Hin Hz. subst p.
    assert (Hne : cell tb s y <> []) by (intros E; rewrite E in Hin; destruct Hin).
    pose proof (cell_shape s y Hne) as H. unfold cell_shape_ok in H. cbn [fst snd] in H.
    apply andb_true_iff in H. destruct H as [H _]. apply andb_true_iff in H. destruct H as [_ H].
    rewrite forallb_forall in H. specialize (H _ Hin). cbn in H. discriminate.
  Qed.

  Definition not_crash (o : outcome) : Prop :=
    match o with Done (LRCrash _) => False | _ => True end.

  Lemma do_reduce_nocrash tr stk pos1 lay1 ah p pr y :
    sok (to_stack stk) -> In (Reduce p) (cell tb (top_state (to_stack stk)) y) ->
    get_prod g p = Some pr -> not_crash (do_reduce tb tr stk pos1 lay1 ah p pr).
  Proof.
    intros Hok Hin Hp.
    destruct (reduce_possible stk y p pr Hok Hin Hp (reduce_not_zero _ _ _ Hin))
      as (Hfl & r0 & rest & s' & Hsk & Hg).
    unfold do_reduce. rewrite Hfl, Nat.eqb_refl. cbn [negb]. rewrite Hsk, Hg.
    destruct (match rev (firstn (length (rhs pr)) stk) with [] => _ | d :: _ => _ end). exact I.
  Qed.

  Lemma do_action_nocrash tr stk lay1 scan fb y :
    sok (to_stack stk) ->
    (fb = true -> y = stop_id) ->
    (fb = false -> exists len, scan = TTok y len) ->
    not_crash (do_action g tb tr stk lay1 scan fb (cell tb (top_state (to_stack stk)) y)).
  Proof.
    intros Hok Hfb Hsc. unfold do_action.
    destruct stk as [|top below]; [inversion Hok|].
    destruct (cell tb (top_state (to_stack (top :: below))) y) as [|act more] eqn:Hcell; [exact I|].
    assert (Hne : cell tb (top_state (to_stack (top :: below))) y <> []) by (rewrite Hcell; discriminate).
    pose proof (cell_shape _ _ Hne) as Hshape. rewrite Hcell in Hshape.
    unfold cell_shape_ok in Hshape. cbn [fst snd] in Hshape.
    apply andb_true_iff in Hshape. destruct Hshape as [Hshape P2].
    apply andb_true_iff in Hshape. destruct Hshape as [P1 _].
    assert (Hin : forall a, In a (act :: more) -> In a (cell tb (top_state (to_stack (top :: below))) y))
      by (intros a Ha; rewrite Hcell; exact Ha).
    destruct act as [s'|p0|].
    - destruct fb.
      + exfalso. rewrite (Hfb eq_refl), N.eqb_refl in P1. cbn in P1. discriminate.
      + destruct (Hsc eq_refl) as (len & ->). exact I.
    - destruct (get_prod g p0) as [pr0|] eqn:Hp0.
      2:{ exfalso. pose proof (cell_actions_ok _ _ _ (Hin _ (or_introl eq_refl))) as Ha.
          cbn in Ha. rewrite Hp0 in Ha. discriminate. }
      unfold select_prod. rewrite Hp0.
      destruct (rhs pr0) as [|x r] eqn:Hr0.
      + destruct more as [|a1 more'].
        * apply (do_reduce_nocrash _ _ _ _ _ p0 pr0 y Hok (Hin _ (or_introl eq_refl)) Hp0).
        * cbn in P2. apply andb_true_iff in P2. destruct P2 as [Ha1 _].
          destruct a1 as [|p1|]; try discriminate.
          assert (Hin1 : In (Reduce p1) (cell tb (top_state (to_stack (top :: below))) y))
            by (apply Hin; right; left; reflexivity).
          destruct (get_prod g p1) as [pr1|] eqn:Hp1.
          2:{ exfalso. pose proof (cell_actions_ok _ _ _ Hin1) as Ha. cbn in Ha.
              rewrite Hp1 in Ha. discriminate. }
          apply (do_reduce_nocrash _ _ _ _ _ p1 pr1 y Hok Hin1 Hp1).
      + apply (do_reduce_nocrash _ _ _ _ _ p0 pr0 y Hok (Hin _ (or_introl eq_refl)) Hp0).
    - (* ACCEPT: the stack has exactly two entries *)
      pose proof (cell_actions_ok _ _ _ (Hin _ (or_introl eq_refl))) as Ha. cbn in Ha.
      apply has_item_In in Ha.
      destruct (prod0 g tb start Hts) as (pr0 & Hp0 & _).
      destruct (path g tb start Hts _ Hok 0 1%nat pr0 Ha Hp0) as (popped & rest & E & Hlen & Hrest & _).
      assert (Hl : (2 <= length (top :: below))%nat).
      { assert (length (to_stack (top :: below)) = length (top :: below))
          by (unfold to_stack; apply map_length).
        rewrite <- H, E, app_length, Hlen. destruct rest; [inversion Hrest|cbn; lia]. }
      destruct (nth_error (rev (top :: below)) 1) eqn:Hn; [exact I|].
      apply nth_error_None in Hn. rewrite rev_length in Hn. lia.
  Qed.

  Lemma step_nocrash s : sok (to_stack (l_stack s)) -> not_crash (step s).
  Proof.
    intros Hok. unfold lr_step.
    destruct (l_stack s) as [|top0 below] eqn:Hstk; [inversion Hok|].
    destruct (lookahead skipws next_token in_layout s top0) as [[[top lay1] scan]|] eqn:Hla; [|exact I].
    assert (Htop : e_state top = e_state top0 /\ e_tree top = e_tree top0).
    { unfold lookahead in Hla. destruct (l_ahead s).
      - inversion Hla; subst; auto.
      - destruct in_layout.
        + inversion Hla; subst; auto.
        + destruct (skipws (e_pos top0)); [|discriminate]. inversion Hla; subst; auto. }
    destruct Htop as [Hts' Htt].
    assert (Hok' : sok (to_stack (top :: below))).
    { cbn [to_stack map] in *. rewrite Hts', Htt. exact Hok. }
    assert (Htopst : top_state (to_stack (top :: below)) = e_state top) by reflexivity.
    destruct scan as [|y len|]; [| |exact I].
    - destruct consume_input.
      + exact I.
      + rewrite <- Htopst. apply do_action_nocrash; [exact Hok'|auto|discriminate].
    - destruct (cell tb (e_state top) y) as [|a0 acts0] eqn:Hcell.
      + destruct consume_input; [exact I|].
        rewrite <- Htopst. apply do_action_nocrash; [exact Hok'|auto|discriminate].
      + rewrite <- Hcell, <- Htopst. apply do_action_nocrash; [exact Hok'|discriminate|eauto].
  Qed.

  (* the invariant travels with the run (simulation by N(T) + invariant of N(T)) *)
  Lemma run_nocrash fuel : forall s c,
    sim s c -> cfg_inv g tb c -> is_crash (run fuel s) = false.
  Proof.
    induction fuel as [|f IH]; intros s c Hsim Hinv; cbn [lr_run]; [reflexivity|].
    assert (Hok : sok (to_stack (l_stack s))).
    { destruct Hsim as [Hc _]. destruct Hinv as [Hst _]. rewrite <- Hc. exact Hst. }
    pose proof (step_nocrash s Hok) as Hnc.
    pose proof (step_sim g tb skipws next_token stop_id consume_input in_layout s c Hsim) as Hs.
    destruct (step s) as [s'|r].
    - destruct Hs as (c' & Hstep & Hsim').
      apply (IH s' c' Hsim'). eapply (nstep_inv g tb start anylook Hts); eassumption.
    - destruct r; try reflexivity. destruct Hnc.
  Qed.

  Theorem lr_no_crash fuel pos :
    is_crash (lr_parse g tb skipws next_token stop_id consume_input in_layout fuel pos) = false.
  Proof.
    unfold lr_parse.
    apply (run_nocrash fuel (lr_init pos) (init_cfg pos (bottom_tree pos))).
    - split; reflexivity.
    - apply init_inv.
  Qed.
End NoCrash.
