(* C04/C07: the scanner model (Model/Scan.v: _next_tokens, _token_recognition,
   _lexical_disambiguation, _next_token) satisfies the abstract scanner contract [scan_ok] of
   the LR completeness theorem whenever the input is lexically separated: at every token
   start, in every state that has an action for the true token, that token's recognizer matches
   the token's text and no other terminal of the state matches there.  [sep_tokens] is a
   boolean, evaluated by the harness on the impl's tables and match matrices. *)
From Coq Require Import NArith List Bool Lia Arith.
From PV Require Import Spec.Cfg Model.Table Model.LRDriver Model.Scan Spec.NLR
  Validators.TableComplete Validators.LexSep Proofs.LRCompleteProofs.
Import ListNotations.
Local Open Scope N_scope.

Lemma optN_eqb_eq a b : optN_eqb a b = true -> a = b.
Proof.
  destruct a, b; cbn; try discriminate; auto. intros H. apply N.eqb_eq in H. congruence.
Qed.

Section Sep.
  Variable terms : list term_info.
  Variable rx : N -> N -> option N.
  Variable in_len : N.
  Variable stop_id : N.
  Variable lexdis : bool.
  Variable tb : table.
  Variable skipws : N -> option N.

  Notation keys := LexSep.keys.
  Notation state_sep := (LexSep.state_sep rx).
  Notation has_cell := LexSep.has_cell.
  Notation tok_sep := (LexSep.tok_sep rx in_len stop_id tb).
  Notation sep_tokens := (LexSep.sep_tokens rx in_len stop_id tb skipws).

  Notation recognize := (recognize terms rx).
  Notation next_token := (next_token_of terms rx in_len stop_id true lexdis tb).

  (* no terminal of the list matches: the accumulator is returned unchanged *)
  Lemma recognize_none acts : forall flags pos last acc,
    (forall t, In t (map fst acts) -> rx t pos = None) ->
    recognize acts flags pos last acc = acc.
  Proof.
    induction acts as [|[t al] r IH]; intros flags pos last acc Hn; cbn [Scan.recognize]; [reflexivity|].
    destruct (_ && _); [reflexivity|].
    rewrite (Hn t) by (cbn; auto). apply IH. intros t' Ht'. apply Hn. cbn. auto.
  Qed.

  Lemma existsb_eqb_false x l : existsb (N.eqb x) l = false -> ~ In x l.
  Proof.
    intros H Hin. assert (E : existsb (N.eqb x) l = true).
    { apply existsb_exists. exists x. split; [exact Hin|apply N.eqb_refl]. }
    congruence.
  Qed.

  (* exactly one terminal of the list matches: the result is that token *)
  Lemma recognize_single acts : forall flags pos last y len,
    In y (map fst acts) -> nodupN (map fst acts) = true ->
    rx y pos = Some len ->
    (forall t, In t (map fst acts) -> t <> y -> rx t pos = None) ->
    recognize acts flags pos last [] = [(y, len)].
  Proof.
    induction acts as [|[t al] r IH]; intros flags pos last y len Hin Hnd Hy Hoth; [destruct Hin|].
    cbn [Scan.recognize]. rewrite andb_false_r.
    cbn [map fst nodupN] in Hnd, Hin. apply andb_prop in Hnd. destruct Hnd as [Hnx Hnr].
    apply negb_true_iff in Hnx. apply existsb_eqb_false in Hnx.
    destruct (N.eq_dec t y) as [->|Hne].
    - rewrite Hy. cbn [app].
      destruct (match flags with f :: _ => f | [] => false end); [reflexivity|].
      apply recognize_none. intros t' Ht'. apply Hoth; [cbn; auto|].
      intros ->. exact (Hnx Ht').
    - rewrite (Hoth t) by (cbn; auto). cbn [app].
      destruct Hin as [E|Hin]; [cbn in E; congruence|].
      apply (IH _ pos _ y len Hin Hnr Hy). intros t' Ht' Hne'. apply Hoth; [cbn; auto|exact Hne'].
  Qed.

  Lemma assoc_key {V} k (l : list (N * V)) v : assoc k l = Some v -> In k (map fst l).
  Proof.
    induction l as [|[k' v'] r IH]; cbn; [discriminate|].
    destruct (N.eqb_spec k k') as [->|Hne]; [auto|]. intros H. right. apply IH. exact H.
  Qed.

  Lemma cell_has st s y :
    get_state tb s = Some st -> cell tb s y <> [] -> has_cell st y = true /\ In y (keys st).
  Proof.
    intros Hs Hc. unfold cell in Hc. rewrite Hs in Hc. unfold has_cell.
    destruct (assoc y (st_actions st)) as [l|] eqn:E; [|congruence].
    split; [destruct l; [congruence|reflexivity]|]. unfold keys. eapply assoc_key. exact E.
  Qed.

  Lemma has_key_in k acts : In k (map fst acts) -> has_key k acts = true.
  Proof.
    intros H. unfold has_key. apply existsb_exists. apply in_map_iff in H.
    destruct H as (x & E & Hin). exists x. split; [exact Hin|]. rewrite E. apply N.eqb_refl.
  Qed.

  Lemma lexdis_single (x : N * N) : (if lexdis then lexical_disambiguation terms [x] else [x]) = [x].
  Proof. destruct lexdis; reflexivity. Qed.

  Lemma next_token_sep s st y a e :
    get_state tb s = Some st -> cell tb s y <> [] -> tok_sep y a e = true ->
    next_token s a = TTok y (e - a).
  Proof.
    intros Hs Hc Hsep. unfold tok_sep in Hsep.
    repeat (apply andb_prop in Hsep; destruct Hsep as [Hsep ?]).
    match goal with H : forallb _ tb = true |- _ => rename H into Hall end.
    match goal with H : optN_eqb _ _ = true |- _ => apply optN_eqb_eq in H; rename H into Hrx end.
    match goal with H : negb (y =? stop_id) = true |- _ =>
      apply negb_true_iff in H; apply N.eqb_neq in H; rename H into Hny end.
    match goal with H : (a <? in_len) = true |- _ => rename H into Hlt end.
    destruct (cell_has st s y Hs Hc) as [Hhas Hin].
    rewrite forallb_forall in Hall. unfold get_state in Hs.
    specialize (Hall st (nth_error_In _ _ Hs)). rewrite Hhas in Hall. cbn [negb orb] in Hall.
    apply andb_prop in Hall. destruct Hall as [Hss Hnd].
    unfold next_token_of. unfold get_state. rewrite Hs. unfold next_tokens.
    assert (Hne : (a =? in_len) = false) by (apply N.eqb_neq; apply N.ltb_lt in Hlt; lia).
    rewrite Hne. cbn [negb orb]. rewrite andb_false_r. cbn [app]. rewrite Hlt.
    rewrite (recognize_single (st_actions st) (st_finish st) a None y (e - a) Hin Hnd Hrx).
    - rewrite lexdis_single. reflexivity.
    - intros t Ht Hty. unfold state_sep in Hss. rewrite forallb_forall in Hss.
      specialize (Hss t Ht). apply orb_prop in Hss. destruct Hss as [E|E].
      + apply N.eqb_eq in E. contradiction.
      + destruct (rx t a); [discriminate|reflexivity].
  Qed.

  Lemma next_token_stop s :
    cell tb s stop_id <> [] -> next_token s in_len = TTok stop_id 0.
  Proof.
    intros Hc. unfold cell in Hc. destruct (get_state tb s) as [st|] eqn:Hs; [|congruence].
    assert (Hc' : cell tb s stop_id <> []) by (unfold cell; rewrite Hs; exact Hc).
    destruct (cell_has st s stop_id Hs Hc') as [_ Hin].
    unfold next_token_of. rewrite Hs. unfold next_tokens.
    rewrite (has_key_in _ _ Hin), N.eqb_refl, N.ltb_irrefl. cbn [negb orb andb app].
    rewrite lexdis_single. reflexivity.
  Qed.

  Theorem sep_tokens_scan_ok w : forall p,
    sep_tokens p w = true -> scan_ok tb skipws next_token stop_id p w.
  Proof.
    induction w as [|[[y s] e] r IH]; intros p H; cbn [sep_tokens scan_ok] in *.
    - apply optN_eqb_eq in H. intros st Hc. exists in_len. split; [exact H|].
      apply next_token_stop. exact Hc.
    - apply andb_prop in H. destruct H as [H Hr]. apply andb_prop in H. destruct H as [Hsk Ht].
      apply optN_eqb_eq in Hsk. split; [|split].
      + intros st Hc. split; [exact Hsk|].
        unfold cell in Hc. destruct (get_state tb st) as [sta|] eqn:Hs; [|congruence].
        apply (next_token_sep st sta y s e Hs); [unfold cell; rewrite Hs; exact Hc|exact Ht].
      + unfold tok_sep in Ht. repeat (apply andb_prop in Ht; destruct Ht as [Ht ?]).
        apply N.ltb_lt in Ht. lia.
      + apply IH. exact Hr.
  Qed.
End Sep.

(* LR completeness with the concrete scanner model: a validated deterministic table and a
   lexically separated sentence: the LR parser model (driver + scanner) accepts and returns the
   sentence's derivation tree. *)
Theorem lr_complete_separated g tb ann fst_tab nul_tab stop_id start skipws terms rx in_len lexdis pos0 t :
  table_complete g tb ann fst_tab nul_tab stop_id = true ->
  det_table tb = true ->
  (exists pr0, get_prod g 0 = Some pr0 /\ rhs pr0 = [NT start]) ->
  wf_tree g t -> root_sym g t = Some (NT start) ->
  sep_tokens rx in_len stop_id tb skipws pos0 (leaves t) = true ->
  exists fuel t' rp lay tr,
    lr_parse g tb skipws (next_token_of terms rx in_len stop_id true lexdis tb) stop_id true false fuel pos0
      = LROk t' rp lay tr /\
    shape t' = shape t.
Proof.
  intros Htc Hdet Hp0 Hwf Hroot Hsep.
  eapply lr_driver_complete; try eassumption.
  apply sep_tokens_scan_ok. exact Hsep.
Qed.

(* The same for the whole LR parser model [parse_full] (table-driven scanner, ws-based layout
   skipping, driver loop), i.e. the function that is compared with Parser.parse on every run. *)
From PV Require Import Model.Parser.

Theorem parser_complete_separated c inp ann fst_tab nul_tab start pos0 t :
  pc_layout c = None -> pc_consume c = true ->
  table_complete (pc_g c) (pc_tb c) ann fst_tab nul_tab (pc_stop c) = true ->
  det_table (pc_tb c) = true ->
  (exists pr0, get_prod (pc_g c) 0 = Some pr0 /\ rhs pr0 = [NT start]) ->
  wf_tree (pc_g c) t -> root_sym (pc_g c) t = Some (NT start) ->
  sep_tokens (rx_of inp) (in_len inp) (pc_stop c) (pc_tb c)
             (fun p => Some (skip_ws (pc_ws c) inp p)) pos0 (leaves t) = true ->
  exists fuel t' rp lay tr,
    parse_full c inp fuel pos0 = LROk t' rp lay tr /\ shape t' = shape t.
Proof.
  intros Hlay Hcons Htc Hdet Hp0 Hwf Hroot Hsep.
  destruct (lr_complete_separated (pc_g c) (pc_tb c) ann fst_tab nul_tab (pc_stop c) start
              (fun p => Some (skip_ws (pc_ws c) inp p)) (pc_terms c) (rx_of inp) (in_len inp)
              (pc_lexdis c) pos0 t Htc Hdet Hp0 Hwf Hroot Hsep)
    as (fuel & t' & rp & lay & tr & Hrun & Hsh).
  exists fuel, t', rp, lay, tr. split; [|exact Hsh].
  unfold parse_full. rewrite Hcons.
  assert (E : skipws_full c inp fuel = fun p => Some (skip_ws (pc_ws c) inp p)).
  { unfold skipws_full. rewrite Hlay. reflexivity. }
  rewrite E. exact Hrun.
Qed.
