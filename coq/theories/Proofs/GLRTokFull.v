(* The tokenisation theorem for the assembled GLR parser model (glr_parse_full: scanner of
   Model/Scan.v, ws skipping, CPython set order) under boolean conditions on the table and the
   recognizer matrix that the harness evaluates (Spec/GLRSpec.v, glr_tok_checks). *)
From Coq Require Import NArith Arith List Bool Lia.
From PV Require Import Spec.Cfg Model.Table Model.Forest Model.LRDriver Model.Scan Model.Parser
  Model.PySet Model.GLR Validators.TableStruct Validators.ForestSound Spec.GLRSpec
  Proofs.ForestSoundProofs Proofs.GLRProofs Proofs.GLRTokProofs.
Import ListNotations.

Lemma skip_chars_ge ws : forall cs p, (p <= skip_chars ws cs p)%N.
Proof.
  induction cs as [|c r IH]; intros p; cbn; [lia|].
  destruct (existsb (N.eqb c) ws); [|lia]. specialize (IH (p + 1)%N). lia.
Qed.

Lemma skip_ws_ge ws inp p : (p <= skip_ws ws inp p)%N.
Proof. unfold skip_ws. apply skip_chars_ge. Qed.

Lemma stop_row_zero_none inp stop : stop_row_zero inp stop = true -> forall p, rx_of inp stop p = None.
Proof.
  unfold stop_row_zero, rx_of. intros H p. destruct (nth_error (pi_rx inp) (N.to_nat stop)) as [row|]; [|reflexivity].
  destruct (nth_error row (N.to_nat p)) as [l|] eqn:E; [|reflexivity].
  apply nth_error_In in E. rewrite forallb_forall in H. specialize (H _ E). apply N.eqb_eq in H. subst l. reflexivity.
Qed.

Lemma no_stop_shift_ok tb stop : no_stop_shift tb stop = true ->
  forall s s', ~ In (Shift s') (cell tb s stop).
Proof.
  unfold no_stop_shift, cell, get_state. intros H s s' Hin.
  destruct (nth_error tb s) as [st|] eqn:Es; [|exact Hin].
  apply nth_error_In in Es. rewrite forallb_forall in H. specialize (H _ Es).
  destruct (assoc stop (st_actions st)) as [l|]; [|exact Hin].
  apply negb_true_iff in H. assert (existsb is_shift l = true); [|congruence].
  apply existsb_exists. exists (Shift s'). split; [exact Hin|reflexivity].
Qed.

Lemma assoc_In' {V} k (l : list (N * V)) v : assoc k l = Some v -> In (k, v) l.
Proof.
  induction l as [|[k' v'] r IH]; cbn; [discriminate|].
  destruct (N.eqb_spec k k') as [->|Hne].
  - intros E; inversion E; subst. left; reflexivity.
  - intros E. right. apply IH. exact E.
Qed.

Lemma accept_only_stop_ok tb stop : accept_only_stop tb stop = true ->
  forall s y, In Accept (cell tb s y) -> y = stop.
Proof.
  unfold accept_only_stop, cell, get_state. intros H s y Hin.
  destruct (nth_error tb s) as [st|] eqn:Es; [|destruct Hin].
  apply nth_error_In in Es. rewrite forallb_forall in H. specialize (H _ Es).
  destruct (assoc y (st_actions st)) as [l|] eqn:Ea; [|destruct Hin].
  apply assoc_In' in Ea. rewrite forallb_forall in H. specialize (H _ Ea). cbn [fst snd] in H.
  apply orb_true_iff in H. destruct H as [H|H]; [apply N.eqb_eq; exact H|].
  apply negb_true_iff in H. assert (existsb is_accept l = true); [|congruence].
  apply existsb_exists. exists Accept. split; [exact Hin|reflexivity].
Qed.

Lemma nth_error_combine {X Y} (l1 : list X) (l2 : list Y) n x y :
  nth_error l1 n = Some x -> nth_error l2 n = Some y -> In (x, y) (combine l1 l2).
Proof.
  revert l2 n. induction l1 as [|a r IH]; intros [|b r2] [|n] H1 H2; cbn in *; try discriminate.
  - inversion H1; inversion H2; subst. left; reflexivity.
  - right. eapply IH; eassumption.
Qed.

Lemma rx_of_some inp y p l : rx_of inp y p = Some l ->
  exists row, In row (pi_rx inp) /\ nth_error row (N.to_nat p) = Some l /\ l <> 0%N.
Proof.
  unfold rx_of. destruct (nth_error (pi_rx inp) (N.to_nat y)) as [row|] eqn:Er; [|discriminate].
  destruct (nth_error row (N.to_nat p)) as [l0|] eqn:El; [|discriminate].
  destruct l0 as [|q]; [discriminate|]. intros E; inversion E; subst.
  exists row. split; [eapply nth_error_In; exact Er|]. split; [exact El|discriminate].
Qed.

Lemma rx_uniform_ok inp : rx_uniform inp = true ->
  forall y y' p l l', rx_of inp y p = Some l -> rx_of inp y' p = Some l' -> l = l'.
Proof.
  unfold rx_uniform. intros H y y' p l l' H1 H2.
  destruct (rx_of_some _ _ _ _ H1) as (r1 & I1 & N1 & Z1).
  destruct (rx_of_some _ _ _ _ H2) as (r2 & I2 & N2 & Z2).
  rewrite forallb_forall in H. specialize (H _ I1). rewrite forallb_forall in H. specialize (H _ I2).
  unfold rows_uniform in H. rewrite forallb_forall in H.
  specialize (H _ (nth_error_combine _ _ _ _ _ N1 N2)). cbn [fst snd] in H.
  apply orb_true_iff in H. destruct H as [H|H]; [|apply N.eqb_eq; exact H].
  apply orb_true_iff in H. destruct H as [H|H]; apply N.eqb_eq in H; congruence.
Qed.

Lemma tokens_at_rx tb terms rx in_len stop consume lexdis s p y l :
  In (y, l) (tokens_at tb terms rx in_len stop consume lexdis s p) -> y <> stop -> rx y p = Some l.
Proof.
  unfold tokens_at. destruct (get_state tb s) as [sta|]; [|intros []].
  intros H Hne. apply next_tokens_facts in H. destruct H as [(E & _)|(E & _)]; [congruence|exact E].
Qed.

(* any consume_input: the leaves are a tokenisation of a prefix of the input *)
Theorem glr_full_tok_sound_any (c : pconf) (inp : pinput) (fuel : nat) (pos start : N) nodes root :
  table_struct (pc_g c) (pc_tb c) start = true ->
  glr_tok_checks0 c inp = true ->
  glr_parse_full c inp fuel pos = GLRForest nodes root ->
  forall t, unfolds (glr_forest nodes root) (pred (length (glr_forest nodes root))) t ->
    wf_tree (pc_g c) t /\ root_sym (pc_g c) t = Some (NT start) /\
    chain_ok (skip_ws (pc_ws c) inp) (leaves t) /\ All (leaf_ok (tokok_of inp)) (leaves t) /\
    match bounds (leaves t) with
    | None => pc_consume c = true -> skip_ws (pc_ws c) inp pos = in_len inp
    | Some (fs, le) =>
        fs = skip_ws (pc_ws c) inp pos /\
        (pc_consume c = true -> (le <= in_len inp)%N /\ skip_ws (pc_ws c) inp le = in_len inp)
    end.
Proof.
  intros Hts Hc H t Ht. unfold glr_tok_checks0 in Hc.
  apply andb_true_iff in Hc. destruct Hc as [Hc C6]. apply andb_true_iff in Hc. destruct Hc as [Hc C5].
  apply andb_true_iff in Hc. destruct Hc as [Hc C4]. apply andb_true_iff in Hc. destruct Hc as [C2 C3].
  destruct (glr_full_sound c inp fuel pos start nodes root Hts H t Ht) as [Hwf Hrs].
  split; [exact Hwf|]. split; [exact Hrs|].
  unfold glr_parse_full in H.
  assert (Hsk : forall p q, glr_skipws c inp fuel p = SkOk q -> q = skip_ws (pc_ws c) inp p).
  { intros p q E. unfold glr_skipws in E. destruct (pc_layout c); [discriminate|]. inversion E. reflexivity. }
  refine (glr_tok_sound (pc_g c) (pc_tb c) start Hts (pc_terms c) (rx_of inp) (in_len inp) (pc_stop c)
            (pc_consume c) (pc_lexdis c) (glr_skipws c inp fuel) revisit_order (skip_ws (pc_ws c) inp)
            Hsk (skip_ws_ge _ _) (stop_row_zero_none _ _ C3) (no_stop_shift_ok _ _ C4)
            (accept_only_stop_ok _ _ C5) _ fuel pos nodes root H t Ht).
  intros s s' p y l y' l' H1 H2 N1 N2.
  apply (rx_uniform_ok inp C6 y y' p); eapply tokens_at_rx; eassumption.
Qed.

(* consume_input on: of the whole input *)
Theorem glr_full_tok_sound (c : pconf) (inp : pinput) (fuel : nat) (pos start : N) nodes root :
  table_struct (pc_g c) (pc_tb c) start = true ->
  glr_tok_checks c inp = true ->
  glr_parse_full c inp fuel pos = GLRForest nodes root ->
  forall t, unfolds (glr_forest nodes root) (pred (length (glr_forest nodes root))) t ->
    wf_tree (pc_g c) t /\ root_sym (pc_g c) t = Some (NT start) /\
    chain_ok (skip_ws (pc_ws c) inp) (leaves t) /\ All (leaf_ok (tokok_of inp)) (leaves t) /\
    match bounds (leaves t) with
    | None => skip_ws (pc_ws c) inp pos = in_len inp
    | Some (fs, le) => fs = skip_ws (pc_ws c) inp pos /\ (le <= in_len inp)%N /\
                       skip_ws (pc_ws c) inp le = in_len inp
    end.
Proof.
  intros Hts Hc H t Ht. unfold glr_tok_checks in Hc. apply andb_true_iff in Hc. destruct Hc as [C1 C0].
  destruct (glr_full_tok_sound_any c inp fuel pos start nodes root Hts C0 H t Ht) as (A1 & A2 & A3 & A4 & A5).
  split; [exact A1|]. split; [exact A2|]. split; [exact A3|]. split; [exact A4|].
  destruct (bounds (leaves t)) as [[fs le]|]; [|exact (A5 C1)].
  destruct A5 as [B1 B2]. destruct (B2 C1) as [B3 B4]. auto.
Qed.
