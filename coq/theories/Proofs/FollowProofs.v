(* The model of follow(grammar, first_sets) (Model/First.v): termination within
   [first_fuel] rounds and closedness of the result under the FOLLOW rules, stated with
   the FIRST/nullable tables of the validator (what the SLR annotation of
   table_complete needs). *)
From Coq Require Import NArith List Bool Lia Arith.
From PV Require Import Spec.Cfg Model.First Model.TableSpec Validators.TableComplete Proofs.SetProofs
  Proofs.CompleteProofs Proofs.FirstProofs.
Import ListNotations.
Local Open Scope N_scope.

Section FollowCorrect.
  Variable e : N.
  Variable fs : fsets.                      (* FIRST sets *)

  Notation FT := (fst_tab_of e fs).
  Notation NTb := (nul_tab_of e fs).

  (* what the suffix loop collects, as a predicate *)
  Fixpoint sfirst (fo_lhs : nset) (r : list sym) (y : N) : Prop :=
    match r with
    | [] => In y fo_lhs
    | x :: r' => In y (sym_first fs x) \/ (In e (sym_first fs x) /\ sfirst fo_lhs r' y)
    end.

  Lemma follow_suffix_In fo_lhs r : forall acc y,
    In y (follow_suffix e fs fo_lhs r acc) <-> In y acc \/ sfirst fo_lhs r y.
  Proof.
    induction r as [|x r' IH]; intros acc y; cbn [follow_suffix sfirst].
    - apply nunion_In.
    - destruct (nmem e (sym_first fs x)) eqn:E.
      + rewrite IH, nunion_In. apply nmem_In in E. tauto.
      + rewrite nunion_In. apply nmem_false in E. tauto.
  Qed.

  (* for terminals other than EMPTY: FIRST of the stripped suffix, or FOLLOW(lhs) when the
     suffix is nullable *)
  Lemma sfirst_strip fo_lhs r y : y <> e ->
    (sfirst fo_lhs r y <->
     In y (fst_seq FT NTb (strip e r)) \/ (nul_seq NTb (strip e r) = true /\ In y fo_lhs)).
  Proof.
    intros Hne. induction r as [|x r' IH]; cbn [sfirst].
    - cbn. tauto.
    - destruct (is_EMPTY e x) eqn:Ex.
      + unfold strip. cbn [filter]. rewrite Ex. cbn [negb]. fold (strip e r').
        destruct x as [t|b]; [|discriminate]. cbn in Ex. apply N.eqb_eq in Ex. subst t.
        cbn [sym_first]. rewrite IH. cbn. intuition congruence.
      + unfold strip. cbn [filter]. rewrite Ex. cbn [negb]. fold (strip e r').
        cbn [fst_seq nul_seq forallb]. rewrite (nul_sym_tab e fs x Ex), in_app_iff.
        rewrite (fst_sym_tab e fs x y Ex). rewrite IH.
        destruct (nmem e (sym_first fs x)) eqn:En.
        * apply nmem_In in En. cbn [andb]. unfold nul_seq. tauto.
        * apply nmem_false in En. cbn [andb]. cbn. intuition discriminate.
  Qed.

  (* ---- closedness -------------------------------------------------------------- *)
  (* every occurrence of b in the raw suffix r of a production with left-hand side lhsp
     has passed its contribution to FOLLOW(b) *)
  Definition occ_closed (fo : fsets) (b lhsp : N) (r : list sym) : Prop :=
    forall pre suf, r = pre ++ NT b :: suf ->
      forall y, y <> e -> sfirst (fget fo lhsp) suf y -> In y (fget fo b).

  Lemma follow_occ_flag_mono r : forall b lhsp st,
    snd st = true -> snd (follow_occ e fs b lhsp r st) = true.
  Proof.
    induction r as [|x r' IH]; intros b lhsp st H; cbn [follow_occ]; [exact H|].
    apply IH. destruct (sym_eqb x (NT b)); [|exact H].
    destruct (nsubset _ _); [exact H|reflexivity].
  Qed.

  Lemma follow_occ_closed r : forall b lhsp fo,
    snd (follow_occ e fs b lhsp r (fo, false)) = false ->
    follow_occ e fs b lhsp r (fo, false) = (fo, false) /\ occ_closed fo b lhsp r.
  Proof.
    induction r as [|x r' IH]; intros b lhsp fo H; cbn [follow_occ fst] in *.
    - split; [reflexivity|]. intros pre suf E. destruct pre; discriminate.
    - destruct (sym_eqb x (NT b)) eqn:Ex.
      + destruct (nsubset (nremove e (follow_suffix e fs (fget fo lhsp) r' [])) (fget fo b)) eqn:Es.
        * destruct (IH b lhsp fo H) as [Heq Hc]. split; [exact Heq|].
          apply sym_eqb_eq in Ex. subst x. intros pre suf E y Hne Hy.
          destruct pre as [|x0 pre]; cbn [app] in E.
          -- inversion E; subst suf. rewrite nsubset_spec in Es. apply Es.
             apply nremove_In. split; [|exact Hne]. apply follow_suffix_In. right. exact Hy.
          -- inversion E; subst. eapply Hc; [reflexivity|exact Hne|exact Hy].
        * rewrite follow_occ_flag_mono in H by reflexivity. discriminate.
      + destruct (IH b lhsp fo H) as [Heq Hc]. split; [exact Heq|].
        intros pre suf E y Hne Hy. destruct pre as [|x0 pre]; cbn [app] in E.
        * inversion E; subst. assert (sym_eqb (NT b) (NT b) = true) by (apply sym_eqb_eq; reflexivity).
          congruence.
        * inversion E; subst. eapply Hc; [reflexivity|exact Hne|exact Hy].
  Qed.

  Variable ps : list prod.

  Lemma follow_nt_flag_mono l : forall b st,
    snd st = true -> snd (fold_left (fun st p => follow_occ e fs b (lhs p) (rhs p) st) l st) = true.
  Proof.
    induction l as [|p r IH]; intros b st H; cbn [fold_left]; [exact H|].
    apply IH. apply follow_occ_flag_mono. exact H.
  Qed.

  Lemma follow_nt_closed l : forall b fo,
    snd (fold_left (fun st p => follow_occ e fs b (lhs p) (rhs p) st) l (fo, false)) = false ->
    fold_left (fun st p => follow_occ e fs b (lhs p) (rhs p) st) l (fo, false) = (fo, false) /\
    forall p, In p l -> occ_closed fo b (lhs p) (rhs p).
  Proof.
    induction l as [|p r IH]; intros b fo H; cbn [fold_left] in *.
    - split; [reflexivity|intros p []].
    - destruct (snd (follow_occ e fs b (lhs p) (rhs p) (fo, false))) eqn:E.
      + rewrite follow_nt_flag_mono in H by exact E. discriminate.
      + destruct (follow_occ_closed (rhs p) b (lhs p) fo E) as [Heq Hc]. rewrite Heq in *.
        destruct (IH b fo H) as [Heq2 Hc2]. split; [exact Heq2|].
        intros q [<-|Hq]; [exact Hc|apply Hc2; exact Hq].
  Qed.

  Lemma follow_round_flag_mono nts : forall st,
    snd st = true -> snd (fold_left (follow_nt e fs ps) nts st) = true.
  Proof.
    induction nts as [|b r IH]; intros st H; cbn [fold_left]; [exact H|].
    apply IH. unfold follow_nt. apply follow_nt_flag_mono. exact H.
  Qed.

  Lemma follow_round_closed nts : forall fo,
    snd (fold_left (follow_nt e fs ps) nts (fo, false)) = false ->
    fold_left (follow_nt e fs ps) nts (fo, false) = (fo, false) /\
    forall b p, In b nts -> In p ps -> occ_closed fo b (lhs p) (rhs p).
  Proof.
    induction nts as [|b r IH]; intros fo H; cbn [fold_left] in *.
    - split; [reflexivity|intros b p []].
    - destruct (snd (follow_nt e fs ps (fo, false) b)) eqn:E.
      + rewrite follow_round_flag_mono in H by exact E. discriminate.
      + unfold follow_nt in E. destruct (follow_nt_closed ps b fo E) as [Heq Hc].
        unfold follow_nt in H at 2. unfold follow_nt at 2. rewrite Heq in *.
        destruct (IH fo H) as [Heq2 Hc2]. split; [exact Heq2|].
        intros b' p [<-|Hb] Hp; [apply Hc; exact Hp|apply Hc2; assumption].
  Qed.

  Definition fo_closed (nnts : nat) (fo : fsets) : Prop :=
    forall b p, (N.to_nat b < nnts)%nat -> In p ps -> occ_closed fo b (lhs p) (rhs p).

  Lemma in_nts_of nnts b : (N.to_nat b < nnts)%nat -> In b (nts_of nnts).
  Proof.
    intros H. unfold nts_of. apply in_map_iff. exists (N.to_nat b).
    split; [apply N2Nat.id|]. apply in_seq. lia.
  Qed.

  Lemma follow_iter_closed fuel nnts : forall fo fo',
    follow_iter e fuel fs nnts ps fo = Some fo' -> fo_closed nnts fo'.
  Proof.
    induction fuel as [|f IH]; intros fo fo' H; [discriminate|].
    cbn [follow_iter] in H. destruct (snd (follow_round e fs nnts ps fo)) eqn:E.
    - eapply IH; exact H.
    - inversion H; subst. unfold follow_round in *.
      destruct (follow_round_closed (nts_of nnts) fo E) as [Heq Hc]. rewrite Heq. cbn [fst].
      intros b p Hb Hp. apply Hc; [apply in_nts_of; exact Hb|exact Hp].
  Qed.

  Theorem follow_closed_ok fuel nnts fo :
    follow_sets e fuel fs nnts ps = Some fo -> fo_closed nnts fo.
  Proof. unfold follow_sets. apply follow_iter_closed. Qed.

  (* ---- EMPTY is never in a FOLLOW set; sizes ------------------------------------- *)
  Variable nnts nterms : nat.
  Hypothesis Hfs : fs_inv nnts nterms fs.
  Hypothesis Hwf : prods_wfb e nnts nterms ps = true.

  Definition fo_inv (fo : fsets) : Prop :=
    fs_inv nnts nterms fo /\ forall a, ~ In e (fget fo a).

  Lemma follow_suffix_bound fo_lhs r : forall acc,
    rhs_ok nterms r -> NoDup acc ->
    (forall y, In y acc -> (N.to_nat y < nterms)%nat) ->
    (forall y, In y fo_lhs -> (N.to_nat y < nterms)%nat) ->
    NoDup (follow_suffix e fs fo_lhs r acc) /\
    forall y, In y (follow_suffix e fs fo_lhs r acc) -> (N.to_nat y < nterms)%nat.
  Proof.
    induction r as [|x r' IH]; intros acc Hr Hnd Hb Hl; cbn [follow_suffix].
    - split; [apply nunion_NoDup; exact Hnd|]. intros y Hy. apply nunion_In in Hy. destruct Hy; auto.
    - assert (Hx : match x with T t => (N.to_nat t < nterms)%nat | NT _ => True end).
      { destruct x as [t|b]; [|exact I]. apply Hr. left. reflexivity. }
      destruct (sym_first_inv nnts nterms fs x Hfs Hx) as [_ Hfb].
      assert (Hnd' : NoDup (nunion acc (sym_first fs x))) by (apply nunion_NoDup; exact Hnd).
      assert (Hb' : forall y, In y (nunion acc (sym_first fs x)) -> (N.to_nat y < nterms)%nat).
      { intros y Hy. apply nunion_In in Hy. destruct Hy; auto. }
      destruct (nmem e (sym_first fs x)); [|split; assumption].
      apply IH; try assumption. intros t Ht. apply Hr. right. exact Ht.
  Qed.

  Lemma follow_occ_measure r : forall b lhsp st,
    (N.to_nat b < nnts)%nat -> rhs_ok nterms r -> fo_inv (fst st) ->
    let st' := follow_occ e fs b lhsp r st in
    fo_inv (fst st') /\ (fsize (fst st) <= fsize (fst st'))%nat /\
    (snd st' = true -> snd st = true \/ (fsize (fst st) < fsize (fst st'))%nat).
  Proof.
    induction r as [|x r' IH]; intros b lhsp st Hb Hr Hinv; cbn [follow_occ]; cbn zeta.
    - split; [exact Hinv|]. split; [lia|auto].
    - assert (Hr' : rhs_ok nterms r') by (intros t Ht; apply Hr; right; exact Ht).
      set (st1 := if sym_eqb x (NT b) then _ else st).
      assert (H1 : fo_inv (fst st1) /\ (fsize (fst st) <= fsize (fst st1))%nat /\
                   (snd st1 = true -> snd st = true \/ (fsize (fst st) < fsize (fst st1))%nat)).
      { unfold st1. destruct (sym_eqb x (NT b)); [|split; [exact Hinv|split; [lia|auto]]].
        set (fo := fst st). set (pf := nremove e (follow_suffix e fs (fget fo lhsp) r' [])).
        destruct (nsubset pf (fget fo b)) eqn:Es; [split; [exact Hinv|split; [unfold fo; lia|auto]]|].
        cbn [fst snd]. destruct Hinv as [Hi He].
        assert (Hlt : (N.to_nat b < length fo)%nat) by (unfold fo; rewrite (proj1 Hi); exact Hb).
        pose proof (fsize_fupd b (nunion (fget fo b) pf) fo Hlt) as Hsz.
        destruct (nsubset_false _ _ Es) as (y & Hy1 & Hy2).
        pose proof (nunion_length_new pf (fget fo b) y Hy1 Hy2) as Hgrow.
        destruct (follow_suffix_bound (fget fo lhsp) r' [] Hr' (NoDup_nil _)
                    (fun y H => match H with end) (proj2 (proj2 Hi lhsp))) as [Hpnd Hpb].
        split; [|split; [unfold fo in *; lia|intros _; right; unfold fo in *; lia]].
        split.
        - apply fs_inv_fupd; [exact Hi| |].
          + apply nunion_NoDup. apply (proj2 Hi b).
          + intros z Hz. apply nunion_In in Hz. destruct Hz as [Hz|Hz]; [apply (proj2 Hi b); exact Hz|].
            unfold pf in Hz. apply nremove_In in Hz. apply Hpb. tauto.
        - intros a Ha. rewrite fget_fupd in Ha. destruct ((b =? a) && _); [|exact (He a Ha)].
          apply nunion_In in Ha. destruct Ha as [Ha|Ha]; [exact (He b Ha)|].
          unfold pf in Ha. apply nremove_In in Ha. tauto. }
      destruct H1 as (Hi1 & Hs1 & Hf1).
      destruct (IH b lhsp st1 Hb Hr' Hi1) as (Hi2 & Hs2 & Hf2).
      split; [exact Hi2|]. split; [lia|].
      intros Ht. destruct (Hf2 Ht) as [Ht1|Hlt]; [|right; lia].
      destruct (Hf1 Ht1) as [Ht0|Hlt]; [left; exact Ht0|right; lia].
  Qed.

  Lemma follow_nt_measure l : forall b st,
    (N.to_nat b < nnts)%nat -> (forall p, In p l -> In p ps) -> fo_inv (fst st) ->
    let st' := fold_left (fun st p => follow_occ e fs b (lhs p) (rhs p) st) l st in
    fo_inv (fst st') /\ (fsize (fst st) <= fsize (fst st'))%nat /\
    (snd st' = true -> snd st = true \/ (fsize (fst st) < fsize (fst st'))%nat).
  Proof.
    induction l as [|p r IH]; intros b st Hb Hl Hinv; cbn [fold_left]; cbn zeta.
    - split; [exact Hinv|]. split; [lia|auto].
    - destruct (wf_prod e nnts nterms ps Hwf p (Hl p (or_introl eq_refl))) as [_ Hr].
      destruct (follow_occ_measure (rhs p) b (lhs p) st Hb Hr Hinv) as (Hi1 & Hs1 & Hf1).
      destruct (IH b (follow_occ e fs b (lhs p) (rhs p) st) Hb (fun q Hq => Hl q (or_intror Hq)) Hi1)
        as (Hi2 & Hs2 & Hf2).
      split; [exact Hi2|]. split; [lia|].
      intros Ht. destruct (Hf2 Ht) as [Ht1|Hlt]; [|right; lia].
      destruct (Hf1 Ht1) as [Ht0|Hlt]; [left; exact Ht0|right; lia].
  Qed.

  Lemma follow_round_measure nts : forall st,
    (forall b, In b nts -> (N.to_nat b < nnts)%nat) -> fo_inv (fst st) ->
    let st' := fold_left (follow_nt e fs ps) nts st in
    fo_inv (fst st') /\ (fsize (fst st) <= fsize (fst st'))%nat /\
    (snd st' = true -> snd st = true \/ (fsize (fst st) < fsize (fst st'))%nat).
  Proof.
    induction nts as [|b r IH]; intros st Hn Hinv; cbn [fold_left]; cbn zeta.
    - split; [exact Hinv|]. split; [lia|auto].
    - destruct (follow_nt_measure ps b st (Hn b (or_introl eq_refl)) (fun p Hp => Hp) Hinv)
        as (Hi1 & Hs1 & Hf1).
      destruct (IH (follow_nt e fs ps st b) (fun b' Hb' => Hn b' (or_intror Hb')) Hi1)
        as (Hi2 & Hs2 & Hf2).
      unfold follow_nt in *.
      split; [exact Hi2|]. split; [lia|].
      intros Ht. destruct (Hf2 Ht) as [Ht1|Hlt]; [|right; lia].
      destruct (Hf1 Ht1) as [Ht0|Hlt]; [left; exact Ht0|right; lia].
  Qed.

  Lemma nts_of_bound b : In b (nts_of nnts) -> (N.to_nat b < nnts)%nat.
  Proof.
    unfold nts_of. intros H. apply in_map_iff in H. destruct H as (k & <- & Hk).
    apply in_seq in Hk. rewrite Nat2N.id. lia.
  Qed.

  Lemma follow_iter_total fuel : forall fo,
    fo_inv fo -> (nnts * nterms < fuel + fsize fo)%nat ->
    exists fo', follow_iter e fuel fs nnts ps fo = Some fo' /\ fo_inv fo'.
  Proof.
    induction fuel as [|f IH]; intros fo Hinv Hfuel.
    - pose proof (fs_inv_size nnts nterms fo (proj1 Hinv)). lia.
    - cbn [follow_iter]. unfold follow_round.
      destruct (follow_round_measure (nts_of nnts) (fo, false) nts_of_bound Hinv) as (Hi1 & Hs1 & Hf1).
      cbn [fst snd] in *.
      destruct (snd (fold_left _ (nts_of nnts) (fo, false))) eqn:E.
      + destruct (Hf1 eq_refl) as [Hc|Hlt]; [discriminate|]. apply IH; [exact Hi1|lia].
      + eexists. split; [reflexivity|exact Hi1].
  Qed.

  (* FOLLOW is computed within first_fuel rounds, whatever the grammar *)
  Theorem follow_total :
    exists fo, follow_sets e (first_fuel nnts nterms) fs nnts ps = Some fo /\ fo_inv fo.
  Proof.
    unfold follow_sets, first_fuel. apply follow_iter_total.
    - split; [apply fs_inv_init|]. intros a. rewrite fget_repeat. intros [].
    - lia.
  Qed.

  Lemma follow_iter_inv fuel : forall fo fo',
    fo_inv fo -> follow_iter e fuel fs nnts ps fo = Some fo' -> fo_inv fo'.
  Proof.
    induction fuel as [|f IH]; intros fo fo' Hinv H; [discriminate|].
    cbn [follow_iter] in H. unfold follow_round in H.
    destruct (follow_round_measure (nts_of nnts) (fo, false) nts_of_bound Hinv) as (Hi1 & _ & _).
    cbn zeta in Hi1.
    destruct (snd (fold_left _ (nts_of nnts) (fo, false))).
    - eapply IH; eassumption.
    - inversion H; subst. exact Hi1.
  Qed.

  Theorem follow_inv fuel fo : follow_sets e fuel fs nnts ps = Some fo -> fo_inv fo.
  Proof.
    unfold follow_sets. apply follow_iter_inv.
    split; [apply fs_inv_init|]. intros a. rewrite fget_repeat. intros [].
  Qed.

  Lemma follow_iter_more fuel : forall k fo r,
    follow_iter e fuel fs nnts ps fo = Some r -> follow_iter e (fuel + k) fs nnts ps fo = Some r.
  Proof.
    induction fuel as [|f IH]; intros k fo r H; [discriminate|].
    cbn [follow_iter Nat.add] in *.
    destruct (snd (follow_round e fs nnts ps fo)); [apply IH; exact H|exact H].
  Qed.
End FollowCorrect.
