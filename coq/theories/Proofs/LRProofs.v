(* The LR driver model performs moves of N(T); with a structurally valid table
   its result is a derivation tree of the tokens it shifted. *)
From Coq Require Import NArith List Bool Lia Arith.
From PV Require Import Spec.Cfg Model.Table Spec.NLR Validators.TableStruct Model.LRDriver.
Import ListNotations.
Local Open Scope N_scope.

Definition anylook : N -> N -> N -> N -> Prop := fun _ _ _ _ => True.

Definition to_stack (stk : list entry) : stack := map (fun e => (e_state e, e_tree e)) stk.

(* the ghost trace of the LR model without the layout component *)
Definition strip (tr : list (N * N * N * (N * N))) : list (N * N * N) := map fst tr.

Definition sim (s : lrstate) (c : config) : Prop :=
  c_stack c = to_stack (l_stack s) /\ c_trace c = strip (l_trace s).

Section LRSim.
  Variable g : grammar.
  Variable tb : table.
  Variable skipws : N -> option N.
  Variable next_token : nat -> N -> tokres.
  Variable stop_id : N.
  Variable consume_input in_layout : bool.

  Notation step := (lr_step g tb skipws next_token stop_id consume_input in_layout).
  Notation run := (lr_run g tb skipws next_token stop_id consume_input in_layout).

  (* what a Continue/Done outcome means for a related N(T) configuration *)
  Definition sim_outcome (c : config) (o : outcome) : Prop :=
    match o with
    | Continue s' => exists c', nstep g tb anylook c c' /\ sim s' c'
    | Done (LROk t _ _ tr) => naccepts tb anylook c t /\ c_trace c = strip tr
    | Done _ => True
    end.

  Lemma select_prod_spec p0 more p pr :
    select_prod g p0 more = Some (p, pr) ->
    get_prod g p = Some pr /\ In (Reduce p) (Reduce p0 :: more).
  Proof.
    unfold select_prod. destruct (get_prod g p0) as [pr0|] eqn:E0; [|discriminate].
    destruct (rhs pr0) as [|x r].
    - destruct more as [|a1 more']; [intros H; inversion H; subst; split; [exact E0|left; reflexivity]|].
      destruct a1 as [s'|p1|]; try discriminate.
      destruct (get_prod g p1) as [pr1|] eqn:E1; [|discriminate].
      intros H; inversion H; subst. split; [exact E1|right; left; reflexivity].
    - intros H; inversion H; subst. split; [exact E0|left; reflexivity].
  Qed.

  Lemma to_stack_split n stk :
    to_stack stk = to_stack (firstn n stk) ++ to_stack (skipn n stk).
  Proof. unfold to_stack. rewrite <- map_app, firstn_skipn. reflexivity. Qed.

  Lemma map_snd_to_stack stk : map snd (to_stack stk) = map e_tree stk.
  Proof. unfold to_stack. rewrite map_map. reflexivity. Qed.

  Lemma do_reduce_sim c tr stk pos1 lay1 ah p pr y :
    c_stack c = to_stack stk -> c_trace c = strip tr ->
    In (Reduce p) (cell tb (top_state (to_stack stk)) y) ->
    get_prod g p = Some pr ->
    sim_outcome c (do_reduce tb tr stk pos1 lay1 ah p pr).
  Proof.
    intros Hc Htr Hin Hp. unfold do_reduce.
    destruct (Nat.eqb (length (firstn (length (rhs pr)) stk)) (length (rhs pr))) eqn:Hlen;
      cbn [negb]; [|exact I].
    apply Nat.eqb_eq in Hlen.
    destruct (skipn (length (rhs pr)) stk) as [|r0 rest'] eqn:Hrest; [exact I|].
    destruct (goto tb (e_state r0) (lhs pr)) as [s'|] eqn:Hg; [|exact I].
    destruct (match rev (firstn (length (rhs pr)) stk) with
              | [] => _ | deepest :: _ => _ end) as [startp lay].
    cbn [sim_outcome l_stack].
    destruct c as [cst cpos ctr]. cbn [c_stack c_trace] in Hc, Htr. subst cst.
    eexists. split.
    - eapply (ns_reduce g tb anylook (to_stack stk) cpos ctr y 0 0 p pr
                (to_stack (firstn (length (rhs pr)) stk)) (to_stack (r0 :: rest')) s').
      + exact I.
      + exact Hin.
      + exact Hp.
      + rewrite <- Hrest. apply to_stack_split.
      + unfold to_stack. rewrite map_length. exact Hlen.
      + cbn. exact Hg.
    - split; [cbn [c_stack]; rewrite map_snd_to_stack; reflexivity|exact Htr].
  Qed.

  Lemma do_action_sim c tr stk lay1 scan fb acts y :
    c_stack c = to_stack stk -> c_trace c = strip tr ->
    (forall a, In a acts -> In a (cell tb (top_state (to_stack stk)) y)) ->
    (fb = false -> match scan with TTok y' _ => y' = y | _ => True end) ->
    sim_outcome c (do_action g tb tr stk lay1 scan fb acts).
  Proof.
    intros Hc Htr Hsub Hy. unfold do_action.
    destruct stk as [|top below]; [exact I|].
    destruct acts as [|act more]; [exact I|].
    destruct act as [s'|p0|].
    - destruct scan as [|y' len|]; try exact I. destruct fb; [exact I|].
      specialize (Hy eq_refl). subst y'.
      cbn [sim_outcome l_stack].
      destruct c as [cst cpos ctr]. cbn [c_stack c_trace] in Hc, Htr. subst cst.
      eexists. split.
      + eapply (ns_shift g tb anylook _ cpos ctr y (e_pos top) (e_pos top + len) s').
        * exact I.
        * apply Hsub. left. reflexivity.
      + split; [reflexivity|]. cbn [c_trace l_trace]. unfold strip. rewrite map_app, Htr. reflexivity.
    - destruct (select_prod g p0 more) as [[p pr]|] eqn:Hsel; [|exact I].
      destruct (select_prod_spec _ _ _ _ Hsel) as [Hp Hin].
      eapply do_reduce_sim; [exact Hc|exact Htr| |exact Hp]. apply Hsub. exact Hin.
    - destruct (nth_error (rev (top :: below)) 1) as [r|] eqn:Hn; [|exact I].
      cbn [sim_outcome]. split; [|exact Htr]. exists y, 0, 0. split; [exact I|].
      split; [rewrite Hc; apply Hsub; left; reflexivity|].
      exists (e_state r). rewrite Hc. unfold to_stack. rewrite <- map_rev.
      rewrite nth_error_map, Hn. reflexivity.
  Qed.

  (* ---- stack-only variants (the trace plays no role in which moves exist) -------- *)

  Definition sim_outcome_stack (c : config) (o : outcome) : Prop :=
    match o with
    | Continue s' => exists c', nstep g tb anylook c c' /\ c_stack c' = to_stack (l_stack s')
    | Done (LROk t _ _ _) => naccepts tb anylook c t
    | Done _ => True
    end.

  Lemma nstep_trace_irrel c1 c2 tr :
    nstep g tb anylook c1 c2 ->
    exists tr', nstep g tb anylook (mkCfg (c_stack c1) (c_pos c1) tr)
                                   (mkCfg (c_stack c2) (c_pos c2) tr').
  Proof.
    intros H. destruct H as
      [st pos tr0 y s e s' Hl Hin | st pos tr0 y s e p pr popped rest s' ns ne Hl Hin Hp E Hlen Hg];
      cbn [c_stack c_pos].
    - eexists. apply (ns_shift g tb anylook st pos tr y s e s' Hl Hin).
    - eexists. apply (ns_reduce g tb anylook st pos tr y s e p pr popped rest s' ns ne Hl Hin Hp E Hlen Hg).
  Qed.

  Lemma do_action_sim_stack c tr stk lay1 scan fb acts y :
    c_stack c = to_stack stk ->
    (forall a, In a acts -> In a (cell tb (top_state (to_stack stk)) y)) ->
    (fb = false -> match scan with TTok y' _ => y' = y | _ => True end) ->
    sim_outcome_stack c (do_action g tb tr stk lay1 scan fb acts).
  Proof.
    intros Hc Hsub Hy.
    pose (c2 := mkCfg (c_stack c) (c_pos c) (strip tr)).
    assert (H2 : sim_outcome c2 (do_action g tb tr stk lay1 scan fb acts)).
    { apply (do_action_sim c2 tr stk lay1 scan fb acts y); [exact Hc|reflexivity|exact Hsub|exact Hy]. }
    destruct (do_action g tb tr stk lay1 scan fb acts) as [s'|r]; cbn [sim_outcome sim_outcome_stack] in *.
    - destruct H2 as (c2' & Hstep & Hs' & _).
      destruct (nstep_trace_irrel c2 c2' (c_trace c) Hstep) as (tr' & Hstep').
      destruct c as [cst cpos ctr]. cbn [c_stack c_pos c_trace c2] in Hstep'.
      eexists. split; [exact Hstep'|exact Hs'].
    - destruct r; try exact I. destruct H2 as [Hacc _].
      destruct c as [cst cpos ctr]. exact Hacc.
  Qed.

  Lemma step_sim s c :
    sim s c -> sim_outcome c (step s).
  Proof.
    intros [Hc Htr]. unfold lr_step.
    destruct (l_stack s) as [|top0 below] eqn:Hstk; [exact I|].
    destruct (lookahead skipws next_token in_layout s top0) as [[[top lay1] scan]|] eqn:Hla; [|exact I].
    assert (Htop : e_state top = e_state top0 /\ e_tree top = e_tree top0).
    { unfold lookahead in Hla. destruct (l_ahead s).
      - inversion Hla; subst; auto.
      - destruct in_layout.
        + inversion Hla; subst; auto.
        + destruct (skipws (e_pos top0)); [|discriminate]. inversion Hla; subst; auto. }
    destruct Htop as [Hts Htt].
    assert (Hc' : c_stack c = to_stack (top :: below)).
    { rewrite Hc. cbn. rewrite Hts, Htt. reflexivity. }
    destruct scan as [|y len|]; [| |exact I].
    - destruct consume_input.
      + apply (do_action_sim c _ _ lay1 TNone true [] stop_id Hc' Htr); [intros a []|discriminate].
      + apply (do_action_sim c _ _ lay1 TNone true _ stop_id Hc' Htr); [intros a Ha; exact Ha|discriminate].
    - destruct (cell tb (e_state top) y) as [|a0 acts0] eqn:Hcell.
      + destruct consume_input.
        * apply (do_action_sim c _ _ lay1 _ true [] stop_id Hc' Htr); [intros a []|discriminate].
        * apply (do_action_sim c _ _ lay1 _ true _ stop_id Hc' Htr); [intros a Ha; exact Ha|discriminate].
      + apply (do_action_sim c _ _ lay1 _ false _ y Hc' Htr).
        * intros a Ha. cbn [to_stack map top_state]. rewrite Hcell. exact Ha.
        * intros _. reflexivity.
  Qed.

  Lemma run_sim fuel : forall s c t rp lay tr,
    sim s c -> run fuel s = LROk t rp lay tr ->
    exists c', nsteps g tb anylook c c' /\ naccepts tb anylook c' t /\ c_trace c' = strip tr.
  Proof.
    induction fuel as [|f IH]; intros s c t rp lay tr Hc Hrun; cbn [lr_run] in Hrun; [discriminate|].
    pose proof (step_sim s c Hc) as Hsim.
    destruct (step s) as [s'|r].
    - destruct Hsim as (c1 & Hstep & Hc1).
      destruct (IH s' c1 t rp lay tr Hc1 Hrun) as (c' & Hsteps & Hacc).
      exists c'. split; [|exact Hacc].
      clear -Hstep Hsteps. induction Hsteps as [c1|c1 c2 c3 H12 IH2 H23].
      + eapply nss_step; [apply nss_refl|exact Hstep].
      + eapply nss_step; [apply IH2; exact Hstep|exact H23].
    - subst r. cbn in Hsim. exists c. split; [apply nss_refl|exact Hsim].
  Qed.

  (* soundness of the LR driver for every structurally valid table: the result is a
     derivation tree rooted in the start symbol whose leaves are exactly the tokens the
     driver shifted, in order *)
  Theorem lr_sound start fuel pos t rp lay tr :
    table_struct g tb start = true ->
    lr_parse g tb skipws next_token stop_id consume_input in_layout fuel pos = LROk t rp lay tr ->
    wf_tree g t /\ root_sym g t = Some (NT start) /\ leaves t = strip tr.
  Proof.
    intros Hts Hrun. unfold lr_parse in Hrun.
    assert (Hsim : sim (lr_init pos) (init_cfg pos (bottom_tree pos))) by (split; reflexivity).
    destruct (run_sim fuel (lr_init pos) (init_cfg pos (bottom_tree pos)) t rp lay tr Hsim Hrun)
      as (c' & Hsteps & Hacc & Htr).
    destruct (nlr_sound g tb start anylook Hts pos _ c' t Hsteps Hacc) as (H1 & H2 & H3).
    split; [exact H1|]. split; [exact H2|]. rewrite H3. exact Htr.
  Qed.
End LRSim.
