(* Proofs for Model/Determ.v (C16): the table rows, the conflict lists and the bytes of
   the saved table do not depend on the order in which Python iterates lookahead sets. *)
From Coq Require Import NArith PeanoNat List Bool Lia Permutation Sorted.
From PV Require Import Gen.Consts Model.StrTerm Model.Determ.
Import ListNotations.
Local Open Scope N_scope.

(* ------------------------------------------------------------------ *)
(* A. a stable sort whose comparator is a strict total order on the elements gives
      the same list for every permutation of its input                               *)
Section SortProofs.
  Context {X : Type} (before : X -> X -> bool).

  Definition strict_on (l : list X) : Prop :=
    (forall a b, In a l -> In b l -> before a b = true -> before b a = false) /\
    (forall a b c, In a l -> In b l -> In c l ->
                   before a b = true -> before b c = true -> before a c = true) /\
    (forall a b, In a l -> In b l -> a <> b -> before a b = true \/ before b a = true).

  Lemma strict_on_incl l l' : incl l' l -> strict_on l -> strict_on l'.
  Proof.
    intros Hi (Ha & Ht & Hc). repeat split.
    - intros a b Ia Ib. apply Ha; auto.
    - intros a b c Ia Ib Ic. apply Ht; auto.
    - intros a b Ia Ib. apply Hc; auto.
  Qed.

  Lemma insert_by_perm x l : Permutation (insert_by before x l) (x :: l).
  Proof.
    induction l as [|y r IH]; cbn; [apply Permutation_refl|].
    destruct (before y x).
    - eapply Permutation_trans; [apply perm_skip; exact IH|apply perm_swap].
    - apply Permutation_refl.
  Qed.

  Lemma sort_by_perm l : Permutation (sort_by before l) l.
  Proof.
    induction l as [|x r IH]; cbn; [constructor|].
    eapply Permutation_trans; [apply insert_by_perm|apply perm_skip; exact IH].
  Qed.

  Definition Rb (a b : X) : Prop := before a b = true.

  Lemma insert_sorted x l :
    strict_on (x :: l) -> ~ In x l -> StronglySorted Rb l ->
    StronglySorted Rb (insert_by before x l).
  Proof.
    induction l as [|y r IH]; intros Hs Hn Hl; cbn.
    - constructor; constructor.
    - inversion Hl as [|y' r' Hr Hy]; subst.
      destruct (before y x) eqn:Eyx.
      + constructor.
        * apply IH; auto.
          -- eapply strict_on_incl; [|exact Hs]. intros z [->|Hz]; [left; reflexivity|right; right; exact Hz].
          -- intros Hi. apply Hn. right. exact Hi.
        * apply Forall_forall. intros z Hz.
          apply (Permutation_in _ (insert_by_perm x r)) in Hz. destruct Hz as [<-|Hz].
          -- exact Eyx.
          -- rewrite Forall_forall in Hy. apply Hy. exact Hz.
      + destruct Hs as (Ha & Ht & Hc).
        assert (Hxy : before x y = true).
        { destruct (Hc x y) as [H|H]; [left; reflexivity|right; left; reflexivity| |exact H|congruence].
          intros ->. apply Hn. left. reflexivity. }
        constructor; [exact Hl|]. constructor; [exact Hxy|].
        apply Forall_forall. intros z Hz. rewrite Forall_forall in Hy.
        apply (Ht x y z); [left; reflexivity|right; left; reflexivity|right; right; exact Hz|exact Hxy|].
        apply Hy. exact Hz.
  Qed.

  Lemma sort_sorted l : NoDup l -> strict_on l -> StronglySorted Rb (sort_by before l).
  Proof.
    induction l as [|x r IH]; intros Hn Hs; cbn; [constructor|].
    inversion Hn as [|x' r' Hx Hr]; subst.
    assert (Hs' : strict_on r) by (eapply strict_on_incl; [|exact Hs]; intros z Hz; right; exact Hz).
    apply insert_sorted.
    - eapply strict_on_incl; [|exact Hs]. intros z [->|Hz]; [left; reflexivity|].
      right. eapply Permutation_in; [apply sort_by_perm|exact Hz].
    - intros Hi. apply Hx. eapply Permutation_in; [apply sort_by_perm|exact Hi].
    - apply IH; assumption.
  Qed.

  Lemma sorted_unique l1 : forall l2,
    (forall a b, In a l1 -> In b l1 -> before a b = true -> before b a = false) ->
    StronglySorted Rb l1 -> StronglySorted Rb l2 -> Permutation l1 l2 -> l1 = l2.
  Proof.
    induction l1 as [|a r1 IH]; intros l2 Ha S1 S2 P.
    - apply Permutation_nil in P. subst. reflexivity.
    - destruct l2 as [|b r2].
      + apply Permutation_sym, Permutation_nil in P. discriminate.
      + inversion S1 as [|a' r1' S1r F1]; subst. inversion S2 as [|b' r2' S2r F2]; subst.
        rewrite Forall_forall in F1, F2.
        assert (E : a = b).
        { assert (Ia : In a (b :: r2)) by (eapply Permutation_in; [exact P|left; reflexivity]).
          destruct Ia as [->|Ia]; [reflexivity|].
          assert (Ib : In b (a :: r1)) by (eapply Permutation_in; [apply Permutation_sym; exact P|left; reflexivity]).
          destruct Ib as [->|Ib]; [reflexivity|].
          pose proof (F2 _ Ia) as Hba. pose proof (F1 _ Ib) as Hab. unfold Rb in *.
          rewrite (Ha a b) in Hba; [discriminate|left; reflexivity|right; exact Ib|exact Hab]. }
        subst b. f_equal. apply IH; auto.
        * intros x y Hx Hy. apply Ha; right; assumption.
        * eapply Permutation_cons_inv. exact P.
  Qed.

  Theorem sort_by_perm_invariant l l' :
    NoDup l -> strict_on l -> Permutation l l' -> sort_by before l = sort_by before l'.
  Proof.
    intros Hn Hs P.
    assert (Hn' : NoDup l') by (eapply Permutation_NoDup; eassumption).
    assert (Hs' : strict_on l').
    { eapply strict_on_incl; [|exact Hs]. intros z Hz.
      eapply Permutation_in; [apply Permutation_sym; exact P|exact Hz]. }
    apply sorted_unique.
    - destruct Hs as (Ha & _ & _). intros a b Ia Ib. apply Ha.
      + eapply Permutation_in; [apply sort_by_perm|exact Ia].
      + eapply Permutation_in; [apply sort_by_perm|exact Ib].
    - apply sort_sorted; assumption.
    - apply sort_sorted; assumption.
    - eapply Permutation_trans; [apply sort_by_perm|].
      eapply Permutation_trans; [exact P|apply Permutation_sym, sort_by_perm].
  Qed.
End SortProofs.

(* ------------------------------------------------------------------ *)
(* B. the comparator of sort_state_actions is a strict order              *)
Lemma lex_irrefl a : lex_ltb a a = false.
Proof. induction a as [|x a IH]; cbn; [reflexivity|]. rewrite N.ltb_irrefl. exact IH. Qed.

Lemma lex_asym a : forall b, lex_ltb a b = true -> lex_ltb b a = false.
Proof.
  induction a as [|x a IH]; intros [|y b]; cbn; try discriminate; try reflexivity.
  destruct (N.ltb_spec x y), (N.ltb_spec y x); try lia; try discriminate; auto.
Qed.

Lemma lex_trans a : forall b c, lex_ltb a b = true -> lex_ltb b c = true -> lex_ltb a c = true.
Proof.
  induction a as [|x a IH]; intros [|y b] [|z c]; cbn; try discriminate; auto.
  destruct (N.ltb_spec x y), (N.ltb_spec y x), (N.ltb_spec y z), (N.ltb_spec z y),
    (N.ltb_spec x z), (N.ltb_spec z x); try lia; try discriminate; auto.
  apply IH.
Qed.

Lemma lex_app_same a : forall b s,
  length a = length b -> lex_ltb (a ++ s) (b ++ s) = lex_ltb a b.
Proof.
  induction a as [|x a IH]; intros [|y b] s Hl; cbn in *; try discriminate.
  - apply lex_irrefl.
  - destruct (x <? y); [reflexivity|]. destruct (y <? x); [reflexivity|].
    apply IH. lia.
Qed.

Lemma pad_to_length n s : (length s <= n)%nat -> length (pad_to n s) = n.
Proof. intros H. unfold pad_to. rewrite app_length, repeat_length. lia. Qed.

Lemma pad_to_more n m s :
  (length s <= n)%nat -> (n <= m)%nat -> pad_to m s = pad_to n s ++ repeat 32 (m - n).
Proof.
  intros H1 H2. unfold pad_to. rewrite <- app_assoc, <- repeat_app. do 2 f_equal. lia.
Qed.

Lemma pad_ltb_at m a b :
  (length a <= m)%nat -> (length b <= m)%nat ->
  pad_ltb a b = lex_ltb (pad_to m a) (pad_to m b).
Proof.
  intros Ha Hb. unfold pad_ltb.
  set (n := Nat.max (length a) (length b)).
  assert (Hna : (length a <= n)%nat) by (unfold n; lia).
  assert (Hnb : (length b <= n)%nat) by (unfold n; lia).
  assert (Hnm : (n <= m)%nat) by (unfold n; lia).
  rewrite (pad_to_more n m a), (pad_to_more n m b) by assumption.
  symmetry. apply lex_app_same. rewrite !pad_to_length by assumption. reflexivity.
Qed.

Lemma pad_asym a b : pad_ltb a b = true -> pad_ltb b a = false.
Proof.
  set (m := Nat.max (length a) (length b)).
  rewrite (pad_ltb_at m a b), (pad_ltb_at m b a) by (unfold m; lia).
  apply lex_asym.
Qed.

Lemma pad_trans a b c : pad_ltb a b = true -> pad_ltb b c = true -> pad_ltb a c = true.
Proof.
  set (m := Nat.max (length a) (Nat.max (length b) (length c))).
  rewrite (pad_ltb_at m a b), (pad_ltb_at m b c), (pad_ltb_at m a c) by (unfold m; lia).
  apply lex_trans.
Qed.

Lemma act_before_iff a b :
  act_before a b = true <->
  (act_key b < act_key a \/ (act_key a = act_key b /\ pad_ltb (at_fqn b) (at_fqn a) = true)).
Proof.
  unfold act_before. rewrite orb_true_iff, andb_true_iff, N.ltb_lt, N.eqb_eq. tauto.
Qed.

Lemma act_before_asym a b : act_before a b = true -> act_before b a = false.
Proof.
  intros H. apply act_before_iff in H.
  destruct (act_before b a) eqn:E; [|reflexivity].
  apply act_before_iff in E.
  destruct H as [H|[H1 H2]], E as [E|[E1 E2]]; try lia.
  apply pad_asym in H2. congruence.
Qed.

Lemma act_before_trans a b c :
  act_before a b = true -> act_before b c = true -> act_before a c = true.
Proof.
  intros H1 H2. apply act_before_iff in H1. apply act_before_iff in H2. apply act_before_iff.
  destruct H1 as [H1|[H1 P1]], H2 as [H2|[H2 P2]]; try (left; lia).
  right. split; [lia|]. eapply pad_trans; eassumption.
Qed.

(* ------------------------------------------------------------------ *)
(* C. rows: sorting the entries of a dict                                  *)
Definition ordered_on (c : dconf) (u : list N) : Prop :=
  forall a b, In a u -> In b u -> a <> b -> strictly_ordered c a b = true.

Lemma keys_distinct_ok c u : keys_distinct c u = true -> ordered_on c u.
Proof.
  unfold keys_distinct, ordered_on. intros H a b Ia Ib Hab.
  rewrite forallb_forall in H. specialize (H a Ia). rewrite forallb_forall in H.
  specialize (H b Ib). apply orb_true_iff in H. destruct H as [H|H]; [|exact H].
  apply N.eqb_eq in H. contradiction.
Qed.

Lemma ordered_on_incl c u u' : incl u' u -> ordered_on c u -> ordered_on c u'.
Proof. intros Hi H a b Ia Ib. apply H; auto. Qed.

Lemma nodup_keys_inj {V} (d : dict V) a b :
  NoDup (keys d) -> In a d -> In b d -> fst a = fst b -> a = b.
Proof.
  induction d as [|e r IH]; intros Hn Ha Hb E; [destruct Ha|].
  cbn in Hn. inversion Hn as [|k ks Hk Hr]; subst.
  destruct Ha as [->|Ha], Hb as [->|Hb]; auto.
  - exfalso. apply Hk. rewrite E. apply in_map. exact Hb.
  - exfalso. apply Hk. rewrite <- E. apply in_map. exact Ha.
Qed.

Lemma entry_strict c (d : dict (list act)) :
  NoDup (keys d) -> ordered_on c (keys d) -> strict_on (entry_before c) d.
Proof.
  intros Hn Ho. repeat split.
  - intros a b _ _. apply act_before_asym.
  - intros a b x _ _ _. apply act_before_trans.
  - intros a b Ia Ib Hab. unfold entry_before.
    assert (Hk : fst a <> fst b).
    { intros E. apply Hab. eapply nodup_keys_inj; eassumption. }
    specialize (Ho (fst a) (fst b) (in_map fst _ _ Ia) (in_map fst _ _ Ib) Hk).
    unfold strictly_ordered in Ho. apply orb_true_iff in Ho. exact Ho.
Qed.

Theorem sort_actions_perm c (d d' : dict (list act)) :
  NoDup (keys d) -> ordered_on c (keys d) -> Permutation d d' ->
  sort_actions c d = sort_actions c d'.
Proof.
  intros Hn Ho P. unfold sort_actions. apply sort_by_perm_invariant; [|apply entry_strict; assumption|exact P].
  eapply NoDup_map_inv. exact Hn.
Qed.

(* ------------------------------------------------------------------ *)
(* D. insertion-ordered dicts                                              *)
Lemma dget_app {V} k t (v : V) d :
  dget k (d ++ [(t, v)]) =
  match dget k d with Some x => Some x | None => if k =? t then Some v else None end.
Proof.
  induction d as [|[k' v'] r IH]; cbn; [reflexivity|].
  destruct (k =? k'); [reflexivity|exact IH].
Qed.

Lemma dget_dupd {V} k t (v : V) d :
  dget k (dupd t v d) =
  if k =? t then match dget t d with Some _ => Some v | None => None end else dget k d.
Proof.
  induction d as [|[k' v'] r IH]; cbn; [destruct (k =? t); reflexivity|].
  destruct (t =? k') eqn:Etk; cbn.
  - apply N.eqb_eq in Etk. subst k'. destruct (k =? t); reflexivity.
  - destruct (k =? k') eqn:Ekk.
    + apply N.eqb_eq in Ekk. subst k'. rewrite (N.eqb_sym k t), Etk. reflexivity.
    + exact IH.
Qed.

Lemma keys_dupd {V} t (v : V) d : keys (dupd t v d) = keys d.
Proof.
  induction d as [|[k' v'] r IH]; cbn; [reflexivity|].
  destruct (t =? k') eqn:E; cbn; [apply N.eqb_eq in E; subst; reflexivity|].
  f_equal. exact IH.
Qed.

Lemma dget_none_keys {V} k (d : dict V) : dget k d = None <-> ~ In k (keys d).
Proof.
  induction d as [|[k' v'] r IH]; cbn; [tauto|].
  destruct (N.eqb_spec k k') as [->|Hne].
  - split; [discriminate|]. intros H. exfalso. apply H. left. reflexivity.
  - rewrite IH. split; [intros H [E|I]; [congruence|tauto]|tauto].
Qed.

Lemma in_dget {V} k (v : V) d : NoDup (keys d) -> (In (k, v) d <-> dget k d = Some v).
Proof.
  induction d as [|[k' v'] r IH]; cbn; intros Hn; [split; [tauto|discriminate]|].
  inversion Hn as [|x xs Hk Hr]; subst.
  destruct (N.eqb_spec k k') as [->|Hne].
  - split.
    + intros [E|I]; [congruence|]. exfalso. apply Hk. apply (in_map fst) in I. exact I.
    + intros E. left. congruence.
  - rewrite <- (IH Hr). split; [intros [E|I]; [congruence|exact I]|tauto].
Qed.

(* same contents, possibly different insertion order *)
Definition deq {V} (d d' : dict V) : Prop :=
  NoDup (keys d) /\ NoDup (keys d') /\ forall k, dget k d = dget k d'.

Lemma deq_perm {V} (d d' : dict V) : deq d d' -> Permutation d d'.
Proof.
  intros (Hn & Hn' & H). apply NoDup_Permutation.
  - eapply NoDup_map_inv. exact Hn.
  - eapply NoDup_map_inv. exact Hn'.
  - intros [k v]. rewrite (in_dget k v d Hn), (in_dget k v d' Hn'), H. tauto.
Qed.

(* ------------------------------------------------------------------ *)
(* E. the REDUCE phase                                                      *)
Section Reduce.
  Variables (c : dconf) (shp : N -> N).

  Definition cellfun (p t : N) (o : option (list act)) : list act :=
    match o with None => [AReduce p] | Some cell => cell_step c (shp t) p cell end.

  Lemma dget_visit p k d t :
    dget k (visit c shp p d t) = if k =? t then Some (cellfun p t (dget t d)) else dget k d.
  Proof.
    unfold visit. destruct (dget t d) eqn:E.
    - rewrite dget_dupd, E. reflexivity.
    - rewrite dget_app. destruct (N.eqb_spec k t) as [->|Hne].
      + rewrite E. reflexivity.
      + destruct (dget k d); reflexivity.
  Qed.

  Lemma keys_visit p d t :
    keys (visit c shp p d t) = if dget t d then keys d else keys d ++ [t].
  Proof.
    unfold visit. destruct (dget t d); [apply keys_dupd|]. unfold keys. rewrite map_app. reflexivity.
  Qed.

  Lemma nodup_visit p d t : NoDup (keys d) -> NoDup (keys (visit c shp p d t)).
  Proof.
    intros Hn. rewrite keys_visit. destruct (dget t d) eqn:E; [exact Hn|].
    apply dget_none_keys in E.
    eapply Permutation_NoDup; [apply Permutation_app_comm|]. cbn. constructor; assumption.
  Qed.

  Lemma nodup_fold p ts : forall d, NoDup (keys d) -> NoDup (keys (fold_left (visit c shp p) ts d)).
  Proof. induction ts as [|t r IH]; cbn; intros d Hn; [exact Hn|]. apply IH, nodup_visit, Hn. Qed.

  Lemma keys_fold_incl p ts : forall d k,
    In k (keys (fold_left (visit c shp p) ts d)) -> In k (keys d) \/ In k ts.
  Proof.
    induction ts as [|t r IH]; cbn; intros d k Hk; [left; exact Hk|].
    apply IH in Hk. destruct Hk as [Hk|Hk]; [|right; right; exact Hk].
    rewrite keys_visit in Hk. destruct (dget t d); [left; exact Hk|].
    apply in_app_or in Hk. destruct Hk as [Hk|[<-|[]]]; [left; exact Hk|right; left; reflexivity].
  Qed.

  Lemma existsb_notin k ts : ~ In k ts -> existsb (N.eqb k) ts = false.
  Proof.
    induction ts as [|t r IH]; cbn; intros H; [reflexivity|].
    destruct (N.eqb_spec k t) as [->|Hne]; [exfalso; apply H; left; reflexivity|].
    apply IH. intros Hi. apply H. right. exact Hi.
  Qed.

  Lemma existsb_perm {Y} (f : Y -> bool) l l' : Permutation l l' -> existsb f l = existsb f l'.
  Proof.
    induction 1; cbn; auto.
    - rewrite IHPermutation. reflexivity.
    - destruct (f x), (f y); reflexivity.
    - congruence.
  Qed.

  (* the cell of terminal k after one item has been processed depends only on the
     cell before and on whether k is in the item's lookahead set *)
  Lemma dget_fold p ts : forall d k,
    NoDup ts ->
    dget k (fold_left (visit c shp p) ts d) =
    if existsb (N.eqb k) ts then Some (cellfun p k (dget k d)) else dget k d.
  Proof.
    induction ts as [|t r IH]; cbn; intros d k Hn; [reflexivity|].
    inversion Hn as [|t' r' Ht Hr]; subst.
    rewrite (IH _ _ Hr), dget_visit.
    destruct (N.eqb_spec k t) as [->|Hne]; cbn.
    - rewrite (existsb_notin t r Ht). reflexivity.
    - reflexivity.
  Qed.

  Lemma deq_fold p ts ts' d d' :
    deq d d' -> NoDup ts -> Permutation ts ts' ->
    deq (fold_left (visit c shp p) ts d) (fold_left (visit c shp p) ts' d').
  Proof.
    intros (Hn & Hn' & H) Hts P. repeat split; try (apply nodup_fold; assumption).
    intros k. rewrite dget_fold by assumption.
    rewrite dget_fold by (eapply Permutation_NoDup; eassumption).
    rewrite (existsb_perm _ _ _ P), H. reflexivity.
  Qed.

  Definition item_rel (x y : (N * nat) * list N) : Prop :=
    fst x = fst y /\ NoDup (snd x) /\ Permutation (snd x) (snd y).

  Lemma deq_reduce_item x y d d' :
    deq d d' -> item_rel x y -> deq (reduce_item c shp d x) (reduce_item c shp d' y).
  Proof.
    intros H (E & Hn & P). unfold reduce_item. rewrite <- E.
    destruct (at_end c (fst x)); [|exact H]. apply deq_fold; assumption.
  Qed.

  Lemma deq_reduce_phase its its' : Forall2 item_rel its its' ->
    forall d d', deq d d' -> deq (reduce_phase c shp its d) (reduce_phase c shp its' d').
  Proof.
    induction 1 as [|x y l l' Hxy _ IH]; cbn; intros d d' H; [exact H|].
    apply IH. apply deq_reduce_item; assumption.
  Qed.

  Lemma keys_reduce_phase_incl its : forall d k,
    In k (keys (reduce_phase c shp its d)) ->
    In k (keys d) \/ exists x, In x its /\ In k (snd x).
  Proof.
    induction its as [|x r IH]; cbn; intros d k Hk; [left; exact Hk|].
    apply IH in Hk. destruct Hk as [Hk|(y & Hy & Hk)]; [|right; exists y; split; [right; exact Hy|exact Hk]].
    unfold reduce_item in Hk. destruct (at_end c (fst x)); [|left; exact Hk].
    apply keys_fold_incl in Hk. destruct Hk as [Hk|Hk]; [left; exact Hk|].
    right. exists x. split; [left; reflexivity|exact Hk].
  Qed.
End Reduce.

Lemma combine_rel (its : list (N * nat)) : forall f1 f2,
  Forall2 (@Permutation N) f1 f2 -> Forall (@NoDup N) f1 ->
  Forall2 item_rel (combine its f1) (combine its f2).
Proof.
  induction its as [|it r IH]; intros f1 f2 H2 Hn; cbn; [constructor|].
  destruct H2 as [|a b l l' Hab Hl]; [constructor|].
  inversion Hn as [|a' l'' Ha Hl']; subst.
  constructor; [|apply IH; assumption].
  repeat split; assumption.
Qed.

Lemma nodup_actions0_from c sc its : forall d,
  NoDup (keys d) -> NoDup (keys (actions0_from c sc its d)).
Proof.
  induction its as [|it r IH]; cbn; intros d Hn; [exact Hn|].
  apply IH. destruct (sym_at c it) as [[t|a]|]; try exact Hn.
  destruct (dget t d) eqn:E; [exact Hn|].
  apply dget_none_keys in E. unfold keys. rewrite map_app.
  eapply Permutation_NoDup; [apply Permutation_app_comm|]. cbn. constructor; assumption.
Qed.

Lemma deq_refl {V} (d : dict V) : NoDup (keys d) -> deq d d.
Proof. intros H. repeat split; auto. Qed.

(* ------------------------------------------------------------------ *)
(* F. states and tables                                                     *)
Theorem build_state_order_indep c sc f1 f2 :
  Forall2 (@Permutation N) f1 f2 -> Forall (@NoDup N) f1 ->
  ordered_on c (row_terms c sc f1) ->
  build_state c sc f1 = build_state c sc f2.
Proof.
  intros HP Hn Ho. unfold build_state.
  set (d1 := reduce_phase c (shprior c sc) (combine (sc_items sc) f1) (actions0 c sc)).
  set (d2 := reduce_phase c (shprior c sc) (combine (sc_items sc) f2) (actions0 c sc)).
  assert (Hd : deq d1 d2).
  { apply deq_reduce_phase; [apply combine_rel; assumption|].
    apply deq_refl. apply nodup_actions0_from. constructor. }
  assert (Hs : sort_actions c d1 = sort_actions c d2).
  { apply sort_actions_perm; [exact (proj1 Hd)| |apply deq_perm; exact Hd].
    eapply ordered_on_incl; [|exact Ho]. intros k Hk. unfold row_terms.
    apply keys_reduce_phase_incl in Hk. apply in_or_app.
    destruct Hk as [Hk|(x & Hx & Hk)]; [left; exact Hk|right].
    apply in_concat. exists (snd x). split; [|exact Hk].
    destruct x as [it f]. eapply in_combine_r. exact Hx. }
  rewrite Hs. reflexivity.
Qed.

Definition tin_rel (x y : score * list (list N)) : Prop :=
  fst x = fst y /\ Forall2 (@Permutation N) (snd x) (snd y).
Definition tin_ok (c : dconf) (x : score * list (list N)) : Prop :=
  Forall (@NoDup N) (snd x) /\ ordered_on c (row_terms c (fst x) (snd x)).

Theorem build_table_order_indep c t1 t2 :
  Forall2 tin_rel t1 t2 -> Forall (tin_ok c) t1 -> build_table c t1 = build_table c t2.
Proof.
  induction 1 as [|x y l l' (E & HP) _ IH]; intros Hok; cbn; [reflexivity|].
  inversion Hok as [|x' l'' (Hn & Ho) Hl]; subst.
  f_equal; [|apply IH; exact Hl].
  rewrite <- E. apply build_state_order_indep; assumption.
Qed.

Definition perm_oracle (ord : oracle) : Prop := forall i j l, Permutation (ord i j l) l.

Lemma mapi_perm (f : nat -> list N -> list N) :
  (forall j l, Permutation (f j l) l) ->
  forall fs n, Forall2 (@Permutation N) fs (mapi_from f n fs).
Proof.
  intros Hf. induction fs as [|x r IH]; intros n; cbn; constructor; [|apply IH].
  apply Permutation_sym, Hf.
Qed.

Lemma apply_oracle_rel ord : perm_oracle ord ->
  forall tin n, Forall2 tin_rel tin
    (mapi_from (fun i x => (fst x, mapi_from (ord i) 0%nat (snd x))) n tin).
Proof.
  intros Ho. induction tin as [|x r IH]; intros n; cbn; constructor; [|apply IH].
  split; [reflexivity|]. cbn. apply mapi_perm. intros j l. apply Ho.
Qed.

Theorem table_oracle_indep c tin ord1 ord2 :
  perm_oracle ord1 -> perm_oracle ord2 -> Forall (tin_ok c) tin ->
  build_table c (apply_oracle ord1 tin) = build_table c (apply_oracle ord2 tin).
Proof.
  intros H1 H2 Hok. unfold apply_oracle.
  rewrite <- (build_table_order_indep c tin _ (apply_oracle_rel ord1 H1 tin 0%nat) Hok).
  rewrite <- (build_table_order_indep c tin _ (apply_oracle_rel ord2 H2 tin 0%nat) Hok).
  reflexivity.
Qed.

Theorem observables_oracle_indep c tin ord1 ord2 :
  perm_oracle ord1 -> perm_oracle ord2 -> Forall (tin_ok c) tin ->
  let t1 := build_table c (apply_oracle ord1 tin) in
  let t2 := build_table c (apply_oracle ord2 tin) in
  t1 = t2 /\ table_bytes c t1 = table_bytes c t2 /\
  sr_conflicts t1 = sr_conflicts t2 /\ rr_conflicts c t1 = rr_conflicts c t2.
Proof.
  intros H1 H2 Hok t1 t2.
  assert (E : t1 = t2) by (apply table_oracle_indep; assumption).
  rewrite E. repeat split; reflexivity.
Qed.

(* the check that is run on the impl's data implies the hypothesis *)
Lemma nodup_len_NoDup (l : list N) :
  Nat.eqb (length (nodup N.eq_dec l)) (length l) = true -> NoDup l.
Proof.
  intros H. apply Nat.eqb_eq in H.
  induction l as [|x r IH]; [constructor|].
  cbn in H. destruct (in_dec N.eq_dec x r) as [Hi|Hi].
  - exfalso. pose proof (NoDup_incl_length (NoDup_nodup N.eq_dec r)
                                            (fun a Ha => proj1 (nodup_In N.eq_dec r a) Ha)).
    cbn in H. lia.
  - cbn in H. constructor; [exact Hi|]. apply IH. lia.
Qed.

Lemma tin_okb_ok c x : tin_okb c x = true -> tin_ok c x.
Proof.
  unfold tin_okb, tin_ok. intros H. apply andb_true_iff in H as [Hn Hk]. split.
  - apply Forall_forall. intros l Hl. rewrite forallb_forall in Hn. apply nodup_len_NoDup, Hn, Hl.
  - apply keys_distinct_ok, Hk.
Qed.

(* the saved bytes and the conflict lists read nothing but the four components of
   the states *)
Lemma bytes_function_of_table c (t1 t2 : list sout) :
  map so_symname t1 = map so_symname t2 -> map so_actions t1 = map so_actions t2 ->
  map so_gotos t1 = map so_gotos t2 -> map so_finish t1 = map so_finish t2 ->
  table_bytes c t1 = table_bytes c t2 /\ sr_conflicts t1 = sr_conflicts t2 /\
  rr_conflicts c t1 = rr_conflicts c t2.
Proof.
  intros H1 H2 H3 H4.
  assert (E : t1 = t2).
  { revert t2 H1 H2 H3 H4. induction t1 as [|[a b g f] r IH]; intros [|[a' b' g' f'] r'] H1 H2 H3 H4;
      cbn in *; try discriminate; [reflexivity|].
    injection H1 as -> H1. injection H2 as -> H2. injection H3 as -> H3. injection H4 as -> H4.
    f_equal. apply IH; assumption. }
  rewrite E. repeat split; reflexivity.
Qed.

(* ------------------------------------------------------------------ *)
(* G. presentable forms                                                     *)
Theorem reduce_phase_order_indep c shp its its' d :
  Forall2 item_rel its its' -> NoDup (keys d) ->
  (forall k, dget k (reduce_phase c shp its d) = dget k (reduce_phase c shp its' d)) /\
  Permutation (reduce_phase c shp its d) (reduce_phase c shp its' d).
Proof.
  intros H Hn.
  pose proof (deq_reduce_phase c shp its its' H d d (deq_refl d Hn)) as Hd.
  split; [exact (proj2 (proj2 Hd))|apply deq_perm; exact Hd].
Qed.

Theorem observables_oracle_indep_b c tin ord1 ord2 :
  perm_oracle ord1 -> perm_oracle ord2 -> forallb (tin_okb c) tin = true ->
  let t1 := build_table c (apply_oracle ord1 tin) in
  let t2 := build_table c (apply_oracle ord2 tin) in
  t1 = t2 /\ table_bytes c t1 = table_bytes c t2 /\
  sr_conflicts t1 = sr_conflicts t2 /\ rr_conflicts c t1 = rr_conflicts c t2.
Proof.
  intros H1 H2 Hb. apply observables_oracle_indep; try assumption.
  apply Forall_forall. intros x Hx. rewrite forallb_forall in Hb. apply tin_okb_ok, Hb, Hx.
Qed.

Lemma rev_oracle_perm : perm_oracle (fun _ _ l => rev l).
Proof. intros i j l. apply Permutation_sym, Permutation_rev. Qed.
Lemma id_oracle_perm : perm_oracle (fun _ _ l => l).
Proof. intros i j l. apply Permutation_refl. Qed.

Theorem sort_actions_perm_b (c : dconf) (d d' : dict (list act)) :
  NoDup (keys d) -> keys_distinct c (keys d) = true -> Permutation d d' ->
  sort_actions c d = sort_actions c d'.
Proof.
  intros Hn Hk. apply sort_actions_perm; [exact Hn|apply keys_distinct_ok; exact Hk].
Qed.

(* ------------------------------------------------------------------ *)
(* H. witnesses (vm_compute)                                                *)
(* two regex terminals of equal priority named "a" and "a " *)
Definition c_collide : dconf :=
  mkDC [mkPI [DN 1; DT 9] 10 0 false false; mkPI [DT 8] 10 0 false false]
       [mkA [97] 10 (FRegex 0) 1 None; mkA [97; 32] 10 (FRegex 1) 1 None]
       [[83; 39]; [83]] 9 false false true.

Lemma sort_needs_distinct_keys :
  exists (c : dconf) (d d' : dict (list act)),
    NoDup (keys d) /\ Permutation d d' /\ keys_distinct c (keys d) = false /\
    sort_actions c d <> sort_actions c d'.
Proof.
  exists c_collide, [(0, [AReduce 1]); (1, [AReduce 1])], [(1, [AReduce 1]); (0, [AReduce 1])].
  split; [repeat constructor; cbn; intuition discriminate|].
  split; [apply perm_swap|]. split; [vm_compute; reflexivity|vm_compute; discriminate].
Qed.

(* S' -> S STOP; S -> A 'x' | A 'y'; A -> 'q'.  Terminals 0 STOP, 1 'x', 2 'y', 3 'q'.
   State 2 (after 'q') holds the item A -> 'q' . with lookahead {x, y}. *)
Definition c_ex : dconf :=
  mkDC [mkPI [DN 1; DT 0] 10 0 false false; mkPI [DN 2; DT 1] 10 0 false false;
        mkPI [DN 2; DT 2] 10 0 false false; mkPI [DT 3] 10 0 false false]
       [mkA [83; 84; 79; 80] 10 (FRegex 0) 0 None; mkA [120] 10 (FStr [120]) 0 None;
        mkA [121] 10 (FStr [121]) 0 None; mkA [113] 10 (FStr [113]) 0 None]
       [[83; 39]; [83]; [65]] 0 false false true.
Definition tin_ex : list (score * list (list N)) :=
  [(mkSC [83; 39] [(0, 0%nat); (1, 0%nat); (2, 0%nat); (3, 0%nat)] [(3, 2)] [(1, 1); (2, 3)],
    [[]; []; []; [1; 2]]);
   (mkSC [83] [(0, 1%nat)] [] [], [[]]);
   (mkSC [113] [(3, 1%nat)] [] [], [[1; 2]]);
   (mkSC [65] [(1, 1%nat); (2, 1%nat)] [(1, 4); (2, 5)] [], [[0]; [0]]);
   (mkSC [120] [(1, 2%nat)] [] [], [[0]]);
   (mkSC [121] [(2, 2%nat)] [] [], [[0]])].

Lemma unsorted_rows_depend_on_order :
  exists (c : dconf) (shp : N -> N) (its its' : list ((N * nat) * list N)),
    Forall2 item_rel its its' /\
    reduce_phase c shp its [] <> reduce_phase c shp its' [] /\
    sort_actions c (reduce_phase c shp its []) = sort_actions c (reduce_phase c shp its' []).
Proof.
  exists c_ex, (fun _ => 10), [((3, 1%nat), [1; 2])], [((3, 1%nat), [2; 1])].
  split.
  - constructor; [|constructor]. split; [reflexivity|]. split; [|apply perm_swap].
    repeat constructor; cbn; intuition discriminate.
  - split; [vm_compute; discriminate|vm_compute; reflexivity].
Qed.

Lemma nonvacuous :
  forallb (tin_okb c_ex) tin_ex = true /\
  perm_oracle (fun _ _ l => l) /\ perm_oracle (fun _ _ l => rev l) /\
  apply_oracle (fun _ _ l => l) tin_ex <> apply_oracle (fun _ _ l => rev l) tin_ex /\
  map so_actions (build_table c_ex (apply_oracle (fun _ _ l => rev l) tin_ex)) =
    [[(3, [AShift 2])]; [(0, [AAccept])]; [(2, [AReduce 3]); (1, [AReduce 3])];
     [(2, [AShift 5]); (1, [AShift 4])]; [(0, [AReduce 1])]; [(0, [AReduce 2])]].
Proof.
  split; [vm_compute; reflexivity|]. split; [exact id_oracle_perm|]. split; [exact rev_oracle_perm|].
  split; [vm_compute; discriminate|vm_compute; reflexivity].
Qed.
