(* Concrete witnesses for C07: where the faithful model leaves the documented order, and a
   non-vacuity instance of the positive theorem. *)
From Coq Require Import NArith List Bool Lia Sorting.Sorted.
From PV Require Import Spec.LexOrder Model.Table Model.Scan Model.StrTerm Model.LexCell
  Proofs.LexProofs.
Import ListNotations.
Local Open Scope N_scope.

Definition all_hyps_but_length terms rx pos (acts : list (N * list action)) cell : Prop :=
  map fst acts = map c_id cell /\ terms_agree terms cell /\ sorted_by_impl cell /\
  unmarked cell /\ rx_nonempty rx pos cell /\ str_len_ok rx pos cell /\ no_str_tie rx pos cell.

Definition all_hyps_but_tie terms rx pos (acts : list (N * list action)) cell : Prop :=
  map fst acts = map c_id cell /\ terms_agree terms cell /\ sorted_by_impl cell /\
  short_texts cell /\ unmarked cell /\ rx_nonempty rx pos cell /\ str_len_ok rx pos cell.

(* --- the sort key carries: a 1001-character string terminal of priority 10 is tried before
       (and, being a string, shadows) a regex of priority 11 --------------------------------- *)
Definition w_long : aterm := mkA [65] 10 (FStr (repeat 97 1001)) 0 None.
Definition w_re11 : aterm := mkA [66] 11 (FRegex 0) 0 None.
Definition w_cell1 : list cterm := [mkC 0 w_long false; mkC 1 w_re11 false].
Definition w_terms1 : list term_info := [mkTerm 10 false; mkTerm 11 false].
Definition w_acts1 : list (N * list action) := [(0, [Shift 1%nat]); (1, [Shift 2%nat])].
Definition w_rx1 : N -> N -> option N := fun _ _ => Some 1001.

Lemma sortkey_witness :
  all_hyps_but_length w_terms1 w_rx1 0 w_acts1 w_cell1 /\
  lexical_disambiguation w_terms1 (recognize w_terms1 w_rx1 w_acts1 (impl_flags w_cell1) 0 None [])
    = [(0, 1001)] /\
  doc_choice w_rx1 0 (map to_lterm w_cell1) = [(1, 1001)].
Proof.
  split; [|split; vm_compute; reflexivity].
  unfold all_hyps_but_length.
  split; [vm_compute; reflexivity|].
  split; [intros c [H|[H|[]]]; subst c; vm_compute; split; reflexivity|].
  split; [exists [w_re11; w_long]; vm_compute; reflexivity|].
  split; [repeat constructor|].
  split; [intros c n _ H; unfold w_rx1 in H; injection H as <-; lia|].
  split.
  - intros c n [H|[H|[]]] Hs Hr; subst c.
    + unfold w_rx1 in Hr. injection Hr as <-. vm_compute. reflexivity.
    + vm_compute in Hs. discriminate.
  - unfold no_str_tie. constructor; [|constructor; [constructor|constructor]].
    constructor; [|constructor]. intros [_ [H _]]. vm_compute in H. discriminate.
Qed.

(* --- two string terminals matching with the same length (ignore_case: 'ab' and 'AB'): the
       scanner silently takes the one whose name sorts last; the documented order leaves both
       (DisambiguationError) --------------------------------------------------------------- *)
Definition w_ab : aterm := mkA [65] 10 (FStr [97; 98]) 0 None.
Definition w_AB : aterm := mkA [66] 10 (FStr [65; 66]) 0 None.
Definition w_cell2 : list cterm := [mkC 1 w_AB false; mkC 0 w_ab false].
Definition w_terms2 : list term_info := [mkTerm 10 false; mkTerm 10 false].
Definition w_acts2 : list (N * list action) := [(1, [Shift 2%nat]); (0, [Shift 1%nat])].
Definition w_rx2 : N -> N -> option N := fun _ _ => Some 2.

Lemma tie_witness :
  all_hyps_but_tie w_terms2 w_rx2 0 w_acts2 w_cell2 /\
  lexical_disambiguation w_terms2 (recognize w_terms2 w_rx2 w_acts2 (impl_flags w_cell2) 0 None [])
    = [(1, 2)] /\
  doc_choice w_rx2 0 (map to_lterm w_cell2) = [(1, 2); (0, 2)].
Proof.
  split; [|split; vm_compute; reflexivity].
  unfold all_hyps_but_tie.
  split; [vm_compute; reflexivity|].
  split; [intros c [H|[H|[]]]; subst c; vm_compute; split; reflexivity|].
  split; [exists [w_ab; w_AB]; vm_compute; reflexivity|].
  split; [repeat constructor|].
  split; [repeat constructor|].
  split; [intros c n _ H; unfold w_rx2 in H; injection H as <-; lia|].
  intros c n [H|[H|[]]] Hs Hr; subst c; unfold w_rx2 in Hr; injection Hr as <-;
    vm_compute; reflexivity.
Qed.

(* --- non-vacuity: keyword-like string 'if', identifier regex, number regex {prefer}, STOP --- *)
Definition v_if : aterm := mkA [105; 102] 10 (FStr [105; 102]) 0 None.
Definition v_id : aterm := mkA [73; 68] 10 (FRegex 0) 0 None.
Definition v_num : aterm := mkA [78] 10 (FRegex 1) 0 None.
Definition v_stop : aterm := mkA [83; 84; 79; 80] 10 (FRegex 2) 0 None.
Definition v_cell : list cterm :=
  [mkC 0 v_if false; mkC 3 v_stop false; mkC 2 v_num true; mkC 1 v_id false].
Definition v_terms : list term_info :=
  [mkTerm 10 false; mkTerm 10 false; mkTerm 10 true; mkTerm 10 false].
Definition v_state : state :=
  mkState (NT 0) [(0, [Shift 1%nat]); (3, [Accept]); (2, [Shift 2%nat]); (1, [Shift 3%nat])] []
          (impl_flags v_cell) [].
(* input "if1": 'if' matches 2, the identifier regex 3, the number regex nothing *)
Definition v_rx : N -> N -> option N :=
  fun t p => if p =? 0 then (if t =? 0 then Some 2 else if t =? 1 then Some 3 else None) else None.

Lemma nonvacuous_witness :
  cell_of_state v_state v_cell /\ st_finish v_state = impl_flags v_cell /\
  terms_agree v_terms v_cell /\ sorted_by_impl v_cell /\ short_texts v_cell /\ unmarked v_cell /\
  rx_nonempty v_rx 0 v_cell /\ str_len_ok v_rx 0 v_cell /\ no_str_tie v_rx 0 v_cell /\
  next_tokens v_terms v_rx 3 3 false true v_state 0 = [(0, 2)] /\
  doc_choice v_rx 0 (map to_lterm v_cell) = [(0, 2)].
Proof.
  split; [vm_compute; reflexivity|].
  split; [reflexivity|].
  split; [intros c [H|[H|[H|[H|[]]]]]; subst c; vm_compute; split; reflexivity|].
  split; [exists [v_id; v_num; v_stop; v_if]; vm_compute; reflexivity|].
  split; [repeat constructor|].
  split; [repeat constructor|].
  split.
  { intros c n [H|[H|[H|[H|[]]]]] Hr; subst c; vm_compute in Hr; try discriminate;
      injection Hr as <-; lia. }
  split.
  { intros c n [H|[H|[H|[H|[]]]]] Hs Hr; subst c; vm_compute in Hs; try discriminate.
    vm_compute in Hr. injection Hr as <-. vm_compute. reflexivity. }
  split.
  { unfold no_str_tie.
    repeat (constructor; try (intros [H1 [H2 _]]; vm_compute in H1, H2; discriminate)). }
  split; vm_compute; reflexivity.
Qed.
