(* Proofs for property C15 (Model/Reuse.v). *)
From Coq Require Import NArith List Bool Lia.
From PV Require Import Spec.Cfg Model.Table Model.LRDriver Model.Scan Model.Parser Model.Reuse.
Import ListNotations.
Local Open Scope N_scope.

(* ------------------------------------------------------------------------- *)
(* FIRST of every symbol other than S' does not depend on productions[0].rhs   *)

Definition agree (P : N -> Prop) (f f' : ftab) : Prop := forall b, P b -> f b = f' b.
Definition rhs_in (P : N -> Prop) (r : list sym) : Prop := forall b, In (NT b) r -> P b.

Lemma agree_sym P f f' : agree P f f' -> agree P f' f.
Proof. intros H b Hb. symmetry. apply H. exact Hb. Qed.

Lemma agree_trans P f g h : agree P f g -> agree P g h -> agree P f h.
Proof. intros H1 H2 b Hb. rewrite (H1 b Hb). apply H2. exact Hb. Qed.

Lemma upd_agree P f f' a v : agree P f f' -> agree P (upd f a v) (upd f' a v).
Proof. intros H b Hb. unfold upd. destruct (b =? a); [reflexivity|apply H; exact Hb]. Qed.

Section First.
  Variable e : N.

  Lemma walk_agree (P : N -> Prop) a : P a -> forall r ft ft',
    rhs_in P r -> agree P ft ft' ->
    agree P (fst (walk e ft a r)) (fst (walk e ft' a r)) /\
    snd (walk e ft a r) = snd (walk e ft' a r).
  Proof.
    intros Pa. induction r as [|x r IH]; intros ft ft' Hr Hag; cbn [walk].
    - rewrite <- (Hag a Pa). destruct (memN e (ft a)); cbn; [auto|].
      split; [apply upd_agree; exact Hag|reflexivity].
    - assert (Hfx : first_of ft x = first_of ft' x).
      { destruct x as [t|b]; cbn; [reflexivity|]. apply Hag. apply Hr. left. reflexivity. }
      rewrite <- Hfx, <- (Hag a Pa).
      set (new := fresh_in e (ft a) (first_of ft x)).
      assert (Hag1 : agree P (if negb (is_nil new) then upd ft a (ft a ++ new) else ft)
                             (if negb (is_nil new) then upd ft' a (ft a ++ new) else ft')).
      { destruct (negb (is_nil new)); [apply upd_agree; exact Hag|exact Hag]. }
      destruct (memN e (first_of ft x)).
      + assert (Hr' : rhs_in P r) by (intros b Hb; apply Hr; right; exact Hb).
        destruct (IH _ _ Hr' Hag1) as [H1 H2].
        destruct (walk e (if negb (is_nil new) then upd ft a (ft a ++ new) else ft) a r) as [u c].
        destruct (walk e (if negb (is_nil new) then upd ft' a (ft a ++ new) else ft') a r) as [u' c'].
        cbn in *. subst c'. split; [exact H1|reflexivity].
      + cbn. split; [exact Hag1|reflexivity].
  Qed.

  Lemma walk_only_lhs a : forall r ft b, b <> a -> fst (walk e ft a r) b = ft b.
  Proof.
    induction r as [|x r IH]; intros ft b Hb; cbn [walk].
    - destruct (memN e (ft a)); cbn; [reflexivity|]. unfold upd.
      destruct (b =? a) eqn:E; [apply N.eqb_eq in E; contradiction|reflexivity].
    - set (new := fresh_in e (ft a) (first_of ft x)).
      assert (H1 : (if negb (is_nil new) then upd ft a (ft a ++ new) else ft) b = ft b).
      { destruct (negb (is_nil new)); [|reflexivity]. unfold upd.
        destruct (b =? a) eqn:E; [apply N.eqb_eq in E; contradiction|reflexivity]. }
      destruct (memN e (first_of ft x)).
      + specialize (IH (if negb (is_nil new) then upd ft a (ft a ++ new) else ft) b Hb).
        destruct (walk e (if negb (is_nil new) then upd ft a (ft a ++ new) else ft) a r) as [u c].
        cbn in *. rewrite IH. exact H1.
      + cbn. exact H1.
  Qed.

  Lemma walk_nochange a : forall r ft,
    snd (walk e ft a r) = false -> forall b, fst (walk e ft a r) b = ft b.
  Proof.
    induction r as [|x r IH]; intros ft Hs b; cbn [walk] in *.
    - destruct (memN e (ft a)); cbn in *; [reflexivity|discriminate].
    - set (new := fresh_in e (ft a) (first_of ft x)) in *.
      destruct (memN e (first_of ft x)).
      + specialize (IH (if negb (is_nil new) then upd ft a (ft a ++ new) else ft)).
        destruct (walk e (if negb (is_nil new) then upd ft a (ft a ++ new) else ft) a r) as [u c].
        cbn in *. apply orb_false_iff in Hs. destruct Hs as [Hn Hc]. subst c.
        rewrite (IH eq_refl b). rewrite Hn. reflexivity.
      + cbn in *. rewrite Hs. reflexivity.
  Qed.

  (* two grammars that differ only in the right-hand side of production 0, whose
     left-hand side [a0] occurs in no other production *)
  Variable a0 : N.
  Variable rest : list prod.
  Hypothesis Hrest : forall p, In p rest -> lhs p <> a0 /\ rhs_in (fun b => b <> a0) (rhs p).

  Let P := fun b : N => b <> a0.

  Lemma round_rest_agree : forall ps, (forall p, In p ps -> In p rest) ->
    forall ft ft' ch ch', agree P ft ft' ->
    agree P (fst (first_round e ps ft ch)) (fst (first_round e ps ft' ch')) /\
    exists c, snd (first_round e ps ft ch) = ch || c /\ snd (first_round e ps ft' ch') = ch' || c.
  Proof.
    induction ps as [|p ps IH]; intros Hin ft ft' ch ch' Hag; cbn [first_round].
    - split; [exact Hag|]. exists false. rewrite !orb_false_r. auto.
    - destruct (Hrest p (Hin p (or_introl eq_refl))) as [Hl Hr].
      destruct (walk_agree P (lhs p) Hl (rhs p) ft ft' Hr Hag) as [H1 H2].
      destruct (walk e ft (lhs p) (rhs p)) as [u c]. destruct (walk e ft' (lhs p) (rhs p)) as [u' c'].
      cbn in *. subst c'.
      destruct (IH (fun q Hq => Hin q (or_intror Hq)) u u' (ch || c) (ch' || c) H1) as [H3 [d [H4 H5]]].
      split; [exact H3|]. exists (c || d). rewrite H4, H5, !orb_assoc. auto.
  Qed.

  Lemma round_agree r0 r0' ft ft' : agree P ft ft' ->
    agree P (fst (first_round e (mkProd a0 r0 :: rest) ft false))
            (fst (first_round e (mkProd a0 r0' :: rest) ft' false)).
  Proof.
    intros Hag. cbn [first_round lhs rhs].
    assert (H1 : agree P (fst (walk e ft a0 r0)) (fst (walk e ft' a0 r0'))).
    { intros b Hb. rewrite !walk_only_lhs by exact Hb. apply Hag. exact Hb. }
    destruct (walk e ft a0 r0) as [u c]. destruct (walk e ft' a0 r0') as [u' c']. cbn in H1.
    apply (round_rest_agree rest (fun p Hp => Hp) u u' (false || c) (false || c') H1).
  Qed.

  Lemma round_nochange : forall ps ft ch,
    snd (first_round e ps ft ch) = false -> ch = false /\ forall b, fst (first_round e ps ft ch) b = ft b.
  Proof.
    induction ps as [|p ps IH]; intros ft ch Hs; cbn [first_round] in *.
    - cbn in Hs. auto.
    - pose proof (walk_nochange (lhs p) (rhs p) ft) as Hw.
      destruct (walk e ft (lhs p) (rhs p)) as [u c]. cbn in Hw.
      destruct (IH u (ch || c) Hs) as [Hc Hb]. apply orb_false_iff in Hc. destruct Hc as [-> ->].
      split; [reflexivity|]. intros b. rewrite Hb. apply Hw. reflexivity.
  Qed.

  Lemma iter_stable r0 r0' : forall n x y r,
    agree P x y ->
    snd (first_round e (mkProd a0 r0' :: rest) y false) = false ->
    first_iter e n (mkProd a0 r0 :: rest) x = Some r ->
    agree P r y.
  Proof.
    induction n as [|n IH]; intros x y r Hag Hy Hx; cbn [first_iter] in Hx; [discriminate|].
    pose proof (round_agree r0 r0' x y Hag) as H1.
    destruct (round_nochange _ _ _ Hy) as [_ Hyb].
    assert (H2 : agree P (fst (first_round e (mkProd a0 r0 :: rest) x false)) y).
    { intros b Hb. rewrite (H1 b Hb). apply Hyb. }
    destruct (first_round e (mkProd a0 r0 :: rest) x false) as [x1 c]. cbn in H2.
    destruct c.
    - apply (IH x1 y r H2 Hy Hx).
    - inversion Hx; subst. exact H2.
  Qed.

  Lemma iter_agree r0 r0' : forall n m x y r r',
    agree P x y ->
    first_iter e n (mkProd a0 r0 :: rest) x = Some r ->
    first_iter e m (mkProd a0 r0' :: rest) y = Some r' ->
    agree P r r'.
  Proof.
    induction n as [|n IH]; intros m x y r r' Hag Hx Hy; cbn [first_iter] in Hx; [discriminate|].
    destruct m as [|m]; cbn [first_iter] in Hy; [discriminate|].
    pose proof (round_agree r0 r0' x y Hag) as H1.
    destruct (first_round e (mkProd a0 r0 :: rest) x false) as [x1 c] eqn:Ex.
    destruct (first_round e (mkProd a0 r0' :: rest) y false) as [y1 c'] eqn:Ey.
    cbn in H1. destruct c, c'.
    - apply (IH m x1 y1 r r' H1 Hx Hy).
    - (* the second run has stopped: its last round changed nothing *)
      inversion Hy; subst r'.
      assert (Hy1 : snd (first_round e (mkProd a0 r0' :: rest) y false) = false) by (rewrite Ey; reflexivity).
      destruct (round_nochange _ _ _ Hy1) as [_ Hyb]. rewrite Ey in Hyb. cbn in Hyb.
      assert (Hag1 : agree P x1 y).
      { intros b Hb. rewrite (H1 b Hb). apply Hyb. }
      pose proof (iter_stable r0 r0' n x1 y r Hag1 Hy1 Hx) as H3.
      intros b Hb. rewrite (H3 b Hb). symmetry. apply Hyb.
    - inversion Hx; subst r.
      assert (Hx1 : snd (first_round e (mkProd a0 r0 :: rest) x false) = false) by (rewrite Ex; reflexivity).
      destruct (round_nochange _ _ _ Hx1) as [_ Hxb]. rewrite Ex in Hxb. cbn in Hxb.
      assert (Hag1 : agree P y1 x).
      { intros b Hb. rewrite <- (H1 b Hb). apply Hxb. }
      pose proof (iter_stable r0' r0 m y1 x r' Hag1 Hx1 Hy) as H3.
      intros b Hb. rewrite (H3 b Hb). apply Hxb.
    - inversion Hx; inversion Hy; subst. exact H1.
  Qed.

  Theorem first_cache_ok r0 r0' n m ft ft' :
    first_sets e n (mkProd a0 r0 :: rest) = Some ft ->
    first_sets e m (mkProd a0 r0' :: rest) = Some ft' ->
    forall b, b <> a0 -> ft b = ft' b.
  Proof.
    unfold first_sets. intros H1 H2.
    apply (iter_agree r0 r0' n m (fun _ => []) (fun _ => []) ft ft'); [|exact H1|exact H2].
    intros b _. reflexivity.
  Qed.
End First.

(* ------------------------------------------------------------------------- *)
(* create_table / Parser.__init__ and the grammar object                        *)
Section Build.
  Variable G : gstatic.
  Variable core : list prod -> bopts -> ftab -> ftab -> core_res.
  Variable sr rr : table -> bool.

  Notation create := (create_table G core).
  Notation init := (parser_init G core sr rr).

  Definition fresh_first (aug0 : list sym) : option ftab :=
    first_sets (s_empty G) (s_fuel G) (all_prods G aug0).

  (* the grammar is as Grammar.__init__ left it, up to a filled FIRST cache *)
  Definition ginv (aug0 : list sym) (gs : gstate) : Prop :=
    gs_aug gs = aug0 /\ forall ft, gs_first gs = Some ft -> fresh_first aug0 = Some ft.

  Lemma ginv_fresh aug0 : ginv aug0 (mkG aug0 None).
  Proof. split; [reflexivity|]. cbn. discriminate. Qed.

  Lemma get_first_inv aug0 gs : ginv aug0 gs ->
    match get_first G gs with
    | None => fresh_first aug0 = None
    | Some (ft, gs1) => fresh_first aug0 = Some ft /\ ginv aug0 gs1 /\ gs_first gs1 = Some ft
    end.
  Proof.
    intros [Ha Hf]. unfold get_first. destruct (gs_first gs) as [ft|] eqn:E.
    - split; [apply Hf; reflexivity|]. split; [|exact E].
      split; [exact Ha|]. intros ft0 H0. apply Hf. rewrite <- E. exact H0.
    - rewrite Ha. fold (fresh_first aug0). destruct (fresh_first aug0) as [ft|] eqn:E2; [|reflexivity].
      split; [reflexivity|]. split; [|reflexivity]. split; [reflexivity|].
      cbn. intros ft' H. inversion H; subst. exact E2.
  Qed.

  (* every exit -- normal, GrammarError before the swap, an exception while the item sets
     are computed (restored by the finally clause) -- leaves the grammar as it was up to
     the FIRST cache, and the result does not depend on the cache *)
  Lemma create_table_inv aug0 gs o : ginv aug0 gs ->
    snd (create gs o) = snd (create (mkG aug0 None) o) /\
    ginv aug0 (fst (create gs o)).
  Proof.
    intros Hinv.
    pose proof (get_first_inv aug0 gs Hinv) as H1.
    pose proof (get_first_inv aug0 (mkG aug0 None) (ginv_fresh aug0)) as H2.
    unfold create_table.
    destruct (get_first G gs) as [[ft gs1]|]; destruct (get_first G (mkG aug0 None)) as [[ft' gs1']|].
    - destruct H1 as [E1 [[A1 I1] C1]]. destruct H2 as [E2 [[A2 I2] C2]].
      rewrite E1 in E2. inversion E2; subst ft'. rewrite A1, A2.
      destruct (existsb _ (s_nts G)).
      + cbn. split; [reflexivity|]. split; assumption.
      + destruct (follow_sets (s_empty G) (s_fuel G) ft (s_nts G) (all_prods G aug0)) as [fo|].
        * destruct (core _ o ft fo); cbn; (split; [reflexivity|]); (split; [reflexivity|]);
            cbn; exact I1.
        * cbn. split; [reflexivity|]. split; assumption.
    - destruct H1 as [E1 _]. rewrite E1 in H2. discriminate.
    - destruct H2 as [E2 _]. rewrite E2 in H1. discriminate.
    - cbn. split; [reflexivity|]. exact Hinv.
  Qed.

  Lemma create_table_restores gs o : gs_aug (fst (create gs o)) = gs_aug gs.
  Proof.
    unfold create_table, get_first.
    destruct (gs_first gs) as [ft|].
    - destruct (existsb _ (s_nts G)); [reflexivity|].
      destruct (follow_sets _ _ _ _ _); [|reflexivity].
      destruct (core _ _ _ _); reflexivity.
    - destruct (first_sets _ _ _) as [ft|]; [|reflexivity]. cbn [gs_aug gs_first].
      destruct (existsb _ (s_nts G)); [reflexivity|].
      destruct (follow_sets _ _ _ _ _); [|reflexivity].
      destruct (core _ _ _ _); reflexivity.
  Qed.

  Lemma parser_init_inv aug0 gs o : ginv aug0 gs ->
    snd (init gs o) = snd (init (mkG aug0 None) o) /\
    ginv aug0 (fst (init gs o)).
  Proof.
    intros Hinv. unfold parser_init.
    destruct (s_layout G) as [lp|].
    - destruct (create_table_inv aug0 gs (mkB lp true true true true) Hinv) as [R1 J1].
      destruct (create_table_inv aug0 (mkG aug0 None) (mkB lp true true true true) (ginv_fresh aug0)) as [_ J1'].
      destruct (create gs (mkB lp true true true true)) as [g1 r1].
      destruct (create (mkG aug0 None) (mkB lp true true true true)) as [g1' r1'].
      cbn [fst snd] in *. subst r1'. destruct r1 as [ltb|ex].
      + destruct (check_parser sr rr false ltb) as [t|ex] eqn:Ec.
        * set (ob := mkB 1 (negb (o_slr o)) (o_ps o) (o_pse o) (negb (o_glr o))).
          destruct (create_table_inv aug0 g1 ob J1) as [R2 I2].
          destruct (create_table_inv aug0 g1' ob J1') as [R2' _].
          destruct (create g1 ob) as [g2 r2]. destruct (create g1' ob) as [g2' r2'].
          cbn [fst snd] in *. rewrite <- R2' in R2. subst r2'. destruct r2 as [tb|ex2].
          -- destruct (check_parser sr rr (o_glr o) tb); cbn; (split; [reflexivity|exact I2]).
          -- cbn. split; [reflexivity|exact I2].
        * cbn. split; [reflexivity|exact J1].
      + cbn. split; [reflexivity|exact J1].
    - set (ob := mkB 1 (negb (o_slr o)) (o_ps o) (o_pse o) (negb (o_glr o))).
      destruct (create_table_inv aug0 gs ob Hinv) as [R2 I2].
      destruct (create gs ob) as [g2 r2]. destruct (create (mkG aug0 None) ob) as [g2' r2'].
      cbn [fst snd] in *. subst r2'. destruct r2 as [tb|ex2].
      + destruct (check_parser sr rr (o_glr o) tb); cbn; (split; [reflexivity|exact I2]).
      + cbn. split; [reflexivity|exact I2].
  Qed.

  Lemma parser_init_restores gs o : gs_aug (fst (init gs o)) = gs_aug gs.
  Proof.
    assert (Hinv : ginv (gs_aug gs) (mkG (gs_aug gs) None)) by apply ginv_fresh.
    unfold parser_init.
    destruct (s_layout G) as [lp|].
    - pose proof (create_table_restores gs (mkB lp true true true true)) as R1.
      destruct (create gs (mkB lp true true true true)) as [g1 r1]. cbn [fst] in R1.
      destruct r1 as [ltb|ex]; [|exact R1].
      destruct (check_parser sr rr false ltb); [|exact R1].
      set (ob := mkB 1 (negb (o_slr o)) (o_ps o) (o_pse o) (negb (o_glr o))).
      pose proof (create_table_restores g1 ob) as R2.
      destruct (create g1 ob) as [g2 r2]. cbn [fst] in R2.
      destruct r2 as [tb|ex2]; [destruct (check_parser sr rr (o_glr o) tb)|]; cbn; congruence.
    - set (ob := mkB 1 (negb (o_slr o)) (o_ps o) (o_pse o) (negb (o_glr o))).
      pose proof (create_table_restores gs ob) as R2.
      destruct (create gs ob) as [g2 r2]. cbn [fst] in R2.
      destruct r2 as [tb|ex2]; [destruct (check_parser sr rr (o_glr o) tb)|]; cbn; exact R2.
  Qed.
End Build.

(* ------------------------------------------------------------------------- *)
(* frame lemmas of the two parse methods                                        *)
Lemma lr_parse_frame sub inp fuel budget pos st st' :
  snd (lr_parse_inst sub inp fuel budget pos st) = snd (lr_parse_inst sub inp fuel budget pos st').
Proof. reflexivity. Qed.

Lemma lr_parse_never_attribute_error (st : lr_inst) :
  li_errors (lr_reset st) <> None.
Proof. cbn. discriminate. Qed.

Lemma glr_parse_frame path clear s s' :
  snd (glr_parse_inst path clear s) = snd (glr_parse_inst path clear s').
Proof. destruct path as [f|p|l a]; destruct clear; reflexivity. Qed.

Lemma glr_parse_no_attribute_error path clear s :
  snd (glr_parse_inst path clear s) <> GOAttributeError.
Proof. destruct path as [f|p|l a]; destruct clear; cbn; discriminate. Qed.

Lemma glr_parse_frame_both path clear s s' :
  snd (glr_parse_inst path clear s) = snd (glr_parse_inst path clear s') /\
  snd (glr_parse_inst path clear s) <> GOAttributeError.
Proof. split; [apply glr_parse_frame|apply glr_parse_no_attribute_error]. Qed.

(* after a run that was not cut short every transient field is gone again *)
Lemma glr_transient_removed path s f :
  (forall l a, path <> GRaised l a) -> In f glr_removed ->
  fst (glr_parse_inst path true s) f = false.
Proof.
  intros Hp Hin. destruct path as [x|x|l a]; [| |exfalso; apply (Hp l a); reflexivity];
    cbn in Hin; repeat (destruct Hin as [<-|Hin]; [reflexivity|]); contradiction.
Qed.

(* ------------------------------------------------------------------------- *)
(* histories                                                                    *)
Section History.
  Variable G : gstatic.
  Variable core : list prod -> bopts -> ftab -> ftab -> core_res.
  Variable sr rr : table -> bool.
  Variable sub : lr_subject.
  Variable glr_run : pinput -> glr_path.

  Notation stepw := (step_world G core sr rr sub glr_run).
  Notation runh := (run_history G core sr rr sub glr_run).

  Lemma history_ginv aug0 : forall h w,
    ginv G aug0 (w_g w) -> ginv G aug0 (w_g (runh w h)).
  Proof.
    induction h as [|o h IH]; intros w Hinv; [exact Hinv|].
    unfold run_history. cbn [fold_left]. apply IH.
    destruct o as [inp fuel budget pos|inp|glr slr ps pse]; cbn [step_world w_g]; try exact Hinv.
    apply (proj2 (parser_init_inv G core sr rr aug0 (w_g w) (mkP glr slr ps pse) Hinv)).
  Qed.

  Theorem history_probe aug0 w0 h :
    ginv G aug0 (w_g w0) ->
    let w := runh w0 h in
    gs_aug (w_g w) = aug0 /\
    (forall inp fuel budget pos, probe_lr sub w inp fuel budget pos = probe_lr sub w0 inp fuel budget pos) /\
    (forall inp, probe_glr glr_run w inp = probe_glr glr_run w0 inp) /\
    (forall o, probe_build G core sr rr w o
               = snd (parser_init G core sr rr (mkG aug0 None) o)).
  Proof.
    intros Hinv w. pose proof (history_ginv aug0 h w0 Hinv) as Hw. fold w in Hw.
    split; [exact (proj1 Hw)|]. split; [|split].
    - intros inp fuel budget pos. apply lr_parse_frame.
    - intros inp. apply glr_parse_frame.
    - intros o. unfold probe_build.
      apply (proj1 (parser_init_inv G core sr rr aug0 (w_g w) o Hw)).
  Qed.
End History.
