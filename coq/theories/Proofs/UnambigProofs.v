(* A table in which every cell holds at most one action makes the LR machine
   deterministic (up to the spans recorded in interior nodes); together with
   completeness this gives: a grammar whose table passes table_complete and is
   deterministic is unambiguous. *)
From Coq Require Import NArith List Bool Lia Arith.
From PV Require Import Spec.Cfg Model.Table Spec.NLR Validators.TableComplete Proofs.CompleteProofs.
Import ListNotations.
Local Open Scope N_scope.

Lemma assoc_In2 {V} k (l : list (N * V)) v : assoc k l = Some v -> In (k, v) l.
Proof.
  induction l as [|[k' v'] r IH]; cbn; [discriminate|].
  destruct (N.eqb_spec k k') as [->|Hne].
  - intros E; inversion E; subst. left; reflexivity.
  - intros E. right. apply IH. exact E.
Qed.

Lemma det_cell tb s y a b :
  det_table tb = true -> In a (cell tb s y) -> In b (cell tb s y) -> a = b.
Proof.
  intros Hd Ha Hb. unfold cell in *.
  destruct (get_state tb s) as [st|] eqn:Es; [|destruct Ha].
  destruct (assoc y (st_actions st)) as [l|] eqn:El; [|destruct Ha].
  unfold det_table in Hd. rewrite forallb_forall in Hd.
  unfold get_state in Es. apply nth_error_In in Es. specialize (Hd st Es).
  rewrite forallb_forall in Hd. specialize (Hd _ (assoc_In2 _ _ _ El)). cbn in Hd.
  apply Nat.leb_le in Hd. destruct l as [|x [|z r]]; cbn in Hd; try lia; [destruct Ha|].
  destruct Ha as [<-|[]]. destruct Hb as [<-|[]]. reflexivity.
Qed.

(* stacks equal up to the spans of interior nodes *)
Definition erel (a b : nat * tree) : Prop := fst a = fst b /\ shape (snd a) = shape (snd b).
Definition srel (s1 s2 : stack) : Prop := Forall2 erel s1 s2.

Lemma srel_top s1 s2 : srel s1 s2 -> top_state s1 = top_state s2.
Proof. destruct 1 as [|a b l l' [H _] _]; [reflexivity|]. destruct a, b; exact H. Qed.

Lemma srel_length s1 s2 : srel s1 s2 -> length s1 = length s2.
Proof. induction 1; cbn; congruence. Qed.

Lemma srel_split p1 r1 p2 r2 :
  srel (p1 ++ r1) (p2 ++ r2) -> length p1 = length p2 -> srel p1 p2 /\ srel r1 r2.
Proof.
  revert p2. induction p1 as [|a p1 IH]; intros [|b p2] H Hl; cbn in *; try discriminate.
  - split; [constructor|exact H].
  - inversion H as [|? ? ? ? Hab Hr]; subst. destruct (IH p2 Hr) as [A B]; [lia|].
    split; [constructor; assumption|exact B].
Qed.

Lemma srel_children p1 p2 :
  srel p1 p2 -> map shape (rev (map snd p1)) = map shape (rev (map snd p2)).
Proof.
  induction 1 as [|a b l l' [_ Hs] _ IH]; [reflexivity|].
  cbn [map rev]. rewrite !map_app, IH. cbn. rewrite Hs. reflexivity.
Qed.

Section Det.
  Variable g : grammar.
  Variable tb : table.
  Variable stop_id : N.
  Hypothesis Hdet : det_table tb = true.

  Notation lstep := (lstep g tb stop_id).
  Notation lsteps := (lsteps g tb stop_id).
  Notation la := (la stop_id).

  Lemma lstep_det st1 st2 inp c1 c2 :
    srel st1 st2 -> lstep (st1, inp) c1 -> lstep (st2, inp) c2 ->
    snd c1 = snd c2 /\ srel (fst c1) (fst c2).
  Proof.
    intros Hrel H1 H2. pose proof (srel_top _ _ Hrel) as Htop.
    inversion H1 as [sa y s e rest s1' Hin1 | sa inpa p1 pr1 pop1 rest1 s1' ns1 ne1 Hin1 Hp1 E1 Hl1 Hn1 Hg1]; subst;
    inversion H2 as [sb y2 s2 e2 rest2 s2' Hin2 | sb inpb p2 pr2 pop2 rest2 s2' ns2 ne2 Hin2 Hp2 E2 Hl2 Hn2 Hg2]; subst.
    - (* shift / shift *)
      rewrite Htop in Hin1. pose proof (det_cell _ _ _ _ _ Hdet Hin1 Hin2) as E. inversion E; subst.
      cbn. split; [reflexivity|]. constructor; [split; reflexivity|exact Hrel].
    - (* shift / reduce *)
      exfalso. cbn [la NLR.la] in Hin2. rewrite Htop in Hin1.
      pose proof (det_cell _ _ _ _ _ Hdet Hin1 Hin2) as E. discriminate.
    - (* reduce / shift *)
      exfalso. cbn [la NLR.la] in Hin1. rewrite Htop in Hin1.
      pose proof (det_cell _ _ _ _ _ Hdet Hin1 Hin2) as E. discriminate.
    - (* reduce / reduce *)
      rewrite Htop in Hin1. pose proof (det_cell _ _ _ _ _ Hdet Hin1 Hin2) as E.
      inversion E; subst p2. rewrite Hp1 in Hp2. inversion Hp2; subst pr2.
      destruct (srel_split pop1 rest1 pop2 rest2 Hrel) as [Hpop Hrest]; [congruence|].
      rewrite (srel_top _ _ Hrest) in Hg1. rewrite Hg1 in Hg2. inversion Hg2; subst s2'.
      cbn. split; [reflexivity|]. constructor; [|exact Hrest].
      split; [reflexivity|]. cbn [snd shape]. f_equal. apply srel_children. exact Hpop.
  Qed.

  Lemma accept_stuck st c :
    In Accept (cell tb (top_state st) stop_id) -> lstep (st, []) c -> False.
  Proof.
    intros Hacc H.
    inversion H as [? ? ? ? ? ? ? | sa inpa p pr pop rest s' ns ne Hin Hp E Hl Hn Hg]; subst.
    cbn [NLR.la] in Hin. pose proof (det_cell _ _ _ _ _ Hdet Hacc Hin) as E. discriminate.
  Qed.

  Lemma srel_result st1 st2 t1 t2 :
    srel st1 st2 -> laccepts tb stop_id st1 t1 -> laccepts tb stop_id st2 t2 -> shape t1 = shape t2.
  Proof.
    intros Hrel [_ (s1 & H1)] [_ (s2 & H2)].
    assert (Hrev : srel (rev st1) (rev st2)).
    { clear -Hrel. induction Hrel as [|a b l l' Hab Hl IH]; [constructor|].
      cbn [rev]. apply Forall2_app; [exact IH|]. constructor; [exact Hab|constructor]. }
    clear -Hrev H1 H2. revert H1 H2. generalize 1%nat as k.
    induction Hrev as [|a b l l' [_ Hs] _ IH]; intros k H1 H2; [destruct k; discriminate|].
    destruct k as [|k]; cbn in H1, H2.
    - inversion H1; inversion H2; subst. exact Hs.
    - eapply IH; eassumption.
  Qed.

  Theorem runs_agree c1 cf :
    lsteps c1 cf -> forall f1 t1, cf = (f1, []) -> laccepts tb stop_id f1 t1 ->
    forall st2 f2 t2, srel (fst c1) st2 ->
      lsteps (st2, snd c1) (f2, []) -> laccepts tb stop_id f2 t2 -> shape t1 = shape t2.
  Proof.
    induction 1 as [c|c1 c2 c3 Hstep Hrest IH]; intros f1 t1 Ef Hacc1 st2 f2 t2 Hrel Hrun2 Hacc2.
    - subst c. cbn [fst snd] in *.
      inversion Hrun2 as [|? c2' ? Hstep2 Hrest2]; subst.
      + eapply srel_result; eassumption.
      + exfalso. destruct Hacc1 as [Ha _]. rewrite (srel_top _ _ Hrel) in Ha.
        exact (accept_stuck st2 c2' Ha Hstep2).
    - destruct c1 as [st1 inp]. cbn [fst snd] in *.
      inversion Hrun2 as [|? c2' ? Hstep2 Hrest2]; subst.
      + exfalso. destruct Hacc2 as [Ha _]. rewrite <- (srel_top _ _ Hrel) in Ha.
        exact (accept_stuck st1 c2 Ha Hstep).
      + destruct (lstep_det st1 st2 inp c2 c2' Hrel Hstep Hstep2) as [Einp Hrel'].
        destruct c2 as [st1' inp1], c2' as [st2' inp2]. cbn [fst snd] in *. subst inp2.
        exact (IH f1 t1 eq_refl Hacc1 st2' f2 t2 Hrel' Hrest2 Hacc2).
  Qed.
End Det.

(* The grammar of a deterministic table that passes table_complete is unambiguous: two
   derivation trees of the same token sequence are equal up to the spans recorded in their
   interior nodes. *)
Theorem det_unambiguous g tb ann fst_tab nul_tab stop_id start t1 t2 :
  table_complete g tb ann fst_tab nul_tab stop_id = true ->
  det_table tb = true ->
  (exists pr0, get_prod g 0 = Some pr0 /\ rhs pr0 = [NT start]) ->
  wf_tree g t1 -> root_sym g t1 = Some (NT start) ->
  wf_tree g t2 -> root_sym g t2 = Some (NT start) ->
  leaves t1 = leaves t2 ->
  shape t1 = shape t2.
Proof.
  intros Htc Hdet Hp0 Hw1 Hr1 Hw2 Hr2 Hl.
  pose (d := TLeaf 0 0 0).
  destruct (lr_machine_complete g tb ann fst_tab nul_tab stop_id Htc start d t1 Hp0 Hw1 Hr1)
    as (f1 & Hrun1 & Hacc1).
  destruct (lr_machine_complete g tb ann fst_tab nul_tab stop_id Htc start d t2 Hp0 Hw2 Hr2)
    as (f2 & Hrun2 & Hacc2).
  rewrite <- Hl in Hrun2.
  apply (runs_agree g tb stop_id Hdet _ _ Hrun1 f1 t1 eq_refl Hacc1 [(O, d)] f2 t2); [|exact Hrun2|exact Hacc2].
  constructor; [split; reflexivity|constructor].
Qed.
