(* Proofs about Model/StrTerm.v (property C19). *)
From Coq Require Import Arith PeanoNat NArith List Bool Lia.
From PV Require Import Model.StrTerm.
Import ListNotations.
Local Open Scope N_scope.

(* ------------------------------------------------------------------ basics *)
Lemma str_eqb_eq : forall a b, str_eqb a b = true <-> a = b.
Proof.
  induction a as [|x a IH]; intros [|y b]; simpl; split; intro H;
    try reflexivity; try discriminate.
  - apply andb_true_iff in H. destruct H as [H1 H2].
    apply N.eqb_eq in H1. apply IH in H2. subst. reflexivity.
  - inversion H; subst. rewrite N.eqb_refl. simpl. apply IH. reflexivity.
Qed.

Lemma str_eqb_refl : forall a, str_eqb a a = true.
Proof. intro a. apply str_eqb_eq. reflexivity. Qed.

Lemma str_eqb_false : forall a b, str_eqb a b = false <-> a <> b.
Proof.
  intros a b. split.
  - intros H E. apply str_eqb_eq in E. congruence.
  - intro H. destruct (str_eqb a b) eqn:E; [|reflexivity].
    apply str_eqb_eq in E. contradiction.
Qed.

Lemma mem_In : forall x l, mem x l = true <-> In x l.
Proof.
  intros x l. unfold mem. rewrite existsb_exists. split.
  - intros [y [Hy He]]. apply str_eqb_eq in He. subst. exact Hy.
  - intro H. exists x. split; [exact H | apply str_eqb_refl].
Qed.

Lemma mem_false : forall x l, mem x l = false <-> ~ In x l.
Proof.
  intros x l. split.
  - intros H Hin. apply mem_In in Hin. congruence.
  - intro H. destruct (mem x l) eqn:E; [|reflexivity].
    apply mem_In in E. contradiction.
Qed.

(* ------------------------------------------------------------------ StringRecognizer *)
Definition lit_eq (ic : bool) (m v : str) : Prop := if ic then lower m = lower v else m = v.

Lemma lit_len : forall ic m v, lit_eq ic m v -> length m = length v.
Proof.
  intros [|] m v H; simpl in H.
  - apply (f_equal (@length N)) in H. unfold lower in H. rewrite !map_length in H. exact H.
  - subst. reflexivity.
Qed.

Lemma slice_app : forall a m b, slice (a ++ m ++ b) (length a) (length m) = m.
Proof.
  intros a m b. unfold slice. induction a as [|x a IH]; simpl.
  - induction m as [|y m IHm]; simpl; [reflexivity | f_equal; exact IHm].
  - exact IH.
Qed.

Lemma slice_decomp : forall w p m,
  m <> [] -> slice w p (length m) = m -> exists a b, w = a ++ m ++ b /\ length a = p.
Proof.
  unfold slice. intros w p m Hm H.
  exists (firstn p w), (skipn (length m) (skipn p w)). split.
  - transitivity (firstn p w ++ skipn p w); [symmetry; apply firstn_skipn|].
    f_equal.
    transitivity (firstn (length m) (skipn p w) ++ skipn (length m) (skipn p w));
      [symmetry; apply firstn_skipn|].
    rewrite H. reflexivity.
  - rewrite firstn_length. apply Nat.min_l.
    destruct (Nat.le_gt_cases p (length w)) as [Hle|Hgt]; [exact Hle|].
    exfalso. apply Hm. rewrite <- H.
    rewrite (skipn_all2 w) by lia. apply firstn_nil.
Qed.

Theorem string_rec_literal : forall ic v w p r,
  v <> [] ->
  (string_rec ic v w p = Some r <->
   r = v /\ exists a m b, w = a ++ m ++ b /\ length a = p /\ lit_eq ic m v).
Proof.
  intros ic v w p r Hv. unfold string_rec. split.
  - intro H.
    assert (Hk : r = v /\ lit_eq ic (slice w p (length v)) v).
    { destruct ic; simpl.
      - destruct (str_eqb (lower (slice w p (length v))) (lower v)) eqn:E; [|discriminate].
        injection H as Hr. split; [symmetry; exact Hr|]. apply str_eqb_eq. exact E.
      - destruct (str_eqb (slice w p (length v)) v) eqn:E; [|discriminate].
        injection H as Hr. split; [symmetry; exact Hr|]. apply str_eqb_eq. exact E. }
    destruct Hk as [Hr Hl]. split; [exact Hr|].
    pose proof (lit_len _ _ _ Hl) as Hlen.
    remember (slice w p (length v)) as m eqn:Em.
    assert (Hm : m <> []).
    { intro Z. rewrite Z in Hlen. destruct v; [congruence|discriminate]. }
    destruct (slice_decomp w p m Hm) as [a [b [Hw Ha]]].
    { rewrite Hlen. symmetry. exact Em. }
    exists a, m, b. repeat split; assumption.
  - intros [Hr [a [m [b [Hw [Ha Hl]]]]]]. subst r.
    pose proof (lit_len _ _ _ Hl) as Hlen. subst w p.
    rewrite <- Hlen. rewrite slice_app.
    destruct ic; simpl in Hl.
    + rewrite Hl. rewrite str_eqb_refl. reflexivity.
    + rewrite Hl. rewrite str_eqb_refl. reflexivity.
Qed.

(* ------------------------------------------------------------------ keyword recognizer *)
Lemma ascii_word_lower : forall c, ascii_word (lower_c c) = ascii_word c.
Proof.
  intro c. unfold lower_c, ascii_word.
  destruct ((65 <=? c) && (c <=? 90)) eqn:E; [|rewrite ?E; reflexivity].
  apply andb_true_iff in E. destruct E as [E1 E2].
  apply N.leb_le in E1. apply N.leb_le in E2.
  assert (H3 : (97 <=? c + 32) = true) by (apply N.leb_le; lia).
  assert (H4 : (c + 32 <=? 122) = true) by (apply N.leb_le; lia).
  rewrite H3, H4. simpl.
  repeat (rewrite orb_true_r || simpl). reflexivity.
Qed.

Section KeywordProofs.
  Variable is_word : N -> bool.
  Hypothesis Hci : forall c, is_word (lower_c c) = is_word c.

  Lemma first_is_lower : forall m v, lower m = lower v -> first_is is_word m = first_is is_word v.
  Proof.
    intros [|c m] [|d v] H; simpl in *; try reflexivity; try discriminate.
    inversion H. rewrite <- (Hci c), <- (Hci d). congruence.
  Qed.

  Lemma lit_first : forall ic m v, lit_eq ic m v -> first_is is_word m = first_is is_word v.
  Proof.
    intros [|] m v H; simpl in H; [apply first_is_lower; exact H | subst; reflexivity].
  Qed.

  Lemma lit_last : forall ic m v, lit_eq ic m v -> last_is is_word m = last_is is_word v.
  Proof.
    intros [|] m v H; simpl in H; [|subst; reflexivity].
    unfold last_is. apply first_is_lower. unfold lower in *. rewrite !map_rev. rewrite H. reflexivity.
  Qed.

  Lemma word_at_first : forall a m b,
    first_is is_word m = true -> word_at is_word (a ++ m ++ b) (length a) = true.
  Proof.
    intros a [|c m] b H; simpl in H; [discriminate|].
    unfold word_at. rewrite nth_error_app2 by lia. rewrite Nat.sub_diag. simpl. exact H.
  Qed.

  Lemma word_before_last : forall a m b,
    last_is is_word m = true -> word_before is_word (a ++ m ++ b) (length a + length m) = true.
  Proof.
    intros a m b H. unfold last_is in H.
    destruct (rev m) as [|c r] eqn:E; simpl in H; [discriminate|].
    assert (Hm : m = rev r ++ [c]).
    { rewrite <- (rev_involutive m). rewrite E. reflexivity. }
    subst m. rewrite app_length. simpl.
    replace (length a + (length (rev r) + 1))%nat with (S (length a + length (rev r))) by lia.
    simpl. unfold word_at.
    rewrite nth_error_app2 by lia.
    replace (length a + length (rev r) - length a)%nat with (length (rev r)) by lia.
    rewrite <- app_assoc. rewrite nth_error_app2 by lia. rewrite Nat.sub_diag. simpl. exact H.
  Qed.

  Theorem kw_rec_spec : forall ic v w p,
    v <> [] ->
    kw_rec is_word ic v w p =
    if kw_spec is_word ic v w p then Some (slice w p (length v)) else None.
  Proof.
    intros ic v w p Hv. unfold kw_rec, kw_spec.
    remember (slice w p (length v)) as sl eqn:Es.
    set (lit := if ic then str_eqb (lower sl) (lower v) else str_eqb sl v).
    destruct lit eqn:E; unfold lit in E.
    2:{ rewrite andb_false_r. simpl. reflexivity. }
    assert (Hlit : lit_eq ic sl v).
    { destruct ic; simpl; apply str_eqb_eq; exact E. }
    pose proof (lit_len _ _ _ Hlit) as Hlen.
    assert (Hsl : sl <> []).
    { intro Z. rewrite Z in Hlen. destruct v; [congruence|discriminate]. }
    destruct (slice_decomp w p sl Hsl) as [a [b [Hw Ha]]].
    { rewrite Hlen. symmetry. exact Es. }
    assert (F1 : first_is is_word v = true -> word_at is_word w p = true).
    { intro Hf. subst w p. apply word_at_first. rewrite (lit_first _ _ _ Hlit). exact Hf. }
    assert (F2 : last_is is_word v = true -> word_before is_word w (p + length v) = true).
    { intro Hl. subst w p. rewrite <- Hlen. apply word_before_last.
      rewrite (lit_last _ _ _ Hlit). exact Hl. }
    unfold boundary.
    destruct sl as [|c sl']; [congruence|].
    destruct (first_is is_word v); destruct (last_is is_word v);
      try rewrite (F1 eq_refl); try rewrite (F2 eq_refl);
      destruct (word_before is_word w p); destruct (word_at is_word w (p + length v));
      reflexivity.
  Qed.

  (* the repair changes nothing for texts that begin and end with a word character *)
  Theorem kw_rec_preserved : forall ic v w p,
    first_is is_word v = true -> last_is is_word v = true ->
    kw_rec is_word ic v w p = kw_rec_bb is_word ic v w p.
  Proof.
    intros ic v w p Hf Hl. unfold kw_rec, kw_rec_bb. rewrite Hf, Hl. reflexivity.
  Qed.
End KeywordProofs.

(* ------------------------------------------------------------------ un-escaping *)
Definition unit_step (b r : N) (u : unit_) : unit_ :=
  match u with UEsc c => if c =? b then UPlain r else u | UPlain _ => u end.

Lemma replace_esc_plain : forall b r c s,
  c <> bsl -> replace_esc b r (c :: s) = c :: replace_esc b r s.
Proof.
  intros b r c s Hc. destruct s as [|y t]; [reflexivity|].
  simpl. apply N.eqb_neq in Hc. rewrite Hc. reflexivity.
Qed.

Lemma replace_esc_units : forall b r us,
  forallb unit_ok us = true ->
  replace_esc b r (units_src us) = units_src (map (unit_step b r) us).
Proof.
  intros b r us. induction us as [|u us IH]; intro H; [reflexivity|].
  simpl in H. apply andb_true_iff in H. destruct H as [Hu Hus]. specialize (IH Hus).
  destruct u as [c|c]; simpl in Hu; apply negb_true_iff in Hu; apply N.eqb_neq in Hu.
  - change (units_src (UPlain c :: us)) with (c :: units_src us).
    rewrite replace_esc_plain by exact Hu. rewrite IH. reflexivity.
  - change (units_src (UEsc c :: us)) with (bsl :: c :: units_src us).
    change (replace_esc b r (bsl :: c :: units_src us)) with
      (if (bsl =? bsl) && (c =? b) then r :: replace_esc b r (units_src us)
       else bsl :: replace_esc b r (c :: units_src us)).
    rewrite N.eqb_refl. simpl andb.
    simpl map. unfold unit_step at 1.
    destruct (c =? b) eqn:E.
    + rewrite IH. reflexivity.
    + rewrite replace_esc_plain by exact Hu. rewrite IH. reflexivity.
Qed.

Lemma unit_step_ok : forall b r us,
  r <> bsl -> forallb unit_ok us = true -> forallb unit_ok (map (unit_step b r) us) = true.
Proof.
  intros b r us Hr. induction us as [|u us IH]; intro H; [reflexivity|].
  simpl in H. apply andb_true_iff in H. destruct H as [Hu Hus].
  simpl. rewrite (IH Hus), andb_true_r.
  destruct u as [c|c]; simpl; [exact Hu|].
  destruct (c =? b); simpl; [|exact Hu].
  apply negb_true_iff. apply N.eqb_neq. exact Hr.
Qed.

Lemma unit_step_bsl_id : forall us,
  forallb unit_ok us = true -> map (unit_step 92 92) us = us.
Proof.
  induction us as [|u us IH]; intro H; [reflexivity|].
  simpl in H. apply andb_true_iff in H. destruct H as [Hu Hus].
  simpl. rewrite (IH Hus). f_equal.
  destruct u as [c|c]; simpl; [reflexivity|].
  simpl in Hu. apply negb_true_iff in Hu. unfold bsl in Hu. rewrite Hu. reflexivity.
Qed.

Definition all_steps (u : unit_) : unit_ :=
  unit_step 116 9 (unit_step 110 10 (unit_step 39 39 (unit_step 34 34 (unit_step 39 39 u)))).

Lemma all_steps_val : forall u, unit_ok u = true -> unit_src (all_steps u) = unit_val u.
Proof.
  intros [c|c] H; [reflexivity|].
  simpl in H. apply negb_true_iff in H. unfold bsl in H.
  unfold all_steps, unit_val, esc_char. rewrite H.
  unfold unit_step at 5.
  destruct (c =? 39) eqn:E1; [reflexivity|].
  unfold unit_step at 4.
  destruct (c =? 34) eqn:E2; [reflexivity|].
  unfold unit_step at 3. rewrite E1.
  unfold unit_step at 2.
  destruct (c =? 110) eqn:E3; [reflexivity|].
  unfold unit_step at 1.
  destruct (c =? 116) eqn:E4; reflexivity.
Qed.

Lemma units_src_map : forall f us,
  (forall u, unit_ok u = true -> unit_src (f u) = unit_val u) ->
  forallb unit_ok us = true -> units_src (map f us) = units_val us.
Proof.
  intros f us Hf. induction us as [|u us IH]; intro H; [reflexivity|].
  simpl in H. apply andb_true_iff in H. destruct H as [Hu Hus].
  unfold units_src, units_val in *. simpl. rewrite (Hf u Hu), (IH Hus). reflexivity.
Qed.

Theorem impl_unescape_units : forall us,
  forallb unit_ok us = true -> impl_unescape (units_src us) = units_val us.
Proof.
  intros us H. unfold impl_unescape, act_str_term, act_recognizer_str.
  assert (N39 : 39 <> bsl) by (unfold bsl; lia).
  assert (N34 : 34 <> bsl) by (unfold bsl; lia).
  assert (N10 : 10 <> bsl) by (unfold bsl; lia).
  assert (N9 : 9 <> bsl) by (unfold bsl; lia).
  rewrite (replace_esc_units 92 92 us H), (unit_step_bsl_id us H).
  rewrite (replace_esc_units 39 39 us H).
  pose proof (unit_step_ok 39 39 us N39 H) as H1.
  rewrite (replace_esc_units 34 34 _ H1).
  pose proof (unit_step_ok 34 34 _ N34 H1) as H2.
  rewrite (replace_esc_units 39 39 _ H2).
  pose proof (unit_step_ok 39 39 _ N39 H2) as H3.
  rewrite (replace_esc_units 92 92 _ H3), (unit_step_bsl_id _ H3).
  rewrite (replace_esc_units 110 10 _ H3).
  pose proof (unit_step_ok 110 10 _ N10 H3) as H4.
  rewrite (replace_esc_units 116 9 _ H4).
  rewrite !map_map.
  apply (units_src_map all_steps us all_steps_val H).
Qed.

Lemma std_unescape_plain : forall c s,
  c <> bsl -> std_unescape (c :: s) = c :: std_unescape s.
Proof.
  intros c s Hc. destruct s as [|y t]; [reflexivity|].
  simpl. apply N.eqb_neq in Hc. rewrite Hc. reflexivity.
Qed.

Theorem std_unescape_units : forall us,
  forallb unit_ok us = true -> std_unescape (units_src us) = units_val us.
Proof.
  induction us as [|u us IH]; intro H; [reflexivity|].
  simpl in H. apply andb_true_iff in H. destruct H as [Hu Hus]. specialize (IH Hus).
  destruct u as [c|c]; simpl in Hu; apply negb_true_iff in Hu; apply N.eqb_neq in Hu.
  - change (units_src (UPlain c :: us)) with (c :: units_src us).
    rewrite std_unescape_plain by exact Hu. rewrite IH. reflexivity.
  - change (units_src (UEsc c :: us)) with (bsl :: c :: units_src us).
    change (units_val (UEsc c :: us)) with (unit_val (UEsc c) ++ units_val us).
    change (std_unescape (bsl :: c :: units_src us)) with
      (if bsl =? bsl then
         match esc_char c with
         | Some r => r :: std_unescape (units_src us)
         | None => bsl :: std_unescape (c :: units_src us)
         end
       else bsl :: std_unescape (c :: units_src us)).
    rewrite N.eqb_refl. simpl unit_val.
    destruct (esc_char c) as [r|].
    + rewrite IH. reflexivity.
    + rewrite std_unescape_plain by exact Hu. rewrite IH. reflexivity.
Qed.

Theorem unescape_conventional : forall us,
  forallb unit_ok us = true ->
  impl_unescape (units_src us) = std_unescape (units_src us).
Proof.
  intros us H. rewrite impl_unescape_units, std_unescape_units by exact H. reflexivity.
Qed.

(* ------------------------------------------------------------------ action order *)
Lemma act_key_as_string : forall t, kw_len_ok t = true -> act_key (as_string t) = act_key t.
Proof.
  intros t H. unfold as_string, act_key, kw_len_ok in *.
  destruct (at_rec t) as [v|v|id] eqn:E; simpl; rewrite ?E; try reflexivity.
  apply N.eqb_eq in H. rewrite H. reflexivity.
Qed.

Lemma fqn_as_string : forall t, at_fqn (as_string t) = at_fqn t.
Proof. intro t. unfold as_string. destruct (at_rec t); reflexivity. Qed.

Lemma prior_as_string : forall t, at_prior (as_string t) = at_prior t.
Proof. intro t. unfold as_string. destruct (at_rec t); reflexivity. Qed.

Lemma act_before_as_string : forall a b,
  kw_len_ok a = true -> kw_len_ok b = true ->
  act_before (as_string a) (as_string b) = act_before a b.
Proof.
  intros a b Ha Hb. unfold act_before.
  rewrite !act_key_as_string, !fqn_as_string by assumption. reflexivity.
Qed.

Lemma insert_as_string : forall x l,
  kw_len_ok x = true -> forallb kw_len_ok l = true ->
  insert_act (as_string x) (map as_string l) = map as_string (insert_act x l).
Proof.
  intros x l Hx. induction l as [|y r IH]; intro H; [reflexivity|].
  simpl in H. apply andb_true_iff in H. destruct H as [Hy Hr].
  simpl. rewrite act_before_as_string by assumption.
  destruct (act_before y x); simpl; [rewrite (IH Hr); reflexivity | reflexivity].
Qed.

Lemma insert_len_ok : forall x l,
  kw_len_ok x = true -> forallb kw_len_ok l = true -> forallb kw_len_ok (insert_act x l) = true.
Proof.
  intros x l Hx. induction l as [|y r IH]; intro H; simpl; [rewrite Hx; reflexivity|].
  simpl in H. apply andb_true_iff in H. destruct H as [Hy Hr].
  destruct (act_before y x); simpl.
  - rewrite Hy, (IH Hr). reflexivity.
  - rewrite Hx, Hy, Hr. reflexivity.
Qed.

Lemma sort_len_ok : forall l, forallb kw_len_ok l = true -> forallb kw_len_ok (sort_acts l) = true.
Proof.
  induction l as [|x l IH]; intro H; [reflexivity|].
  simpl in H. apply andb_true_iff in H. destruct H as [Hx Hl].
  simpl. apply insert_len_ok; [exact Hx | apply IH; exact Hl].
Qed.

Theorem sort_as_string : forall l,
  forallb kw_len_ok l = true -> sort_acts (map as_string l) = map as_string (sort_acts l).
Proof.
  induction l as [|x l IH]; intro H; [reflexivity|].
  simpl in H. apply andb_true_iff in H. destruct H as [Hx Hl].
  simpl. rewrite (IH Hl). apply insert_as_string; [exact Hx | apply sort_len_ok; exact Hl].
Qed.

Lemma implicit_finish_as_string : forall t below,
  implicit_finish (as_string t) below = implicit_finish t below.
Proof.
  intros t below. unfold implicit_finish, as_string.
  destruct (at_rec t) eqn:E; simpl; rewrite ?E; reflexivity.
Qed.

Lemma finish_rev_as_string : forall l below,
  finish_flags_rev (map as_string l) below = finish_flags_rev l below.
Proof.
  induction l as [|t l IH]; intro below; [reflexivity|].
  simpl. rewrite implicit_finish_as_string, prior_as_string, IH. reflexivity.
Qed.

Theorem finish_as_string : forall l, finish_flags (map as_string l) = finish_flags l.
Proof.
  intro l. unfold finish_flags. rewrite <- map_rev, finish_rev_as_string. reflexivity.
Qed.

Theorem kw_finish_flag : forall t below v,
  at_rec t = FKw v -> at_finish t = None -> implicit_finish t below = true.
Proof.
  intros t below v E F. unfold implicit_finish. rewrite E, F. apply orb_true_r.
Qed.
