(* Proofs about the cache machine (Model/Cache.v). *)
From Coq Require Import NArith List Bool Lia.
From PV Require Import Gen.Consts Model.Persist Model.Cache Proofs.PersistProofs.
Import ListNotations.
Local Open Scope N_scope.

(* ---- association lists ---------------------------------------------------- *)
Lemma nassoc_dict_set : forall (V : Type) k' k (v : V) l,
    nassoc k' (dict_set k v l) = if k' =? k then Some v else nassoc k' l.
Proof.
  intros V k' k v l. induction l as [|[k0 v0] r IH]; simpl.
  - reflexivity.
  - destruct (k =? k0) eqn:E; simpl.
    + apply N.eqb_eq in E. subst k0. destruct (k' =? k); reflexivity.
    + rewrite IH. destruct (k' =? k0) eqn:E0; [|reflexivity].
      apply N.eqb_eq in E0. subst k0.
      destruct (k' =? k) eqn:E1; [|reflexivity].
      apply N.eqb_eq in E1. subst k'. rewrite N.eqb_refl in E. discriminate.
Qed.

Lemma In_dict_set : forall (V : Type) k (v : V) l x,
    In x (dict_set k v l) -> x = (k, v) \/ In x l.
Proof.
  intros V k v l x. induction l as [|[k0 v0] r IH]; simpl; intros H.
  - destruct H as [H|[]]. left. symmetry. exact H.
  - destruct (k =? k0); simpl in H.
    + destruct H as [H|H]; [left; symmetry; exact H | right; right; exact H].
    + destruct H as [H|H]; [right; left; exact H|].
      destruct (IH H) as [H'|H']; [left; exact H' | right; right; exact H'].
Qed.

Lemma map_dict_set : forall k (m v : N) (l : list (path * (N * N))),
    map (fun e : path * (N * N) => (fst e, snd (snd e))) (dict_set k (m, v) l)
    = dict_set k v (map (fun e : path * (N * N) => (fst e, snd (snd e))) l).
Proof.
  intros k m v l. induction l as [|[k0 [m0 v0]] r IH]; simpl.
  - reflexivity.
  - destruct (k =? k0); simpl; [reflexivity | rewrite IH; reflexivity].
Qed.

Section CacheProofs.
  Variables G FP : Type.
  Variable grammar_of : list (path * N) -> G.
  Variable imported : G -> list path.
  Variable pg_of : G -> pgram.
  Variable create_table : G -> FP -> pres ptable.

  Notation current := (current G grammar_of).
  Notation newer_file := (newer_file G imported).
  Notation must_create := (must_create G imported).
  Notation check_parser := (check_parser G pg_of).
  Notation load_cache := (load_cache G pg_of).
  Notation fresh := (fresh G FP pg_of create_table).
  Notation construct := (construct G FP grammar_of imported pg_of create_table).
  Notation step := (step G FP grammar_of imported pg_of create_table).
  Notation spec_step := (spec_step G FP grammar_of pg_of create_table).
  Notation run_hist := (run_hist G FP grammar_of imported pg_of create_table).
  Notation spec_hist := (spec_hist G FP grammar_of pg_of create_table).
  Notation disciplined := (disciplined FP).

  (* ---- unconditional: absent or older cache ------------------------------ *)
  Lemma must_create_spelled : forall fs,
      (fs_cache fs = None \/
       exists tc c f, fs_cache fs = Some (tc, c) /\ In f (imported (current fs))
                      /\ tc < mtime_of fs f) ->
      must_create fs (current fs) = true.
  Proof.
    intros fs [H | [tc [c [f [Hc [Hin Hlt]]]]]]; unfold Cache.must_create; rewrite H || rewrite Hc.
    - reflexivity.
    - unfold Cache.newer_file. apply existsb_exists. exists f. split; [exact Hin|].
      apply N.ltb_lt. exact Hlt.
  Qed.

  Lemma create_and_save_spec : forall fs now lr fp,
      snd (snd (create_and_save G FP pg_of create_table fs now lr fp (current fs)))
      = fresh lr (current fs) fp /\
      (forall t, create_table (current fs) fp = Ok t ->
                 fs_cache (fst (create_and_save G FP pg_of create_table fs now lr fp (current fs)))
                 = Some (now, Full (to_ser t))).
  Proof.
    intros fs now lr fp. unfold Cache.create_and_save, Cache.fresh.
    destruct (create_table (current fs) fp) as [t|e]; simpl.
    - split; [reflexivity|]. intros t' Ht. inversion Ht. reflexivity.
    - split; [reflexivity|]. intros t' Ht. discriminate.
  Qed.

  Lemma construct_rebuilds : forall fs now lr fp,
      (fs_cache fs = None \/
       exists tc c f, fs_cache fs = Some (tc, c) /\ In f (imported (current fs))
                      /\ tc < mtime_of fs f) ->
      snd (snd (construct fs now lr fp)) = fresh lr (current fs) fp /\
      (forall t, create_table (current fs) fp = Ok t ->
                 fs_cache (fst (construct fs now lr fp)) = Some (now, Full (to_ser t))).
  Proof.
    intros fs now lr fp H. apply must_create_spelled in H.
    unfold Cache.construct. rewrite H. apply create_and_save_spec.
  Qed.

  (* a cache file that cannot be loaded -- whatever its age -- is treated as absent *)
  Lemma construct_unloadable_rebuilds : forall fs now lr fp tc c e,
      fs_cache fs = Some (tc, c) ->
      load_cache (current fs) c = Raise e ->
      snd (snd (construct fs now lr fp)) = fresh lr (current fs) fp /\
      (forall t, create_table (current fs) fp = Ok t ->
                 fs_cache (fst (construct fs now lr fp)) = Some (now, Full (to_ser t))).
  Proof.
    intros fs now lr fp tc c e Hc Hl. unfold Cache.construct.
    destruct (must_create fs (current fs)); [apply create_and_save_spec|].
    rewrite Hc. rewrite Hl. apply create_and_save_spec.
  Qed.

  Lemma construct_broken_rebuilds : forall fs now lr fp tc,
      fs_cache fs = Some (tc, Broken) ->
      snd (snd (construct fs now lr fp)) = fresh lr (current fs) fp /\
      (forall t, create_table (current fs) fp = Ok t ->
                 fs_cache (fst (construct fs now lr fp)) = Some (now, Full (to_ser t))).
  Proof.
    intros fs now lr fp tc Hc.
    apply construct_unloadable_rebuilds with tc Broken EJSONDecode; [exact Hc | reflexivity].
  Qed.

  (* ---- transparency on disciplined histories ----------------------------- *)
  Hypothesis Hlocal : reads_only_imported G grammar_of imported.
  Hypothesis Hwf : creates_wf G FP pg_of create_table.
  Variable fp : FP.

  Definition inv (fs : fsys) (t : N) : Prop :=
    files_before fs t /\
    match fs_cache fs with
    | None => True
    | Some (tc, c) =>
        tc <= t /\
        (c = Broken \/
         exists tb, c = Full (to_ser tb) /\
                    (newer_file fs (current fs) tc = false ->
                     create_table (current fs) fp = Ok tb))
    end.

  Lemma inv_mono : forall fs t t', inv fs t -> t <= t' -> inv fs t'.
  Proof.
    intros fs t t' [Hf Hc] Hle. split.
    - intros f mv Hin. specialize (Hf f mv Hin). lia.
    - destruct (fs_cache fs) as [[tc c]|]; [|exact I].
      destruct Hc as [Htc Hex]. split; [lia | exact Hex].
  Qed.

  Lemma current_files : forall fs fs',
      fs_files fs = fs_files fs' -> current fs = current fs'.
  Proof.
    intros fs fs' H. unfold Cache.current, versions. rewrite H. reflexivity.
  Qed.

  Lemma mtime_set_file : forall fs f mv f',
      mtime_of (set_file fs f mv) f' = if f' =? f then fst mv else mtime_of fs f'.
  Proof.
    intros fs f mv f'. unfold mtime_of, set_file. simpl.
    rewrite nassoc_dict_set. destruct (f' =? f); reflexivity.
  Qed.

  Lemma versions_set_file : forall fs f m v,
      versions (set_file fs f (m, v)) = dict_set f v (versions fs).
  Proof. intros fs f m v. unfold versions, set_file. simpl. apply map_dict_set. Qed.

  Lemma inv_set_file : forall fs t now f v,
      inv fs t -> t < now -> inv (set_file fs f (now, v)) now.
  Proof.
    intros fs t now f v [Hf Hc] Hlt. split.
    - intros f' mv Hin. unfold set_file in Hin. simpl in Hin.
      apply In_dict_set in Hin. destruct Hin as [Heq | Hin].
      + inversion Heq. simpl. lia.
      + specialize (Hf f' mv Hin). lia.
    - unfold set_file at 1. simpl.
      destruct (fs_cache fs) as [[tc c]|]; [|exact I].
      destruct Hc as [Htc [Hbroken | [tb [Hfull Himp]]]].
      { split; [lia | left; exact Hbroken]. }
      split; [lia|]. right. exists tb. split; [exact Hfull|].
      intros Hnew.
      set (fs1 := set_file fs f (now, v)) in *.
      (* the edited file is newer than the cache, so the new grammar does not read it *)
      assert (Hnot : forall f', In f' (imported (current fs1)) ->
                                f' <> f /\ ~ tc < mtime_of fs f').
      { intros f' Hin. unfold Cache.newer_file in Hnew.
        assert (Hx : (tc <? mtime_of fs1 f') = false).
        { destruct (tc <? mtime_of fs1 f') eqn:E; [|reflexivity].
          assert (existsb (fun f0 => tc <? mtime_of fs1 f0) (imported (current fs1)) = true).
          { apply existsb_exists. exists f'. split; assumption. }
          congruence. }
        apply N.ltb_ge in Hx. unfold fs1 in Hx. rewrite mtime_set_file in Hx.
        destruct (f' =? f) eqn:E.
        - simpl in Hx. lia.
        - apply N.eqb_neq in E. split; [exact E | lia]. }
      assert (Hsame : current fs = current fs1).
      { unfold Cache.current. apply Hlocal. intros f' Hin.
        fold (current fs1) in Hin. destruct (Hnot f' Hin) as [Hne _].
        unfold fs1. rewrite versions_set_file. rewrite nassoc_dict_set.
        apply N.eqb_neq in Hne. rewrite Hne. reflexivity. }
      rewrite <- Hsame. apply Himp.
      unfold Cache.newer_file.
      destruct (existsb (fun f0 => tc <? mtime_of fs f0) (imported (current fs))) eqn:E;
        [|reflexivity].
      apply existsb_exists in E. destruct E as [f' [Hin Hlt']].
      rewrite Hsame in Hin. destruct (Hnot f' Hin) as [_ Hge].
      apply N.ltb_lt in Hlt'. contradiction.
  Qed.

  Lemma inv_write : forall fs t now tb,
      inv fs t -> t < now -> create_table (current fs) fp = Ok tb ->
      inv (mkFS (fs_files fs) (Some (now, Full (to_ser tb)))) now.
  Proof.
    intros fs t now tb [Hf _] Hlt Hct. split.
    - intros f mv Hin. simpl in Hin. specialize (Hf f mv Hin). lia.
    - simpl. split; [lia|]. right. exists tb. split; [reflexivity|]. intros _.
      rewrite <- Hct. f_equal.
  Qed.

  Lemma inv_broken : forall fs t now,
      inv fs t -> t < now -> inv (mkFS (fs_files fs) (Some (now, Broken))) now.
  Proof.
    intros fs t now [Hf _] Hlt. split.
    - intros f mv Hin. simpl in Hin. specialize (Hf f mv Hin). lia.
    - simpl. split; [lia | left; reflexivity].
  Qed.

  (* create_and_save from an invariant state: result is the cache-free one and the
     invariant is re-established *)
  Lemma create_and_save_sim : forall fs t now lr,
      inv fs t -> t < now ->
      inv (fst (create_and_save G FP pg_of create_table fs now lr fp (current fs))) now /\
      fs_files (fst (create_and_save G FP pg_of create_table fs now lr fp (current fs)))
      = fs_files fs /\
      snd (snd (create_and_save G FP pg_of create_table fs now lr fp (current fs)))
      = fresh lr (current fs) fp.
  Proof.
    intros fs t now lr Hinv Hlt. unfold Cache.create_and_save, Cache.fresh.
    destruct (create_table (current fs) fp) as [tb|e] eqn:Hct; simpl.
    - split; [eapply inv_write; eauto|]. split; reflexivity.
    - split; [eapply inv_mono; eauto; lia|]. split; reflexivity.
  Qed.

  Lemma step_sim : forall fs fs' t now o,
      inv fs t -> t < now -> op_ok FP fp o -> fs_files fs = fs_files fs' ->
      inv (fst (step fs now o)) now /\
      fs_files (fst (step fs now o)) = fs_files (fst (spec_step fs' now o)) /\
      option_map snd (snd (step fs now o)) = snd (spec_step fs' now o).
  Proof.
    intros fs fs' t now o Hinv Hlt Hok Hfiles.
    assert (Hle : t <= now) by lia.
    pose proof (current_files _ _ Hfiles) as Hcur.
    destruct o as [lr fp' | fp' | fp' | f v | f | | ]; simpl in Hok; try contradiction.
    - (* Construct *)
      subst fp'. simpl.
      destruct (create_and_save_sim fs t now lr Hinv Hlt) as [Ci [Cf Cr]].
      unfold Cache.construct.
      destruct (must_create fs (current fs)) eqn:Hmc.
      + split; [exact Ci|]. split; [rewrite Cf; exact Hfiles|].
        rewrite Cr. rewrite Hcur. reflexivity.
      + unfold Cache.must_create in Hmc.
        destruct (fs_cache fs) as [[tc c]|] eqn:Hcache; [|discriminate].
        destruct (load_cache (current fs) c) as [tl|e] eqn:Hload.
        * (* the file loads: by the invariant it holds the right table *)
          simpl. split; [eapply inv_mono; eauto|]. split; [exact Hfiles|].
          destruct Hinv as [Hf Hc]. rewrite Hcache in Hc.
          destruct Hc as [Htc [Hbroken | [tb [Hfull Himp]]]].
          { subst c. simpl in Hload. discriminate. }
          specialize (Himp Hmc). subst c. unfold Cache.load_cache in Hload.
          rewrite from_ser_to_ser in Hload; [|eapply Hwf; eauto].
          inversion Hload. subst tl.
          unfold Cache.fresh. rewrite <- Hcur. rewrite Himp. reflexivity.
        * split; [exact Ci|]. split; [rewrite Cf; exact Hfiles|].
          rewrite Cr. rewrite Hcur. reflexivity.
    - (* Compile *)
      subst fp'. simpl.
      destruct (create_table (current fs) fp) as [tb|e] eqn:Hct; simpl.
      + split; [eapply inv_write; eauto|]. split; [exact Hfiles | reflexivity].
      + split; [eapply inv_mono; eauto|]. split; [exact Hfiles | reflexivity].
    - (* Crash: leaves a broken file or nothing *)
      simpl.
      destruct (will_write G imported pg_of fs (current fs)).
      + destruct (create_table (current fs) fp') as [tb|e]; simpl.
        * split; [eapply inv_broken; eauto|]. split; [exact Hfiles | reflexivity].
        * split; [eapply inv_mono; eauto|]. split; [exact Hfiles | reflexivity].
      + simpl. split; [eapply inv_mono; eauto|]. split; [exact Hfiles | reflexivity].
    - (* Edit *)
      simpl. split; [eapply inv_set_file; eauto|]. rewrite Hfiles. split; reflexivity.
    - (* Touch *)
      simpl. rewrite <- Hfiles.
      destruct (nassoc f (fs_files fs)) as [mv|]; simpl.
      + split; [eapply inv_set_file; eauto|]. rewrite Hfiles. split; reflexivity.
      + split; [eapply inv_mono; eauto|]. split; [exact Hfiles | reflexivity].
    - (* RemoveCache *)
      simpl. split; [|split; [exact Hfiles | reflexivity]].
      destruct Hinv as [Hf _]. split; [|exact I].
      intros f mv Hin. simpl in Hin. specialize (Hf f mv Hin). lia.
  Qed.

  Lemma run_sim : forall h fs fs' t,
      inv fs t -> disciplined fp t h -> fs_files fs = fs_files fs' ->
      run_hist fs h = spec_hist fs' h.
  Proof.
    induction h as [|[now o] r IH]; intros fs fs' t Hinv Hd Hfiles.
    - reflexivity.
    - simpl in Hd. destruct Hd as [Hlt [Hok Hd]].
      destruct (step_sim fs fs' t now o Hinv Hlt Hok Hfiles) as [Hinv' [Hfiles' Hobs]].
      simpl.
      destruct (snd (step fs now o)) as [[b x]|]; simpl in Hobs; rewrite <- Hobs.
      + f_equal. eapply IH; eauto.
      + eapply IH; eauto.
  Qed.

  Lemma cache_transparent : forall files t h,
      (forall f mv, In (f, mv) files -> fst mv <= t) ->
      disciplined fp t h ->
      run_hist (mkFS files None) h = spec_hist (mkFS files None) h.
  Proof.
    intros files t h Hf Hd. eapply run_sim; eauto.
    split; [exact Hf | exact I].
  Qed.
End CacheProofs.

(* ---- refutation witnesses -------------------------------------------------- *)
(* E: E '+' E | E '*' E | 'n';  names: '+'=1 '*'=2 'n'=3 EMPTY=4 STOP=5 S'=6 E=7.
   tbl_lr / tbl_glr are the tables parglare builds with the defaults of Parser
   (prefer_shifts, lexical disambiguation) and of GLRParser; the harness re-derives
   both from /repo on every run_hist and compares them with these constants. *)
Definition gE : pgram :=
  mkPG [(1, false); (2, false); (3, false); (4, false); (5, false)] [6; 7]
       [(2, false); (3, false); (3, false); (1, false)].

Definition sh (s : N) : paction := mkPA SHIFT (Some s) None.
Definition rd (p : N) : paction := mkPA REDUCE None (Some p).
Definition acc : paction := mkPA ACCEPT None None.

Definition tbl_lr : ptable :=
  [ mkPS 0 6 [(3, [sh 2])] [(7, 1)] [true];
    mkPS 1 7 [(1, [sh 3]); (2, [sh 4]); (5, [acc])] [] [true; true; false];
    mkPS 2 3 [(1, [rd 3]); (2, [rd 3]); (5, [rd 3])] [] [true; true; false];
    mkPS 3 1 [(3, [sh 2])] [(7, 5)] [true];
    mkPS 4 2 [(3, [sh 2])] [(7, 6)] [true];
    mkPS 5 7 [(1, [sh 3]); (2, [sh 4]); (5, [rd 1])] [] [true; true; false];
    mkPS 6 7 [(1, [sh 3]); (2, [sh 4]); (5, [rd 2])] [] [true; true; false] ].

Definition tbl_glr : ptable :=
  [ mkPS 0 6 [(3, [sh 2])] [(7, 1)] [false];
    mkPS 1 7 [(1, [sh 3]); (2, [sh 4]); (5, [acc])] [] [false; false; false];
    mkPS 2 3 [(1, [rd 3]); (2, [rd 3]); (5, [rd 3])] [] [false; false; false];
    mkPS 3 1 [(3, [sh 2])] [(7, 5)] [false];
    mkPS 4 2 [(3, [sh 2])] [(7, 6)] [false];
    mkPS 5 7 [(1, [sh 3; rd 1]); (2, [sh 4; rd 1]); (5, [rd 1])] [] [false; false; false];
    mkPS 6 7 [(1, [sh 3; rd 2]); (2, [sh 4; rd 2]); (5, [rd 2])] [] [false; false; false] ].

(* instance 1: one grammar file (path 1), fingerprint = "Parser defaults?" *)
Definition w_grammar_of (_ : list (path * N)) : N := 0.
Definition w_imported (_ : N) : list path := [1].
Definition w_pg (_ : N) : pgram := gE.
Definition w_create (_ : N) (lr_defaults : bool) : pres ptable :=
  Ok (if lr_defaults then tbl_lr else tbl_glr).
Definition w_files : list (path * (N * N)) := [(1, (0, 0))].

Definition w_run := run_hist N bool w_grammar_of w_imported w_pg w_create (mkFS w_files None).
Definition w_spec := spec_hist N bool w_grammar_of w_pg w_create (mkFS w_files None).

(* instance 2: the content version of file 1 selects the grammar; version 0 gives
   tbl_glr, any other version tbl_lr (two grammars over the same symbols) *)
Definition v_grammar_of (vs : list (path * N)) : N :=
  match nassoc 1 vs with Some v => v | None => 0 end.
Definition v_create (g : N) (_ : bool) : pres ptable :=
  Ok (if g =? 0 then tbl_glr else tbl_lr).
Definition v_run := run_hist N bool v_grammar_of w_imported w_pg v_create (mkFS w_files None).
Definition v_spec := spec_hist N bool v_grammar_of w_pg v_create (mkFS w_files None).

Fixpoint clocked (t : N) {FP} (h : list (N * op FP)) : Prop :=
  match h with
  | [] => True
  | (now, _) :: r => t < now /\ clocked now r
  end.

Lemma w_local : reads_only_imported N w_grammar_of w_imported.
Proof. intros vs vs' _. reflexivity. Qed.

Lemma v_local : reads_only_imported N v_grammar_of w_imported.
Proof.
  intros vs vs' H. unfold v_grammar_of. rewrite (H 1); [reflexivity|]. left. reflexivity.
Qed.

Lemma w_wf : creates_wf N bool w_pg w_create.
Proof.
  intros g b t H. unfold w_create in H. inversion H. destruct b; vm_compute; reflexivity.
Qed.

Lemma v_wf : creates_wf N bool w_pg v_create.
Proof.
  intros g b t H. unfold v_create in H. inversion H.
  destruct (g =? 0); vm_compute; reflexivity.
Qed.

(* GLR after LR gets the conflict-free LR table; LR after GLR raises SRConflicts *)
Definition h_lr_glr : list (N * op bool) := [(1, Construct true true); (2, Construct false false)].
Definition h_glr_lr : list (N * op bool) := [(1, Construct false false); (2, Construct true true)].

Lemma options_refuted_1 :
  clocked 0 h_lr_glr /\ w_run h_lr_glr = [Ok tbl_lr; Ok tbl_lr] /\
  w_spec h_lr_glr = [Ok tbl_lr; Ok tbl_glr] /\ w_run h_lr_glr <> w_spec h_lr_glr.
Proof.
  split; [simpl; lia|]. split; [vm_compute; reflexivity|]. split; [vm_compute; reflexivity|].
  intros H. vm_compute in H. discriminate H.
Qed.

Lemma options_refuted_2 :
  clocked 0 h_glr_lr /\ w_run h_glr_lr = [Ok tbl_glr; Raise ESRConflicts] /\
  w_spec h_glr_lr = [Ok tbl_glr; Ok tbl_lr].
Proof.
  split; [simpl; lia|]. split; vm_compute; reflexivity.
Qed.

Lemma options_refuted_full :
  exists (G FP : Type) grammar_of imported pg_of create_table files
         (h1 h2 : list (N * op FP)),
    reads_only_imported G grammar_of imported /\ creates_wf G FP pg_of create_table /\
    clocked 0 h1 /\ clocked 0 h2 /\
    run_hist G FP grammar_of imported pg_of create_table (mkFS files None) h1
    <> spec_hist G FP grammar_of pg_of create_table (mkFS files None) h1 /\
    run_hist G FP grammar_of imported pg_of create_table (mkFS files None) h2
    = [Ok tbl_glr; Raise ESRConflicts] /\
    spec_hist G FP grammar_of pg_of create_table (mkFS files None) h2
    = [Ok tbl_glr; Ok tbl_lr].
Proof.
  exists N, bool, w_grammar_of, w_imported, w_pg, w_create, w_files, h_lr_glr, h_glr_lr.
  destruct options_refuted_1 as [A [_ [_ B]]]. destruct options_refuted_2 as [C [D E]].
  repeat split; auto using w_local, w_wf.
Qed.

(* an interrupted write, then a construction with the very same options: since the
   repair the broken file is treated as absent *)
Definition h_crash : list (N * op bool) := [(1, Crash true); (2, Construct true true)].
Lemma truncated_rebuilds_w :
  w_run h_crash = [Ok tbl_lr] /\ w_spec h_crash = [Ok tbl_lr].
Proof. split; vm_compute; reflexivity. Qed.

(* the .pgc is touched after the grammar was edited: stale table, one fingerprint *)
Definition h_touch : list (N * op bool) :=
  [(1, Construct false false); (2, Edit 1 1); (3, TouchCache); (4, Construct false false)].
Lemma touched_cache_refuted_w :
  clocked 0 h_touch /\ v_run h_touch = [Ok tbl_glr; Ok tbl_glr] /\
  v_spec h_touch = [Ok tbl_glr; Ok tbl_lr].
Proof. split; [simpl; lia|]. split; vm_compute; reflexivity. Qed.

(* the grammar is edited within the mtime tick in which the .pgc was written *)
Definition h_tick : list (N * op bool) :=
  [(5, Construct false false); (5, Edit 1 1); (6, Construct false false)].
Lemma same_tick_refuted_w :
  v_run h_tick = [Ok tbl_glr; Ok tbl_glr] /\ v_spec h_tick = [Ok tbl_glr; Ok tbl_lr].
Proof. split; vm_compute; reflexivity. Qed.

(* non-vacuity: a disciplined history with an edit, on which the theorem applies and
   the cache is really used (second construction loads, fourth rebuilds) *)
Definition h_good : list (N * op bool) :=
  [(1, Construct false false); (2, Construct false false); (3, Edit 1 1);
   (4, Construct false false); (5, Touch 1); (6, Compile false); (7, Construct false false);
   (8, Touch 1); (9, Crash true); (10, Construct false false)].
Lemma nonvacuous_w :
  disciplined bool false 0 h_good /\
  v_run h_good = [Ok tbl_glr; Ok tbl_glr; Ok tbl_lr; Ok tbl_lr; Ok tbl_lr] /\
  table_wfb gE tbl_glr = true /\ from_ser gE (to_ser tbl_glr) = Ok tbl_glr.
Proof.
  split; [simpl; repeat split; lia|]. repeat split; vm_compute; reflexivity.
Qed.
