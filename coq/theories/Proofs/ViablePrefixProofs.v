(* The correct-prefix property of the LR machine: with a table that passes table_struct and
   items_sound, the tokens shifted in ANY reachable configuration of N(T) -- whatever the
   lookahead relation, i.e. whatever scanner, layout and conflict strategy -- are the beginning
   of a sentence: some derivation tree rooted in the start symbol has them as its first
   leaves.  (Hence an LR parser never shifts a token that cannot continue a sentence.) *)
From Coq Require Import NArith List Bool Lia Arith.
From PV Require Import Spec.Cfg Model.Table Spec.NLR Validators.TableStruct Validators.ItemsSound.
Import ListNotations.
Local Open Scope N_scope.

(* ---- list helpers ------------------------------------------------------- *)

Lemma map_eq_app_inv {X Y} (f : X -> Y) l a b :
  map f l = a ++ b -> exists la lb, l = la ++ lb /\ map f la = a /\ map f lb = b.
Proof.
  revert l. induction a as [|x a IH]; intros l H; cbn in H.
  - exists [], l. auto.
  - destruct l as [|y l]; cbn in H; [discriminate|]. inversion H; subst.
    destruct (IH l H2) as (la & lb & -> & Ha & Hb). exists (y :: la), lb. cbn. rewrite Ha. auto.
Qed.

Lemma nth_error_split_sym {X} (l : list X) d x :
  nth_error l d = Some x -> l = firstn d l ++ [x] ++ skipn (S d) l.
Proof.
  revert d. induction l as [|a r IH]; intros [|d] H; cbn in H; try discriminate.
  - inversion H; subst. reflexivity.
  - cbn [firstn skipn app]. f_equal. apply IH. exact H.
Qed.

Section VP.
  Variable g : grammar.
  Variable tb : table.
  Variable start : N.
  Variable look : N -> N -> N -> N -> Prop.
  Hypothesis Hts : table_struct g tb start = true.
  Hypothesis His : items_sound g tb = true.

  Notation S' := (sprime g).

  (* sentential forms of the augmented grammar *)
  Inductive sf : list sym -> Prop :=
  | sf_start : sf [NT S']
  | sf_step a A b p pr :
      sf (a ++ [NT A] ++ b) -> get_prod g p = Some pr -> lhs pr = A -> sf (a ++ rhs pr ++ b).

  (* a forest for a sentential form folds into one tree rooted in S' with the same leaves *)
  Lemma sf_forest phi : sf phi -> forall ts,
    All (wf_tree g) ts -> map (root_sym g) ts = map Some phi ->
    exists t, wf_tree g t /\ root_sym g t = Some (NT S') /\ leaves t = flat_map leaves ts.
  Proof.
    induction 1 as [|a A b p pr Hsf IH Hp Hl]; intros ts Hall Hroots.
    - destruct ts as [|t [|? ?]]; cbn in Hroots; try discriminate.
      exists t. cbn in Hall. destruct Hall as [Hw _]. cbn in Hroots. injection Hroots as Hr.
      split; [exact Hw|]. split; [exact Hr|]. cbn. rewrite app_nil_r. reflexivity.
    - rewrite !map_app in Hroots.
      destruct (map_eq_app_inv _ _ _ _ Hroots) as (ta & tmb & -> & Ha & Hmb).
      destruct (map_eq_app_inv _ _ _ _ Hmb) as (tm & tb' & -> & Hm & Hb).
      rewrite !All_app in Hall. destruct Hall as (Hwa & Hwm & Hwb).
      pose (node := TNode p 0 0 tm).
      destruct (IH (ta ++ [node] ++ tb')) as (t & Hw & Hr & Hlv).
      + rewrite !All_app. split; [exact Hwa|]. split; [|exact Hwb].
        cbn. split; [|exact I]. split; [exists pr; split; [exact Hp|exact Hm]|exact Hwm].
      + rewrite !map_app, Ha, Hb. cbn. rewrite Hp. cbn. rewrite Hl. reflexivity.
      + exists t. split; [exact Hw|]. split; [exact Hr|]. rewrite Hlv.
        rewrite !flat_map_app. cbn. rewrite app_nil_r. reflexivity.
  Qed.

  (* symbols of sentential forms come from right-hand sides (or are S') *)
  Lemma sf_syms phi : sf phi -> forall X, In X phi ->
    X = NT S' \/ exists p pr, get_prod g p = Some pr /\ In X (rhs pr).
  Proof.
    induction 1 as [|a A b p pr Hsf IH Hp Hl]; intros X Hin.
    - destruct Hin as [<-|[]]. left; reflexivity.
    - rewrite !in_app_iff in Hin. destruct Hin as [Hin|[Hin|Hin]].
      + apply IH. rewrite !in_app_iff. auto.
      + right. exists p, pr. auto.
      + apply IH. rewrite !in_app_iff. auto.
  Qed.

  (* ---- the parts of items_sound ---------------------------------------- *)

  Lemma is_parts :
    states_closure_ok g tb 0 tb = true /\ nonempty_items tb 0 = true /\
    all_productive g = true /\ sprime_unique g = true.
  Proof.
    pose proof His as H. unfold items_sound in H.
    apply andb_prop in H. destruct H as [H H4]. apply andb_prop in H. destruct H as [H H3].
    apply andb_prop in H. destruct H as [H1 H2]. auto.
  Qed.

  Lemma sco_nth k sts s st :
    states_closure_ok g tb k sts = true -> nth_error sts s = Some st ->
    closure_ok g (k + s) (st_items st) = true /\ targets_ok tb st = true.
  Proof.
    revert k s. induction sts as [|x r IH]; intros k s H Hn; [destruct s; discriminate|].
    cbn in H. apply andb_prop in H. destruct H as [Hx Hr]. apply andb_prop in Hx. destruct Hx as [Hc Ht].
    destruct s as [|s]; cbn in Hn.
    - inversion Hn; subst. rewrite Nat.add_0_r. auto.
    - replace (k + S s)%nat with (S k + s)%nat by lia. apply IH; assumption.
  Qed.

  Lemma state_closure s st : get_state tb s = Some st ->
    closure_ok g s (st_items st) = true /\ targets_ok tb st = true.
  Proof. intros H. destruct is_parts as (H1 & _). exact (sco_nth 0 tb s st H1 H). Qed.

  (* ---- productivity ------------------------------------------------------ *)

  Lemma existsb_eqb_In a l : existsb (N.eqb a) l = true -> In a l.
  Proof.
    intros H. apply existsb_exists in H. destruct H as (x & Hx & E). apply N.eqb_eq in E. subst. exact Hx.
  Qed.

  Lemma forest_of l :
    (forall X, In X l -> exists t, wf_tree g t /\ root_sym g t = Some X) ->
    exists ts, All (wf_tree g) ts /\ map (root_sym g) ts = map Some l.
  Proof.
    induction l as [|X r IH]; intros H.
    - exists []. cbn. auto.
    - destruct (H X (or_introl eq_refl)) as (t & Hw & Hr).
      destruct IH as (ts & Hall & Hroots); [intros Y HY; apply H; right; exact HY|].
      exists (t :: ts). cbn. rewrite Hr, Hroots. auto.
  Qed.

  Lemma prod_iter_sound n : forall A, In A (prod_iter g n) ->
    exists t, wf_tree g t /\ root_sym g t = Some (NT A).
  Proof.
    induction n as [|n IH]; intros A Hin; [destruct Hin|].
    cbn [prod_iter] in Hin. apply in_app_or in Hin. destruct Hin as [Hin|Hin]; [apply IH; exact Hin|].
    apply in_map_iff in Hin. destruct Hin as (pr & <- & Hf).
    apply filter_In in Hf. destruct Hf as [Hpr Hall].
    destruct (In_nth_error _ _ Hpr) as [k Hk].
    rewrite forallb_forall in Hall.
    destruct (forest_of (rhs pr)) as (ts & Hw & Hroots).
    { intros X HX. specialize (Hall X HX). destruct X as [y|B]; cbn in Hall.
      - exists (TLeaf y 0 0). cbn. auto.
      - apply IH. apply existsb_eqb_In. exact Hall. }
    exists (TNode (N.of_nat k) 0 0 ts).
    assert (Hg : get_prod g (N.of_nat k) = Some pr) by (unfold get_prod; rewrite Nat2N.id; exact Hk).
    cbn. rewrite Hg. cbn. split; [|reflexivity]. split; [exists pr; auto|exact Hw].
  Qed.

  Lemma sym_tree X :
    (X = NT S' \/ exists p pr, get_prod g p = Some pr /\ In X (rhs pr)) ->
    exists t, wf_tree g t /\ root_sym g t = Some X.
  Proof.
    destruct is_parts as (_ & _ & Hap & _). unfold all_productive in Hap.
    apply andb_prop in Hap. destruct Hap as [Hall Hs].
    intros [->|(p & pr & Hp & Hin)].
    - apply (prod_iter_sound (S (length g))). apply existsb_eqb_In. exact Hs.
    - rewrite forallb_forall in Hall. unfold get_prod in Hp. apply nth_error_In in Hp.
      specialize (Hall pr Hp). rewrite forallb_forall in Hall. specialize (Hall X Hin).
      destruct X as [y|B]; cbn in Hall.
      + exists (TLeaf y 0 0). cbn. auto.
      + apply (prod_iter_sound (S (length g))). apply existsb_eqb_In. exact Hall.
  Qed.

  (* ---- valid items -------------------------------------------------------- *)

  Definition valid (gamma : list sym) (it : N * nat) : Prop :=
    exists pr delta eta, get_prod g (fst it) = Some pr /\
      gamma = delta ++ firstn (snd it) (rhs pr) /\ sf (delta ++ [NT (lhs pr)] ++ eta).

  Lemma valid_advance gamma p d pr X :
    valid gamma (p, d) -> get_prod g p = Some pr -> nth_error (rhs pr) d = Some X ->
    valid (gamma ++ [X]) (p, S d).
  Proof.
    intros (pr' & delta & eta & Hp & Hg & Hsf) Hp2 Hn. cbn [fst snd] in *.
    rewrite Hp2 in Hp. inversion Hp; subst pr'.
    exists pr, delta, eta. cbn [fst snd]. split; [exact Hp2|]. split; [|exact Hsf].
    rewrite (firstn_S_nth _ _ _ Hn), Hg, app_assoc. reflexivity.
  Qed.

  Lemma valid_close gamma q e prq p prp :
    valid gamma (q, e) -> get_prod g q = Some prq -> get_prod g p = Some prp ->
    nth_error (rhs prq) e = Some (NT (lhs prp)) -> valid gamma (p, O).
  Proof.
    intros (pr' & delta & eta & Hp & Hg & Hsf) Hq Hpp Hn. cbn [fst snd] in *.
    rewrite Hq in Hp. inversion Hp; subst pr'.
    exists prp, gamma, (skipn (S e) (rhs prq) ++ eta). cbn [fst snd firstn].
    split; [exact Hpp|]. split; [rewrite app_nil_r; reflexivity|].
    pose proof (sf_step delta (lhs prq) eta q prq Hsf Hq eq_refl) as Hs.
    rewrite (nth_error_split_sym _ _ _ Hn) in Hs. rewrite Hg.
    rewrite <- !app_assoc in Hs. rewrite <- !app_assoc. exact Hs.
  Qed.

  Lemma close_valid gamma its n : forall acc,
    (forall it, In it acc -> valid gamma it) ->
    forall it, In it (close g n its acc) -> valid gamma it.
  Proof.
    induction n as [|n IH]; intros acc Hacc it Hin; cbn [close] in Hin; [apply Hacc; exact Hin|].
    refine (IH _ _ it Hin). intros it' Hin'. apply in_app_or in Hin'. destruct Hin' as [Hin'|Hin']; [apply Hacc; exact Hin'|].
    apply filter_In in Hin'. destruct Hin' as [_ Hc]. apply andb_prop in Hc. destruct Hc as [Hd Hj].
    apply Nat.eqb_eq in Hd. destruct it' as [p d]. cbn [fst snd] in *. subst d.
    unfold just_by in Hj. destruct (get_prod g p) as [prp|] eqn:Hpp; [|discriminate].
    apply existsb_exists in Hj. destruct Hj as ([q e] & Hqin & Hq). cbn [fst snd] in Hq.
    destruct (get_prod g q) as [prq|] eqn:Hqq; [|discriminate].
    apply osym_eqb_eq in Hq.
    exact (valid_close gamma q e prq p prp (Hacc _ Hqin) Hqq Hpp Hq).
  Qed.

  Lemma valid_00 : valid [] (0, O).
  Proof.
    destruct (prod0 g tb start Hts) as (pr0 & Hp0 & Hr0).
    exists pr0, [], []. cbn. split; [exact Hp0|]. split; [reflexivity|].
    replace (lhs pr0) with S'; [apply sf_start|]. unfold sprime. rewrite Hp0. reflexivity.
  Qed.

  (* all items of a state are valid as soon as its kernel items are *)
  Lemma state_items_valid gamma s :
    (forall p d, In (p, S d) (items tb s) -> valid gamma (p, S d)) ->
    (s = O -> gamma = []) ->
    forall it, In it (items tb s) -> valid gamma it.
  Proof.
    intros Hk H0 it Hin. unfold items in *.
    destruct (get_state tb s) as [st|] eqn:Es; [|destruct Hin].
    destruct (state_closure s st Es) as [Hc _]. unfold closure_ok in Hc.
    rewrite forallb_forall in Hc. specialize (Hc it Hin). apply has_item_In in Hc.
    destruct it as [p d]. cbn [fst snd] in Hc.
    refine (close_valid gamma (st_items st) (length (st_items st)) (kernel s (st_items st)) _ _ Hc).
    intros [p' d'] Hin'. unfold kernel in Hin'. apply in_app_or in Hin'. destruct Hin' as [Hin'|Hin'].
    - apply filter_In in Hin'. destruct Hin' as [Hi Hd]. cbn in Hd.
      destruct d' as [|d']; [discriminate|]. apply Hk. exact Hi.
    - destruct (Nat.eqb_spec s 0) as [->|]; [|destruct Hin'].
      destruct Hin' as [E|[]]. inversion E; subst. rewrite (H0 eq_refl). exact valid_00.
  Qed.

  (* ---- stacks -------------------------------------------------------------- *)

  Notation stack_ok := (stack_ok g tb).
  Notation edge := (edge tb).

  Inductive vstack : stack -> list sym -> Prop :=
  | vs_bot d : vstack [(O, d)] []
  | vs_push s t X st gamma :
      vstack st gamma -> root_sym g t = Some X -> edge (top_state st) X s ->
      wf_tree g t -> vstack ((s, t) :: st) (gamma ++ [X]).

  Lemma stack_ok_vstack st : stack_ok st -> exists gamma, vstack st gamma.
  Proof.
    induction 1 as [d|s t X st Hst [gamma IH] Hr He Hw]; [exists []; constructor|].
    exists (gamma ++ [X]). econstructor; eassumption.
  Qed.

  Lemma vstack_nonempty st gamma : vstack st gamma -> st <> [].
  Proof. destruct 1; discriminate. Qed.

  Lemma vstack_top0 st gamma : vstack st gamma -> top_state st = O -> gamma = [].
  Proof.
    destruct 1 as [d|s t X st gamma Hv Hr He Hw]; intros Hz; [reflexivity|].
    cbn in Hz. subst s. exfalso. exact (edge_nonzero g tb start Hts _ _ _ He eq_refl).
  Qed.

  Lemma vstack_valid st gamma : vstack st gamma ->
    forall it, In it (items tb (top_state st)) -> valid gamma it.
  Proof.
    induction 1 as [d|s t X st gamma Hv IH Hr He Hw]; cbn [top_state].
    - apply state_items_valid; [|auto].
      intros p d' Hin. pose proof (items0 g tb start Hts _ _ Hin). discriminate.
    - apply state_items_valid.
      + intros p d' Hin.
        destruct (edge_back g tb start Hts _ _ _ _ _ He Hin) as (_ & Hin' & pr & Hp & Hn).
        exact (valid_advance gamma p d' pr X (IH _ Hin') Hp Hn).
      + intros ->. exfalso. exact (edge_nonzero g tb start Hts _ _ _ He eq_refl).
  Qed.

  Lemma vstack_forest st gamma : vstack st gamma ->
    let ts := rev (map snd (removelast st)) in
    All (wf_tree g) ts /\ map (root_sym g) ts = map Some gamma.
  Proof.
    induction 1 as [d|s t X st gamma Hv IH Hr He Hw]; cbn zeta in *; [cbn; auto|].
    rewrite removelast_cons by (eapply vstack_nonempty; eassumption).
    cbn [map rev]. destruct IH as [Hall Hroots]. split.
    - rewrite All_app. cbn. auto.
    - rewrite !map_app, Hroots. cbn. rewrite Hr. reflexivity.
  Qed.

  (* the top state of a reachable stack has an item *)
  Lemma cell_targets s y s' : In (Shift s') (cell tb s y) -> nonempty_items tb s' = true.
  Proof.
    unfold cell. destruct (get_state tb s) as [st|] eqn:Es; [|intros []].
    destruct (assoc y (st_actions st)) as [l|] eqn:Ea; [|intros []]. intros Hin.
    destruct (state_closure s st Es) as [_ Ht]. unfold targets_ok in Ht.
    apply andb_prop in Ht. destruct Ht as [Ht _]. rewrite forallb_forall in Ht.
    specialize (Ht _ (assoc_In _ _ _ Ea)). cbn in Ht. rewrite forallb_forall in Ht.
    exact (Ht _ Hin).
  Qed.

  Lemma goto_targets s a s' : goto tb s a = Some s' -> nonempty_items tb s' = true.
  Proof.
    unfold goto. destruct (get_state tb s) as [st|] eqn:Es; [|discriminate]. intros Ea.
    destruct (state_closure s st Es) as [_ Ht]. unfold targets_ok in Ht.
    apply andb_prop in Ht. destruct Ht as [_ Ht]. rewrite forallb_forall in Ht.
    exact (Ht _ (assoc_In _ _ _ Ea)).
  Qed.

  Lemma vstack_item st gamma : vstack st gamma -> exists it, In it (items tb (top_state st)).
  Proof.
    intros Hv. assert (Hne : nonempty_items tb (top_state st) = true).
    { destruct Hv as [d|s t X st gamma Hv Hr He Hw]; cbn [top_state].
      - destruct is_parts as (_ & H & _). exact H.
      - destruct X as [y|a]; cbn in He; [eapply cell_targets|eapply goto_targets]; eassumption. }
    unfold nonempty_items in Hne. destruct (items tb (top_state st)) as [|it r]; [discriminate|].
    exists it. left. reflexivity.
  Qed.

  (* S'-rooted trees are production 0 applied to a start-rooted tree *)
  Lemma sprime_tree t : wf_tree g t -> root_sym g t = Some (NT S') ->
    exists t1, wf_tree g t1 /\ root_sym g t1 = Some (NT start) /\ leaves t1 = leaves t.
  Proof.
    destruct (prod0 g tb start Hts) as (pr0 & Hp0 & Hr0).
    destruct is_parts as (_ & _ & _ & Hu).
    destruct t as [y s e|p s e cs]; cbn; [discriminate|].
    intros [(pr & Hp & Hroots) Hall] Hroot. rewrite Hp in Hroot. cbn in Hroot.
    assert (Hp00 : p = 0).
    { destruct (N.eq_dec p 0) as [E|Hne]; [exact E|exfalso].
      unfold sprime_unique in Hu. unfold get_prod in Hp.
      destruct g as [|pr0' r] eqn:Eg; [destruct (N.to_nat p); discriminate|].
      destruct (N.to_nat p) as [|k] eqn:Ek; [lia|]. cbn in Hp. apply nth_error_In in Hp.
      rewrite forallb_forall in Hu. specialize (Hu pr Hp). apply negb_true_iff in Hu.
      apply N.eqb_neq in Hu. inversion Hroot. congruence. }
    subst p. rewrite Hp0 in Hp. inversion Hp; subst pr. rewrite Hr0 in Hroots.
    destruct cs as [|t1 [|? ?]]; cbn in Hroots; try discriminate.
    exists t1. cbn in Hall. destruct Hall as [Hw _]. cbn in Hroots. injection Hroots as Hr1.
    split; [exact Hw|]. split; [exact Hr1|]. cbn. rewrite app_nil_r. reflexivity.
  Qed.

  (* ---- the theorem ----------------------------------------------------------- *)

  Theorem stack_viable st : stack_ok st ->
    exists t suffix, wf_tree g t /\ root_sym g t = Some (NT start) /\
                     leaves t = stack_leaves st ++ suffix.
  Proof.
    intros Hst. destruct (stack_ok_vstack st Hst) as [gamma Hv].
    destruct (vstack_item st gamma Hv) as [[p d] Hit].
    destruct (vstack_valid st gamma Hv _ Hit) as (pr & delta & eta & Hp & Hg & Hsf).
    cbn [fst snd] in *.
    pose proof (sf_step delta (lhs pr) eta p pr Hsf Hp eq_refl) as Hs.
    rewrite <- (firstn_skipn d (rhs pr)) in Hs.
    rewrite <- !app_assoc in Hs. rewrite app_assoc in Hs. rewrite <- Hg in Hs.
    set (rho := skipn d (rhs pr) ++ eta) in *.
    destruct (forest_of rho) as (tr & Hwr & Hrr).
    { intros X HX. apply sym_tree. apply (sf_syms _ Hs). apply in_or_app. right. exact HX. }
    destruct (vstack_forest st gamma Hv) as [Hwg Hrg]. cbn zeta in Hwg, Hrg.
    destruct (sf_forest _ Hs (rev (map snd (removelast st)) ++ tr)) as (t0 & Hw0 & Hr0 & Hl0).
    { rewrite All_app. auto. }
    { rewrite !map_app, Hrg, Hrr. reflexivity. }
    destruct (sprime_tree t0 Hw0 Hr0) as (t1 & Hw1 & Hr1 & Hl1).
    exists t1, (flat_map leaves tr). split; [exact Hw1|]. split; [exact Hr1|].
    rewrite Hl1, Hl0, flat_map_app. reflexivity.
  Qed.

  Theorem viable_prefix pos d c :
    nsteps g tb look (init_cfg pos d) c ->
    exists t suffix, wf_tree g t /\ root_sym g t = Some (NT start) /\
                     leaves t = c_trace c ++ suffix.
  Proof.
    intros Hsteps.
    destruct (nsteps_inv g tb start look Hts _ _ (init_inv g tb pos d) Hsteps) as [Hst Htr].
    rewrite <- Htr. apply stack_viable. exact Hst.
  Qed.
End VP.
