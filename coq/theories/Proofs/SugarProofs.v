(* Proofs about Model/Sugar.v:
   1. the helper rules generated for +, *, ?, separators mean what the docs say
      (language and values, for every derivation tree);
   2. iso_check is a sound validator (a one-to-one renaming of symbols exists);
   3. agreement lemmas between name-keyed and structural lookups. *)
From Coq Require Import NArith List Bool Lia.
From PV Require Import Spec.Cfg Model.Sugar.
Import ListNotations.
Local Open Scope N_scope.

(* ------------------------------------------------------------------------------- *)
(* 1. semantics of the helper rules                                                   *)
(* ------------------------------------------------------------------------------- *)
Definition keep (vs : list val) : list val := filter (fun v => negb (is_none v)) vs.

Lemma keep_app a b : keep (a ++ b) = keep a ++ keep b.
Proof. unfold keep. apply filter_app. Qed.

Lemma keep_all vs : forallb (fun v => negb (is_none v)) vs = true -> keep vs = vs.
Proof.
  induction vs as [|v r IH]; cbn; [reflexivity|]. intros Hv.
  apply andb_true_iff in Hv. destruct Hv as [Hv Hr]. rewrite Hv. f_equal. apply IH, Hr.
Qed.

Lemma keep_single v : keep [v] = if is_none v then [] else [v].
Proof. unfold keep. cbn. destruct (is_none v); reflexivity. Qed.

Section HelperSemantics.
  Variable g : grammar.
  Variable acts : N -> N.

  (* t is a derivation tree of symbol x *)
  Definition rooted (x : sym) (t : tree) : Prop := wf_tree g t /\ root_sym g t = Some x.

  Lemma node_inv p s e cs x :
    rooted x (TNode p s e cs) ->
    exists pr, get_prod g p = Some pr /\ x = NT (lhs pr)
               /\ map (root_sym g) cs = map Some (rhs pr) /\ All (wf_tree g) cs.
  Proof.
    intros [Hwf Hroot]. cbn [wf_tree] in Hwf. destruct Hwf as [(pr & Hpr & Hmap) Hall].
    exists pr. cbn [root_sym] in Hroot. rewrite Hpr in Hroot. cbn in Hroot.
    injection Hroot as <-. auto.
  Qed.

  (* ---- x+ :  H -> H X | X   with collect = [collect_first, pass_nochange] -------- *)
  Section Plus.
    Variables (H : N) (X : sym) (p1 p2 : N).
    Hypothesis Hp1 : get_prod g p1 = Some (mkProd H [NT H; X]).
    Hypothesis Hp2 : get_prod g p2 = Some (mkProd H [X]).
    Hypothesis Ha1 : acts p1 = ACT_COLLECT_FIRST.
    Hypothesis Ha2 : acts p2 = ACT_PASS_NOCHANGE.
    Hypothesis Hclosed : forall p pr, get_prod g p = Some pr -> lhs pr = H -> p = p1 \/ p = p2.

    Lemma plus_sound : forall t, rooted (NT H) t ->
      exists e es, All (rooted X) (e :: es) /\ leaves t = flat_map leaves (e :: es)
                   /\ eval acts t = VList (eval acts e :: keep (map (eval acts) es)).
    Proof.
      induction t as [y s e|p s e cs IH] using tree_ind2; intros Hr.
      - destruct Hr as [_ Hr]. cbn in Hr. discriminate.
      - destruct (node_inv _ _ _ _ _ Hr) as (pr & Hpr & HL & Hmap & Hall).
        injection HL as HL. symmetry in HL.
        destruct (Hclosed p pr Hpr HL) as [-> | ->].
        + rewrite Hp1 in Hpr. injection Hpr as <-. cbn in Hmap.
          destruct cs as [|c1 [|c2 [|? ?]]]; cbn in Hmap; try discriminate.
          injection Hmap as R1 R2.
          cbn in Hall. destruct Hall as (W1 & W2 & _).
          cbn in IH. destruct IH as (IH1 & _).
          destruct (IH1 (conj W1 R1)) as (e0 & es0 & Hel & Hlv & Hev).
          exists e0, (es0 ++ [c2]). split; [|split].
          * cbn in Hel. destruct Hel as [He0 Hes0]. cbn. split; [exact He0|].
            apply All_app. split; [exact Hes0|]. cbn. split; [split; assumption|exact I].
          * cbn [leaves flat_map]. rewrite Hlv. cbn [flat_map]. rewrite flat_map_app. cbn.
            rewrite ?app_nil_r, <- ?app_assoc. reflexivity.
          * cbn [eval map]. rewrite Ha1, Hev. unfold ACT_COLLECT_FIRST. cbn [apply_action].
            rewrite map_app, keep_app. cbn [map]. rewrite keep_single.
            destruct (is_none (eval acts c2)); cbn; [rewrite app_nil_r; reflexivity|reflexivity].
        + rewrite Hp2 in Hpr. injection Hpr as <-. cbn in Hmap.
          destruct cs as [|c1 [|? ?]]; cbn in Hmap; try discriminate.
          injection Hmap as R1. cbn in Hall. destruct Hall as (W1 & _).
          exists c1, []. split; [|split].
          * cbn. split; [split; assumption|exact I].
          * cbn. reflexivity.
          * cbn [eval map]. rewrite Ha2. unfold ACT_PASS_NOCHANGE. cbn. reflexivity.
    Qed.

    (* every non-empty sequence of X-trees is the element list of some H-tree *)
    Lemma plus_complete : forall es e, All (rooted X) (e :: es) ->
      exists t, rooted (NT H) t /\ leaves t = flat_map leaves (e :: es).
    Proof.
      induction es as [|c r IH] using rev_ind; intros e Hel.
      - cbn in Hel. destruct Hel as [[W R] _].
        exists (TNode p2 0 0 [e]). split; [split|].
        + cbn. split; [|split; [exact W|exact I]]. eexists. split; [exact Hp2|]. cbn. rewrite R. reflexivity.
        + cbn. rewrite Hp2. reflexivity.
        + cbn. reflexivity.
      - cbn in Hel. destruct Hel as [He Hr]. apply All_app in Hr. destruct Hr as [Hr Hc].
        cbn in Hc. destruct Hc as [[Wc Rc] _].
        destruct (IH e) as (t0 & [W0 R0] & L0). { cbn. split; assumption. }
        exists (TNode p1 0 0 [t0; c]). split; [split|].
        + cbn. split; [|split; [exact W0|split; [exact Wc|exact I]]].
          eexists. split; [exact Hp1|]. cbn. rewrite R0, Rc. reflexivity.
        + cbn. rewrite Hp1. reflexivity.
        + cbn [leaves flat_map]. rewrite L0. cbn [flat_map]. rewrite flat_map_app. cbn.
          rewrite ?app_nil_r, <- ?app_assoc. reflexivity.
    Qed.
  End Plus.

  (* ---- x+[sep] :  H -> H Sep X | X   with collect_sep -------------------------------- *)
  Section PlusSep.
    Variables (H : N) (X Sep : sym) (p1 p2 : N).
    Hypothesis Hp1 : get_prod g p1 = Some (mkProd H [NT H; Sep; X]).
    Hypothesis Hp2 : get_prod g p2 = Some (mkProd H [X]).
    Hypothesis Ha1 : acts p1 = ACT_COLLECT_FIRST_SEP.
    Hypothesis Ha2 : acts p2 = ACT_PASS_NOCHANGE.
    Hypothesis Hclosed : forall p pr, get_prod g p = Some pr -> lhs pr = H -> p = p1 \/ p = p2.

    (* (separator tree, element tree) pairs after the first element *)
    Definition pair_leaves (se : tree * tree) : list (N * N * N) := leaves (fst se) ++ leaves (snd se).

    Lemma plus_sep_sound : forall t, rooted (NT H) t ->
      exists e ses, rooted X e /\ All (fun se => rooted Sep (fst se) /\ rooted X (snd se)) ses
                    /\ leaves t = leaves e ++ flat_map pair_leaves ses
                    /\ eval acts t = VList (eval acts e :: keep (map (fun se => eval acts (snd se)) ses)).
    Proof.
      induction t as [y s e|p s e cs IH] using tree_ind2; intros Hr.
      - destruct Hr as [_ Hr]. cbn in Hr. discriminate.
      - destruct (node_inv _ _ _ _ _ Hr) as (pr & Hpr & HL & Hmap & Hall).
        injection HL as HL. symmetry in HL.
        destruct (Hclosed p pr Hpr HL) as [-> | ->].
        + rewrite Hp1 in Hpr. injection Hpr as <-. cbn in Hmap.
          destruct cs as [|c1 [|c2 [|c3 [|? ?]]]]; cbn in Hmap; try discriminate.
          injection Hmap as R1 R2 R3.
          cbn in Hall. destruct Hall as (W1 & W2 & W3 & _).
          cbn in IH. destruct IH as (IH1 & _).
          destruct (IH1 (conj W1 R1)) as (e0 & ses0 & He0 & Hses & Hlv & Hev).
          exists e0, (ses0 ++ [(c2, c3)]). split; [exact He0|]. split; [|split].
          * apply All_app. split; [exact Hses|]. cbn. repeat split; assumption.
          * cbn [leaves flat_map]. rewrite Hlv. rewrite flat_map_app. cbn. unfold pair_leaves at 2. cbn.
            rewrite ?app_nil_r, <- ?app_assoc. reflexivity.
          * cbn [eval map]. rewrite Ha1, Hev. unfold ACT_COLLECT_FIRST_SEP. cbn [apply_action].
            rewrite map_app, keep_app. cbn [map snd]. rewrite keep_single.
            destruct (is_none (eval acts c3)); cbn; [rewrite app_nil_r; reflexivity|reflexivity].
        + rewrite Hp2 in Hpr. injection Hpr as <-. cbn in Hmap.
          destruct cs as [|c1 [|? ?]]; cbn in Hmap; try discriminate.
          injection Hmap as R1. cbn in Hall. destruct Hall as (W1 & _).
          exists c1, []. split; [split; assumption|]. split; [exact I|]. split.
          * cbn. rewrite !app_nil_r. reflexivity.
          * cbn [eval map]. rewrite Ha2. unfold ACT_PASS_NOCHANGE. cbn. reflexivity.
    Qed.
  End PlusSep.

  (* ---- x* :  H0 -> H1 {nops} | EMPTY   with the nodes[0]-or-[] action ----------------- *)
  Section Star.
    Variables (H0 : N) (H1 : sym) (q1 q2 : N).
    Hypothesis Hq1 : get_prod g q1 = Some (mkProd H0 [H1]).
    Hypothesis Hq2 : get_prod g q2 = Some (mkProd H0 []).
    Hypothesis Ha1 : acts q1 = ACT_STAR.
    Hypothesis Ha2 : acts q2 = ACT_STAR.
    Hypothesis Hclosed : forall p pr, get_prod g p = Some pr -> lhs pr = H0 -> p = q1 \/ p = q2.

    Lemma star_sound : forall t, rooted (NT H0) t ->
      (leaves t = [] /\ eval acts t = VList [])
      \/ (exists c, rooted H1 c /\ leaves t = leaves c /\ eval acts t = eval acts c).
    Proof.
      intros [y s e|p s e cs] Hr.
      - destruct Hr as [_ Hr]. cbn in Hr. discriminate.
      - destruct (node_inv _ _ _ _ _ Hr) as (pr & Hpr & HL & Hmap & Hall).
        injection HL as HL. symmetry in HL.
        destruct (Hclosed p pr Hpr HL) as [-> | ->].
        + right. rewrite Hq1 in Hpr. injection Hpr as <-. cbn in Hmap.
          destruct cs as [|c1 [|? ?]]; cbn in Hmap; try discriminate.
          injection Hmap as R1. cbn in Hall. destruct Hall as (W1 & _).
          exists c1. split; [split; assumption|]. split.
          * cbn. rewrite app_nil_r. reflexivity.
          * cbn [eval map]. rewrite Ha1. unfold ACT_STAR. cbn. reflexivity.
        + left. rewrite Hq2 in Hpr. injection Hpr as <-. cbn in Hmap.
          destruct cs as [|? ?]; cbn in Hmap; try discriminate.
          split; [reflexivity|]. cbn [eval map]. rewrite Ha2. unfold ACT_STAR. cbn. reflexivity.
    Qed.

    Lemma star_complete_empty : exists t, rooted (NT H0) t /\ leaves t = [].
    Proof.
      exists (TNode q2 0 0 []). split; [split|reflexivity].
      - cbn. split; [|exact I]. eexists. split; [exact Hq2|reflexivity].
      - cbn. rewrite Hq2. reflexivity.
    Qed.

    Lemma star_complete_some : forall c, rooted H1 c -> exists t, rooted (NT H0) t /\ leaves t = leaves c.
    Proof.
      intros c [W R]. exists (TNode q1 0 0 [c]). split; [split|].
      - cbn. split; [|split; [exact W|exact I]]. eexists. split; [exact Hq1|]. cbn. rewrite R. reflexivity.
      - cbn. rewrite Hq1. reflexivity.
      - cbn. rewrite app_nil_r. reflexivity.
    Qed.
  End Star.

  (* ---- x? :  Ho -> X | EMPTY   with optional = [pass_single, pass_none] ---------------- *)
  Section Opt.
    Variables (Ho : N) (X : sym) (q1 q2 : N).
    Hypothesis Hq1 : get_prod g q1 = Some (mkProd Ho [X]).
    Hypothesis Hq2 : get_prod g q2 = Some (mkProd Ho []).
    Hypothesis Ha1 : acts q1 = ACT_PASS_SINGLE.
    Hypothesis Ha2 : acts q2 = ACT_PASS_NONE.
    Hypothesis Hclosed : forall p pr, get_prod g p = Some pr -> lhs pr = Ho -> p = q1 \/ p = q2.

    Lemma opt_sound : forall t, rooted (NT Ho) t ->
      (leaves t = [] /\ eval acts t = VNone)
      \/ (exists c, rooted X c /\ leaves t = leaves c /\ eval acts t = eval acts c).
    Proof.
      intros [y s e|p s e cs] Hr.
      - destruct Hr as [_ Hr]. cbn in Hr. discriminate.
      - destruct (node_inv _ _ _ _ _ Hr) as (pr & Hpr & HL & Hmap & Hall).
        injection HL as HL. symmetry in HL.
        destruct (Hclosed p pr Hpr HL) as [-> | ->].
        + right. rewrite Hq1 in Hpr. injection Hpr as <-. cbn in Hmap.
          destruct cs as [|c1 [|? ?]]; cbn in Hmap; try discriminate.
          injection Hmap as R1. cbn in Hall. destruct Hall as (W1 & _).
          exists c1. split; [split; assumption|]. split.
          * cbn. rewrite app_nil_r. reflexivity.
          * cbn [eval map]. rewrite Ha1. unfold ACT_PASS_SINGLE. cbn. reflexivity.
        + left. rewrite Hq2 in Hpr. injection Hpr as <-. cbn in Hmap.
          destruct cs as [|? ?]; cbn in Hmap; try discriminate.
          split; [reflexivity|]. cbn [eval map]. rewrite Ha2. unfold ACT_PASS_NONE. cbn. reflexivity.
    Qed.
  End Opt.
End HelperSemantics.

(* ------------------------------------------------------------------------------- *)
(* 2. the isomorphism validator                                                       *)
(* ------------------------------------------------------------------------------- *)
Lemma name_eqb_eq a b : name_eqb a b = true <-> a = b.
Proof. unfold name_eqb. apply list_eqb_eq. intros x y. apply N.eqb_eq. Qed.

Lemma oname_eqb_eq a b : oname_eqb a b = true <-> a = b.
Proof.
  destruct a, b; cbn; try (split; [discriminate|congruence]); [|tauto].
  rewrite name_eqb_eq. split; congruence.
Qed.

Lemma bsym_eqb_eq a b : bsym_eqb a b = true <-> a = b.
Proof.
  destruct a, b; cbn; try (split; [discriminate|congruence]).
  - rewrite name_eqb_eq. split; congruence.
  - rewrite andb_true_iff, name_eqb_eq, N.eqb_eq. split; [intros [-> ->]; reflexivity|].
    intros E. inversion E. auto.
Qed.

Lemma mult_eqb_eq a b : mult_eqb a b = true <-> a = b.
Proof. destruct a, b; cbn; split; congruence. Qed.

Lemma hkey_eqb_eq a b : hkey_eqb a b = true <-> a = b.
Proof.
  destruct a as [b1 m1 s1 g1], b as [b2 m2 s2 g2]. unfold hkey_eqb. cbn.
  rewrite !andb_true_iff, bsym_eqb_eq, mult_eqb_eq, oname_eqb_eq, eqb_true_iff.
  split; [intros [[[-> ->] ->] ->]; reflexivity|]. intros E. inversion E. auto.
Qed.

Lemma deqb_eq a b : deqb a b = true <-> a = b.
Proof.
  destruct a, b; cbn; try (split; [discriminate|congruence]).
  - rewrite bsym_eqb_eq. split; congruence.
  - rewrite hkey_eqb_eq. split; congruence.
Qed.

Lemma deqb_refl a : deqb a a = true.
Proof. apply deqb_eq. reflexivity. Qed.

(* production d of the first grammar is production n of the second under the renaming *)
Definition corresponds (ren : list (dsym * name)) (d : oprod) (n : nprod) : Prop :=
  In (op_lhs d, np_lhs n) ren
  /\ Forall2 (fun x y => In (x, y) ren) (op_rhs d) (np_rhs n)
  /\ op_assoc d = np_assoc n /\ op_prior d = np_prior n
  /\ op_nops d = np_nops n /\ op_nopse d = np_nopse n /\ op_act d = np_act n.

(* a one-to-one relation between symbols and names *)
Definition one_to_one (ren : list (dsym * name)) : Prop :=
  (forall d n n', In (d, n) ren -> In (d, n') ren -> n = n')
  /\ (forall d d' n, In (d, n) ren -> In (d', n) ren -> d = d').

Lemma ren_get_In ren d n : ren_get ren d = Some n -> In (d, n) ren.
Proof.
  induction ren as [|[k v] r IH]; cbn; [discriminate|].
  destruct (deqb k d) eqn:E.
  - intros H. injection H as <-. apply deqb_eq in E. subst. left. reflexivity.
  - intros H. right. apply IH, H.
Qed.

Lemma ren_get_None ren d : ren_get ren d = None -> forall n, ~ In (d, n) ren.
Proof.
  induction ren as [|[k v] r IH]; cbn; [tauto|].
  destruct (deqb k d) eqn:E; [discriminate|].
  intros H n [Hin|Hin].
  - inversion Hin; subst. rewrite deqb_refl in E. discriminate.
  - exact (IH H n Hin).
Qed.

Lemma ren_rev_None ren n : ren_rev ren n = None -> forall d, ~ In (d, n) ren.
Proof.
  induction ren as [|[k v] r IH]; cbn; [tauto|].
  destruct (name_eqb v n) eqn:E; [discriminate|].
  intros H d [Hin|Hin].
  - inversion Hin; subst. assert (name_eqb n n = true) by (apply name_eqb_eq; reflexivity). congruence.
  - exact (IH H d Hin).
Qed.

Lemma ren_add_ok ren d n ren' :
  one_to_one ren -> ren_add ren d n = Some ren' ->
  one_to_one ren' /\ incl ren ren' /\ In (d, n) ren'.
Proof.
  intros [F I] H. unfold ren_add in H.
  destruct (ren_get ren d) as [n'|] eqn:G.
  - destruct (name_eqb n' n) eqn:E; [|discriminate]. injection H as <-.
    apply name_eqb_eq in E. subst. split; [split; assumption|]. split; [apply incl_refl|].
    apply ren_get_In, G.
  - destruct (ren_rev ren n) eqn:Rv; [discriminate|]. injection H as <-.
    pose proof (ren_get_None _ _ G) as NG. pose proof (ren_rev_None _ _ Rv) as NR.
    split; [split|split].
    + intros d0 n0 n0' [H1|H1] [H2|H2].
      * congruence.
      * injection H1 as <- <-. exfalso. exact (NG _ H2).
      * injection H2 as <- <-. exfalso. exact (NG _ H1).
      * exact (F _ _ _ H1 H2).
    + intros d0 d0' n0 [H1|H1] [H2|H2].
      * congruence.
      * injection H1 as <- <-. exfalso. exact (NR _ H2).
      * injection H2 as <- <-. exfalso. exact (NR _ H1).
      * exact (I _ _ _ H1 H2).
    + apply incl_tl, incl_refl.
    + left. reflexivity.
Qed.

Lemma ren_adds_ok : forall ds ns ren ren',
  one_to_one ren -> ren_adds ren ds ns = Some ren' ->
  one_to_one ren' /\ incl ren ren' /\ Forall2 (fun x y => In (x, y) ren') ds ns.
Proof.
  induction ds as [|d ds IH]; intros [|n ns] ren ren' Ho H; cbn in H; try discriminate.
  - injection H as <-. split; [exact Ho|]. split; [apply incl_refl|constructor].
  - destruct (ren_add ren d n) as [r1|] eqn:E; [|discriminate].
    destruct (ren_add_ok _ _ _ _ Ho E) as (Ho1 & Hi1 & Hin1).
    destruct (IH _ _ _ Ho1 H) as (Ho2 & Hi2 & Hf2).
    split; [exact Ho2|]. split; [eapply incl_tran; eassumption|].
    constructor; [apply Hi2, Hin1|exact Hf2].
Qed.

Lemma Forall2_corresponds_mono ren ren' ds ns :
  incl ren ren' -> Forall2 (corresponds ren) ds ns -> Forall2 (corresponds ren') ds ns.
Proof.
  intros Hi H. induction H as [|d n ds ns Hc _ IH]; constructor; [|exact IH].
  destruct Hc as (H1 & H2 & Hrest). split; [apply Hi, H1|]. split; [|exact Hrest].
  clear -Hi H2. induction H2; constructor; auto.
Qed.

Lemma iso_prods_ok : forall ds ns ren ren',
  one_to_one ren -> iso_prods ren ds ns = Some ren' ->
  one_to_one ren' /\ incl ren ren' /\ Forall2 (corresponds ren') ds ns.
Proof.
  induction ds as [|d ds IH]; intros [|n ns] ren ren' Ho H; cbn [iso_prods] in H; try discriminate.
  - injection H as <-. split; [exact Ho|]. split; [apply incl_refl|constructor].
  - destruct ((op_assoc d =? np_assoc n) && (op_prior d =? np_prior n)
              && Bool.eqb (op_nops d) (np_nops n) && Bool.eqb (op_nopse d) (np_nopse n)
              && (op_act d =? np_act n)) eqn:Fl; [|discriminate].
    destruct (ren_adds ren (op_lhs d :: op_rhs d) (np_lhs n :: np_rhs n)) as [r1|] eqn:E; [|discriminate].
    destruct (ren_adds_ok _ _ _ _ Ho E) as (Ho1 & Hi1 & Hf1).
    destruct (IH _ _ _ Ho1 H) as (Ho2 & Hi2 & Hf2).
    split; [exact Ho2|]. split; [eapply incl_tran; eassumption|].
    constructor; [|exact Hf2].
    rewrite !andb_true_iff in Fl. destruct Fl as [[[[A1 A2] A3] A4] A5].
    apply N.eqb_eq in A1, A2, A5. apply eqb_prop in A3, A4.
    inversion Hf1 as [|x y xs ys Hxy Hrest]; subst.
    split; [apply Hi2, Hxy|]. split; [|auto 10].
    clear -Hi2 Hrest. induction Hrest; constructor; auto.
Qed.

(* iso_check succeeds only on grammars that are equal up to a one-to-one renaming of
   symbols: same productions in the same order, same associativity / priority / nops /
   nopse marks, same built-in actions *)
Theorem iso_check_sound ds ns :
  iso_check ds ns = true ->
  exists ren, one_to_one ren /\ Forall2 (corresponds ren) ds ns.
Proof.
  unfold iso_check. destruct (iso_prods [] ds ns) as [ren|] eqn:E; [|discriminate]. intros _.
  assert (Ho : one_to_one []) by (split; intros; contradiction).
  destruct (iso_prods_ok _ _ _ _ Ho E) as (Ho' & _ & Hf). exists ren. auto.
Qed.

(* ------------------------------------------------------------------------------- *)
(* 3. name-keyed vs structural lookups                                                *)
(* ------------------------------------------------------------------------------- *)
(* on the symbol set K generated names identify symbols: equal names iff same symbol *)
Definition agree (K : list dsym) : Prop := forall a b, In a K -> In b K -> neqb a b = deqb a b.

Lemma find_agree K tab k : agree K -> incl tab K -> In k K ->
  find (neqb k) tab = find (deqb k) tab.
Proof.
  intros A Hi Hk. induction tab as [|x r IH]; cbn; [reflexivity|].
  rewrite (A k x Hk (Hi x (or_introl eq_refl))). destruct (deqb k x); [reflexivity|].
  apply IH. intros y Hy. apply Hi. right. exact Hy.
Qed.

Lemma resolve_agree K r st : agree K -> incl (x_tab st) K -> incl (keys_of_ref r) K ->
  (fr_mult r = MPlus -> fr_greedy r = false) ->
  resolve neqb lkey_name r st = resolve deqb lkey_struct r st.
Proof.
  intros A Hi Hk Hg. destruct r as [base m g sep]. cbn in Hg.
  unfold resolve, make_mult, find_sym, lkey_name, lkey_struct. cbn [fr_base fr_mult fr_greedy fr_sep hm hb hs hg].
  destruct sep as [s|], m, g; try (specialize (Hg eq_refl); discriminate);
    cbn in Hk |- *;
    rewrite ?(find_agree K (x_tab st) _ A Hi) by (apply Hk; cbn; tauto);
    reflexivity.
Qed.
