(* C08, losslessness for the LR driver model (consume_input on, ws/LAYOUT layout skipping):
   the shifted tokens, with the layout recorded for each, tile the input from the start
   position to the end of the last token: each token starts where the layout after the
   previous token ends, its layout_content span is exactly that gap, nothing is lost,
   duplicated or invented. *)
From Coq Require Import NArith List Bool Lia Arith.
From PV Require Import Spec.Cfg Model.Table Model.LRDriver.
Import ListNotations.
Local Open Scope N_scope.

Definition tr_entry : Type := (N * N * N * (N * N))%type.
Definition te_s (x : tr_entry) : N := snd (fst (fst x)).
Definition te_e (x : tr_entry) : N := snd (fst x).
Definition te_lay (x : tr_entry) : N * N := snd x.

(* from position [from]: every entry's layout span is (previous end, own start), the start
   is where layout skipping from the previous end stops, and start <= end *)
Fixpoint tiles (skip : N -> option N) (from : N) (tr : list tr_entry) : Prop :=
  match tr with
  | [] => True
  | x :: r => te_lay x = (from, te_s x) /\ skip from = Some (te_s x) /\ te_s x <= te_e x /\
              tiles skip (te_e x) r
  end.

Fixpoint last_end (from : N) (tr : list tr_entry) : N :=
  match tr with [] => from | x :: r => last_end (te_e x) r end.

Lemma tiles_snoc skip from tr x :
  tiles skip from tr ->
  te_lay x = (last_end from tr, te_s x) -> skip (last_end from tr) = Some (te_s x) -> te_s x <= te_e x ->
  tiles skip from (tr ++ [x]).
Proof.
  revert from. induction tr as [|y r IH]; intros from Ht Hl Hs Hle; cbn [app tiles last_end] in *.
  - auto.
  - destruct Ht as (A & B & C & D). repeat split; auto.
Qed.

Lemma last_end_snoc from tr x : last_end from (tr ++ [x]) = te_e x.
Proof. revert from. induction tr as [|y r IH]; intros from; cbn; auto. Qed.

Section Trace.
  Variable g : grammar.
  Variable tb : table.
  Variable skipws : N -> option N.
  Variable next_token : nat -> N -> tokres.
  Variable stop_id : N.
  Variable pos0 : N.

  Notation step := (lr_step g tb skipws next_token stop_id true false).
  Notation run := (lr_run g tb skipws next_token stop_id true false).

  Definition tinv (s : lrstate) : Prop :=
    tiles skipws pos0 (l_trace s) /\
    match l_stack s with
    | [] => True
    | top :: _ =>
        let E := last_end pos0 (l_trace s) in
        match l_ahead s with
        | None => e_pos top = E
        | Some _ => l_lay_ahead s = (E, e_pos top) /\ skipws E = Some (e_pos top)
        end
    end.

  Definition tout (o : outcome) : Prop :=
    match o with
    | Continue s' => tinv s'
    | Done (LROk _ _ _ tr) => tiles skipws pos0 tr
    | Done _ => True
    end.

  Lemma do_reduce_t tr stk pos1 lay1 ah p pr :
    tiles skipws pos0 tr ->
    (match ah with
     | None => pos1 = last_end pos0 tr
     | Some _ => lay1 = (last_end pos0 tr, pos1) /\ skipws (last_end pos0 tr) = Some pos1
     end) ->
    tout (do_reduce tb tr stk pos1 lay1 ah p pr).
  Proof.
    intros Ht Hm. unfold do_reduce.
    destruct (negb _); [exact I|].
    destruct (skipn (length (rhs pr)) stk) as [|r0 rest]; [exact I|].
    destruct (goto tb (e_state r0) (lhs pr)); [|exact I].
    destruct (match rev (firstn (length (rhs pr)) stk) with [] => _ | d :: _ => _ end) as [sp lay].
    unfold tout, tinv. cbn [l_trace l_stack l_ahead l_lay_ahead e_pos]. split; [exact Ht|exact Hm].
  Qed.

  Lemma step_t s : tinv s -> tout (step s).
  Proof.
    destruct s as [stk ah layah tr]. unfold tinv. cbn [l_stack l_ahead l_lay_ahead l_trace].
    intros [Ht Hm]. unfold lr_step. cbn [l_stack].
    destruct stk as [|top0 below]; [exact I|].
    unfold lookahead. cbn [l_ahead l_lay_ahead l_trace].
    destruct ah as [[y len]|].
    - (* token inherited *)
      destruct Hm as [Hlay Hsk]. cbn [fst snd].
      destruct (cell tb (e_state top0) y) as [|a0 acts0] eqn:Hcell.
      + cbn. exact I.
      + unfold do_action. destruct a0 as [s'|p0|].
        * unfold tout, tinv. cbn [l_stack l_ahead l_lay_ahead l_trace e_pos].
          split; [|rewrite last_end_snoc; reflexivity].
          apply tiles_snoc; [exact Ht|cbn; rewrite Hlay; reflexivity|cbn; exact Hsk|cbn; lia].
        * destruct (select_prod g p0 acts0) as [[p pr]|]; [|exact I].
          apply do_reduce_t; [exact Ht|]. split; assumption.
        * destruct (nth_error (rev (top0 :: below)) 1); [exact Ht|exact I].
    - (* fresh scan *)
      destruct (skipws (e_pos top0)) as [p1|] eqn:Hsk; [|exact I].
      destruct (next_token (e_state top0) p1) as [|y len|] eqn:Hnt; [cbn; exact I| |exact I].
      cbn [set_pos e_state e_pos].
      destruct (cell tb (e_state top0) y) as [|a0 acts0] eqn:Hcell.
      + cbn. exact I.
      + unfold do_action. cbn [e_pos set_pos e_state].
        destruct a0 as [s'|p0|].
        * unfold tout, tinv. cbn [l_stack l_ahead l_lay_ahead l_trace e_pos].
          split; [|rewrite last_end_snoc; reflexivity].
          apply tiles_snoc; [exact Ht|cbn; rewrite Hm; reflexivity|cbn; rewrite <- Hm; exact Hsk|cbn; lia].
        * destruct (select_prod g p0 acts0) as [[p pr]|]; [|exact I].
          apply do_reduce_t; [exact Ht|]. split; [rewrite Hm; reflexivity|rewrite <- Hm; exact Hsk].
        * destruct (nth_error (rev (set_pos top0 p1 :: below)) 1); [exact Ht|exact I].
  Qed.

  Lemma run_t fuel : forall s t rp lay tr, tinv s -> run fuel s = LROk t rp lay tr -> tiles skipws pos0 tr.
  Proof.
    induction fuel as [|f IH]; intros s t rp lay tr Hinv Hrun; cbn [lr_run] in Hrun; [discriminate|].
    pose proof (step_t s Hinv) as Hs. destruct (step s) as [s'|r].
    - eapply IH; eassumption.
    - subst r. exact Hs.
  Qed.

  Theorem lr_trace_tiles fuel t rp lay tr :
    lr_parse g tb skipws next_token stop_id true false fuel pos0 = LROk t rp lay tr ->
    tiles skipws pos0 tr.
  Proof.
    intros H. unfold lr_parse in H. eapply run_t; [|exact H].
    unfold tinv, lr_init. cbn. auto.
  Qed.
End Trace.
