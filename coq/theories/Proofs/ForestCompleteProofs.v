(* Completeness of a packed forest from local checks: if forest_ok (relaxed) and
   forest_complete hold then EVERY derivation of the input -- every tree the verified
   tree-level checker [tsum] accepts with a summary satisfying [root_ok] -- is, up to the
   spans recorded in interior nodes, one of the trees the forest represents. *)
From Coq Require Import NArith List Bool Lia Arith.
From PV Require Import Spec.Cfg Model.Forest Validators.ForestSound Validators.ForestComplete
  Proofs.ForestProofs Proofs.ForestSoundProofs.
Import ListNotations.
Local Open Scope N_scope.

(* ---- small facts ---------------------------------------------------------------- *)

Lemma fl_eqb_eq a b : fl_eqb a b = true <-> a = b.
Proof.
  destruct a as [[x y]|], b as [[x' y']|]; cbn; try (split; [discriminate|congruence]); [|tauto].
  rewrite andb_true_iff, !N.eqb_eq. split; [intros [-> ->]; reflexivity|intros E; inversion E; auto].
Qed.

Lemma item_eqb_eq a b : item_eqb a b = true <-> a = b.
Proof.
  destruct a as [x f], b as [x' f']. unfold item_eqb. cbn [fst snd].
  rewrite andb_true_iff, sym_eqb_eq, fl_eqb_eq. split; [intros [-> ->]; reflexivity|intros E; inversion E; auto].
Qed.

Lemma in_chart_In C it : in_chart C it = true <-> In it C.
Proof.
  unfold in_chart. rewrite existsb_exists. split.
  - intros (x & Hx & E). apply item_eqb_eq in E. subst. exact Hx.
  - intros H. exists it. split; [exact H|apply item_eqb_eq; reflexivity].
Qed.

Lemma build_app {X} (f : list X -> pnode -> X) acc ns1 ns2 :
  build f acc (ns1 ++ ns2) = build f (build f acc ns1) ns2.
Proof. revert acc. induction ns1 as [|n r IH]; intros acc; cbn; [reflexivity|apply IH]. Qed.

(* node k of a build is the step function applied to the build of the nodes before it *)
Lemma build_nth {X} (f : list X -> pnode -> X) ns k n d :
  nth_error ns k = Some n ->
  nth k (build f [] ns) d = f (build f [] (firstn k ns)) n.
Proof.
  intros Hn. pose proof (nth_error_split ns k Hn) as (l1 & l2 & E & Hl).
  rewrite E, build_app. cbn [build].
  rewrite build_prefix by (rewrite app_length, build_length; cbn; lia).
  rewrite app_nth2 by (rewrite build_length; cbn; lia).
  rewrite build_length. cbn [length]. rewrite Nat.add_0_l, Hl, Nat.sub_diag. cbn [nth].
  f_equal. f_equal. rewrite <- Hl, firstn_app, Nat.sub_diag, firstn_all. cbn. rewrite app_nil_r. reflexivity.
Qed.

Lemma build_firstn_nth {X} (f : list X -> pnode -> X) ns k c d :
  (c < k)%nat -> (k <= length ns)%nat ->
  nth c (build f [] (firstn k ns)) d = nth c (build f [] ns) d.
Proof.
  intros Hc Hk. rewrite <- (firstn_skipn k ns) at 2. rewrite build_app.
  symmetry. apply build_prefix. rewrite build_length, firstn_length. cbn. lia.
Qed.

Lemma cart_In {X} (ls : list (list X)) (xs : list X) :
  Forall2 (fun x l => In x l) xs ls -> In xs (cart ls).
Proof.
  induction 1 as [|x l xs ls Hx Hr IH]; cbn; [left; reflexivity|].
  apply in_flat_map. exists x. split; [exact Hx|]. apply in_map. exact IH.
Qed.

Lemma iprods_In g p pr : get_prod g p = Some pr -> In (p, pr) (iprods g).
Proof.
  unfold get_prod, iprods. intros H.
  assert (Hlt : (N.to_nat p < length g)%nat) by (apply nth_error_Some; congruence).
  replace (p, pr) with (nth (N.to_nat p) (combine (map N.of_nat (seq 0 (length g))) g) (0, pr)).
  - apply nth_In. rewrite combine_length, map_length, seq_length. lia.
  - rewrite combine_nth by (rewrite map_length, seq_length; reflexivity).
    f_equal.
    + rewrite (nth_indep _ 0 (N.of_nat 0)) by (rewrite map_length, seq_length; exact Hlt).
      rewrite map_nth, seq_nth by exact Hlt. cbn. apply N2Nat.id.
    + apply nth_error_nth. exact H.
Qed.

(* ---- tokens of the matrix ---------------------------------------------------------- *)

Lemma row_toks_In y row b l :
  nth_error row b = Some l -> l <> 0 -> In (y, N.of_nat b, N.of_nat b + l) (row_toks y row).
Proof.
  intros Hn Hl. unfold row_toks. apply in_flat_map. exists (b, l). split.
  - assert (Hlt : (b < length row)%nat) by (apply nth_error_Some; congruence).
    replace (b, l) with (nth b (combine (seq 0 (length row)) row) (O, l)).
    + apply nth_In. rewrite combine_length, seq_length. lia.
    + rewrite combine_nth by (rewrite seq_length; reflexivity).
      rewrite seq_nth by exact Hlt. cbn. f_equal. apply nth_error_nth. exact Hn.
  - cbn [snd fst]. destruct l; [congruence|]. left. reflexivity.
Qed.

Lemma matrix_toks_In rx y b l row :
  nth_error rx y = Some row -> nth_error row b = Some l -> l <> 0 ->
  In (N.of_nat y, N.of_nat b, N.of_nat b + l) (matrix_toks rx).
Proof.
  intros Hr Hn Hl. unfold matrix_toks. apply in_flat_map. exists (y, row). split.
  - assert (Hlt : (y < length rx)%nat) by (apply nth_error_Some; congruence).
    replace (y, row) with (nth y (combine (seq 0 (length rx)) rx) (O, row)).
    + apply nth_In. rewrite combine_length, seq_length. lia.
    + rewrite combine_nth by (rewrite seq_length; reflexivity).
      rewrite seq_nth by exact Hlt. cbn. f_equal. apply nth_error_nth. exact Hr.
  - cbn [fst snd]. apply row_toks_In; assumption.
Qed.

Section Comp.
  Variable g : grammar.
  Variable tokok : N -> N -> N -> bool.
  Variable sk : N -> N.
  Variable C : list item.
  Variable toks : list (N * N * N).
  (* every token the recogniser oracle accepts is listed *)
  Hypothesis Htoks : forall y s e, tokok y s e = true -> In (y, s, e) toks.
  Hypothesis Hcc : chart_closed g sk C toks = true.

  Notation tsum := (tsum g tokok sk false).
  Notation fsum_alt := (fsum_alt g tokok sk false).
  Notation fsum_node := (fsum_node g tokok sk false).

  (* ---- chain and decompositions ---- *)

  Lemma chain_cons k r cur :
    chain sk (k :: r) cur = match step_fl sk cur (sm_fl k) with
                            | Some cur' => chain sk r cur'
                            | None => None
                            end.
  Proof.
    cbn [chain]. unfold step_fl. destruct (sm_fl k) as [[fs le]|]; [|reflexivity].
    destruct cur as [[fs0 le0]|]; [|reflexivity]. destruct (sk le0 =? fs); reflexivity.
  Qed.

  Lemma decomps_complete kids : forall rhs cur f,
    (forall k, In k kids -> In (item_of k) C) ->
    map sm_sym kids = rhs -> chain sk kids cur = Some f ->
    In (map sm_fl kids, f) (decomps sk C rhs cur).
  Proof.
    induction kids as [|k r IH]; intros rhs cur f Hin Hs Hc.
    - cbn in Hs. subst rhs. cbn in Hc. inversion Hc; subst. left. reflexivity.
    - cbn [map] in Hs. subst rhs.
      rewrite chain_cons in Hc.
      destruct (step_fl sk cur (sm_fl k)) as [cur'|] eqn:Hst; [|discriminate].
      cbn [decomps]. apply in_flat_map. exists (item_of k). split; [apply Hin; left; reflexivity|].
      unfold item_of. cbn [fst snd].
      replace (sym_eqb (sm_sym k) (sm_sym k)) with true by (symmetry; apply sym_eqb_eq; reflexivity).
      rewrite Hst. cbn [map].
      apply in_map_iff. exists (map sm_fl r, f). split; [reflexivity|].
      apply IH; [intros k' Hk'; apply Hin; right; exact Hk'|reflexivity|exact Hc].
  Qed.

  (* ---- a closed chart contains the summary of every checked tree ---- *)

  Lemma cc_parts : toks_in C toks = true /\ prods_closed g sk C = true.
  Proof. pose proof Hcc as H. unfold chart_closed in H. apply andb_prop in H. exact H. Qed.

  Lemma tsum_relaxed_shape t sm : tsum t = Some sm -> sm = (sm_sym sm, 0, 0, sm_fl sm).
  Proof.
    destruct t as [y s e|p s e cs]; cbn [ForestSound.tsum].
    - unfold check_leaf. destruct (_ && _); [|discriminate]. intros H; inversion H. reflexivity.
    - destruct (all_some _) as [kids|]; [|discriminate]. unfold check_node.
      destruct (get_prod g p) as [pr|]; [|discriminate].
      destruct (negb _); [discriminate|]. cbn [andb].
      destruct (chain sk kids None); [|discriminate]. intros H; inversion H. reflexivity.
  Qed.

  Lemma chart_complete t : forall sm, tsum t = Some sm -> In (item_of sm) C.
  Proof.
    induction t as [y s e|p s e cs IH] using tree_ind2; intros sm H; cbn [ForestSound.tsum] in H.
    - unfold check_leaf in H. destruct (tokok y s e && (s <=? e)) eqn:Hc; [|discriminate].
      apply andb_prop in Hc. destruct Hc as [Ht _]. inversion H; subst. unfold item_of. cbn.
      destruct cc_parts as [Hti _]. unfold toks_in in Hti. rewrite forallb_forall in Hti.
      specialize (Hti _ (Htoks y s e Ht)). cbn in Hti. apply in_chart_In in Hti. exact Hti.
    - destruct (all_some (map tsum cs)) as [kids|] eqn:Hall; [|discriminate].
      apply all_some_map in Hall.
      unfold check_node in H. destruct (get_prod g p) as [pr|] eqn:Hp; [|discriminate].
      destruct (list_eqb sym_eqb (map sm_sym kids) (rhs pr)) eqn:Hs; cbn [negb] in H; [|discriminate].
      apply (list_eqb_eq sym_eqb sym_eqb_eq) in Hs. cbn [andb] in H.
      destruct (chain sk kids None) as [f|] eqn:Hch; [|discriminate]. inversion H; subst sm.
      unfold item_of. cbn [sm_sym sm_fl fst snd].
      assert (Hk : forall k, In k kids -> In (item_of k) C).
      { clear -IH Hall. induction Hall as [|c k cs kids Hk Hr IHr]; intros k' Hin; [destruct Hin|].
        cbn in IH. destruct IH as [IHc IHcs]. destruct Hin as [<-|Hin]; [apply IHc; exact Hk|].
        apply IHr; assumption. }
      pose proof (decomps_complete kids (rhs pr) None f Hk Hs Hch) as Hd.
      destruct cc_parts as [_ Hpc]. unfold prods_closed in Hpc. rewrite forallb_forall in Hpc.
      unfold get_prod in Hp. apply nth_error_In in Hp. specialize (Hpc pr Hp).
      rewrite forallb_forall in Hpc. specialize (Hpc _ Hd). cbn in Hpc.
      apply in_chart_In in Hpc. exact Hpc.
  Qed.

  (* ---- nodes ---- *)

  Lemma nodes_closed_nth labels k0 ns k n :
    nodes_closed g sk C labels k0 ns = true -> nth_error ns k = Some n ->
    node_closed g sk C labels n (nth (k0 + k) labels None) = true.
  Proof.
    revert k0 k. induction ns as [|m r IH]; intros k0 k H Hn; [destruct k; discriminate|].
    cbn in H. apply andb_prop in H. destruct H as [Hm Hr].
    destruct k as [|k]; cbn in Hn.
    - inversion Hn; subst. rewrite Nat.add_0_r. exact Hm.
    - replace (k0 + S k)%nat with (S k0 + k)%nat by lia. apply IH; assumption.
  Qed.

  Lemma kids_match_spec labels cs : forall rhs fls,
    kids_match labels cs rhs fls = true ->
    Forall2 (fun c xf => exists sm, nth c labels None = Some sm /\ item_of sm = xf) cs (combine rhs fls) /\
    length rhs = length fls.
  Proof.
    induction cs as [|c cs IH]; intros [|X rhs] [|f fls] H; cbn in H; try discriminate.
    - split; [constructor|reflexivity].
    - apply andb_prop in H. destruct H as [Hk Hr]. destruct (IH rhs fls Hr) as [HF Hl].
      split; [|cbn; congruence]. cbn [combine]. constructor; [|exact HF].
      unfold kid_matches in Hk. destruct (nth c labels None) as [sm|]; [|discriminate].
      exists sm. split; [reflexivity|]. apply item_eqb_eq. exact Hk.
  Qed.

  Section Below.
    Variable below : forest.
    Let sums := build fsum_node [] below.
    Let ats := all_trees below.
    Hypothesis Hnc : nodes_closed g sk C sums 0 below = true.

    Lemma sums_length : length sums = length below.
    Proof. unfold sums. rewrite build_length. reflexivity. Qed.

    Lemma label_lt c sm : nth c sums None = Some sm -> (c < length below)%nat.
    Proof.
      intros H. rewrite <- sums_length. destruct (Nat.lt_ge_cases c (length sums)) as [Hl|Hg]; [exact Hl|].
      rewrite nth_overflow in H by exact Hg. discriminate.
    Qed.

    (* the children of an alternative that the bottom-up pass accepted lie below the node *)
    Lemma alt_children_below acc p s e cs sm :
      fsum_alt acc (ANT p s e cs) = Some sm -> forall c, In c cs -> (c < length acc)%nat.
    Proof.
      cbn [ForestSound.fsum_alt]. destruct (all_some _) as [kids|] eqn:Hall; [|discriminate].
      intros _ c Hc. apply all_some_map in Hall.
      assert (exists k, nth c acc None = Some k) as [k Hk].
      { clear -Hall Hc. induction Hall as [|c0 k0 cs kids Hk Hr IH]; [destruct Hc|].
        destruct Hc as [<-|Hc]; [eauto|apply IH; exact Hc]. }
      destruct (Nat.lt_ge_cases c (length acc)) as [Hl|Hg]; [exact Hl|].
      rewrite nth_overflow in Hk by exact Hg. discriminate.
    Qed.

    Lemma node_alts_ok acc n sm a :
      fsum_node acc n = Some sm -> In a n -> fsum_alt acc a = Some sm.
    Proof.
      unfold ForestSound.fsum_node. destruct n as [|a0 r]; [discriminate|].
      destruct (fsum_alt acc a0) as [sm0|] eqn:Ha0; [|discriminate].
      destruct (forallb _ r) eqn:Hall; [|discriminate]. intros H; inversion H; subst sm0.
      intros [<-|Hin]; [exact Ha0|].
      rewrite forallb_forall in Hall. specialize (Hall a Hin).
      destruct (fsum_alt acc a) as [sm'|]; [|discriminate].
      apply nsum_eqb_eq in Hall. congruence.
    Qed.

    (* every checked tree whose summary is the label of node k is (up to interior spans) one
       of the trees of node k *)
    Lemma node_complete t : forall k sm sm',
      tsum t = Some sm -> nth k sums None = Some sm' -> item_of sm' = item_of sm ->
      exists t', In t' (nth k ats []) /\ shape t' = shape t.
    Proof.
      induction t as [y s e|p s e cs IH] using tree_ind2; intros k sm sm' Ht Hk Hit.
      - (* leaf *)
        pose proof (label_lt _ _ Hk) as Hlt.
        destruct (nth_error below k) as [n|] eqn:Hn; [|apply nth_error_None in Hn; lia].
        unfold sums in Hk. rewrite (build_nth _ _ _ _ _ Hn) in Hk.
        unfold ats, all_trees. rewrite (build_nth _ _ _ _ _ Hn).
        cbn [ForestSound.tsum] in Ht. unfold check_leaf in Ht.
        destruct (tokok y s e && (s <=? e)); [|discriminate]. inversion Ht; subst sm.
        unfold item_of in Hit. cbn in Hit.
        destruct n as [|a r]; [discriminate|].
        pose proof (node_alts_ok _ _ _ a Hk (or_introl eq_refl)) as Ha.
        destruct a as [y' s' e'|p' s' e' cs'].
        + cbn in Ha. unfold check_leaf in Ha. destruct (_ && _); [|discriminate]. inversion Ha; subst sm'.
          cbn in Hit. inversion Hit; subst. exists (TLeaf y s e). split; [|reflexivity].
          unfold trees_node. cbn. left. reflexivity.
        + exfalso. cbn in Ha. destruct (all_some _); [|discriminate]. unfold check_node in Ha.
          destruct (get_prod g p'); [|discriminate]. destruct (negb _); [discriminate|]. cbn [andb] in Ha.
          destruct (chain sk l None); [|discriminate]. inversion Ha; subst sm'. cbn in Hit. discriminate.
      - (* interior node *)
        pose proof (label_lt _ _ Hk) as Hlt.
        destruct (nth_error below k) as [n|] eqn:Hn; [|apply nth_error_None in Hn; lia].
        pose proof (nodes_closed_nth sums 0 below k n Hnc Hn) as Hcl. cbn [Nat.add] in Hcl.
        rewrite Hk in Hcl. cbn [node_closed] in Hcl.
        cbn [ForestSound.tsum] in Ht.
        destruct (all_some (map tsum cs)) as [kids|] eqn:Hall; [|discriminate].
        apply all_some_map in Hall.
        unfold check_node in Ht. destruct (get_prod g p) as [pr|] eqn:Hp; [|discriminate].
        destruct (list_eqb sym_eqb (map sm_sym kids) (rhs pr)) eqn:Hs; cbn [negb] in Ht; [|discriminate].
        apply (list_eqb_eq sym_eqb sym_eqb_eq) in Hs. cbn [andb] in Ht.
        destruct (chain sk kids None) as [f|] eqn:Hch; [|discriminate]. inversion Ht; subst sm.
        unfold item_of in Hit. cbn [sm_sym sm_fl fst snd] in Hit. inversion Hit as [[Hsym Hfl]].
        rewrite Hsym in Hcl. unfold alts_closed in Hcl. rewrite forallb_forall in Hcl.
        specialize (Hcl _ (iprods_In g p pr Hp)). cbn [fst snd] in Hcl. rewrite N.eqb_refl in Hcl.
        cbn [negb orb] in Hcl. rewrite forallb_forall in Hcl.
        assert (Hkc : forall k0, In k0 kids -> In (item_of k0) C).
        { clear -Hall Htoks Hcc. induction Hall as [|c k0 cs kids Hk0 Hr IHr]; intros k' Hin; [destruct Hin|].
          destruct Hin as [<-|Hin]; [eapply chart_complete; exact Hk0|apply IHr; exact Hin]. }
        specialize (Hcl _ (decomps_complete kids (rhs pr) None f Hkc Hs Hch)). cbn [fst snd] in Hcl.
        rewrite Hfl in Hcl.
        replace (fl_eqb f f) with true in Hcl by (symmetry; apply fl_eqb_eq; reflexivity).
        cbn [negb orb] in Hcl. apply existsb_exists in Hcl. destruct Hcl as (a & Hain & Hm).
        destruct a as [? ? ?|p' s' e' cs']; [discriminate|]. cbn [alt_matches] in Hm.
        apply andb_prop in Hm. destruct Hm as [Hpp Hkm]. apply N.eqb_eq in Hpp. subst p'.
        destruct (kids_match_spec _ _ _ _ Hkm) as [HF _].
        (* children of the alternative lie below k *)
        pose proof Hk as Hk'. unfold sums in Hk'. rewrite (build_nth _ _ _ _ _ Hn) in Hk'.
        pose proof (node_alts_ok _ _ _ _ Hk' Hain) as Hasum.
        pose proof (alt_children_below _ _ _ _ _ _ Hasum) as Hcb. rewrite build_length in Hcb. cbn in Hcb.
        rewrite firstn_length, (Nat.min_l k (length below)) in Hcb by lia.
        (* one tree per child *)
        assert (Hts : exists ts', Forall2 (fun x l => In x l) ts' (map (fun c => nth c ats []) cs') /\
                                  map shape ts' = map shape cs).
        { rewrite <- Hs in HF. clear -HF Hall IH. revert cs' HF IH.
          induction Hall as [|c0 k0 cs kids Hk0 Hr IHr]; intros cs' HF IH.
          - cbn in HF. inversion HF; subst. exists []. split; constructor.
          - cbn [map combine] in HF. inversion HF as [|c' xf cs'' ? Hc' HF']; subst.
            cbn in IH. destruct IH as [IHc IHcs].
            destruct Hc' as (smc & Hlab & Hitc).
            destruct (IHc c' k0 smc Hk0 Hlab Hitc) as (t' & Hin' & Hsh').
            destruct (IHr cs'' HF' IHcs) as (ts' & HFt & Hsht).
            exists (t' :: ts'). split; [constructor; assumption|cbn; congruence]. }
        destruct Hts as (ts' & HFt & Hsht).
        exists (TNode p s' e' ts'). split; [|cbn; rewrite Hsht; reflexivity].
        unfold ats, all_trees. rewrite (build_nth _ _ _ _ _ Hn).
        unfold trees_node at 1. apply in_flat_map. exists (ANT p s' e' cs'). split; [exact Hain|].
        cbn [trees_alt]. apply in_map. apply cart_In.
        replace (map (fun c => nth c (build trees_node [] (firstn k below)) []) cs')
          with (map (fun c => nth c ats []) cs'); [exact HFt|].
        apply map_ext_in. intros c Hc. unfold ats, all_trees. symmetry.
        apply build_firstn_nth; [apply Hcb; exact Hc|lia].
    Qed.
  End Below.

  (* ---- the whole forest ---- *)
  Variables (start pos0 in_len : N) (consume : bool).

  Theorem forest_complete_sound F :
    forest_complete g tokok sk C toks start pos0 in_len consume F = true ->
    forall t sm, tsum t = Some sm -> root_ok sk start pos0 in_len consume sm = true ->
    exists t', In t' (root_trees F) /\ shape t' = shape t.
  Proof.
    unfold forest_complete. intros H. apply andb_prop in H. destruct H as [_ H].
    destruct (rev F) as [|root rbelow] eqn:Hrev; [discriminate|].
    assert (HF : F = rev rbelow ++ [root]).
    { rewrite <- (rev_involutive F), Hrev. reflexivity. }
    apply andb_prop in H. destruct H as [Hnc Hroot].
    intros t sm Ht Hrok.
    set (below := rev rbelow) in *.
    set (sums := build fsum_node [] below) in *.
    (* the root symbol is the start symbol, so t is an interior node *)
    pose proof (tsum_relaxed_shape t sm Ht) as Esm.
    assert (Hsym : sm_sym sm = NT start).
    { unfold root_ok in Hrok. apply andb_prop in Hrok. destruct Hrok as [Hs _].
      apply sym_eqb_eq. exact Hs. }
    destruct t as [y s e|p s e cs].
    { exfalso. cbn in Ht. unfold check_leaf in Ht. destruct (_ && _); [|discriminate].
      inversion Ht; subst sm. cbn in Hsym. discriminate. }
    cbn [ForestSound.tsum] in Ht.
    destruct (all_some (map tsum cs)) as [kids|] eqn:Hall; [|discriminate].
    apply all_some_map in Hall.
    unfold check_node in Ht. destruct (get_prod g p) as [pr|] eqn:Hp; [|discriminate].
    destruct (list_eqb sym_eqb (map sm_sym kids) (rhs pr)) eqn:Hs; cbn [negb] in Ht; [|discriminate].
    apply (list_eqb_eq sym_eqb sym_eqb_eq) in Hs. cbn [andb] in Ht.
    destruct (chain sk kids None) as [f|] eqn:Hch; [|discriminate]. inversion Ht; subst sm.
    cbn [sm_sym fst] in Hsym. inversion Hsym as [Hlhs].
    unfold alts_closed in Hroot. rewrite forallb_forall in Hroot.
    specialize (Hroot _ (iprods_In g p pr Hp)). cbn [fst snd] in Hroot.
    rewrite Hlhs, N.eqb_refl in Hroot. cbn [negb orb] in Hroot. rewrite forallb_forall in Hroot.
    assert (Hkc : forall k0, In k0 kids -> In (item_of k0) C).
    { clear -Hall Htoks Hcc. induction Hall as [|c k0 cs kids Hk0 Hr IHr]; intros k' Hin; [destruct Hin|].
      destruct Hin as [<-|Hin]; [eapply chart_complete; exact Hk0|apply IHr; exact Hin]. }
    specialize (Hroot _ (decomps_complete kids (rhs pr) None f Hkc Hs Hch)). cbn [fst snd] in Hroot.
    rewrite Hlhs in Hrok. cbv beta in Hroot. apply orb_prop in Hroot.
    destruct Hroot as [Hneg|Hroot];
      [exfalso; apply negb_true_iff in Hneg; exact (eq_true_false_abs _ Hrok Hneg)|].
    apply existsb_exists in Hroot. destruct Hroot as (a & Hain & Hm).
    destruct a as [? ? ?|p' s' e' cs']; [discriminate|]. cbn [alt_matches] in Hm.
    apply andb_prop in Hm. destruct Hm as [Hpp Hkm]. apply N.eqb_eq in Hpp. subst p'.
    destruct (kids_match_spec _ _ _ _ Hkm) as [HFk _].
    assert (Hts : exists ts', Forall2 (fun x l => In x l) ts' (map (fun c => nth c (all_trees below) []) cs') /\
                              map shape ts' = map shape cs).
    { rewrite <- Hs in HFk. clear -HFk Hall Hnc Htoks Hcc. revert cs' HFk.
      induction Hall as [|c0 k0 cs kids Hk0 Hr IHr]; intros cs' HF.
      - cbn in HF. inversion HF; subst. exists []. split; constructor.
      - cbn [map combine] in HF. inversion HF as [|c' xf cs'' ? Hc' HF']; subst.
        destruct Hc' as (smc & Hlab & Hitc).
        destruct (node_complete below Hnc c0 c' k0 smc Hk0 Hlab Hitc) as (t' & Hin' & Hsh').
        destruct (IHr cs'' HF') as (ts' & HFt & Hsht).
        exists (t' :: ts'). split; [constructor; assumption|cbn; congruence]. }
    destruct Hts as (ts' & HFt & Hsht).
    exists (TNode p s' e' ts'). split; [|cbn; rewrite Hsht; reflexivity].
    unfold root_trees, all_trees. rewrite HF, build_snoc, last_last.
    fold (all_trees below). unfold trees_node. apply in_flat_map.
    exists (ANT p s' e' cs'). split; [exact Hain|].
    cbn [trees_alt]. apply in_map. apply cart_In. exact HFt.
  Qed.
End Comp.

(* ---- the tree-level checker accepts every derivation (relaxed mode) ----------------------
   so that the completeness theorem can be stated for derivation trees, declaratively *)
Section TsumComplete.
  Variable g : grammar.
  Variable tokok : N -> N -> N -> bool.
  Variable sk : N -> N.

  Notation tsum := (tsum g tokok sk false).
  Notation chain_ok := (chain_ok sk).

  Definition leaf_fine (l : N * N * N) : Prop := leaf_ok tokok l /\ lf_s l <= lf_e l.

  Lemma chain_ok_app_l l1 l2 : chain_ok (l1 ++ l2) -> chain_ok l1.
  Proof.
    induction l1 as [|a r IH]; intros H; [exact I|].
    destruct r as [|b r']; [exact I|]. cbn [app chain_ok] in *. destruct H as [Hab Hr].
    split; [exact Hab|apply IH; exact Hr].
  Qed.

  Lemma chain_ok_app_r l1 l2 : chain_ok (l1 ++ l2) -> chain_ok l2.
  Proof.
    induction l1 as [|a r IH]; intros H; [exact H|].
    apply IH. destruct r as [|b r']; cbn [app] in *.
    - destruct l2 as [|c l2']; [exact I|]. cbn [chain_ok] in H. apply H.
    - cbn [chain_ok] in H. apply H.
  Qed.

  Lemma chain_ok_link l1 a l2 b : chain_ok ((b :: l1) ++ a :: l2) -> sk (lf_e (last l1 b)) = lf_s a.
  Proof.
    revert b. induction l1 as [|c r IH]; intros b H.
    - cbn in H. apply H.
    - rewrite last_cons_default. apply (IH c).
      cbn [app] in H. cbn [chain_ok] in H. destruct H as [_ H]. exact H.
  Qed.

  Lemma chain_complete ts kids :
    Forall2 (fun t k => sm_fl k = bounds (leaves t)) ts kids ->
    forall pre, chain_ok (pre ++ flat_map leaves ts) ->
      chain sk kids (bounds pre) = Some (bounds (pre ++ flat_map leaves ts)).
  Proof.
    induction 1 as [|t k ts kids Hk Hrest IH]; intros pre Hc.
    - cbn. rewrite app_nil_r. reflexivity.
    - cbn [flat_map] in *. rewrite app_assoc in *. cbn [chain]. rewrite Hk.
      destruct (leaves t) as [|a l] eqn:Hl.
      + cbn [bounds]. rewrite app_nil_r in *. apply IH. exact Hc.
      + cbn [bounds]. destruct pre as [|b p].
        * cbn [bounds app] in *. apply (IH (a :: l)). exact Hc.
        * cbn [bounds].
          assert (Hlink : sk (lf_e (last p b)) = lf_s a).
          { apply chain_ok_app_l in Hc. eapply chain_ok_link. exact Hc. }
          rewrite Hlink, N.eqb_refl.
          replace (Some (lf_s b, lf_e (last l a))) with (bounds ((b :: p) ++ a :: l)).
          -- apply IH. exact Hc.
          -- cbn [app bounds]. rewrite last_app_cons. reflexivity.
  Qed.

  Lemma All_flat_map {X Y} (P : Y -> Prop) (f : X -> list Y) l :
    All P (flat_map f l) <-> All (fun x => All P (f x)) l.
  Proof. induction l as [|a r IH]; cbn; [tauto|]. rewrite All_app, IH. tauto. Qed.

  Lemma chain_ok_flat_map_each ts :
    chain_ok (flat_map leaves ts) -> All (fun t => chain_ok (leaves t)) ts.
  Proof.
    induction ts as [|t r IH]; intros H; cbn; [exact I|]. cbn [flat_map] in H.
    split; [eapply chain_ok_app_l; exact H|apply IH; eapply chain_ok_app_r; exact H].
  Qed.

  Theorem tsum_complete t :
    wf_tree g t -> chain_ok (leaves t) -> All leaf_fine (leaves t) ->
    exists sm, tsum t = Some sm /\ root_sym g t = Some (sm_sym sm) /\ sm_fl sm = bounds (leaves t).
  Proof.
    induction t as [y s e|p s e cs IH] using tree_ind2; intros Hw Hc Hl.
    - cbn in Hl. destruct Hl as [[Hok Hle] _]. unfold leaf_ok, lf_y, lf_s, lf_e in *. cbn in Hok, Hle.
      exists (T y, 0, 0, Some (s, e)). cbn [ForestSound.tsum]. unfold check_leaf.
      rewrite Hok. replace (s <=? e) with true by (symmetry; apply N.leb_le; exact Hle). cbn. auto.
    - cbn [wf_tree] in Hw. destruct Hw as [(pr & Hp & Hroots) Hwcs].
      cbn [leaves] in Hc, Hl.
      assert (Hkids : exists kids, Forall2 (fun t k => tsum t = Some k /\ root_sym g t = Some (sm_sym k) /\
                                                       sm_fl k = bounds (leaves t)) cs kids).
      { pose proof (chain_ok_flat_map_each cs Hc) as Hce.
        apply All_flat_map in Hl.
        clear -IH Hwcs Hce Hl. induction cs as [|c r IHr]; [exists []; constructor|].
        cbn in IH, Hwcs, Hce, Hl. destruct IH as [IHc IHcs]. destruct Hwcs as [Hwc Hwr].
        destruct Hce as [Hcc Hcr]. destruct Hl as [Hlc Hlr].
        destruct (IHc Hwc Hcc Hlc) as (k & Hk). destruct (IHr IHcs Hwr Hlr Hcr) as (kids & Hks).
        exists (k :: kids). constructor; assumption. }
      destruct Hkids as (kids & HF).
      assert (Hall : all_some (map tsum cs) = Some kids).
      { clear -HF. induction HF as [|t k ts kids [Hk _] Hr IHr]; [reflexivity|].
        cbn. rewrite Hk, IHr. reflexivity. }
      assert (Hsyms : map sm_sym kids = rhs pr).
      { assert (E : map (root_sym g) cs = map Some (map sm_sym kids)).
        { clear -HF. induction HF as [|t k ts kids (_ & Hr & _) Hrest IHr]; [reflexivity|].
          cbn. rewrite Hr, IHr. reflexivity. }
        rewrite Hroots in E. clear -E. revert E. generalize (map sm_sym kids) as l. generalize (rhs pr) as l'.
        induction l' as [|a r IH]; intros [|b l] E; cbn in E; try discriminate; [reflexivity|].
        inversion E; subst. f_equal. apply IH. assumption. }
      assert (Hch : chain sk kids None = Some (bounds (flat_map leaves cs))).
      { apply (chain_complete cs kids) with (pre := []); [|exact Hc].
        clear -HF. induction HF as [|t k ts kids (_ & _ & Hf) Hrest IHr]; constructor; assumption. }
      exists (NT (lhs pr), 0, 0, bounds (flat_map leaves cs)).
      cbn [ForestSound.tsum]. rewrite Hall. unfold check_node. rewrite Hp.
      replace (list_eqb sym_eqb (map sm_sym kids) (rhs pr)) with true
        by (symmetry; apply (list_eqb_eq sym_eqb sym_eqb_eq); exact Hsyms).
      cbn [negb andb]. rewrite Hch. cbn. rewrite Hp. cbn. auto.
  Qed.
End TsumComplete.

(* ---- the user-facing theorem --------------------------------------------------------------
   every derivation tree of the input -- root = start symbol, productions applied in order,
   every leaf a token of the oracle with start <= end, consecutive leaves separated by layout
   only, the first leaf right after the leading layout and (consume_input) only layout after
   the last one -- is, up to the spans recorded in interior nodes, a tree of the forest *)
Theorem forest_complete_thm g tokok sk C toks start pos0 in_len consume F :
  (forall y s e, tokok y s e = true -> In (y, s, e) toks) ->
  forest_complete g tokok sk C toks start pos0 in_len consume F = true ->
  forall t,
    wf_tree g t -> root_sym g t = Some (NT start) ->
    chain_ok sk (leaves t) -> All (leaf_fine tokok) (leaves t) ->
    match bounds (leaves t) with
    | None => consume = true -> sk pos0 = in_len
    | Some (fs, le) => fs = sk pos0 /\ le <= in_len /\ (consume = true -> sk le = in_len)
    end ->
    exists t', In t' (root_trees F) /\ shape t' = shape t.
Proof.
  intros Htoks Hfc t Hw Hroot Hc Hl Hb.
  assert (Hcc : chart_closed g sk C toks = true).
  { unfold forest_complete in Hfc. apply andb_prop in Hfc. apply Hfc. }
  destruct (tsum_complete g tokok sk t Hw Hc Hl) as (sm & Hsm & Hrs & Hfl).
  apply (forest_complete_sound g tokok sk C toks Htoks Hcc start pos0 in_len consume F Hfc t sm Hsm).
  assert (Hs : sm_sym sm = NT start) by congruence.
  unfold root_ok. rewrite Hs.
  replace (sym_eqb (NT start) (NT start)) with true by (symmetry; apply sym_eqb_eq; reflexivity).
  cbn [andb]. rewrite Hfl. destruct (bounds (leaves t)) as [[fs le]|].
  - destruct Hb as (Hfs & Hle & Hcons). subst fs. rewrite N.eqb_refl. cbn [andb].
    replace (le <=? in_len) with true by (symmetry; apply N.leb_le; exact Hle).
    rewrite andb_true_r. destruct consume; [|reflexivity]. cbn. apply N.eqb_eq. apply Hcons. reflexivity.
  - destruct consume; [|reflexivity]. cbn. apply N.eqb_eq. apply Hb. reflexivity.
Qed.
