(* Proofs about Model/Forest.v: counting = number of represented trees,
   index decoding = nth of the enumeration, for every well-formed forest. *)
From Coq Require Import NArith List Bool Lia Arith PeanoNat.
From PV Require Import Model.Forest.
Import ListNotations.

(* ------------------------------------------------------------------------ *)
(* generic facts about [build]                                               *)

Section BuildFacts.
  Context {X : Type} (f : list X -> pnode -> X).

  Lemma build_length acc ns : length (build f acc ns) = length acc + length ns.
  Proof.
    revert acc; induction ns as [|n r IH]; intros acc; cbn [build length]; [lia|].
    rewrite IH, app_length; cbn [length]; lia.
  Qed.

  Lemma build_snoc acc ns n :
    build f acc (ns ++ [n]) = build f acc ns ++ [f (build f acc ns) n].
  Proof.
    revert acc; induction ns as [|m r IH]; intros acc; cbn [build app]; [reflexivity|].
    apply IH.
  Qed.

  Lemma build_prefix acc ns k d :
    k < length acc -> nth k (build f acc ns) d = nth k acc d.
  Proof.
    revert acc; induction ns as [|n r IH]; intros acc Hk; cbn [build]; [reflexivity|].
    rewrite IH by (rewrite app_length; cbn [length]; lia).
    apply app_nth1; exact Hk.
  Qed.
End BuildFacts.

(* an invariant relating two parallel builds, node by node *)
Section Build2.
  Context {X Y : Type} (f : list X -> pnode -> X) (g : list Y -> pnode -> Y).
  Context (R : X -> Y -> Prop) (ok : nat -> pnode -> Prop).
  Hypothesis step : forall ax ay n,
      Forall2 R ax ay -> ok (length ax) n -> R (f ax n) (g ay n).

  Fixpoint oks (k : nat) (ns : forest) : Prop :=
    match ns with [] => True | n :: r => ok k n /\ oks (S k) r end.

  Lemma build2 ax ay ns :
    Forall2 R ax ay -> oks (length ax) ns ->
    Forall2 R (build f ax ns) (build g ay ns).
  Proof.
    revert ax ay; induction ns as [|n r IH]; intros ax ay HR Hok; cbn [build]; [exact HR|].
    destruct Hok as [Hn Hr].
    apply IH.
    - apply Forall2_app; [exact HR|]. constructor; [|constructor]. apply step; assumption.
    - rewrite app_length; cbn [length]. replace (length ax + 1) with (S (length ax)) by lia.
      exact Hr.
  Qed.
End Build2.

(* ------------------------------------------------------------------------ *)
(* list arithmetic                                                           *)

Lemma length_flat_map_const {SS T : Type} (h : SS -> list T) (l : list SS) (p : nat) :
  (forall x, In x l -> length (h x) = p) -> length (flat_map h l) = length l * p.
Proof.
  induction l as [|x r IH]; intros H; cbn [flat_map length]; [reflexivity|].
  rewrite app_length. rewrite IH by (intros y Hy; apply H; right; exact Hy).
  rewrite (H x) by (left; reflexivity). lia.
Qed.

Lemma cart_length {T : Type} (ls : list (list T)) :
  length (cart ls) = fold_right (fun l p => length l * p) 1 ls.
Proof.
  induction ls as [|l r IH]; cbn [cart fold_right]; [reflexivity|].
  rewrite (length_flat_map_const _ l (length (cart r))).
  - rewrite IH. reflexivity.
  - intros x _. apply map_length.
Qed.

(* all buckets of the flat_map have the same size [length M] *)
Lemma nth_flat_map_uniform {SS T U : Type} (gx : SS -> T -> U) (M : list T) (l : list SS)
      (i : nat) (ds : SS) (dt : T) (du : U) :
  0 < length M -> i < length l * length M ->
  nth i (flat_map (fun x => map (gx x) M) l) du
  = gx (nth (i / length M) l ds) (nth (i mod length M) M dt).
Proof.
  intros HM. revert i. induction l as [|x r IH]; intros i Hi; cbn [length] in Hi; [lia|].
  cbn [flat_map].
  destruct (Nat.lt_ge_cases i (length M)) as [Hlt|Hge].
  - rewrite app_nth1 by (rewrite map_length; exact Hlt).
    rewrite Nat.div_small, Nat.mod_small by exact Hlt. cbn [nth].
    rewrite (nth_indep _ du (gx x dt)) by (rewrite map_length; exact Hlt).
    apply map_nth.
  - rewrite app_nth2 by (rewrite map_length; lia). rewrite map_length.
    rewrite IH by lia.
    assert (Hd : i / length M = S ((i - length M) / length M)).
    { replace i with ((i - length M) + 1 * length M) at 1 by lia.
      rewrite Nat.div_add by lia. lia. }
    assert (Hm : i mod length M = (i - length M) mod length M).
    { replace i with ((i - length M) + 1 * length M) at 1 by lia.
      rewrite Nat.mod_add by lia. reflexivity. }
    rewrite Hd, Hm. reflexivity.
Qed.

Lemma nth_cart_cons {T : Type} (l : list T) (r : list (list T)) (i : nat) (d : T) :
  0 < length (cart r) -> i < length l * length (cart r) ->
  nth i (cart (l :: r)) []
  = nth (i / length (cart r)) l d :: nth (i mod length (cart r)) (cart r) [].
Proof.
  intros HP Hi. cbn [cart].
  apply (nth_flat_map_uniform (fun x t => x :: t) (cart r) l i d [] []); assumption.
Qed.

(* ------------------------------------------------------------------------ *)
(* the per-node relation                                                     *)

Local Open Scope N_scope.

Definition dtree : tree := TLeaf 0 0 0.

Definition Rn (cd : N * decoder) (ts : list tree) : Prop :=
  fst cd = N.of_nat (length ts) /\ 0 < fst cd /\
  forall i, i < fst cd -> snd cd i = Some (nth (N.to_nat i) ts dtree).

Definition ok_node (k : nat) (n : pnode) : Prop :=
  n <> [] /\ forall a, In a n -> forall c, In c (alt_children a) -> (c < k)%nat.

Lemma Forall2_len {X Y} (R : X -> Y -> Prop) l l' : Forall2 R l l' -> length l = length l'.
Proof. induction 1; cbn [length]; congruence. Qed.

Lemma Rn_at_gen acd ats c : Forall2 Rn acd ats -> (c < length acd)%nat ->
  Rn (nth c (map fst acd) 0, nth c (map snd acd) (fun _ => None)) (nth c ats []).
Proof.
  intros H. revert c. induction H as [|cd ts l l' H0 Hl IH]; intros c Hc; cbn [length] in Hc; [lia|].
  destruct c as [|c]; cbn [map nth].
  - destruct cd; exact H0.
  - apply IH. lia.
Qed.

Section Step.
  Variables (acd : list (N * decoder)) (ats : list (list tree)).
  Hypothesis HR : Forall2 Rn acd ats.

  Let cnts := map fst acd.
  Let decs := map snd acd.

  Lemma Rn_at c : (c < length acd)%nat ->
    Rn (nth c cnts 0, nth c decs (fun _ => None)) (nth c ats []).
  Proof. intros Hc. apply Rn_at_gen; assumption. Qed.

  Lemma prodw_cart cs :
    (forall c, In c cs -> (c < length acd)%nat) ->
    prodw cnts cs = N.of_nat (length (cart (map (fun c => nth c ats []) cs))) /\
    0 < prodw cnts cs.
  Proof.
    induction cs as [|c r IH]; intros Hin.
    - cbn. split; reflexivity.
    - destruct IH as [IH1 IH2]; [intros; apply Hin; right; assumption|].
      destruct (Rn_at c) as [Hc1 [Hc2 _]]; [apply Hin; left; reflexivity|].
      cbn [fst] in Hc1, Hc2.
      rewrite cart_length in *. cbn [map fold_right prodw] in *.
      fold (prodw cnts r). rewrite Nat2N.inj_mul, <- IH1, <- Hc1. split; [reflexivity|].
      apply N.mul_pos_pos; assumption.
  Qed.

  Lemma dec_children_ok cs :
    (forall c, In c cs -> (c < length acd)%nat) ->
    forall i, i < prodw cnts cs ->
    dec_children cnts decs cs i
    = Some (nth (N.to_nat i) (cart (map (fun c => nth c ats []) cs)) []).
  Proof.
    induction cs as [|c r IH]; intros Hin i Hi.
    - cbn in Hi. assert (i = 0) by lia. subst i. reflexivity.
    - assert (Hr : forall c0, In c0 r -> (c0 < length acd)%nat)
        by (intros; apply Hin; right; assumption).
      destruct (prodw_cart r Hr) as [HP1 HP2].
      destruct (Rn_at c) as [Hc1 [Hc2 Hc3]]; [apply Hin; left; reflexivity|].
      cbn [fst snd] in Hc1, Hc2, Hc3.
      cbn [prodw fold_right] in Hi. fold (prodw cnts r) in Hi.
      cbn [dec_children map].
      set (P := prodw cnts r) in *.
      assert (Hq : i / P < nth c cnts 0).
      { apply N.div_lt_upper_bound; lia. }
      assert (Hm : i mod P < P) by (apply N.mod_lt; lia).
      rewrite Hc3 by exact Hq. rewrite IH by assumption.
      f_equal.
      rewrite (nth_cart_cons _ _ _ dtree).
      + rewrite N2Nat.inj_div, N2Nat.inj_mod, HP1, Nat2N.id. reflexivity.
      + rewrite HP1 in HP2. lia.
      + rewrite HP1, Hc1 in Hi. lia.
  Qed.

  Lemma alt_ok a :
    (forall c, In c (alt_children a) -> (c < length acd)%nat) ->
    cnt_alt cnts a = N.of_nat (length (trees_alt ats a)) /\ 0 < cnt_alt cnts a /\
    forall i, i < cnt_alt cnts a ->
      dec_alt cnts decs a i = Some (nth (N.to_nat i) (trees_alt ats a) dtree).
  Proof.
    destruct a as [y s e | p s e cs]; cbn [alt_children cnt_alt trees_alt dec_alt]; intros Hin.
    - split; [reflexivity|]. split; [reflexivity|]. intros i Hi.
      assert (i = 0) by lia. subst i. reflexivity.
    - destruct (prodw_cart cs Hin) as [H1 H2].
      rewrite map_length. split; [exact H1|]. split; [exact H2|].
      intros i Hi. rewrite dec_children_ok by assumption.
      f_equal.
      rewrite (nth_indep _ dtree (TNode p s e [])) by (rewrite map_length; lia).
      symmetry. apply map_nth.
  Qed.

  Lemma search_ok n :
    (forall a, In a n -> forall c, In c (alt_children a) -> (c < length acd)%nat) ->
    cnt_node cnts n = N.of_nat (length (trees_node ats n)) /\
    forall i, i < cnt_node cnts n ->
      exists a i', search cnts n i = Some (a, i') /\ In a n /\ i' < cnt_alt cnts a /\
        nth (N.to_nat i) (trees_node ats n) dtree = nth (N.to_nat i') (trees_alt ats a) dtree.
  Proof.
    induction n as [|a r IH]; intros Hin.
    - cbn. split; [reflexivity|]. intros i Hi. lia.
    - destruct IH as [IH1 IH2]; [intros; eapply Hin; [right|]; eassumption|].
      destruct (alt_ok a) as [Ha1 [Ha2 _]]; [intros; eapply Hin; [left; reflexivity|eassumption]|].
      cbn [cnt_node fold_right trees_node flat_map]. fold (cnt_node cnts r).
      fold (trees_node ats r).
      split; [rewrite app_length, Nat2N.inj_add; lia|].
      intros i Hi. cbn [search].
      destruct (N.leb_spec (cnt_alt cnts a) i) as [Hle|Hlt].
      + destruct (IH2 (i - cnt_alt cnts a)) as (a' & i' & Hs & Hin' & Hlt' & Hn); [lia|].
        exists a', i'. split; [exact Hs|]. split; [right; exact Hin'|]. split; [exact Hlt'|].
        rewrite app_nth2 by lia. rewrite <- Hn. f_equal. lia.
      + exists a, i. split; [reflexivity|]. split; [left; reflexivity|]. split; [exact Hlt|].
        apply app_nth1. lia.
  Qed.

  Lemma node_step n : ok_node (length acd) n ->
    Rn (cd_step acd n) (trees_node ats n).
  Proof.
    intros [Hne Hin]. unfold cd_step. fold cnts decs. unfold Rn. cbn [fst snd].
    destruct (search_ok n Hin) as [H1 H2].
    assert (Hpos : 0 < cnt_node cnts n).
    { destruct n as [|a r]; [congruence|].
      cbn [cnt_node fold_right].
      destruct (alt_ok a) as [_ [Ha _]]; [intros; eapply Hin; [left; reflexivity|eassumption]|].
      lia. }
    split; [exact H1|]. split; [exact Hpos|].
    intros i Hi. unfold dec_node.
    destruct (H2 i Hi) as (a & i' & Hs & Hina & Hlt & Hn).
    assert (Hpick : (if (0 <? i) && (1 <? N.of_nat (length n))
                     then search cnts n i
                     else match n with [] => None | a0 :: _ => Some (a0, i) end)
                    = Some (a, i')).
    { destruct ((0 <? i) && (1 <? N.of_nat (length n))) eqn:Hc; [exact Hs|].
      destruct n as [|a0 r]; [congruence|].
      cbn [search] in Hs.
      destruct (N.leb_spec (cnt_alt cnts a0) i) as [Hle|Hl]; [|exact Hs].
      exfalso. apply andb_false_iff in Hc. destruct Hc as [Hc|Hc].
      - apply N.ltb_ge in Hc. assert (i = 0) by lia. subst i.
        destruct (alt_ok a0) as [_ [Ha _]];
          [intros; eapply Hin; [left; reflexivity|eassumption]|]. lia.
      - apply N.ltb_ge in Hc. cbn [length] in Hc.
        destruct r as [|a1 r]; [|cbn [length] in Hc; lia].
        cbn [cnt_node fold_right] in Hi. lia. }
    rewrite Hpick.
    destruct (alt_ok a) as [_ [_ Ha3]]; [intros; eapply Hin; eassumption|].
    rewrite Ha3 by exact Hlt. rewrite Hn. reflexivity.
  Qed.
End Step.

Lemma oks_of_wf k F : wf_from k F = true -> oks ok_node k F.
Proof.
  revert k; induction F as [|n r IH]; intros k H; cbn [wf_from oks] in *; [exact I|].
  apply andb_true_iff in H. destruct H as [H Hr].
  apply andb_true_iff in H. destruct H as [Hne Hall].
  split; [|apply IH; exact Hr].
  split.
  - destruct n; [discriminate|congruence].
  - intros a Ha c Hc. rewrite forallb_forall in Hall. specialize (Hall a Ha).
    unfold alt_wf in Hall. rewrite forallb_forall in Hall. specialize (Hall c Hc).
    apply Nat.ltb_lt. exact Hall.
Qed.

Theorem forest_main (F : forest) :
  forest_wf F = true -> Forall2 Rn (cds F) (all_trees F).
Proof.
  intros Hwf. unfold cds, all_trees.
  apply (build2 cd_step trees_node Rn ok_node).
  - intros ax ay n HR Hok. apply node_step; assumption.
  - constructor.
  - apply oks_of_wf. exact Hwf.
Qed.

(* ------------------------------------------------------------------------ *)
(* user-facing corollaries                                                   *)

Definition root_trees (F : forest) : list tree := last (all_trees F) [].

Lemma last_Forall2 {X Y} (R : X -> Y -> Prop) l l' dx dy :
  Forall2 R l l' -> l <> [] -> R (last l dx) (last l' dy).
Proof.
  induction 1 as [|x y l l' Hxy Hl IH]; intros Hne; [congruence|].
  destruct Hl as [|x' y' l l' Hxy' Hl'].
  - exact Hxy.
  - cbn [last] in *. apply IH. congruence.
Qed.

Lemma cds_nonempty F : F <> [] -> cds F <> [].
Proof.
  intros HF Hc. apply (f_equal (@length _)) in Hc. unfold cds in Hc.
  rewrite build_length in Hc. destruct F; [congruence|]. cbn in Hc. lia.
Qed.

Lemma root_Rn F : forest_wf F = true -> F <> [] ->
  Rn (root_count F, tree_at F) (root_trees F).
Proof.
  intros Hwf HF. pose proof (forest_main F Hwf) as H.
  pose proof (last_Forall2 Rn _ _ (0, fun _ => None) [] H (cds_nonempty F HF)) as HL.
  unfold root_count, tree_at, root_trees.
  assert (E1 : last (map fst (cds F)) 0 = fst (last (cds F) (0, fun _ => None))).
  { generalize (cds F). intros l. induction l as [|x [|y l] IH]; try reflexivity.
    cbn [map last] in *. exact IH. }
  assert (E2 : last (map snd (cds F)) (fun _ => None)
               = snd (last (cds F) (0, fun _ : N => @None tree))).
  { generalize (cds F). intros l. induction l as [|x [|y l] IH]; try reflexivity.
    cbn [map last] in *. exact IH. }
  rewrite E1, E2. destruct (last (cds F) (0, fun _ => None)). exact HL.
Qed.

Theorem count_correct F : forest_wf F = true -> F <> [] ->
  root_count F = N.of_nat (length (root_trees F)).
Proof. intros H1 H2. exact (proj1 (root_Rn F H1 H2)). Qed.

Theorem count_positive F : forest_wf F = true -> F <> [] -> 0 < root_count F.
Proof. intros H1 H2. exact (proj1 (proj2 (root_Rn F H1 H2))). Qed.

Theorem index_correct F i : forest_wf F = true -> F <> [] -> i < root_count F ->
  tree_at F i = Some (nth (N.to_nat i) (root_trees F) dtree).
Proof. intros H1 H2. exact (proj2 (proj2 (root_Rn F H1 H2)) i). Qed.

Theorem checked_in_bounds F i : forest_wf F = true -> F <> [] -> i < root_count F ->
  tree_at_checked F i = Some (nth (N.to_nat i) (root_trees F) dtree).
Proof.
  intros H1 H2 Hi. unfold tree_at_checked.
  destruct (N.ltb_spec i (root_count F)); [|lia]. apply index_correct; assumption.
Qed.

Theorem checked_out_of_bounds F i : root_count F <= i -> tree_at_checked F i = None.
Proof.
  intros Hi. unfold tree_at_checked. destruct (N.ltb_spec i (root_count F)); [lia|reflexivity].
Qed.
