(* Entry points of the extracted model for C07 (commands 70..79). *)
From Coq Require Import NArith List Bool.
From PV Require Import Base.Sx Spec.LexOrder Model.Table Model.Scan Model.Parser Model.StrTerm
  Model.LexCell.
Import ListNotations.
Local Open Scope N_scope.

(* terminal description, indexed by terminal id:
     (fqn prior kind len name_len mark prefer)
   kind 0 string / 1 keyword / 2 regex or custom; mark 0 = unmarked, 1 = nofinish, 2 = finish *)
Definition c07_aterm (s : sx) : aterm :=
  let v := repeat 0 (sxNat (sx_nth s 3)) in
  mkA (sxNs (sx_nth s 0)) (sxN (sx_nth s 1))
      (match sxN (sx_nth s 2) with 0 => FStr v | 1 => FKw v | _ => FRegex 0 end)
      (sxN (sx_nth s 4))
      (match sxN (sx_nth s 5) with 0 => None | 1 => Some false | _ => Some true end).
Definition c07_prefer (s : sx) : bool := sxB (sx_nth s 6).

Definition dummy_aterm : aterm := mkA [] 0 (FRegex 0) 0 None.

Definition c07_cterm (descr : list sx) (t : N) : cterm :=
  match nth_error descr (N.to_nat t) with
  | Some s => mkC t (c07_aterm s) (c07_prefer s)
  | None => mkC t dummy_aterm false
  end.

Fixpoint bools_eqb (a b : list bool) : bool :=
  match a, b with
  | [], [] => true
  | x :: a', y :: b' => Bool.eqb x y && bools_eqb a' b'
  | _, _ => false
  end.
Fixpoint ns_eqb (a b : list N) : bool :=
  match a, b with
  | [], [] => true
  | x :: a', y :: b' => (x =? y) && ns_eqb a' b'
  | _, _ => false
  end.

(* decidable forms of the hypotheses of C07_scan_eq_doc *)
Definition sorted_ok (cell : list cterm) : bool :=
  ns_eqb (map c_id (sort_cell cell)) (map c_id cell).
Definition short_ok (cell : list cterm) : bool := forallb (fun c => c_klen c <? 1000) cell.
Definition unmarked_ok (cell : list cterm) : bool :=
  forallb (fun c => match at_finish (c_a c) with None => true | Some _ => false end) cell.

Section Pos.
  Variable rx : N -> N -> option N.
  Variable pos : N.
  Definition nonempty_ok (cell : list cterm) : bool :=
    forallb (fun c => match rx (c_id c) pos with Some n => 1 <=? n | None => true end) cell.
  Definition strlen_ok (cell : list cterm) : bool :=
    forallb (fun c => match rx (c_id c) pos with
                      | Some n => negb (c_strlike c) || (n =? c_klen c)
                      | None => true
                      end) cell.
  Definition tie_b (a b : cterm) : bool :=
    c_strlike a && c_strlike b && (c_prior a =? c_prior b) &&
    match rx (c_id a) pos, rx (c_id b) pos with
    | Some n, Some m => n =? m
    | _, _ => false
    end.
  Fixpoint notie_ok (cell : list cterm) : bool :=
    match cell with
    | [] => true
    | c :: r => forallb (fun d => negb (tie_b c d)) r && notie_ok r
    end.
End Pos.

Definition sx_of_toks (l : list (N * N)) : sx := L (map (fun t => L [A (fst t); A (snd t)]) l).

(* 70: (descr stop consume lexdis (chars rx) ((ids flags) ...)) ->
       per state: (sorted_ok flags_ok short_ok unmarked_ok
                   ((next_tokens doc marks nonempty_ok strlen_ok notie_ok) per position 0..len))
     next_tokens : the model of Parser._next_tokens with the impl's order and flags
     doc         : the documented outcome (doc_choice with the STOP rule; lexdis off: STOP ++ doc_all)
     marks       : the documented meaning of flags (marks_scan with the flags recomputed by
                   the model of calc_finish_flags), disambiguated the same way *)
Definition run_c07_state (s : sx) : sx :=
  let descr := sxL (sx_nth s 0) in
  let stop_id := sxN (sx_nth s 1) in
  let consume := sxB (sx_nth s 2) in
  let lexdis := sxB (sx_nth s 3) in
  let inp := mkPInput (sxNs (sx_nth (sx_nth s 4) 0)) (map sxNs (sxL (sx_nth (sx_nth s 4) 1))) in
  let terms := map (fun d => mkTerm (sxN (sx_nth d 1)) (sxB (sx_nth d 6))) descr in
  let n := in_len inp in
  let rx := rx_of inp in
  L (map (fun stx =>
            let ids := sxNs (sx_nth stx 0) in
            let flags := map sxB (sxL (sx_nth stx 1)) in
            let cell := map (c07_cterm descr) ids in
            let st := mkState (NT 0) (map (fun t => (t, [])) ids) [] flags [] in
            let mflags := if lexdis then impl_flags cell else map (fun _ => false) cell in
            let lc := map to_lterm cell in
            L [ofB (sorted_ok cell); ofB (bools_eqb mflags flags); ofB (short_ok cell);
               ofB (unmarked_ok cell);
               L (map (fun p =>
                         let pos := N.of_nat p in
                         let stopok := has_key stop_id (st_actions st) &&
                                       (negb consume || (pos =? n)) in
                         let stop := if stopok then [(stop_id, 0)] else [] in
                         let inside := pos <? n in
                         let doc := if lexdis
                                    then doc_with_stop stopok stop_id
                                           (if inside then doc_choice rx pos lc else [])
                                    else stop ++ (if inside then doc_all rx pos lc else []) in
                         let ms := stop ++ (if inside then marks_scan rx pos lc mflags else []) in
                         let marks := if lexdis then lexical_disambiguation terms ms else ms in
                         L [sx_of_toks (next_tokens terms rx n stop_id consume lexdis st pos);
                            sx_of_toks doc; sx_of_toks marks;
                            ofB (nonempty_ok rx pos cell); ofB (strlen_ok rx pos cell);
                            ofB (notie_ok rx pos cell)])
                      (seq 0 (S (N.to_nat n))))])
         (sxL (sx_nth s 5))).

(* 71: (descr ids) -> (sorted ids, flags of the sorted cell): sort_state_actions and
       calc_finish_flags on a cell given in any order *)
Definition run_c07_sort (s : sx) : sx :=
  let descr := sxL (sx_nth s 0) in
  let cell := sort_cell (map (c07_cterm descr) (sxNs (sx_nth s 1))) in
  L [ofNs (map c_id cell); L (map ofB (impl_flags cell))].
