(* Entry points of the extracted model: [run cmd arg]. *)
From Coq Require Import NArith List Bool.
From PV Require Import Base.Sx Model.Forest Extract.Codec.
Import ListNotations.
Local Open Scope N_scope.

(* 1: forest statistics *)
Definition run_forest_stats (s : sx) : sx :=
  let F := forest_of_sx s in
  L [ofB (forest_wf F); A (root_count F); A (ambiguities F); ofB (forest_nodup F);
     sx_of_otree (first_tree F)].

(* 2: index decoding: (forest (i ...)) -> ((unchecked checked) ...) *)
Definition run_forest_index (s : sx) : sx :=
  let F := forest_of_sx (sx_nth s 0) in
  L (map (fun i => L [sx_of_otree (tree_at F i); sx_of_otree (tree_at_checked F i)])
         (sxNs (sx_nth s 1))).

Definition run (cmd : N) (arg : sx) : sx :=
  match cmd with
  | 1 => run_forest_stats arg
  | 2 => run_forest_index arg
  | _ => L [A 999999]
  end.
