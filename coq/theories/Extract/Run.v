(* Entry points of the extracted model: [run cmd arg]. *)
From Coq Require Import NArith List Bool.
From PV Require Import Base.Sx Model.Forest Model.Table Model.LRDriver Model.Scan Model.Parser
  Validators.TableStruct Validators.ForestSound Validators.TableComplete Validators.TableProgress
  Validators.LexSep Validators.ItemsSound Validators.ForestComplete Model.Errors Extract.Codec.
From PV Require Import Extract.RunC19.
From PV Require Import Extract.RunC12.
From PV Require Import Extract.RunC09.
From PV Require Import Extract.RunC13.
From PV Require Import Extract.RunC06.
From PV Require Import Extract.RunC20.
From PV Require Import Extract.RunC15.
From PV Require Import Extract.RunC18.
From PV Require Import Extract.RunC11.
From PV Require Import Extract.RunC16.
From PV Require Import Extract.RunC14.
From PV Require Import Extract.RunC07.
From PV Require Import Extract.RunTAB.
From PV Require Import Extract.RunGLR.
Import ListNotations.
Local Open Scope N_scope.

(* 1: forest statistics *)
Definition run_forest_stats (s : sx) : sx :=
  let F := forest_of_sx s in
  L [ofB (forest_wf F); A (root_count F); A (ambiguities F); ofB (forest_nodup F);
     sx_of_otree (first_tree F); ofB (forest_distinct_ok F)].

(* 2: index decoding: (forest (i ...)) -> ((unchecked checked) ...) *)
Definition run_forest_index (s : sx) : sx :=
  let F := forest_of_sx (sx_nth s 0) in
  L (map (fun i => L [sx_of_otree (tree_at F i); sx_of_otree (tree_at_checked F i)])
         (sxNs (sx_nth s 1))).

(* 3: table_struct (grammar table start) *)
Definition run_table_struct (s : sx) : sx :=
  ofB (table_struct (grammar_of_sx (sx_nth s 0)) (table_of_sx (sx_nth s 1)) (sxN (sx_nth s 2))).

(* 4: LR parse: (pconf pinput fuel pos) *)
Definition run_lr_parse (s : sx) : sx :=
  sx_of_lr (parse_full (pconf_of_sx (sx_nth s 0)) (pinput_of_sx (sx_nth s 1))
                       (sxNat (sx_nth s 2)) (sxN (sx_nth s 3))).

(* 5: tree_ok (grammar tree) *)
Definition run_tree_ok (s : sx) : sx :=
  ofB (tree_ok (grammar_of_sx (sx_nth s 0)) (tree_of_sx (sx_nth s 1))).

(* 6: forest_ok (grammar forest chars rx ws start pos0 consume strict) -- ws-based layout *)
Definition run_forest_ok (s : sx) : sx :=
  let g := grammar_of_sx (sx_nth s 0) in
  let F := forest_of_sx (sx_nth s 1) in
  let inp := mkPInput (sxNs (sx_nth s 2)) (map sxNs (sxL (sx_nth s 3))) in
  let ws := sxNs (sx_nth s 4) in
  let tokok := fun y b e => match rx_of inp y b with
                            | Some l => (b + l =? e)
                            | None => false
                            end in
  ofB (forest_ok g tokok (skip_ws ws inp) (sxB (sx_nth s 8)) (sxN (sx_nth s 5)) (sxN (sx_nth s 6))
                 (in_len inp) (sxB (sx_nth s 7)) F).

(* 7: the trees a forest represents (forest cap): (1 (tree...)) or (0 ()) when more than cap *)
Definition run_forest_trees (s : sx) : sx :=
  let F := forest_of_sx (sx_nth s 0) in
  if (sxN (sx_nth s 1)) <? root_count F then L [A 0; L []]
  else L [A 1; L (map sx_of_tree (last (all_trees F) []))].

(* 8: table_complete (grammar table ann first nullable stop) *)
Definition run_table_complete (s : sx) : sx :=
  let ann := map (fun st => map (fun it => (sxN (sx_nth it 0), sxNat (sx_nth it 1), sxNs (sx_nth it 2)))
                                (sxL st)) (sxL (sx_nth s 2)) in
  ofB (table_complete (grammar_of_sx (sx_nth s 0)) (table_of_sx (sx_nth s 1)) ann
                      (map sxNs (sxL (sx_nth s 3))) (map sxB (sxL (sx_nth s 4))) (sxN (sx_nth s 5))).

(* 9: pos_to_line_col and is_eof: (chars p) -> (line col eof) *)
Definition run_linecol (s : sx) : sx :=
  let w := sxNs (sx_nth s 0) in
  let p := sxN (sx_nth s 1) in
  let lc := pos_to_line_col w p in
  L [A (fst lc); A (snd lc); ofB (is_eof w p)].

(* 10: det_table (table) *)
Definition run_det_table (s : sx) : sx := ofB (det_table (table_of_sx s)).

(* 11: forest_ok_labelled_full (grammar forest labels chars rx ws start pos0 consume strict);
       a label is () or ((kind id) s e fl) with fl = () or (fs le) *)
Definition label_of_sx (s : sx) : option nsum :=
  match sxL s with
  | [] => None
  | x :: _ =>
      Some (sym_of_sx x, sxN (sx_nth s 1), sxN (sx_nth s 2),
            match sxL (sx_nth s 3) with
            | a :: b :: _ => Some (sxN a, sxN b)
            | _ => None
            end)
  end.
Definition run_forest_labelled (s : sx) : sx :=
  let g := grammar_of_sx (sx_nth s 0) in
  let F := forest_of_sx (sx_nth s 1) in
  let labels := map label_of_sx (sxL (sx_nth s 2)) in
  let inp := mkPInput (sxNs (sx_nth s 3)) (map sxNs (sxL (sx_nth s 4))) in
  let ws := sxNs (sx_nth s 5) in
  let tokok := fun y b e => match rx_of inp y b with
                            | Some l => (b + l =? e)
                            | None => false
                            end in
  ofB (forest_ok_labelled_full g tokok (skip_ws ws inp) (sxB (sx_nth s 9)) (sxN (sx_nth s 6))
                               (sxN (sx_nth s 7)) (in_len inp) (sxB (sx_nth s 8)) F labels).

(* 12: table_progress (grammar table stop) *)
Definition run_table_progress (s : sx) : sx :=
  ofB (table_progress (grammar_of_sx (sx_nth s 0)) (table_of_sx (sx_nth s 1)) (sxN (sx_nth s 2))).

(* 13: sep_tokens (pconf pinput pos0 ((y s e) ...)) -- ws-based layout *)
Definition run_sep_tokens (s : sx) : sx :=
  let c := pconf_of_sx (sx_nth s 0) in
  let inp := pinput_of_sx (sx_nth s 1) in
  let toks := map (fun x => (sxN (sx_nth x 0), sxN (sx_nth x 1), sxN (sx_nth x 2))) (sxL (sx_nth s 3)) in
  ofB (sep_tokens (rx_of inp) (in_len inp) (pc_stop c) (pc_tb c)
                  (fun p => Some (skip_ws (pc_ws c) inp p)) (sxN (sx_nth s 2)) toks).

(* 14: items_sound (grammar table) *)
Definition run_items_sound (s : sx) : sx :=
  let g := grammar_of_sx (sx_nth s 0) in
  let tb := table_of_sx (sx_nth s 1) in
  L [ofB (items_sound g tb); ofB (states_closure_ok g tb 0 tb); ofB (nonempty_items tb 0);
     ofB (all_productive g); ofB (sprime_unique g)].

(* 15: forest completeness (grammar forest chars rx ws start pos0 consume chart):
       (forest_ok relaxed, chart_closed, forest_complete) *)
Definition item_of_sx (s : sx) : item :=
  (sym_of_sx (sx_nth s 0),
   match sxNs (sx_nth s 1) with
   | [a; b] => Some (a, b)
   | _ => None
   end).

Definition run_forest_complete (s : sx) : sx :=
  let g := grammar_of_sx (sx_nth s 0) in
  let F := forest_of_sx (sx_nth s 1) in
  let inp := mkPInput (sxNs (sx_nth s 2)) (map sxNs (sxL (sx_nth s 3))) in
  let ws := sxNs (sx_nth s 4) in
  let tokok := fun y b e => match rx_of inp y b with
                            | Some l => (b + l =? e)
                            | None => false
                            end in
  let C := map item_of_sx (sxL (sx_nth s 8)) in
  let toks := matrix_toks (pi_rx inp) in
  let start := sxN (sx_nth s 5) in
  let pos0 := sxN (sx_nth s 6) in
  let consume := sxB (sx_nth s 7) in
  L [ofB (forest_ok g tokok (skip_ws ws inp) false start pos0 (in_len inp) consume F);
     ofB (chart_closed g (skip_ws ws inp) C toks);
     ofB (forest_complete g tokok (skip_ws ws inp) C toks start pos0 (in_len inp) consume F)].

Definition run (cmd : N) (arg : sx) : sx :=
  match cmd with
  | 1 => run_forest_stats arg
  | 2 => run_forest_index arg
  | 3 => run_table_struct arg
  | 4 => run_lr_parse arg
  | 5 => run_tree_ok arg
  | 6 => run_forest_ok arg
  | 7 => run_forest_trees arg
  | 8 => run_table_complete arg
  | 9 => run_linecol arg
  | 10 => run_det_table arg
  | 11 => run_forest_labelled arg
  | 12 => run_table_progress arg
  | 13 => run_sep_tokens arg
  | 14 => run_items_sound arg
  | 15 => run_forest_complete arg
  | 190 => run_c19_unescape arg
  | 191 => run_c19_build arg
  | 192 => run_c19_match arg
  | 193 => run_c19_sort arg
  | 120 => run_c12_120 arg
  | 121 => run_c12_121 arg
  | 90 | 91 | 92 | 93 | 94 | 95 => run_c09 cmd arg
  | 130 => run_c13_0 arg
  | 131 => run_c13_1 arg
  | 132 => run_c13_2 arg
  | 133 => run_c13_3 arg
  | 134 => run_c13_4 arg
  | 135 => run_c13_5 arg
  | 136 => run_c13_6 arg
  | 60 => run_c06_reduce arg
  | 61 => run_c06_climb arg
  | 62 => run_c06_opm arg
  | 63 => run_c06_dec arg
  | 64 => run_c06_prec_ok arg
  | 200 => run_c20_build arg
  | 201 => run_c20_class arg
  | 202 => run_c20_spec arg
  | 150 => run_c15_0 arg
  | 151 => run_c15_1 arg
  | 152 => run_c15_2 arg
  | 153 => run_c15_3 arg
  | 154 => run_c15_4 arg
  | 70 => run_c07_state arg
  | 71 => run_c07_sort arg
  | 180 => run_c18_parse arg
  | 181 => run_c18_checks arg
  | 110 => run_c11_parse arg
  | 111 => run_c11_spans arg
  | 112 => run_c11_cover arg
  | 160 => run_c16_build arg
  | 161 => run_c16_unsorted arg
  | 162 => run_c16_keys arg
  | 140 => run_c14_0 arg
  | 141 => run_c14_1 arg
  | 142 => run_c14_2 arg
  | 143 => run_c14_3 arg
  | 220 | 221 | 222 | 223 | 224 => run_tab cmd arg
  | 210 => run_glr_210 arg
  | 211 => run_glr_211 arg
  | 212 => run_glr_212 arg
  | 213 => run_glr_213 arg
  | _ => L [A 999999]
  end.
