(* Entry points of the extracted model: [run cmd arg]. *)
From Coq Require Import NArith List Bool.
From PV Require Import Base.Sx Model.Forest Model.Table Model.LRDriver Model.Scan Model.Parser
  Validators.TableStruct Extract.Codec Extract.RunC20.
Import ListNotations.
Local Open Scope N_scope.

(* 1: forest statistics *)
Definition run_forest_stats (s : sx) : sx :=
  let F := forest_of_sx s in
  L [ofB (forest_wf F); A (root_count F); A (ambiguities F); ofB (forest_nodup F);
     sx_of_otree (first_tree F)].

(* 2: index decoding: (forest (i ...)) -> ((unchecked checked) ...) *)
Definition run_forest_index (s : sx) : sx :=
  let F := forest_of_sx (sx_nth s 0) in
  L (map (fun i => L [sx_of_otree (tree_at F i); sx_of_otree (tree_at_checked F i)])
         (sxNs (sx_nth s 1))).

(* 3: table_struct (grammar table start) *)
Definition run_table_struct (s : sx) : sx :=
  ofB (table_struct (grammar_of_sx (sx_nth s 0)) (table_of_sx (sx_nth s 1)) (sxN (sx_nth s 2))).

(* 4: LR parse: (pconf pinput fuel pos) *)
Definition run_lr_parse (s : sx) : sx :=
  sx_of_lr (parse_full (pconf_of_sx (sx_nth s 0)) (pinput_of_sx (sx_nth s 1))
                       (sxNat (sx_nth s 2)) (sxN (sx_nth s 3))).

(* 5: tree_ok (grammar tree) *)
Definition run_tree_ok (s : sx) : sx :=
  ofB (tree_ok (grammar_of_sx (sx_nth s 0)) (tree_of_sx (sx_nth s 1))).

Definition run (cmd : N) (arg : sx) : sx :=
  match cmd with
  | 1 => run_forest_stats arg
  | 2 => run_forest_index arg
  | 3 => run_table_struct arg
  | 4 => run_lr_parse arg
  | 5 => run_tree_ok arg
  | 200 => run_c20_build arg
  | 201 => run_c20_class arg
  | 202 => run_c20_spec arg
  | _ => L [A 999999]
  end.
