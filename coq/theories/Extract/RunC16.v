(* Entry points of the extracted model for C16 (commands 160..169). *)
From Coq Require Import NArith List Bool.
From PV Require Import Base.Sx Model.StrTerm Model.Determ Extract.RunC19.
Import ListNotations.
Local Open Scope N_scope.

(* ---- decoders --------------------------------------------------------------- *)
Definition dsym_of_sx (s : sx) : dsym :=
  match sxN (sx_nth s 0) with 0 => DT (sxN (sx_nth s 1)) | _ => DN (sxN (sx_nth s 1)) end.
(* (rhs prior assoc nops nopse) *)
Definition pinfo_of_sx (s : sx) : pinfo :=
  mkPI (map dsym_of_sx (sxL (sx_nth s 0))) (sxN (sx_nth s 1)) (sxN (sx_nth s 2))
       (sxB (sx_nth s 3)) (sxB (sx_nth s 4)).
(* (prods terms ntnames stop prefer_shifts prefer_shifts_over_empty lexical_disambiguation);
   a terminal is encoded as for command 193 (RunC19.aterm_of_sx) *)
Definition dconf_of_sx (s : sx) : dconf :=
  mkDC (map pinfo_of_sx (sxL (sx_nth s 0))) (map aterm_of_sx (sxL (sx_nth s 1)))
       (map str_of_sx (sxL (sx_nth s 2))) (sxN (sx_nth s 3))
       (sxB (sx_nth s 4)) (sxB (sx_nth s 5)) (sxB (sx_nth s 6)).
Definition pairNN (s : sx) : N * N := (sxN (sx_nth s 0), sxN (sx_nth s 1)).
(* (symname items shift gotos follows) *)
Definition tin_of_sx (s : sx) : score * list (list N) :=
  (mkSC (str_of_sx (sx_nth s 0))
        (map (fun it => (sxN (sx_nth it 0), sxNat (sx_nth it 1))) (sxL (sx_nth s 1)))
        (map pairNN (sxL (sx_nth s 2))) (map pairNN (sxL (sx_nth s 3))),
   map sxNs (sxL (sx_nth s 4))).

(* ---- encoders --------------------------------------------------------------- *)
Definition sx_of_act (a : act) : sx :=
  match a with AShift s => L [A 0; A s] | AReduce p => L [A 1; A p] | AAccept => L [A 2] end.
Definition sx_of_row (d : dict (list act)) : sx :=
  L (map (fun e => L [A (fst e); L (map sx_of_act (snd e))]) d).
Definition sx_of_sout (s : sout) : sx := L [sx_of_row (so_actions s); L (map ofB (so_finish s))].
Definition sx_of_conflict (x : conflict) : sx :=
  match x with (sid, t, ps) => L [A sid; A t; ofNs ps] end.

(* 160: (conf (state ...)) ->
        ((row finish_flags) ...) sr_conflicts rr_conflicts bytes (hypotheses-hold-per-state ...) *)
Definition run_c16_build (s : sx) : sx :=
  let c := dconf_of_sx (sx_nth s 0) in
  let tin := map tin_of_sx (sxL (sx_nth s 1)) in
  let t := build_table c tin in
  L [L (map sx_of_sout t); L (map sx_of_conflict (sr_conflicts t));
     L (map sx_of_conflict (rr_conflicts c t)); ofNs (table_bytes c t);
     L (map (fun x => ofB (tin_okb c x)) tin)].

(* 161: the rows BEFORE sort_state_actions (insertion order of the REDUCE phase): this is
        the part that does depend on the iteration order *)
Definition run_c16_unsorted (s : sx) : sx :=
  let c := dconf_of_sx (sx_nth s 0) in
  let tin := map tin_of_sx (sxL (sx_nth s 1)) in
  L (map (fun x => sx_of_row (reduce_phase c (shprior c (fst x)) (combine (sc_items (fst x)) (snd x))
                                           (actions0 c (fst x)))) tin).

(* 162: (conf (terminal ...)) -> keys_distinct *)
Definition run_c16_keys (s : sx) : sx :=
  ofB (keys_distinct (dconf_of_sx (sx_nth s 0)) (sxNs (sx_nth s 1))).
