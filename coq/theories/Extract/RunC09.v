(* Entry points of the extracted model for C09 (commands 90..99). *)
From Coq Require Import NArith List Bool.
From PV Require Import Base.Sx Model.Table Model.LRDriver Model.Scan Model.Parser Model.Actions
  Extract.Codec.
Import ListNotations.
Local Open Scope N_scope.

(* ---- values ---------------------------------------------------------------- *)
Fixpoint sx_of_val (v : val) : sx :=
  match v with
  | VStr s e => L [A 0; A s; A e]
  | VList l => L [A 1; L (map sx_of_val l)]
  | VNone => L [A 2]
  | VBool b => L [A 3; ofB b]
  | VObj c attrs s e =>
      L [A 4; A c; L (map (fun a => L [A (fst a); sx_of_val (snd a)]) attrs); A s; A e]
  | VUser k p s e args kw =>
      L [A 5; A k; A p; A s; A e; L (map sx_of_val args);
         L (map (fun a => L [A (fst a); sx_of_val (snd a)]) kw)]
  end.

Fixpoint val_of_sx (x : sx) : val :=
  match x with
  | A _ => VNone
  | L l =>
      match l with
      | A 0 :: A s :: A e :: _ => VStr s e
      | A 1 :: L vs :: _ => VList (map val_of_sx vs)
      | A 3 :: A b :: _ => VBool (negb (b =? 0))
      | A 4 :: A c :: L attrs :: A s :: A e :: _ =>
          VObj c (map (fun a => match a with
                                | L (A n :: v :: _) => (n, val_of_sx v)
                                | _ => (0, VNone)
                                end) attrs) s e
      | A 5 :: A k :: A p :: A s :: A e :: L args :: L kw :: _ =>
          VUser k p s e (map val_of_sx args)
                (map (fun a => match a with
                               | L (A n :: v :: _) => (n, val_of_sx v)
                               | _ => (0, VNone)
                               end) kw)
      | _ => VNone
      end
  end.

Definition exn_code (x : exn) : N :=
  match x with TypeError => 0 | ValueError => 1 | IndexError => 2 end.

Definition sx_of_res (r : res) : sx :=
  match r with
  | Ok v => L [A 0; sx_of_val v]
  | Err x => L [A 1; A (exn_code x)]
  end.

(* ---- the instrumented user actions of the harness --------------------------- *)
(* k mod 4: 0,1 record the call; 2 return None; 3 raise ValueError *)
Definition h_uact (k p s e : N) (nodes : list val) (kw : list (N * val)) : res :=
  match k mod 4 with
  | 2 => Ok VNone
  | 3 => Err ValueError
  | _ => Ok (VUser k p s e nodes kw)
  end.
Definition h_utact (k y s e : N) : res :=
  match k mod 4 with
  | 2 => Ok VNone
  | 3 => Err ValueError
  | _ => Ok (VUser k y s e [VStr s e] [])
  end.

(* ---- action environments ---------------------------------------------------- *)
Definition act1_of_N (n : N) : act1 :=
  match n with
  | 0 => APassNone | 1 => APassNoChange | 2 => APassEmpty | 3 => APassSingle | 4 => APassInner
  | 5 => ACollectFirst | 6 => ACollectFirstSep | 7 => ACollectRightFirst
  | 8 => ACollectRightFirstSep | 9 => AObj | 10 => AStar0
  | _ => AUser (n - 100)
  end.
Definition N_of_act1 (a : act1) : N :=
  match a with
  | APassNone => 0 | APassNoChange => 1 | APassEmpty => 2 | APassSingle => 3 | APassInner => 4
  | ACollectFirst => 5 | ACollectFirstSep => 6 | ACollectRightFirst => 7
  | ACollectRightFirstSep => 8 | AObj => 9 | AStar0 => 10
  | AUser k => 100 + k
  end.

(* () = no action, (1 a) = callable, (2 (a ...)) = list *)
Definition sem_of_sx (s : sx) : sem_action :=
  match sxL s with
  | [] => SNone
  | A 1 :: a :: _ => SOne (act1_of_N (sxN a))
  | _ :: l :: _ => SList (map (fun a => act1_of_N (sxN a)) (sxL l))
  | _ => SNone
  end.
Definition sx_of_sem (a : sem_action) : sx :=
  match a with
  | SNone => L []
  | SOne a => L [A 1; A (N_of_act1 a)]
  | SList l => L [A 2; L (map (fun a => A (N_of_act1 a)) l)]
  end.

Definition tact_of_N (n : N) : tact :=
  match n with
  | 0 => TANone | 1 => TAPassNone | 2 => TAPassNoChange | 3 => TAPassEmpty
  | _ => TAUser (n - 100)
  end.

(* a written production: per position () or (name is_eq) *)
Definition decl_of_sx (s : sx) : decl :=
  map (fun x => match sxL x with
                | n :: o :: _ => Some (sxN n, sxB o)
                | _ => None
                end) (sxL s).

Definition sx_of_assign (l : list assignment) : sx :=
  L (map (fun a => match a with (n, (o, i)) => L [A n; ofB o; ofNat i] end) l).

(* (nt_actions term_actions cls decls) + the grammar *)
Definition aenv_of_sx (g : grammar) (s : sx) : aenv :=
  mkAEnv (map sem_of_sx (sxL (sx_nth s 0)))
         (map (fun a => tact_of_N (sxN a)) (sxL (sx_nth s 1)))
         (map sxB (sxL (sx_nth s 2)))
         (enum_psid [] g)
         (map (fun d => mk_assign (decl_of_sx d)) (sxL (sx_nth s 3))).

Definition sx_of_af (r : af_result res) : sx :=
  match r with
  | AFOk v rp lay tr => L [A 0; sx_of_res v; A rp]
  | AFSyntaxError pos st => L [A 1; A pos; ofNat st]
  | AFDisambiguation pos st => L [A 2; A pos; ofNat st]
  | AFOutOfFuel => L [A 3]
  | AFLayoutError pos => L [A 4; A pos]
  | AFCrash code => L [A 5; A code]
  end.

(* 90: the three LR-side observables: (pconf pinput fuel pos aenv)
       -> (on-the-fly result, tree route result, call_actions on that tree) *)
Definition run_c09_routes (s : sx) : sx :=
  let c := pconf_of_sx (sx_nth s 0) in
  let inp := pinput_of_sx (sx_nth s 1) in
  let fuel := sxNat (sx_nth s 2) in
  let pos := sxN (sx_nth s 3) in
  let env := aenv_of_sx (pc_g c) (sx_nth s 4) in
  let fly := parse_actions (pc_g c) env h_uact h_utact (pc_tb c) (skipws_full c inp fuel)
                           (next_token_of (pc_terms c) (rx_of inp) (in_len inp) (pc_stop c)
                                          (pc_consume c) (pc_lexdis c) (pc_tb c))
                           (pc_stop c) (pc_consume c) false fuel pos in
  let tr := parse_full c inp fuel pos in
  L [sx_of_af fly; sx_of_lr tr;
     match tr with
     | LROk t _ _ _ => L [sx_of_res (call_actions (pc_g c) env h_uact h_utact t)]
     | _ => L []
     end].

(* 91: call_actions on a tree supplied by the harness (impl LR tree, GLR tree):
       (grammar aenv tree) -> (deferred result, left-to-right result) *)
Definition run_c09_call_actions (s : sx) : sx :=
  let g := grammar_of_sx (sx_nth s 0) in
  let env := aenv_of_sx g (sx_nth s 1) in
  let t := tree_of_sx (sx_nth s 2) in
  L [sx_of_res (call_actions g env h_uact h_utact t); sx_of_res (eval_lr g env h_uact h_utact t)].

(* 92: prod_symbol_id of every production *)
Definition run_c09_psid (s : sx) : sx := ofNats (enum_psid [] (grammar_of_sx s)).

(* 93: assignments dict of a written production *)
Definition run_c09_assign (s : sx) : sx := sx_of_assign (mk_assign (decl_of_sx s)).

(* 94: action resolution for one symbol:
       (ov_name aname ov_aname builtin gaction fail n_prods is_terminal), options as () / (sem) *)
Definition osem_of_sx (s : sx) : option sem_action :=
  match sxL s with [] => None | x :: _ => Some (sem_of_sx x) end.
Definition run_c09_resolve (s : sx) : sx :=
  let r := resolve_action (osem_of_sx (sx_nth s 0)) (sxB (sx_nth s 1)) (osem_of_sx (sx_nth s 2))
                          (osem_of_sx (sx_nth s 3)) (osem_of_sx (sx_nth s 4)) (sxB (sx_nth s 5)) in
  match r with
  | RInitError => L [A 2]
  | RNoAction => L [A 0]
  | RAction a =>
      let bad := if sxB (sx_nth s 7)
                 then match a with SList _ => true | _ => false end
                 else negb (check_nt_action a (sxNat (sx_nth s 6))) in
      if bad then L [A 2] else L [A 1; sx_of_sem a]
  end.

(* 95: one built-in callable on given arguments: (act nodes kw_opt has_cls) *)
Definition run_c09_builtin (s : sx) : sx :=
  let a := act1_of_N (sxN (sx_nth s 0)) in
  let nodes := map val_of_sx (sxL (sx_nth s 1)) in
  let kw := match sxL (sx_nth s 2) with
            | [] => None
            | x :: _ => Some (map (fun p => (sxN (sx_nth p 0), val_of_sx (sx_nth p 1))) (sxL x))
            end in
  let g : grammar := [mkProd 0 []] in
  let env := mkAEnv [] [] [sxB (sx_nth s 3)] [] [] in
  sx_of_res (apply_act1 g env h_uact a 0 (sxN (sx_nth s 4)) (sxN (sx_nth s 5)) nodes kw).

Definition run_c09 (cmd : N) (arg : sx) : sx :=
  match cmd with
  | 90 => run_c09_routes arg
  | 91 => run_c09_call_actions arg
  | 92 => run_c09_psid arg
  | 93 => run_c09_assign arg
  | 94 => run_c09_resolve arg
  | 95 => run_c09_builtin arg
  | _ => L [A 999999]
  end.
