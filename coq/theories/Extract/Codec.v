(* Decoders/encoders between [sx] and the model types.  Part of the glue that
   the correspondence check exercises (and that the vm_compute cross-check
   runs inside Coq as well). *)
From Coq Require Import NArith List Bool.
From PV Require Import Base.Sx Model.Forest Model.Table Model.LRDriver Model.Scan Model.Parser.
Import ListNotations.
Local Open Scope N_scope.

Definition alt_of_sx (s : sx) : alt :=
  match sxN (sx_nth s 0) with
  | 0 => ATerm (sxN (sx_nth s 1)) (sxN (sx_nth s 2)) (sxN (sx_nth s 3))
  | _ => ANT (sxN (sx_nth s 1)) (sxN (sx_nth s 2)) (sxN (sx_nth s 3)) (sxNats (sx_nth s 4))
  end.
Definition forest_of_sx (s : sx) : forest := map (fun n => map alt_of_sx (sxL n)) (sxL s).

Fixpoint sx_of_tree (t : tree) : sx :=
  match t with
  | TLeaf y s e => L [A 0; A y; A s; A e]
  | TNode p s e cs => L [A 1; A p; A s; A e; L (map sx_of_tree cs)]
  end.
Fixpoint tree_of_sx (s : sx) : tree :=
  match s with
  | A _ => TLeaf 0 0 0
  | L l =>
      match l with
      | A 0 :: A y :: A b :: A e :: _ => TLeaf y b e
      | A _ :: A p :: A b :: A e :: L cs :: _ => TNode p b e (map tree_of_sx cs)
      | _ => TLeaf 0 0 0
      end
  end.

Definition sx_of_otree (o : option tree) : sx :=
  match o with None => L [] | Some t => L [sx_of_tree t] end.

(* ---- grammars and tables ------------------------------------------------ *)
Definition sym_of_sx (s : sx) : sym :=
  match sxN (sx_nth s 0) with 0 => T (sxN (sx_nth s 1)) | _ => NT (sxN (sx_nth s 1)) end.
Definition sx_of_sym (x : sym) : sx :=
  match x with T t => L [A 0; A t] | NT a => L [A 1; A a] end.
Definition prod_of_sx (s : sx) : prod :=
  mkProd (sxN (sx_nth s 0)) (map sym_of_sx (sxL (sx_nth s 1))).
Definition grammar_of_sx (s : sx) : grammar := map prod_of_sx (sxL s).

Definition action_of_sx (s : sx) : action :=
  match sxN (sx_nth s 0) with
  | 0 => Shift (sxNat (sx_nth s 1))
  | 1 => Reduce (sxN (sx_nth s 1))
  | _ => Accept
  end.
Definition state_of_sx (s : sx) : state :=
  mkState (sym_of_sx (sx_nth s 0))
          (map (fun ya => (sxN (sx_nth ya 0), map action_of_sx (sxL (sx_nth ya 1)))) (sxL (sx_nth s 1)))
          (map (fun g => (sxN (sx_nth g 0), sxNat (sx_nth g 1))) (sxL (sx_nth s 2)))
          (map sxB (sxL (sx_nth s 3)))
          (map (fun it => (sxN (sx_nth it 0), sxNat (sx_nth it 1))) (sxL (sx_nth s 4))).
Definition table_of_sx (s : sx) : table := map state_of_sx (sxL s).

Definition terms_of_sx (s : sx) : list term_info :=
  map (fun t => mkTerm (sxN (sx_nth t 0)) (sxB (sx_nth t 1))) (sxL s).

(* (grammar table terms stop consume lexdis ws layout_opt) *)
Definition pconf_of_sx (s : sx) : pconf :=
  mkPConf (grammar_of_sx (sx_nth s 0)) (table_of_sx (sx_nth s 1)) (terms_of_sx (sx_nth s 2))
          (sxN (sx_nth s 3)) (sxB (sx_nth s 4)) (sxB (sx_nth s 5)) (sxNs (sx_nth s 6))
          (match sxL (sx_nth s 7) with [] => None | t :: _ => Some (table_of_sx t) end).

Definition pinput_of_sx (s : sx) : pinput :=
  mkPInput (sxNs (sx_nth s 0)) (map sxNs (sxL (sx_nth s 1))).

Definition sx_of_span (p : N * N) : sx := L [A (fst p); A (snd p)].

Definition sx_of_lr (r : lr_result) : sx :=
  match r with
  | LROk t rp lay tr =>
      L [A 0; sx_of_tree t; A rp; sx_of_span lay;
         L (map (fun x => match x with (y, s, e, l) => L [A y; A s; A e; sx_of_span l] end) tr)]
  | LRSyntaxError pos st => L [A 1; A pos; ofNat st]
  | LRDisambiguation pos st => L [A 2; A pos; ofNat st]
  | LROutOfFuel => L [A 3]
  | LRLayoutError pos => L [A 4; A pos]
  | LRCrash code => L [A 5; A code]
  end.
