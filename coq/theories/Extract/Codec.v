(* Decoders/encoders between [sx] and the model types.  Part of the glue that
   the correspondence check exercises (and that the vm_compute cross-check
   runs inside Coq as well). *)
From Coq Require Import NArith List Bool.
From PV Require Import Base.Sx Model.Forest.
Import ListNotations.
Local Open Scope N_scope.

Definition alt_of_sx (s : sx) : alt :=
  match sxN (sx_nth s 0) with
  | 0 => ATerm (sxN (sx_nth s 1)) (sxN (sx_nth s 2)) (sxN (sx_nth s 3))
  | _ => ANT (sxN (sx_nth s 1)) (sxN (sx_nth s 2)) (sxN (sx_nth s 3)) (sxNats (sx_nth s 4))
  end.
Definition forest_of_sx (s : sx) : forest := map (fun n => map alt_of_sx (sxL n)) (sxL s).

Fixpoint sx_of_tree (t : tree) : sx :=
  match t with
  | TLeaf y s e => L [A 0; A y; A s; A e]
  | TNode p s e cs => L [A 1; A p; A s; A e; L (map sx_of_tree cs)]
  end.
Definition sx_of_otree (o : option tree) : sx :=
  match o with None => L [] | Some t => L [sx_of_tree t] end.
