(* Entry points of the extracted table-construction model (commands 220..229). *)
From Coq Require Import NArith List Bool.
From PV Require Import Base.Sx Spec.Cfg Model.Table Model.First Model.Closure Model.Automaton
  Model.Resolve Model.TableBuild Model.TableSpec Validators.TableComplete Validators.TableStruct
  Extract.Codec.
From PV Require Extract.RunC06 Extract.RunC19.
Import ListNotations.
Local Open Scope N_scope.

(* (prods nterms nnts empty stop start lr1 ps pse lexdis metas pdyn terms tdyn maxstates
    (ffuel cfuel sfuel pfuel)); a terminal is encoded as for command 193 *)
Definition tconf_of_sx (s : sx) : tconf :=
  let fu := sx_nth s 15 in
  mkTC (grammar_of_sx (sx_nth s 0)) (sxNat (sx_nth s 1)) (sxNat (sx_nth s 2))
       (sxN (sx_nth s 3)) (sxN (sx_nth s 4)) (sxN (sx_nth s 5))
       (sxB (sx_nth s 6)) (sxB (sx_nth s 7)) (sxB (sx_nth s 8)) (sxB (sx_nth s 9))
       (map RunC06.meta_of_sx (sxL (sx_nth s 10))) (map sxB (sxL (sx_nth s 11)))
       (map RunC19.aterm_of_sx (sxL (sx_nth s 12))) (map sxB (sxL (sx_nth s 13)))
       (match sxL (sx_nth s 14) with [] => None | x :: _ => Some (sxNat x) end)
       (sxNat (sx_nth fu 0)) (sxNat (sx_nth fu 1)) (sxNat (sx_nth fu 2)) (sxNat (sx_nth fu 3)).

Definition sx_of_state (st : state) : sx :=
  L [sx_of_sym (st_sym st);
     L (map (fun ya => L [A (fst ya); L (map RunC06.sx_of_action (snd ya))]) (st_actions st));
     L (map (fun g => L [A (fst g); ofNat (snd g)]) (st_gotos st));
     L (map ofB (st_finish st));
     L (map (fun it => L [A (fst it); ofNat (snd it)]) (st_items st))].

Definition sx_of_item (it : item) : sx := L [A (it_p it); ofNat (it_d it); ofNs (it_f it)].
Definition sx_of_fsets (fs : fsets) : sx := L (map ofNs fs).
Definition sx_of_conflict (x : conflict) : sx :=
  match x with (sid, t, psl) => L [ofNat sid; A t; ofNs psl] end.

Definition sx_of_bres {X} (f : X -> list sx) (r : bres X) : sx :=
  match r with
  | BOk x => L (A 0 :: f x)
  | BGrammarError a => L [A 1; A a]
  | BBudget n => L [A 2; A n]
  | BCrash c => L [A 3; A c]
  | BFuel st n => L [A 4; A st; A n]
  end.

(* 220: create_table -> (0 table items first follow sr_conflicts rr_conflicts dynamic)
        | (1 nt) | (2 n) | (3 code) | (4 stage n) *)
Definition run_tab_220 (s : sx) : sx :=
  let c := tconf_of_sx s in
  sx_of_bres (fun b =>
                [L (map sx_of_state (tb_table b));
                 L (map (fun its => L (map sx_of_item its)) (tb_items b));
                 sx_of_fsets (tb_first b); sx_of_fsets (tb_follow b);
                 L (map sx_of_conflict (sr_conflicts (tb_table b)));
                 L (map sx_of_conflict (rr_conflicts c (tb_table b)));
                 L (map ofNs (dynamic_terms c (tb_table b)))])
             (create_table c).

(* 221: FIRST  (prods nnts empty fuel) -> (1 sets) | (0) *)
Definition run_tab_221 (s : sx) : sx :=
  match first_sets (sxN (sx_nth s 2)) (sxNat (sx_nth s 3)) (sxNat (sx_nth s 1))
                   (grammar_of_sx (sx_nth s 0)) with
  | Some fs => L [A 1; sx_of_fsets fs]
  | None => L [A 0]
  end.

(* 222: FOLLOW (prods nnts empty fuel) -> (1 first follow) | (0) *)
Definition run_tab_222 (s : sx) : sx :=
  let ps := grammar_of_sx (sx_nth s 0) in
  let nnts := sxNat (sx_nth s 1) in
  let e := sxN (sx_nth s 2) in
  let fuel := sxNat (sx_nth s 3) in
  match first_sets e fuel nnts ps with
  | Some fs =>
      match follow_sets e fuel fs nnts ps with
      | Some fo => L [A 1; sx_of_fsets fs; sx_of_fsets fo]
      | None => L [A 0]
      end
  | None => L [A 0]
  end.

(* 223: the automaton only (no REDUCE phase): (0 ((sym items acts gotos) ...)) | ... *)
Definition run_tab_223 (s : sx) : sx :=
  let c := tconf_of_sx s in
  match first_sets (tc_empty c) (tc_ffuel c) (tc_nnts c) (tc_prods c) with
  | None => L [A 4; A 0; A 0]
  | Some fs =>
      sx_of_bres (fun all =>
                    [L (map (fun st => L [sx_of_sym (ms_sym st);
                                          L (map sx_of_item (ms_items st));
                                          RunC06.sx_of_actions (ms_acts st);
                                          L (map (fun g => L [A (fst g); ofNat (snd g)]) (ms_gotos st))])
                            all)])
                 (automaton (swap_start c) (tc_empty c) (tc_stop c) (tc_lr1 c) fs (tc_cfuel c)
                            (tc_max_states c) (tc_sfuel c) (tc_pfuel c))
  end.

(* 224: is the input in the class of the end-to-end theorems, and do the validators accept the
        model's table with the model's own annotation (C05_model_table_complete /
        C05_model_table_struct say: always, when plain_ok):
        (plain_ok ()) | (plain_ok (table_complete table_struct)) *)
Definition run_tab_224 (s : sx) : sx :=
  let c := tconf_of_sx s in
  L [ofB (plain_ok c);
     match create_table c with
     | BOk b =>
         L [ofB (table_complete (cfg_std c) (tb_table b) (ann_of_built c b)
                                (fst_std c (tb_first b)) (nul_std c (tb_first b)) (tc_stop c));
            ofB (table_struct (cfg_std c) (tb_table b) (start_nt c))]
     | _ => L []
     end].

Definition run_tab (cmd : N) (s : sx) : sx :=
  match cmd with
  | 220 => run_tab_220 s
  | 221 => run_tab_221 s
  | 222 => run_tab_222 s
  | 223 => run_tab_223 s
  | 224 => run_tab_224 s
  | _ => L [A 999999]
  end.
