(* Entry points of the extracted model for C19 (commands 190..193). *)
From Coq Require Import NArith List Bool.
From PV Require Import Base.Sx Model.StrTerm.
Import ListNotations.
Local Open Scope N_scope.

Definition str_of_sx (s : sx) : str := sxNs s.
Definition sx_of_str (s : str) : sx := ofNs s.

(* 190: (body) -> (impl_unescape std_unescape) *)
Definition run_c19_unescape (s : sx) : sx :=
  let b := str_of_sx (sx_nth s 0) in
  L [sx_of_str (impl_unescape b); sx_of_str (std_unescape b)].

(* 191: (rules terms kwlist) -> (0 terms prods) | (1 err)
   rule = (name (alt ...)), alt = (item ...), item = (0 name) | (1 text)
   term = (name (0 text)) | (name (1 regex-id));  kwlist = texts the KEYWORD regex matches fully *)
Definition item_of_sx (s : sx) : item :=
  match sxN (sx_nth s 0) with 0 => IRef (str_of_sx (sx_nth s 1)) | _ => IStr (str_of_sx (sx_nth s 1)) end.
Definition rule_of_sx (s : sx) : rule :=
  mkRule (str_of_sx (sx_nth s 0)) (map (fun a => map item_of_sx (sxL a)) (sxL (sx_nth s 1))).
Definition term_of_sx (s : sx) : term :=
  let r := sx_nth s 1 in
  mkT (str_of_sx (sx_nth s 0))
      (match sxN (sx_nth r 0) with 0 => RStr (str_of_sx (sx_nth r 1)) | _ => RRegex (sxN (sx_nth r 1)) end).
Definition ast_of_sx (s : sx) : ast :=
  mkAst (map rule_of_sx (sxL (sx_nth s 0))) (map term_of_sx (sxL (sx_nth s 1))).

Definition err_code (e : gerr) : N :=
  match e with
  | EReserved => 1 | EMultipleDef => 2 | ESameString => 3 | ERuleIsTerminal => 4
  | EUnexistingModule => 5 | EUnknownSymbol => 6 | EKeywordNotRegex => 7
  end.
Definition sx_of_frec (r : frec) : sx :=
  match r with
  | FStr v => L [A 0; sx_of_str v]
  | FKw v => L [A 1; sx_of_str v]
  | FRegex id => L [A 2; A id]
  end.
Definition sx_of_kind (k : symkind) : sx := match k with KNonTerm => A 1 | KTerm => A 0 end.
Definition sx_of_dump (d : gdump) : sx :=
  L [L (map (fun g => L [sx_of_str (g_name g); sx_of_frec (g_rec g)]) (d_terms d));
     L (map (fun p => L [sx_of_str (fst p);
                         L (map (fun x => L [sx_of_kind (fst x); sx_of_str (snd x)]) (snd p))])
            (d_prods d))].
Definition run_c19_build (s : sx) : sx :=
  let a := ast_of_sx s in
  let kws := map str_of_sx (sxL (sx_nth s 2)) in
  match build (fun v => mem v kws) a with
  | Ok d => L [A 0; sx_of_dump d; sx_of_dump (spec_build (fun v => mem v kws) a)]
  | Err e => L [A 1; A (err_code e)]
  end.

(* 192: (ic kind text input) -> (match length per position, kw_spec per position)
   kind 0 = string recognizer, 1 = keyword recognizer (ASCII \w) *)
Definition run_c19_match (s : sx) : sx :=
  let ic := sxB (sx_nth s 0) in
  let kind := sxN (sx_nth s 1) in
  let v := str_of_sx (sx_nth s 2) in
  let w := str_of_sx (sx_nth s 3) in
  let ps := seq 0 (length w) in
  let f := match kind with
           | 0 => string_rec ic v w
           | _ => kw_rec ascii_word ic v w
           end in
  L [L (map (fun p => match f p with Some m => ofNat (length m) | None => A 0 end) ps);
     L (map (fun p => ofB (kw_spec ascii_word ic v w p)) ps)].

(* 193: ((fqn prior kind len name_len finish) ...) -> (sorted fqns, finish flags)
   kind 0 string / 1 keyword / 2 regex; finish 0 = unmarked, 1 = nofinish, 2 = finish *)
Definition aterm_of_sx (s : sx) : aterm :=
  let v := repeat 0 (sxNat (sx_nth s 3)) in
  mkA (str_of_sx (sx_nth s 0)) (sxN (sx_nth s 1))
      (match sxN (sx_nth s 2) with 0 => FStr v | 1 => FKw v | _ => FRegex 0 end)
      (sxN (sx_nth s 4))
      (match sxN (sx_nth s 5) with 0 => None | 1 => Some false | _ => Some true end).
Definition run_c19_sort (s : sx) : sx :=
  let l := sort_acts (map aterm_of_sx (sxL s)) in
  L [L (map (fun t => sx_of_str (at_fqn t)) l); L (map ofB (finish_flags l));
     L (map (fun t => sx_of_str (at_fqn t)) (sort_acts (map as_string (map aterm_of_sx (sxL s)))))].
