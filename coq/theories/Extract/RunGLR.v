(* Entry points of the extracted GLR driver model (commands 210..219). *)
From Coq Require Import NArith List Bool.
From PV Require Import Base.Sx Model.Forest Model.Table Model.LRDriver Model.Scan Model.Parser
  Model.PySet Model.GLR Extract.Codec.
Import ListNotations.
Local Open Scope N_scope.

Definition sx_of_alt (a : alt) : sx :=
  match a with
  | ATerm y s e => L [A 0; A y; A s; A e]
  | ANT p s e cs => L [A 1; A p; A s; A e; ofNats cs]
  end.

Definition sx_of_glr (r : glr_result) : sx :=
  match r with
  | GLRForest nodes root => L [A 0; ofNat root; L (map (fun n => L (map sx_of_alt n)) nodes)]
  | GLRReject => L [A 1]
  | GLROutOfFuel => L [A 2]
  | GLRCrash code => L [A 3; A code]
  | GLRLayoutError => L [A 4]
  end.

(* 210: GLR parse: (pconf pinput fuel pos), as command 4 *)
Definition run_glr_210 (s : sx) : sx :=
  sx_of_glr (glr_parse_full (pconf_of_sx (sx_nth s 0)) (pinput_of_sx (sx_nth s 1))
                            (sxNat (sx_nth s 2)) (sxN (sx_nth s 3))).

(* 211: the revisit order: (keys other) -> order *)
Definition run_glr_211 (s : sx) : sx :=
  ofNats (revisit_order (sxNats (sx_nth s 0)) (sxNats (sx_nth s 1))).

(* 212: the boolean conditions of the tokenisation theorem: (pconf pinput) -> bool *)
From PV Require Import Spec.GLRSpec.
Definition run_glr_212 (s : sx) : sx :=
  ofB (glr_tok_checks (pconf_of_sx (sx_nth s 0)) (pinput_of_sx (sx_nth s 1))).

(* 213: the conditions for any consume_input: (pconf pinput) -> bool *)
Definition run_glr_213 (s : sx) : sx :=
  ofB (glr_tok_checks0 (pconf_of_sx (sx_nth s 0)) (pinput_of_sx (sx_nth s 1))).
