(* Entry points of the extracted model for C06 (commands 60..69). *)
From Coq Require Import NArith List Bool.
From PV Require Import Base.Sx Spec.Cfg Model.Table Gen.Consts Spec.Precedence Model.Resolve
  Extract.Codec.
Import ListNotations.
Local Open Scope N_scope.

(* ---- codecs ---------------------------------------------------------------- *)
Definition meta_of_sx (s : sx) : pmeta :=
  mkMeta (sxN (sx_nth s 0)) (sxN (sx_nth s 1)) (sxB (sx_nth s 2)) (sxB (sx_nth s 3)).

Definition metas_of_sx (s : sx) : N -> pmeta :=
  let l := map meta_of_sx (sxL s) in
  fun p => nth (N.to_nat p) l default_meta.

Definition ritem_of_sx (s : sx) : ritem :=
  mkRItem (sxN (sx_nth s 0)) (sxNat (sx_nth s 1)) (sxNs (sx_nth s 2)).

Definition actions_of_sx (s : sx) : actions :=
  map (fun ya => (sxN (sx_nth ya 0), map action_of_sx (sxL (sx_nth ya 1)))) (sxL s).

Definition sx_of_action (a : action) : sx :=
  match a with
  | Shift s => L [A 0; ofNat s]
  | Reduce p => L [A 1; A p]
  | Accept => L [A 2]
  end.

Definition sx_of_actions (a : actions) : sx :=
  L (map (fun c => L [A (fst c); L (map sx_of_action (snd c))]) a).

Definition state_syms_of_sx (s : sx) : nat -> option sym :=
  let l := map sym_of_sx (sxL s) in fun i => nth_error l i.

Definition tok_of_sx (s : sx) : tok :=
  match sxN s with
  | 0 => TNum
  | 1 => TLp
  | 2 => TRp
  | n => TOp (n - 3)
  end.

Fixpoint sx_of_ex (e : ex) : sx :=
  match e with
  | Num => A 0
  | Bin o l r => L [A o; sx_of_ex l; sx_of_ex r]
  | Par e => L [sx_of_ex e]
  end.

Definition sx_of_oex (o : option ex) : sx :=
  match o with None => L [] | Some e => L [sx_of_ex e] end.

(* operator table: ((prior assoc) ...) indexed by operator number *)
Definition pr_of_sx (s : sx) : N -> N :=
  let l := map (fun x => sxN (sx_nth x 0)) (sxL s) in fun o => nth (N.to_nat o) l DEFAULT_PRIORITY.
Definition asc_of_sx (s : sx) : N -> N :=
  let l := map (fun x => sxN (sx_nth x 1)) (sxL s) in fun o => nth (N.to_nat o) l ASSOC_NONE.

Definition sx_of_decision (d : decision) : sx :=
  match d with DShift => A 0 | DReduce => A 1 | DConflict => A 2 end.

(* ---- 60: the reduce phase of one state --------------------------------------
   (grammar metas ps pse state_syms items shifts) ->
   (ok actions max_prior unresolved conflict_free_unresolved) *)
Definition run_c06_reduce (s : sx) : sx :=
  let g := grammar_of_sx (sx_nth s 0) in
  let meta := metas_of_sx (sx_nth s 1) in
  let ps := sxB (sx_nth s 2) in
  let pse := sxB (sx_nth s 3) in
  let ss := state_syms_of_sx (sx_nth s 4) in
  let items := map ritem_of_sx (sxL (sx_nth s 5)) in
  let shifts := actions_of_sx (sx_nth s 6) in
  let mp := max_prior_per_symbol g meta items in
  let un := unresolved g items shifts in
  L [match reduce_phase g meta ps pse ss items shifts with
     | Some a => L [sx_of_actions a]
     | None => L []
     end;
     L (map (fun kv => L [sx_of_sym (fst kv); A (snd kv)]) mp);
     sx_of_actions un;
     ofB (conflict_free un)].

(* ---- 61: climb  (ops fuel tokens) -> option tree ---------------------------- *)
Definition run_c06_climb (s : sx) : sx :=
  let ops := sx_nth s 0 in
  sx_of_oex (climb (pr_of_sx ops) (left_of (asc_of_sx ops)) (sxNat (sx_nth s 1))
                   (map tok_of_sx (sxL (sx_nth s 2)))).

(* ---- 62: opm with the decisions of the resolution code ---------------------- *)
Definition run_c06_opm (s : sx) : sx :=
  let ops := sx_nth s 0 in
  sx_of_oex (opm (dec_of (pr_of_sx ops) (asc_of_sx ops)) (map tok_of_sx (sxL (sx_nth s 1)))).

(* ---- 63: decision matrix  (ops n) -> ((dec o1 o2 ...) ...) ------------------- *)
Definition run_c06_dec (s : sx) : sx :=
  let ops := sx_nth s 0 in
  let n := length (sxL ops) in
  let idx := map N.of_nat (seq 0 n) in
  L (map (fun o1 => L (map (fun o2 => sx_of_decision (dec_of (pr_of_sx ops) (asc_of_sx ops) o1 o2))
                           idx)) idx).

(* ---- 64: prec_ok of a tree  (ops tree-as-tokens?) -- tree given as sx --------- *)
Fixpoint ex_of_sx (s : sx) : ex :=
  match s with
  | A _ => Num
  | L l =>
      match l with
      | [e] => Par (ex_of_sx e)
      | [A o; a; b] => Bin o (ex_of_sx a) (ex_of_sx b)
      | _ => Num
      end
  end.

Definition run_c06_prec_ok (s : sx) : sx :=
  let ops := sx_nth s 0 in
  ofB (prec_ok (pr_of_sx ops) (left_of (asc_of_sx ops)) (ex_of_sx (sx_nth s 1))).
