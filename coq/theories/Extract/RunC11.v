(* Entry points of the extracted model for property C11 (commands 110..119). *)
From Coq Require Import NArith List Bool.
From PV Require Import Base.Sx Spec.Cfg Model.Table Model.LRDriver Model.Scan Model.Parser
  Model.Reuse Model.Recovery Model.Forest Validators.ForestSound Extract.Codec.
Import ListNotations.
Local Open Scope N_scope.

Definition sx_of_spans11 (l : list (N * N)) : sx := L (map sx_of_span l).

Definition sx_of_rcv (r : rcv_result) : sx :=
  match r with
  | RvOk t rp lay tr errs =>
      L [A 0; sx_of_tree t; A rp; sx_of_spans11 errs;
         L (map (fun x => match x with (y, s, e, l) => L [A y; A s; A e; sx_of_span l] end) tr)]
  | RvSyntaxError pos st earlier => L [A 1; A pos; ofNat st; sx_of_spans11 earlier]
  | RvDisambiguation pos st errs => L [A 2; A pos; ofNat st; sx_of_spans11 errs]
  | RvOutOfFuel errs => L [A 3; sx_of_spans11 errs]
  | RvLayoutError pos errs => L [A 4; A pos; sx_of_spans11 errs]
  | RvCrash c errs => L [A 5; A c; sx_of_spans11 errs]
  end.

(* strategy: (0) default | (1 delim) skip behind the next delimiter | (2) inject an expected token *)
Definition strategy_of_sx (c : pconf) (inp : pinput) (s : sx) : lrstate -> strat_res :=
  let nt := full_next_token c inp in
  match sxN (sx_nth s 0) with
  | 1 => skip_strategy (pi_chars inp) (sxN (sx_nth s 1))
  | 2 => inject_strategy (pc_tb c) (pc_stop c) nt (in_len inp)
  | _ => default_strategy nt (in_len inp)
  end.

(* 110: LR parse with error recovery: (pconf pinput fuel pos recovery strategy) *)
Definition run_c11_parse (s : sx) : sx :=
  let c := pconf_of_sx (sx_nth s 0) in
  let inp := pinput_of_sx (sx_nth s 1) in
  sx_of_rcv (parse_recover_with c inp (sxNat (sx_nth s 2)) (sxB (sx_nth s 4))
                                (strategy_of_sx c inp (sx_nth s 5)) (sxN (sx_nth s 3))).

(* 111: the span validator on a list of reported spans: (lo hi ((start end)...)) *)
Definition run_c11_spans (s : sx) : sx :=
  ofB (spans_check (sxN (sx_nth s 0)) (sxN (sx_nth s 1))
                   (map (fun x => (sxN (sx_nth x 0), sxN (sx_nth x 1))) (sxL (sx_nth s 2)))).

(* glue for 112: the position where the next leaf must start after position p when the
   reported spans are skipped like layout: layout, then every span that starts exactly
   there (spans in reported order; [ws_after]: layout is skipped again behind a span, as
   the main loop does when a strategy drops the token ahead) *)
Fixpoint skip_spans (skw : N -> N) (ws_after : bool) (spans : list (N * N)) (p : N) : N :=
  match spans with
  | [] => p
  | (a, b) :: r =>
      if (a =? p) && (a <? b) then skip_spans skw ws_after r (if ws_after then skw b else b)
      else skip_spans skw ws_after r p
  end.

(* 112: forest_ok where reported error spans count as layout:
   (grammar forest chars rx ws start pos0 consume strict spans ws_after zero_ok)
   zero_ok: leaves of length 0 (injected tokens) are accepted without a recognizer match *)
Definition run_c11_cover (s : sx) : sx :=
  let g := grammar_of_sx (sx_nth s 0) in
  let F := forest_of_sx (sx_nth s 1) in
  let inp := mkPInput (sxNs (sx_nth s 2)) (map sxNs (sxL (sx_nth s 3))) in
  let ws := sxNs (sx_nth s 4) in
  let spans := map (fun x => (sxN (sx_nth x 0), sxN (sx_nth x 1))) (sxL (sx_nth s 9)) in
  let zero_ok := sxB (sx_nth s 11) in
  let tokok := fun y b e => match rx_of inp y b with
                            | Some l => (b + l =? e)
                            | None => zero_ok && (b =? e)
                            end in
  let skw := skip_ws ws inp in
  let sk := fun p => skip_spans skw (sxB (sx_nth s 10)) spans (skw p) in
  ofB (forest_ok g tokok sk (sxB (sx_nth s 8)) (sxN (sx_nth s 5)) (sxN (sx_nth s 6))
                 (in_len inp) (sxB (sx_nth s 7)) F).
