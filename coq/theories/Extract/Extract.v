From Coq Require Import Extraction ExtrOcamlBasic.
From PV Require Import Base.Sx Extract.Run.
Extraction Language OCaml.
Extraction "model.ml" run sx_eqb.
