(* Entry points of the extracted model for C18 (commands 180..189). *)
From Coq Require Import NArith List Bool.
From PV Require Import Base.Sx Spec.Cfg Model.Table Model.LRDriver Model.Scan Model.Parser
  Model.DynFilter Extract.Codec.
Import ListNotations.
Local Open Scope N_scope.

Definition mem_of (l : list N) : N -> bool := fun x => existsb (N.eqb x) l.

Definition sx_of_ahead (a : option (N * N)) : sx :=
  match a with None => L [] | Some (y, len) => L [A y; A len] end.

Definition sx_of_call (cv : fcall * bool) : sx :=
  match cv with
  | (FInit, v) => L [A 0; ofB v]
  | (FShift from to ah pos, v) => L [A 1; ofNat from; ofNat to; sx_of_ahead ah; A pos; ofB v]
  | (FReduce from p subs ah pos, v) =>
      L [A 2; ofNat from; A p; L (map sx_of_tree subs); sx_of_ahead ah; A pos; ofB v]
  end.

Definition sx_of_dyn (r : dyn_result) : sx :=
  match r with
  | DRes r => L [A 0; sx_of_lr r]
  | DConflict pos st => L [A 1; A pos; ofNat st]
  | DNoAction pos st => L [A 2; A pos; ofNat st]
  end.

Definition sx_of_action (a : action) : sx :=
  match a with
  | Shift s => L [A 0; ofNat s]
  | Reduce p => L [A 1; A p]
  | Accept => L [A 2]
  end.

(* 180: LR parse with a dynamic filter given as its verdict list
   (pconf pinput fuel pos dyn_terms dyn_prods verdicts)
   -> (result, calls with verdicts, verdicts left over, accepted-but-passed-over actions) *)
Definition run_c18_parse (s : sx) : sx :=
  let c := pconf_of_sx (sx_nth s 0) in
  let inp := pinput_of_sx (sx_nth s 1) in
  let fuel := sxNat (sx_nth s 2) in
  let pos := sxN (sx_nth s 3) in
  let dt := mem_of (sxNs (sx_nth s 4)) in
  let dp := mem_of (sxNs (sx_nth s 5)) in
  let vs := map sxB (sxL (sx_nth s 6)) in
  let '(r, fs', trc) := fparse_full c inp fuel dt dp (list bool) verdict_filter vs pos in
  L [sx_of_dyn r; L (map sx_of_call trc); ofNat (length fs');
     L (map (fun x => match x with (p, st, a) => L [A p; ofNat st; sx_of_action a] end)
            (fparse_full_dropped c inp fuel dt dp (list bool) verdict_filter vs pos))].

(* 181: the two table checks the theorems assume: (grammar table) -> (cells_single shift_sym_ok) *)
Definition run_c18_checks (s : sx) : sx :=
  let g := grammar_of_sx (sx_nth s 0) in
  let tb := table_of_sx (sx_nth s 1) in
  L [ofB (cells_single g tb); ofB (shift_sym_ok tb)].
