(* Entry points of the extracted model for C14 (commands 140..149). *)
From Coq Require Import NArith List Bool.
From PV Require Import Base.Sx Spec.Cfg Model.Table Model.LRDriver Model.Scan Model.Parser
  Validators.Relayout Extract.Codec.
Import ListNotations.
Local Open Scope N_scope.

Definition pairs_of_sx (s : sx) : list (N * N) :=
  map (fun x => (sxN (sx_nth x 0), sxN (sx_nth x 1))) (sxL s).

(* 140: (pconf inp inp' fuel Rl Sl pos pos') ->
        (hypotheses-of-the-relayout-theorem-hold  result-on-inp  result-on-inp') *)
Definition run_c14_0 (s : sx) : sx :=
  let c := pconf_of_sx (sx_nth s 0) in
  let inp := pinput_of_sx (sx_nth s 1) in
  let inp' := pinput_of_sx (sx_nth s 2) in
  let fuel := sxNat (sx_nth s 3) in
  let Rl := pairs_of_sx (sx_nth s 4) in
  let Sl := pairs_of_sx (sx_nth s 5) in
  let pos := sxN (sx_nth s 6) in
  let pos' := sxN (sx_nth s 7) in
  L [ofB (relayout_check c inp inp' fuel Rl Sl && pair_in Rl pos pos');
     sx_of_lr (parse_full c inp fuel pos); sx_of_lr (parse_full c inp' fuel pos')].

(* 141: (pconf inp fuel ws) -> per position 0..len: what the configured layout skipping
        returns, and what skipping the characters of ws returns *)
Definition run_c14_1 (s : sx) : sx :=
  let c := pconf_of_sx (sx_nth s 0) in
  let inp := pinput_of_sx (sx_nth s 1) in
  let fuel := sxNat (sx_nth s 2) in
  let ws := sxNs (sx_nth s 3) in
  let ps := map N.of_nat (seq 0 (S (length (pi_chars inp)))) in
  L [L (map (fun p => ofOptN (skipws_full c inp fuel p)) ps);
     L (map (fun p => A (skip_ws ws inp p)) ps)].

(* 142: (pconf inp fuel pos ws) -> (result with the configured layout, result with ws) *)
Definition run_c14_2 (s : sx) : sx :=
  let c := pconf_of_sx (sx_nth s 0) in
  let inp := pinput_of_sx (sx_nth s 1) in
  let fuel := sxNat (sx_nth s 2) in
  let pos := sxN (sx_nth s 3) in
  let ws := sxNs (sx_nth s 4) in
  L [sx_of_lr (parse_full c inp fuel pos); sx_of_lr (parse_full (with_ws c ws) inp fuel pos)].
