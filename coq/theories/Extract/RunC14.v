(* Entry points of the extracted model for C14 (commands 140..149). *)
From Coq Require Import NArith List Bool.
From PV Require Import Base.Sx Spec.Cfg Model.Table Model.LRDriver Model.Scan Model.Parser
  Validators.Relayout Extract.Codec.
Import ListNotations.
Local Open Scope N_scope.

Definition pairs_of_sx (s : sx) : list (N * N) :=
  map (fun x => (sxN (sx_nth x 0), sxN (sx_nth x 1))) (sxL s).

(* 140: (pconf inp inp' fuel Rl Sl pos pos') ->
        (hypotheses-of-the-relayout-theorem-hold  result-on-inp  result-on-inp') *)
Definition run_c14_0 (s : sx) : sx :=
  let c := pconf_of_sx (sx_nth s 0) in
  let inp := pinput_of_sx (sx_nth s 1) in
  let inp' := pinput_of_sx (sx_nth s 2) in
  let fuel := sxNat (sx_nth s 3) in
  let Rl := pairs_of_sx (sx_nth s 4) in
  let Sl := pairs_of_sx (sx_nth s 5) in
  let pos := sxN (sx_nth s 6) in
  let pos' := sxN (sx_nth s 7) in
  L [ofB (relayout_check c inp inp' fuel Rl Sl && pair_in Rl pos pos');
     sx_of_lr (parse_full c inp fuel pos); sx_of_lr (parse_full c inp' fuel pos')].

(* 141: (pconf inp fuel ws) -> per position 0..len: what the configured layout skipping
        returns, and what skipping the characters of ws returns *)
Definition run_c14_1 (s : sx) : sx :=
  let c := pconf_of_sx (sx_nth s 0) in
  let inp := pinput_of_sx (sx_nth s 1) in
  let fuel := sxNat (sx_nth s 2) in
  let ws := sxNs (sx_nth s 3) in
  let ps := map N.of_nat (seq 0 (S (length (pi_chars inp)))) in
  L [L (map (fun p => ofOptN (skipws_full c inp fuel p)) ps);
     L (map (fun p => A (skip_ws ws inp p)) ps)].

(* 142: (pconf inp fuel pos ws) -> (result with the configured layout, result with ws) *)
Definition run_c14_2 (s : sx) : sx :=
  let c := pconf_of_sx (sx_nth s 0) in
  let inp := pinput_of_sx (sx_nth s 1) in
  let fuel := sxNat (sx_nth s 2) in
  let pos := sxN (sx_nth s 3) in
  let ws := sxNs (sx_nth s 4) in
  L [sx_of_lr (parse_full c inp fuel pos); sx_of_lr (parse_full (with_ws c ws) inp fuel pos)].

(* 143: () -> the constants of C14_std_layout_partial in the format of the impl dumps:
        (grammar table-without-items terms stop) *)
Definition sx_of_action (a : action) : sx :=
  match a with
  | Shift s => L [A 0; ofNat s]
  | Reduce p => L [A 1; A p]
  | Accept => L [A 2]
  end.
Definition sx_of_state (st : state) : sx :=
  L [sx_of_sym (st_sym st);
     L (map (fun ya => L [A (fst ya); L (map sx_of_action (snd ya))]) (st_actions st));
     L (map (fun gt => L [A (fst gt); ofNat (snd gt)]) (st_gotos st));
     L (map ofB (st_finish st));
     L (map (fun it => L [A (fst it); ofNat (snd it)]) (st_items st))].
Definition run_c14_3 (_ : sx) : sx :=
  L [L (map (fun pr => L [A (lhs pr); L (map sx_of_sym (rhs pr))]) g_std);
     L (map sx_of_state ltb_std);
     L (map (fun t => L [A (ti_prior t); ofB (ti_prefer t)]) terms_std);
     A 3].
