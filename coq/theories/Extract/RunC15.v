(* Entry points of the extracted model for property C15 (commands 150..153). *)
From Coq Require Import NArith List Bool.
From PV Require Import Base.Sx Spec.Cfg Model.Table Model.LRDriver Model.Scan Model.Parser
  Model.Reuse Extract.Codec.
Import ListNotations.
Local Open Scope N_scope.

(* ---- glue: canonical (sorted, duplicate-free) form of a set of terminal ids ---- *)
Fixpoint insert_sorted (x : N) (l : list N) : list N :=
  match l with
  | [] => [x]
  | y :: r => if x <? y then x :: l else if x =? y then l else y :: insert_sorted x r
  end.
Definition sort_set (l : list N) : list N := fold_right insert_sorted [] l.

Definition sx_of_ftab (f : ftab) (nts : list N) : sx := L (map (fun a => ofNs (sort_set (f a))) nts).
Definition syms_of_sx (s : sx) : list sym := map sym_of_sx (sxL s).
Definition sx_of_syms (l : list sym) : sx := L (map sx_of_sym l).

(* 150: FIRST and FOLLOW of (all productions incl. production 0, nts, empty_id, fuel)
        -> (ok first follow) *)
Definition run_c15_0 (s : sx) : sx :=
  let ps := grammar_of_sx (sx_nth s 0) in
  let nts := sxNs (sx_nth s 1) in
  let e := sxN (sx_nth s 2) in
  let fuel := sxNat (sx_nth s 3) in
  match first_sets e fuel ps with
  | None => L [A 0]
  | Some ft =>
      match follow_sets e fuel ft nts ps with
      | None => L [A 0]
      | Some fo => L [A 1; sx_of_ftab ft nts; sx_of_ftab fo nts]
      end
  end.

(* static part: (prods1.. nts aug_nt stop empty layout_opt fuel) *)
Definition gstatic_of_sx (s : sx) : gstatic :=
  mkGS (grammar_of_sx (sx_nth s 0)) (sxNs (sx_nth s 1)) (sxN (sx_nth s 2)) (sxN (sx_nth s 3))
       (sxN (sx_nth s 4)) (sxOptN (sx_nth s 5)) (sxNat (sx_nth s 6)).

(* the item-set machinery as an oracle keyed by exactly what create_table hands to it:
   ((start lr1 ps pse lexdis swapped_aug follow) result), result = 0 (interrupted) | (1 table).
   A table carries a trailing pseudo-state whose symbol is a tag naming the oracle entry
   (never reached by any transition; it has no cells). *)
Definition core_key (G : gstatic) (ps : list prod) (o : bopts) (fo : ftab) : sx :=
  L [A (b_start o); ofB (b_lr1 o); ofB (b_ps o); ofB (b_pse o); ofB (b_lexdis o);
     sx_of_syms (match ps with p :: _ => rhs p | [] => [] end);
     sx_of_ftab fo (s_nts G)].

Fixpoint lookup_sx (k : sx) (l : list sx) : option sx :=
  match l with
  | [] => None
  | e :: r => if sx_eqb (sx_nth e 0) k then Some (sx_nth e 1) else lookup_sx k r
  end.

Definition oracle_core (G : gstatic) (oracle : list sx) (ps : list prod) (o : bopts)
           (ft fo : ftab) : core_res :=
  match lookup_sx (core_key G ps o fo) oracle with
  | Some (L [A 1; t]) => CoreTable (table_of_sx t)
  | Some _ => CoreInterrupted
  | None => CoreTable []                      (* unknown key: reported as tag 999999 *)
  end.

Definition table_tag (tb : table) : N :=
  match last tb (mkState (T 999999) [] [] [] []) with
  | mkState (T t) _ _ _ _ => t
  | _ => 999998
  end.

Definition exn_code (e : exn) : N :=
  match e with
  | XGrammarError => 1 | XInterrupted => 2 | XSRConflicts => 3 | XRRConflicts => 4
  | XOutOfFuel => 5
  end.

Definition sx_of_gstate (G : gstatic) (gs : gstate) : sx :=
  L [sx_of_syms (gs_aug gs);
     match gs_first gs with None => L [] | Some ft => L [sx_of_ftab ft (s_nts G)] end].

Definition sx_of_init (r : result (table * option table)) : sx :=
  match r with
  | Ok (tb, lt) => L [A 0; A (table_tag tb); ofOptN (option_map table_tag lt)]
  | Raise e => L [A (exn_code e)]
  end.

Definition popts_of_sx (s : sx) : popts :=
  mkP (sxB (sx_nth s 0)) (sxB (sx_nth s 1)) (sxB (sx_nth s 2)) (sxB (sx_nth s 3)).

(* the environment of one construction: 0 = nothing interrupts, 1 = the state budget is
   exceeded while the LAYOUT automaton is built, 2 = while the main automaton is built *)
Definition core_env (G : gstatic) (oracle : list sx) (env : N) (ps : list prod) (o : bopts)
           (ft fo : ftab) : core_res :=
  let is_layout := match s_layout G with Some lp => b_start o =? lp | None => false end in
  match env with
  | 1 => if is_layout then CoreInterrupted else oracle_core G oracle ps o ft fo
  | 2 => if is_layout then oracle_core G oracle ps o ft fo else CoreInterrupted
  | _ => oracle_core G oracle ps o ft fo
  end.

(* 151: grammar machine: (static aug0 ((glr slr ps pse env)...) oracle) -> per build (result grammar-state) *)
Definition run_c15_1 (s : sx) : sx :=
  let G := gstatic_of_sx (sx_nth s 0) in
  let aug0 := syms_of_sx (sx_nth s 1) in
  let ops := map (fun x => (popts_of_sx x, sxN (sx_nth x 4))) (sxL (sx_nth s 2)) in
  let oracle := sxL (sx_nth s 3) in
  let g := mkProd (s_aug_nt G) aug0 :: s_prods G in
  let init := fun env => parser_init G (core_env G oracle env) sr_conflicts_of (rr_conflicts_of g) in
  L (snd (fold_left (fun acc oe =>
                       let '(gs, out) := acc in
                       let '(gs', r) := init (snd oe) gs (fst oe) in
                       (gs', out ++ [L [sx_of_init r; sx_of_gstate G gs']]))
                    ops (mkG aug0 None, []))).

Definition sx_of_spans (l : list (N * N)) : sx := L (map sx_of_span l).

Definition sx_of_rec (r : rec_result) : sx :=
  match r with
  | RROk t rp errs => L [A 0; sx_of_tree t; A rp; sx_of_spans errs]
  | RRSyntaxError pos st => L [A 1; A pos; ofNat st]
  | RRDisambiguation pos st _ => L [A 2; A pos; ofNat st]
  | RRAborted _ => L [A 3]
  | RRLayoutError pos _ => L [A 4; A pos]
  | RRCrash c _ => L [A 5; A c]
  end.

Definition sx_of_optpres {X} (o : option X) : sx := match o with None => A 0 | Some _ => A 1 end.

Definition sx_of_lr_inst (st : lr_inst) : sx :=
  L [sx_of_optpres (li_errors st); sx_of_optpres (li_in_recovery st); sx_of_optpres (li_stack st)].

Definition optnat_of_sx (s : sx) : option nat :=
  match s with L (A n :: _) => Some (N.to_nat n) | _ => None end.

(* 152: LR instance machine: (pconf recovery ((pinput fuel budget_opt pos)...))
        -> per parse (outcome instance-fields) *)
Definition run_c15_2 (s : sx) : sx :=
  let sub := mkLS (pconf_of_sx (sx_nth s 0)) (sxB (sx_nth s 1)) in
  L (snd (fold_left (fun acc st =>
                       let '(inst, out) := acc in
                       let '(inst', r) :=
                         lr_parse_inst sub (pinput_of_sx (sx_nth st 0)) (sxNat (sx_nth st 1))
                                       (optnat_of_sx (sx_nth st 2)) (sxN (sx_nth st 3)) inst in
                       (inst', out ++ [L [sx_of_rec r; sx_of_lr_inst inst']]))
                    (sxL (sx_nth s 2)) (mkLI None None None, []))).

Definition glr_path_of_sx (s : sx) : glr_path :=
  match sxN (sx_nth s 0) with
  | 0 => GAccepted (sxN (sx_nth s 1))
  | 1 => GSyntaxError (sxN (sx_nth s 1))
  | _ => GRaised (sxB (sx_nth s 1)) (sxB (sx_nth s 2))
  end.

Definition sx_of_glr_outcome (o : glr_outcome) : sx :=
  match o with
  | GOForest f => L [A 0; A f]
  | GOSyntaxError p => L [A 1; A p]
  | GORaised => L [A 2]
  | GOAttributeError => L [A 3]
  end.

(* 153: GLR transient-field protocol: (clear (path...)) -> per parse (outcome presence...) *)
Definition run_c15_3 (s : sx) : sx :=
  let clear := sxB (sx_nth s 0) in
  L (snd (fold_left (fun acc p =>
                       let '(st, out) := acc in
                       let '(st', r) := glr_parse_inst (glr_path_of_sx p) clear st in
                       (st', out ++ [L [sx_of_glr_outcome r; L (map (fun f => ofB (st' f)) all_gfields)]]))
                    (sxL (sx_nth s 1)) ((fun _ => false) : gstore, []))).

(* 154: conflicts of a table: (grammar table) -> (sr rr) *)
Definition run_c15_4 (s : sx) : sx :=
  let g := grammar_of_sx (sx_nth s 0) in
  let tb := table_of_sx (sx_nth s 1) in
  L [ofB (sr_conflicts_of tb); ofB (rr_conflicts_of g tb)].
