(* Entry points of the extracted model for C13 (commands 130..139). *)
From Coq Require Import NArith List Bool.
From PV Require Import Base.Sx Spec.Cfg Model.Sugar Extract.Codec.
Import ListNotations.
Local Open Scope N_scope.

(* ---- decoders ---------------------------------------------------------------- *)
Definition name_of_sx (s : sx) : name := sxNs s.
Definition mult_of_sx (s : sx) : mult :=
  match sxN s with 0 => MOne | 1 => MOpt | 2 => MStar | _ => MPlus end.
Definition sep_of_sx (s : sx) : option name :=
  match sxL s with [] => None | x :: _ => Some (name_of_sx x) end.
Definition meta_of_sx (s : sx) : pmeta :=
  mkMeta (sxN (sx_nth s 0)) (sxN (sx_nth s 1)) (sxB (sx_nth s 2)) (sxB (sx_nth s 3)).

(* elem  : (0 name mult greedy sep) | (1 alts mult greedy sep)
   alts  : ((elems meta) ...)         elems : (elem ...) *)
Fixpoint elem_of_sx (fuel : nat) (s : sx) : elem :=
  match fuel with
  | O => ERef [] MOne false None
  | S f =>
      match sxN (sx_nth s 0) with
      | 0 => ERef (name_of_sx (sx_nth s 1)) (mult_of_sx (sx_nth s 2)) (sxB (sx_nth s 3))
                  (sep_of_sx (sx_nth s 4))
      | _ => EGroup (alts_of_sx f (sxL (sx_nth s 1))) (mult_of_sx (sx_nth s 2)) (sxB (sx_nth s 3))
                    (sep_of_sx (sx_nth s 4))
      end
  end
with alts_of_sx (fuel : nat) (l : list sx) : alts :=
  match fuel with
  | O => ANil
  | S f =>
      match l with
      | [] => ANil
      | a :: rest => ACons (elems_of_sx f (sxL (sx_nth a 0))) (meta_of_sx (sx_nth a 1))
                           (alts_of_sx f rest)
      end
  end
with elems_of_sx (fuel : nat) (l : list sx) : elems :=
  match fuel with
  | O => ENil
  | S f =>
      match l with
      | [] => ENil
      | e :: rest => ECons (elem_of_sx f e) (elems_of_sx f rest)
      end
  end.

Definition FUEL : nat := 4000.
Definition rule_of_sx (s : sx) : rule :=
  mkRule (name_of_sx (sx_nth s 0)) (alts_of_sx FUEL (sxL (sx_nth s 1))).
Definition ast_of_sx (s : sx) : ast :=
  mkAst (map rule_of_sx (sxL (sx_nth s 0))) (map name_of_sx (sxL (sx_nth s 1))).

(* ---- encoders ---------------------------------------------------------------- *)
Definition sx_of_name (n : name) : sx := ofNs n.
Definition sx_of_mult (m : mult) : sx :=
  A (match m with MOne => 0 | MOpt => 1 | MStar => 2 | MPlus => 3 end).
Definition sx_of_sep (s : option name) : sx :=
  match s with None => L [] | Some n => L [sx_of_name n] end.
Definition sx_of_bsym (b : bsym) : sx :=
  match b with
  | BU n => L [A 0; sx_of_name n]
  | BG r i => L [A 1; sx_of_name r; A i]
  end.
(* (structure name) *)
Definition sx_of_dsym (d : dsym) : sx :=
  L [match d with
     | DB b => sx_of_bsym b
     | DH k => L [A 2; sx_of_bsym (hb k); sx_of_mult (hm k); sx_of_sep (hs k); ofB (hg k)]
     end; sx_of_name (nm d)].
Definition sx_of_oprod (p : oprod) : sx :=
  L [sx_of_dsym (op_lhs p); L (map sx_of_dsym (op_rhs p)); A (op_assoc p); A (op_prior p);
     ofB (op_nops p); ofB (op_nopse p); A (op_act p)].
Definition sx_of_expansion (r : option (list oprod * list dsym)) : sx :=
  match r with
  | None => L []
  | Some (ps, nts) => L [L (map sx_of_oprod ps); L (map sx_of_dsym nts)]
  end.

Definition nprod_of_sx (s : sx) : nprod :=
  mkNprod (name_of_sx (sx_nth s 0)) (map name_of_sx (sxL (sx_nth s 1))) (sxN (sx_nth s 2))
          (sxN (sx_nth s 3)) (sxB (sx_nth s 4)) (sxB (sx_nth s 5)) (sxN (sx_nth s 6)).

Fixpoint sx_of_val (v : val) : sx :=
  match v with
  | VNone => A 0
  | VTok y s e => L [A 0; A y; A s; A e]
  | VList l => L (A 1 :: map sx_of_val l)
  end.

(* ---- entry points ------------------------------------------------------------ *)
(* 130: what the impl builds *)
Definition run_c13_0 (s : sx) : sx := sx_of_expansion (model_expand (ast_of_sx s)).
(* 131: the documented expansion (fresh helper per distinct use, greedy kept) *)
Definition run_c13_1 (s : sx) : sx := sx_of_expansion (doc_expand (ast_of_sx s)).
(* 132: the documented expansion of the grammar with the greedy marks removed *)
Definition run_c13_2 (s : sx) : sx := sx_of_expansion (doc_expand_nongreedy (ast_of_sx s)).
(* 133: no_collision *)
Definition run_c13_3 (s : sx) : sx := ofB (no_collision (ast_of_sx s)).
(* 134: (ast nprods): is the given grammar (names, e.g. the impl's dump) isomorphic to
        the documented expansion? *)
Definition run_c13_4 (s : sx) : sx :=
  match doc_expand (ast_of_sx (sx_nth s 0)) with
  | None => A 2
  | Some (ps, _) => ofB (iso_check ps (map nprod_of_sx (sxL (sx_nth s 1))))
  end.
(* 135: (acts tree): value of a tree under the built-in actions *)
Definition run_c13_5 (s : sx) : sx :=
  let acts := sxNs (sx_nth s 0) in
  sx_of_val (eval (fun p => nth (N.to_nat p) acts 0) (tree_of_sx (sx_nth s 1))).
(* 136: which no_collision clause fails: 1 name clash, 2 greedy sharing, 4 "+!" present *)
Definition run_c13_6 (s : sx) : sx := A (collision_kind (ast_of_sx s)).
