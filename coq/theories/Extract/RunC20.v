(* Entry points of the extracted import model (C20), commands 200..209. *)
From Coq Require Import NArith List Bool.
From PV Require Import Base.Sx Model.Imports.
Import ListNotations.
Local Open Scope N_scope.

(* file = (imports prods terms); import = (m t); prod = (name rhs);
   rhs element = (0 name) reference | (1 s) inline string; term = (name v) *)
Definition relem_of_sx (s : sx) : relem :=
  match sxN (sx_nth s 0) with
  | 0 => RRef (sxNs (sx_nth s 1))
  | _ => RStr (sxN (sx_nth s 1))
  end.
Definition file_of_sx (s : sx) : pgfile :=
  mkFile (map (fun i => (sxN (sx_nth i 0), sxNat (sx_nth i 1))) (sxL (sx_nth s 0)))
         (map (fun p => (sxNs (sx_nth p 0), map relem_of_sx (sxL (sx_nth p 1)))) (sxL (sx_nth s 1)))
         (map (fun t => (sxNs (sx_nth t 0), sxN (sx_nth t 1))) (sxL (sx_nth s 2))).
Definition dir_of_sx (s : sx) : dir := map file_of_sx (sxL s).

Definition sx_of_gelem (e : gelem) : sx :=
  match e with
  | GT fq v => L [A 0; ofNs fq; A v]
  | GNT fq f nm orphan => L [A 1; ofNs fq; ofNat f; ofNs nm; ofB orphan]
  | GBad => L [A 2]
  end.

Definition sx_of_gres (r : gres) : sx :=
  match r with
  | GOk reg c ps =>
      L [A 0;
         L (map (fun e => L [ofNat (fst e); ofNs (snd e)]) reg);
         L (map (fun e => L [ofNs (fst e); ofNat (s_file (snd e)); ofNs (s_name (snd e))]) (c_nts c));
         L (map (fun e => L [ofNs (fst e); A (term_value (snd e))]) (c_ts c));
         L (map (fun p => L [ofNs (gp_fqn p); ofNat (gp_file p); ofNs (gp_name p);
                             L (map sx_of_gelem (gp_rhs p))]) ps)]
  | GErr e => L [A 1; A e]
  | GCrash => L [A 2]
  | GFuel => L [A 3]
  end.

(* 200: Grammar.from_file on a directory: (fuel dir) *)
Definition run_c20_build (s : sx) : sx :=
  sx_of_gres (build_grammar (sxNat (sx_nth s 0)) (dir_of_sx (sx_nth s 1))).

(* 201: which theorem hypotheses hold for the directory: (dir) -> (no_dotted consistent) *)
Definition run_c20_class (s : sx) : sx :=
  let d := dir_of_sx (sx_nth s 0) in
  L [ofB (no_dotted_check d); ofB (imports_consistent_check d)].

(* 202: denotation of references: (dir ((f name) ...)) -> per query (found g name) | () *)
Definition run_c20_spec (s : sx) : sx :=
  let d := dir_of_sx (sx_nth s 0) in
  L (map (fun q => match spec_resolve d (sxNat (sx_nth q 0)) (sxNs (sx_nth q 1)) with
                   | Some (g, n, _) => L [ofNat g; ofNs n]
                   | None => L []
                   end) (sxL (sx_nth s 1))).
