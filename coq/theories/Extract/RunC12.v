(* Entry points of the extracted model for C12 (commands 120..129). *)
From Coq Require Import NArith List Bool.
From PV Require Import Base.Sx Model.Persist Model.Cache.
Import ListNotations.
Local Open Scope N_scope.

(* ---- decoders -------------------------------------------------------------- *)
Definition pgram_of_sx (s : sx) : pgram :=
  mkPG (map (fun t => (sxN (sx_nth t 0), sxB (sx_nth t 1))) (sxL (sx_nth s 0)))
       (sxNs (sx_nth s 1))
       (map (fun p => (sxN (sx_nth p 0), sxB (sx_nth p 1))) (sxL (sx_nth s 2))).

Definition paction_of_sx (s : sx) : paction :=
  mkPA (sxN (sx_nth s 0)) (sxOptN (sx_nth s 1)) (sxOptN (sx_nth s 2)).

Definition pstate_of_sx (s : sx) : pstate :=
  mkPS (sxN (sx_nth s 0)) (sxN (sx_nth s 1))
       (map (fun c => (sxN (sx_nth c 0), map paction_of_sx (sxL (sx_nth c 1)))) (sxL (sx_nth s 2)))
       (map (fun c => (sxN (sx_nth c 0), sxN (sx_nth c 1))) (sxL (sx_nth s 3)))
       (map sxB (sxL (sx_nth s 4))).
Definition ptable_of_sx (s : sx) : ptable := map pstate_of_sx (sxL s).

Definition pexn_of_sx (c t : N) : pexn :=
  match c with
  | 1 => EJSONDecode | 2 => EKeyError | 3 => EIndexError | 4 => EAttributeError
  | 5 => ESRConflicts | 6 => ERRConflicts | _ => EOther t
  end.

Definition pres_table_of_sx (s : sx) : pres ptable :=
  match sxN (sx_nth s 0) with
  | 0 => Ok (ptable_of_sx (sx_nth s 1))
  | _ => Raise (pexn_of_sx (sxN (sx_nth s 1)) (sxN (sx_nth s 2)))
  end.

(* ---- encoders -------------------------------------------------------------- *)
Definition sx_of_paction (a : paction) : sx :=
  L [A (pa_kind a); ofOptN (pa_state a); ofOptN (pa_prod a)].
Definition sx_of_pstate (s : pstate) : sx :=
  L [A (ps_id s); A (ps_sym s);
     L (map (fun c => L [A (fst c); L (map sx_of_paction (snd c))]) (ps_actions s));
     L (map (fun c => L [A (fst c); A (snd c)]) (ps_gotos s));
     L (map ofB (ps_finish s))].
Definition sx_of_ptable (t : ptable) : sx := L (map sx_of_pstate t).

Definition sx_of_jaction (a : jaction) : sx :=
  L [A (ja_kind a); ofOptN (ja_state a); ofOptN (ja_prod a)].
Definition sx_of_jstate (s : jstate) : sx :=
  L [A (js_id s); A (js_sym s);
     L (map (fun c => L [A (fst c); L (map sx_of_jaction (snd c))]) (js_actions s));
     L (map (fun c => L [A (fst c); A (snd c)]) (js_gotos s));
     L (map ofB (js_finish s))].
Definition sx_of_jtable (t : jtable) : sx := L (map sx_of_jstate t).

Definition sx_of_pexn (e : pexn) : sx :=
  match e with
  | EJSONDecode => L [A 1; A 1] | EKeyError => L [A 1; A 2] | EIndexError => L [A 1; A 3]
  | EAttributeError => L [A 1; A 4] | ESRConflicts => L [A 1; A 5]
  | ERRConflicts => L [A 1; A 6] | EOther t => L [A 1; A 7; A t]
  end.

Definition sx_of_pres {X} (f : X -> sx) (r : pres X) : sx :=
  match r with Ok x => L [A 0; f x] | Raise e => sx_of_pexn e end.

Definition sx_of_conflict (c : conflict) : sx :=
  L [A (cf_state c); A (cf_term c); ofNs (cf_prods c)].
Definition sx_of_marks (m : marks) : sx :=
  L [L (map sx_of_conflict (mk_sr m)); L (map sx_of_conflict (mk_rr m));
     L (map (fun d => L [A (fst d); A (snd d)]) (mk_dynamic m))].

(* a loaded table together with the marks LRTable.__init__ computes for it *)
Definition sx_of_loaded (g : pgram) (r : pres ptable) : sx :=
  match r with
  | Ok t => L [A 0; sx_of_ptable t; sx_of_pres sx_of_marks (calc_marks g t)]
  | Raise e => sx_of_pexn e
  end.

(* 120: persistence.  (g t g2) ->
   (table_wfb g t, to_ser t, from_ser g (to_ser t), calc_marks g t,
    from_ser g2 (to_ser t), to_ser of the reloaded table) *)
Definition run_c12_120 (s : sx) : sx :=
  let g := pgram_of_sx (sx_nth s 0) in
  let t := ptable_of_sx (sx_nth s 1) in
  let g2 := pgram_of_sx (sx_nth s 2) in
  let j := to_ser t in
  L [ofB (table_wfb g t); sx_of_jtable j; sx_of_loaded g (from_ser g j);
     sx_of_pres sx_of_marks (calc_marks g t); sx_of_loaded g2 (from_ser g2 j);
     match from_ser g j with Ok t' => L [sx_of_jtable (to_ser t')] | Raise _ => L [] end].

(* ---- 121: the cache machine over a finite description of the directory ------ *)
Fixpoint vs_eqb (a b : list (N * N)) : bool :=
  match a, b with
  | [], [] => true
  | (p, v) :: a', (q, w) :: b' => (p =? q) && (v =? w) && vs_eqb a' b'
  | _, _ => false
  end.

Fixpoint lookup_vs (vs : list (N * N)) (m : list (list (N * N) * N)) : N :=
  match m with
  | [] => 0
  | (k, g) :: r => if vs_eqb vs k then g else lookup_vs vs r
  end.

Fixpoint lookup_create (g fp : N) (m : list (N * N * pres ptable)) : pres ptable :=
  match m with
  | [] => Raise (EOther 99)
  | (g', fp', r) :: m' => if (g =? g') && (fp =? fp') then r else lookup_create g fp m'
  end.

Definition empty_pg : pgram := mkPG [] [] [].

Definition op_of_sx (s : sx) : op N :=
  match sxN (sx_nth s 0) with
  | 0 => Construct (sxB (sx_nth s 1)) (sxN (sx_nth s 2))
  | 1 => Compile (sxN (sx_nth s 1))
  | 2 => Crash (sxN (sx_nth s 1))
  | 3 => Edit (sxN (sx_nth s 1)) (sxN (sx_nth s 2))
  | 4 => Touch (sxN (sx_nth s 1))
  | 5 => TouchCache
  | _ => RemoveCache
  end.

Definition sx_of_branch (b : branch) : sx :=
  match b with BCreated => A 0 | BCreateFailed => A 1 | BLoaded => A 2 end.

Definition sx_of_content (c : content) : sx :=
  match c with Full j => L [A 0; sx_of_jtable j] | Broken => L [A 1] end.

Definition sx_of_fsys (fs : fsys) : sx :=
  L [L (map (fun e => L [A (fst e); A (fst (snd e)); A (snd (snd e))]) (fs_files fs));
     match fs_cache fs with
     | None => L []
     | Some (tc, c) => L [A tc; sx_of_content c]
     end].

(* (files gmap ginfo cmap history) ->
   (trace, run_hist, spec_hist) *)
Definition run_c12_121 (s : sx) : sx :=
  let files := map (fun e => (sxN (sx_nth e 0), (sxN (sx_nth e 1), sxN (sx_nth e 2))))
                   (sxL (sx_nth s 0)) in
  let gmap := map (fun e => (map (fun pv => (sxN (sx_nth pv 0), sxN (sx_nth pv 1)))
                                 (sxL (sx_nth e 0)), sxN (sx_nth e 1)))
                  (sxL (sx_nth s 1)) in
  let ginfo := map (fun e => (sxN (sx_nth e 0), (sxNs (sx_nth e 1), pgram_of_sx (sx_nth e 2))))
                   (sxL (sx_nth s 2)) in
  let cmap := map (fun e => (sxN (sx_nth e 0), sxN (sx_nth e 1), pres_table_of_sx (sx_nth e 2)))
                  (sxL (sx_nth s 3)) in
  let h := map (fun e => (sxN (sx_nth e 0), op_of_sx (sx_nth e 1))) (sxL (sx_nth s 4)) in
  let grammar_of := fun vs => lookup_vs vs gmap in
  let imported := fun g => match nassoc g ginfo with Some i => fst i | None => [] end in
  let pg_of := fun g => match nassoc g ginfo with Some i => snd i | None => empty_pg end in
  let create := fun g fp => lookup_create g fp cmap in
  let fs0 := mkFS files None in
  L [L (map (fun e =>
              L [match fst e with
                 | None => L []
                 | Some br => L [sx_of_branch (fst br); sx_of_pres sx_of_ptable (snd br)]
                 end;
                 sx_of_fsys (snd e)])
            (trace N N grammar_of imported pg_of create fs0 h));
     L (map (sx_of_pres sx_of_ptable) (run_hist N N grammar_of imported pg_of create fs0 h));
     L (map (sx_of_pres sx_of_ptable) (spec_hist N N grammar_of pg_of create fs0 h))].
