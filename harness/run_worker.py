"""Run a props worker function over a list of jobs in THIS interpreter's environment.
Used to evaluate the same cases on the frozen baseline implementation
(PYTHONPATH=harness/baseline): python run_worker.py props.c03 _worker <jobs.pickle >out.pickle"""
import importlib
import multiprocessing as mp
import os
import pickle
import sys

sys.path.insert(0, os.path.dirname(os.path.abspath(__file__)))


def main():
    modname, fname = sys.argv[1], sys.argv[2]
    jobs = pickle.load(sys.stdin.buffer)
    mod = importlib.import_module(modname)
    f = getattr(mod, fname)
    n = int(os.environ.get("VERIF_JOBS", "16"))
    if len(jobs) <= 2:
        res = [f(j) for j in jobs]
    else:
        with mp.Pool(n) as pool:
            res = pool.map(f, jobs, chunksize=1)
    import parglare
    pickle.dump({"parglare_file": parglare.__file__, "results": res}, sys.stdout.buffer)


if __name__ == "__main__":
    main()
