"""./check <Cxx> [--tier quick|thorough] [--replay file]  (see /verif/check)"""
import argparse
import importlib
import json
import os
import sys
import traceback

sys.path.insert(0, os.path.dirname(os.path.abspath(__file__)))

from lib import common  # noqa: E402


def main():
    ap = argparse.ArgumentParser()
    ap.add_argument("pid")
    ap.add_argument("--tier", default=os.environ.get("VERIF_TIER", "quick"))
    ap.add_argument("--replay", default=None)
    args = ap.parse_args()
    pid = args.pid.upper()
    tier = os.environ.get("VERIF_TIER") or args.tier
    if tier not in ("quick", "thorough"):
        tier = "quick"
    seed = int(os.environ.get("VERIF_SEED", "0"))
    ctx = common.Ctx(pid, tier, seed)
    mod = importlib.import_module("props." + pid.lower())

    # 1. build: regenerated constants, Coq project, extraction, OCaml driver
    obligations = {"total": 0, "discharged": 0, "theorems": [], "axioms": []}
    build_broken = None
    try:
        common.ensure_built()
        tr = common.property_transcript(pid)
        obligations["theorems"] = tr["theorems"]
        obligations["total"] = len(tr["theorems"])
        obligations["discharged"] = len(tr["theorems"])
        obligations["axioms"] = tr["axioms"]
        if tr["print_assumptions"] == 0:
            raise common.BuildError("Properties/%s.v has no Print Assumptions" % pid, "")
    except common.BuildError as e:
        build_broken = {"stage": e.stage, "log": e.log}
    except Exception as e:  # translator failures etc. (fail closed)
        build_broken = {"stage": "setup: %s" % type(e).__name__, "log": traceback.format_exc()[-3000:]}

    if args.replay:
        # a replay shows the recorded case again (module-specific diagnostics, when the record carries a
        # single grammar/input) and then repeats the run that produced the record -- same tier and seed --
        # so that the exit status and the VIOLATION lines say whether the failure is still there
        rep = json.load(open(args.replay))
        try:
            mod.replay(ctx, rep)
        except SystemExit:
            pass
        except Exception:
            print("replay: record not replayable in isolation")
        print("replay: repeating the %s run with seed %s" % (rep.get("tier", tier), rep.get("seed", seed)))
        ctx = common.Ctx(pid, rep.get("tier", tier) if rep.get("tier") in ("quick", "thorough") else tier,
                         int(rep.get("seed", seed)))

    model_ok = os.path.exists(common.MODEL_BIN)
    if build_broken and not model_ok:
        ctx.violation("proof/extraction build is broken and no model binary exists: %s"
                      % build_broken["stage"],
                      {"broken_obligation": build_broken}, no_input=True)
        sys.exit(common.finish(ctx, mod.LEVEL, obligations, {"evaluations": 0,
                 "distinct_nontrivial": 0, "rule": "build failed", "samples": []},
                 mod.ASSUMPTIONS, "make -C coq && coqc Properties/%s.v" % pid))

    # 2./3. known findings replay + correspondence and validators on generated cases
    try:
        coverage = mod.run(ctx)
    except Exception:
        ctx.violation("check crashed (machinery error): see log",
                      {"traceback": traceback.format_exc()[-4000:]}, no_input=True)
        coverage = {"evaluations": 0, "distinct_nontrivial": 0, "rule": "crashed", "samples": []}

    # 4. a broken proof obligation with no failing input found by the run above
    if build_broken:
        found_input = any(not v[3] for v in ctx._viol.values())
        if not found_input:
            ctx.violation("obligation no longer checks: %s" % build_broken["stage"],
                          {"broken_obligation": build_broken}, no_input=True)
        obligations["discharged"] = 0
        obligations["total"] = max(obligations["total"], 1)

    sys.exit(common.finish(ctx, mod.LEVEL, obligations, coverage, mod.ASSUMPTIONS,
                           "cd coq && make && coqc -Q theories PV theories/Properties/%s.v "
                           "(Print Assumptions under every theorem)" % pid))


if __name__ == "__main__":
    main()
