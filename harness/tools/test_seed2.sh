#!/bin/bash
# test_seed2.sh Cxx [checks...]: confirm round-2 seed, apply to /repo, run checks, undo.
P=$1; shift; CHECKS=${@:-$P}
cd /verif
harness/tools/confirm_seed2.sh $P 2>&1 | grep -v auto_act
git -C /repo apply /verif/seeded/$P-2/patch.diff || exit 1
for c in $CHECKS; do
  out=$(./check $c 2>&1); echo "seed $P-2 vs $c: $(echo "$out" | grep -c VIOLATION) violations"
  echo "$out" | grep VIOLATION | head -3
done
git -C /repo checkout -- .
git -C /repo status --short | grep -v "^??"
python3 - <<'PY'
import json,glob,os
for f in sorted(glob.glob('/verif/replays/*.json'))[:3]:
    r=json.load(open(f)); print("   ", os.path.basename(f), str(r.get('what'))[:200])
for f in glob.glob('/verif/replays/*.json'): os.remove(f)
PY
git checkout -q -- evidence 2>/dev/null
