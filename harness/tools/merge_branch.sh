#!/bin/bash
# merge_branch.sh <branch> <Cxx>: merge a builder branch, resolving the files every builder touches
b=$1; pid=$2
cd /verif
git merge $b >/dev/null 2>&1
python3 - "$b" "$pid" <<'PY'
import json, subprocess, sys, re
b, pid = sys.argv[1], sys.argv[2]
def show(ref, path):
    return subprocess.run(["git", "show", "%s:%s" % (ref, path)], capture_output=True, text=True).stdout
ours = json.loads(show("HEAD", "known_findings.json"))
theirs = json.loads(show(b, "known_findings.json"))
ids = {f["id"] for f in ours["findings"]}
for f in theirs["findings"]:
    if f["id"] not in ids:
        ours["findings"].append(f)
for s in theirs.get("fixed", []):
    if s not in ours["fixed"]:
        ours["fixed"].append(s)
json.dump(ours, open("known_findings.json", "w"), indent=1)
# manifest entry from their generator
mj = show(b, "harness/manifest/%s.json" % pid)
if mj.strip():
    open("harness/manifest/%s.json" % pid, "w").write(mj)
else:
    src = show(b, "harness/gen_manifest.py")
    ns = {"__file__": "/verif/harness/gen_manifest.py"}
    exec(compile(src.split("NOT_YET =")[0], "theirs", "exec"), ns)
    json.dump(ns["CLAIMED"][pid], open("harness/manifest/%s.json" % pid, "w"), indent=1)
open("harness/gen_manifest.py", "w").write(show("HEAD", "harness/gen_manifest.py"))
p = "coq/theories/Extract/Run.v"
s = open(p).read()
if "<<<<<<<" in s:
    s = re.sub(r"<<<<<<< [^\n]*\n(.*?)=======\n(.*?)>>>>>>> [^\n]*\n", lambda m: m.group(1) + m.group(2), s, flags=re.S)
    open(p, "w").write(s)
PY
git checkout --ours MANIFEST.json coq/_CoqProject 2>/dev/null; python3 harness/gen_manifest.py && git add -A && git commit -q -m "merge $b" && echo "merged $b"; git status --short | head -5
