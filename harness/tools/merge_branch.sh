#!/bin/bash
# merge_branch.sh <branch>: merge a builder branch, resolving the two files every builder touches
b=$1
cd /verif
git merge $b >/dev/null 2>&1
python3 - "$b" <<'PY'
import json, subprocess, sys, re
b = sys.argv[1]
def show(ref, path):
    return subprocess.run(["git", "show", "%s:%s" % (ref, path)], capture_output=True, text=True).stdout
# known_findings.json : union by id / string
ours = json.loads(show("HEAD", "known_findings.json"))
theirs = json.loads(show(b, "known_findings.json"))
ids = {f["id"] for f in ours["findings"]}
for f in theirs["findings"]:
    if f["id"] not in ids:
        ours["findings"].append(f)
for s in theirs.get("fixed", []):
    if s not in ours["fixed"]:
        ours["fixed"].append(s)
json.dump(ours, open("known_findings.json", "w"), indent=1)
# gen_manifest.py : keep both sides of every conflict
p = "harness/gen_manifest.py"
s = open(p).read()
s = re.sub(r"<<<<<<< [^\n]*\n(.*?)=======\n(.*?)>>>>>>> [^\n]*\n", lambda m: m.group(1) + m.group(2), s, flags=re.S)
open(p, "w").write(s)
for p in ("coq/theories/Extract/Run.v",):
    s = open(p).read()
    if "<<<<<<<" in s:
        s = re.sub(r"<<<<<<< [^\n]*\n(.*?)=======\n(.*?)>>>>>>> [^\n]*\n", lambda m: m.group(1) + m.group(2), s, flags=re.S)
        open(p, "w").write(s)
PY
git status --short | grep -E "^(UU|AA|U|.U)" ; python3 -c "import ast;ast.parse(open('/verif/harness/gen_manifest.py').read())" && python3 harness/gen_manifest.py && echo manifest-ok
