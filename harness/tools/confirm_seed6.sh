#!/bin/bash
# confirm_seed.sh Cxx : re-verify a seeded change in its scratch worktree /tmp/seed6/Cxx and copy
# it to /verif/seeded/Cxx (patch.diff, demo.py, README.md, meta.json).
id=$1; wt=/tmp/seed6/$id; out=/verif/seeded/${id}-6
[ -f $wt/_seed/patch.diff ] || { echo "$id: no patch"; exit 1; }
cd $wt
export PYTHONPATH=$wt PYTHONHASHSEED=0
git checkout -q -- parglare 2>/dev/null; git clean -fdxq -e _seed >/dev/null 2>&1
/venv/bin/python _seed/demo.py >/tmp/seed6/$id.pristine.log 2>&1; rc_pristine=$?
git apply _seed/patch.diff || { echo "$id: patch does not apply"; exit 1; }
/venv/bin/python _seed/demo.py >/tmp/seed6/$id.changed.log 2>&1; rc_changed=$?
tests=$(/venv/bin/python -m pytest -q -p no:cacheprovider --timeout=900 tests/func 2>&1 | tail -1)
git clean -fdxq -e _seed >/dev/null 2>&1
mkdir -p $out
cp _seed/patch.diff _seed/demo.py $out/
[ -f _seed/README.md ] && cp _seed/README.md $out/
python3 - "$id" "$rc_pristine" "$rc_changed" "$tests" <<'PY'
import json, sys
pid, rp, rc, tests = sys.argv[1:5]
meta = {"property": pid,
        "demo_exit_on_pristine": int(rp), "demo_exit_with_change": int(rc),
        "test_suite_with_change": tests.strip(),
        "confirmed": int(rp) == 0 and int(rc) != 0 and "264 passed" in tests,
        "what_i_ran": "in scratch worktree /tmp/seed6/%s: demo.py on pristine tree, git apply patch.diff, demo.py, "
                      "pytest tests/func" % pid,
        "needs_to_manifest": "see README.md"}
json.dump(meta, open("/verif/seeded/%s-6/meta.json" % pid, "w"), indent=1)
print(pid, meta["confirmed"], rp, rc, tests.strip())
PY
