#!/bin/bash
# independent re-check of the compiled development; prints the axioms it relies on
cd "$(dirname "$0")/../../coq" || exit 1
mods=$(ls theories/Properties/*.v | sed 's#theories/Properties/\(.*\)\.v#PV.Properties.\1#' | tr '\n' ' ')
timeout 3000 coqchk -silent -o -Q theories PV $mods PV.Extract.Run
