#!/bin/bash
# reseed.sh [seed dirs...]: apply every archived seeded change (seeded/Cxx[-N]/patch.diff) to a scratch
# worktree of /repo and run its property's quick check against it (VERIF_REPO); every line should show
# at least one violation.  Run it in a scratch worktree of /verif so that evidence/ is not disturbed.
V="$(cd "$(dirname "$0")/../.." && pwd)"
SC=$(mktemp -d /tmp/reseed.XXXXXX); rmdir $SC
dirs=${@:-$(cd $V/seeded && ls -d C[0-9][0-9] C[0-9][0-9]-[2-9] | sort)}
for d in $dirs; do
  pid=${d%%-*}
  git -C /repo worktree remove --force $SC >/dev/null 2>&1
  git -C /repo worktree add -f --detach $SC HEAD >/dev/null 2>&1
  if ! git -C $SC apply $V/seeded/$d/patch.diff 2>/dev/null; then echo "$d: patch does not apply"; continue; fi
  out=$(cd $V && VERIF_REPO=$SC timeout 1800 ./check $pid 2>&1)
  echo "$d vs $pid: $(echo "$out" | grep -c VIOLATION) violations"
done
git -C /repo worktree remove --force $SC >/dev/null 2>&1
