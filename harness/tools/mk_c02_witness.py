"""Prints the Coq witness for C02_refuted: the impl's forest for a nullable grammar and a
certified derivation that is absent from it.  Run once; output pasted into Properties/C02.v."""
import os
import sys
sys.path.insert(0, os.path.join(os.path.dirname(os.path.abspath(__file__)), ".."))
from lib import common, glrcases, refparse  # noqa


def coq_tree(t):
    if t[0] == 0:
        return "TLeaf %d %d %d" % (t[1], t[2], t[3])
    return "TNode %d %d %d [%s]" % (t[1], t[2], t[3], "; ".join(coq_tree(c) for c in t[4]))


def coq_forest(nodes):
    out = []
    for n in nodes:
        alts = []
        for a in n:
            if a[0] == 0:
                alts.append("ATerm %d %d %d" % (a[1], a[2], a[3]))
            else:
                alts.append("ANT %d %d %d [%s]%%nat" % (a[1], a[2], a[3], "; ".join(str(c) for c in a[4])))
        out.append("[" + "; ".join(alts) + "]")
    return "[ " + ";\n    ".join(out) + " ]"


gtext, w = sys.argv[1], sys.argv[2]
r = glrcases.worker(("w", gtext, [w], {"tables": 1}))
c = r["cases"][0]
ref = refparse.Ref(r["grammar"], None, c["rx"], glrcases.sk_ws(w), len(w))
trees = ref.sentence_trees()
ft = common.model_run([(7, [c["nodes"], 5000])])[0][1]
have = set(refparse.shape_of_sx(t) for t in ft)
miss = [t for t in trees if t not in have]
print("(* grammar: %s   input: %r   derivations: %d, in forest: %d *)" % (gtext, w, len(trees), len(ft)))
g = r["grammar"]
print("Definition g_w : grammar := [%s]." % "; ".join(
    "mkProd %d [%s]" % (lhs, "; ".join(("T %d" % x) if k == 0 else ("NT %d" % x) for k, x in rhs))
    for lhs, rhs in g))
print("Definition F_w : forest :=\n  %s." % coq_forest(c["nodes"]))
print("Definition t_w : tree := %s." % coq_tree(refparse.shape_to_sx(miss[0])))
