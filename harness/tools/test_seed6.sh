#!/bin/bash
# test_seed6.sh Cxx [checks...]: confirm a round-6 seed (scratch worktree /tmp/seed6/Cxx), then run the
# checks against that worktree with the change applied (VERIF_REPO; /repo itself is not touched), undo.
P=$1; shift; CHECKS=${@:-$P}
cd /verif
harness/tools/confirm_seed6.sh $P 2>&1 | grep -v auto_act
git -C /tmp/seed6/$P checkout -- parglare; git -C /tmp/seed6/$P apply /verif/seeded/$P-6/patch.diff || exit 1
for c in $CHECKS; do
  out=$(VERIF_REPO=/tmp/seed6/$P ./check $c 2>&1); echo "seed $P-6 vs $c: $(echo "$out" | grep -c VIOLATION) violations"
  echo "$out" | grep VIOLATION | head -3
done
git -C /tmp/seed6/$P checkout -- parglare
python3 - <<'PY'
import json,glob,os
for f in sorted(glob.glob('/verif/replays/*.json'))[:3]:
    r=json.load(open(f)); print("   ", os.path.basename(f), str(r.get('what'))[:300])
PY
git -C /verif status --short replays | awk '{print $2}' | xargs -r rm -f
git checkout -q -- evidence replays 2>/dev/null
