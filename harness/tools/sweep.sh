#!/bin/bash
# sweep.sh <seed>...: all twenty quick checks on the unchanged tree under other VERIF_SEEDs
# (false-alarm test; run it in a scratch worktree of /verif so that evidence/ is not disturbed)
cd "$(dirname "$0")/../.." || exit 1
for sd in "$@"; do
  for i in 01 02 03 04 05 06 07 08 09 10 11 12 13 14 15 16 17 18 19 20; do
    s=$(date +%s); out=$(VERIF_SEED=$sd ./check C$i 2>&1); rc=$?; e=$(date +%s)
    echo "seed $sd C$i rc=$rc violations=$(echo "$out" | grep -c VIOLATION) $((e-s))s"
    echo "$out" | grep VIOLATION | head -2
  done
done
