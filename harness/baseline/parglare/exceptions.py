from typing import Optional, Tuple

from parglare.common import Location
from parglare.termui import s_attention as err
from parglare.termui import s_header as _


class ParglareError(Exception):
    def __init__(
        self,
        location: Location,
        message: str,
        context_message: Optional[str] = None,
        error_type: str = err("error"),
        input: Optional[str] = None,
        hint: Optional[str] = None,
    ):
        self.location = location
        self.hint = hint
        self.message = message
        self.context_message = context_message
        self.error_type = error_type

        context = (
            get_context(input, location, context_message) if context_message else None
        )
        hint = _(f"  hint: {hint}") if hint else None

        self.full_message = "\n".join(
            filter(None, [f"{error_type}: {message}", context, hint])
        )

    def __str__(self):
        return f"{self.location}: {self.full_message}"


def get_line_col_at_position(
    text: str, pos: int
) -> Tuple[Optional[int], Optional[int], Optional[str], Optional[str]]:
    lines = text.splitlines(keepends=True)

    if pos > len(text):
        # Position out of range
        return None, None, None, None

    # Special handling of EOF
    if pos == len(text):
        if not lines:
            # Empty input
            return 0, 0, "", None
        prev_line = lines[-2].rstrip("\n\r") if len(lines) > 1 else None
        return (
            len(lines) - 1,
            len(lines[-1]),
            lines[-1].rstrip("\n\r"),
            prev_line,
        )

    current_pos = 0
    for lineidx, line in enumerate(lines):
        if current_pos <= pos < current_pos + len(line):
            prev_line = lines[lineidx - 1].rstrip("\n\r") if lineidx > 0 else None
            return lineidx, pos - current_pos, line.rstrip("\n\r"), prev_line
        current_pos += len(line)
    return None, None, None, None


def get_indented_message(
    message: str,
    indent: int,
    prefix: Optional[str] = None,
    marker: Optional[str] = None,
) -> str:
    """
    Returns message where all lines are indented by `indent`.

    If optional `prefix` is given it is prepended to every line.
    """
    indent_str = (_(prefix) if prefix is not None else "") + " " * indent
    first_indent_str = (
        (indent_str[: -len(marker) + 1] + err(marker)) if marker is not None else None
    )
    return "\n".join(
        [
            f"{first_indent_str}{line}"
            if marker is not None and lineidx == 0
            else f"{indent_str}{line}"
            for lineidx, line in enumerate(message.splitlines())
        ]
    )


def get_context(input, location: Location, message: str) -> Optional[str]:
    context = None
    if input is not None and location.start_position is not None:
        if type(input) is str:
            lineidx, colidx, line, prev_line = get_line_col_at_position(
                input, location.start_position
            )
        else:
            start = max(location.start_position - 10, 0)
            lineidx = 0
            colidx = len(str(input[start : location.start_position])) + 1
            line = str(input[start : location.start_position + 10])
            prev_line = None

        if lineidx is not None and colidx is not None:
            prev_line_context = (
                _(f"{lineidx:>5} | ") + f"{prev_line}\n" if prev_line else ""
            )
            context = (
                prev_line_context
                + _(f"{lineidx + 1:>5} | ")
                + f"{line}\n"
                + get_indented_message(message, colidx + 4, "      |", "^^^ ")
            )

    return context


class GrammarError(ParglareError):
    def __init__(self, location, message):
        super().__init__(location, message, error_type=err("grammar error"))


class SyntaxError(ParglareError):
    def __init__(
        self,
        location: Location,
        input,
        symbols_expected,
        tokens_ahead=None,
        symbols_before=None,
        last_heads=None,
        grammar=None,
        hint=None,
    ):
        """
        Args:
        location(Location): The :class:`Location` of the error.
        symbols_expected(list): A list of :class:`GrammarSymbol` expected at
            the location
        tokens_ahead(list): A list of :class:`Token` recognized at the current
            location.
        symbols_before(list): A list of :class:`GrammarSymbol` recognized just
            before the current position
        last_heads(list): A list of :class:`GSSNode` GLR heads before the
            error.
        grammar(Grammar): An instance of :class:`Grammar` being used for
            parsing.
        """
        self.symbols_expected = symbols_expected
        self.tokens_ahead = tokens_ahead if tokens_ahead else []
        self.symbols_before = symbols_before if symbols_before else []
        self.last_heads = last_heads
        self.grammar = grammar
        token_str = "tokens" if len(self.tokens_ahead) > 1 else "token"
        if not location.is_eof():
            message = f"unexpected {token_str} " + ", ".join(
                sorted([str(t) for t in self.tokens_ahead])
            )
        else:
            message = "unexpected end of file"
        context_message = _("expected: ") + " ".join(
            sorted([s.name for s in symbols_expected])
        )
        super().__init__(
            location,
            message,
            context_message=context_message,
            input=input,
            error_type=err("syntax error"),
            hint=hint,
        )


def expected_symbols_str(symbols):
    return " ".join(sorted([s.name for s in symbols]))


def disambiguation_error(tokens):
    return "Can't disambiguate between: {}".format(
        _(" ").join(sorted([str(t) for t in tokens]))
    )


class ParserInitError(Exception):
    pass


class DisambiguationError(ParglareError):
    def __init__(self, location, tokens):
        self.tokens = tokens
        message = disambiguation_error(tokens)
        super().__init__(location, message)


class DynamicDisambiguationConflict(Exception):
    def __init__(self, context, actions):
        self.state = state = context.state
        self.token = token = context.token
        self.actions = actions

        from parglare.parser import SHIFT

        message = (
            f"{str(state)}\nIn state {state.state_id}:{state.symbol} "
            f"and input symbol '{token}' after calling"
            " dynamic disambiguation still can't decide "
        )
        if actions[0].action == SHIFT:
            prod_str = " or ".join([f"'{str(a.prod)}'" for a in actions[1:]])
            message += f"whether to shift or reduce by production(s) {prod_str}."
        else:
            prod_str = " or ".join([f"'{str(a.prod)}'" for a in actions])
            message += f"which reduction to perform: {prod_str}"

        self.message = message

    def __str__(self):
        return self.message


class LRConflict:
    def __init__(self, state, term, productions):
        self.state = state
        self.term = term
        self.productions = productions

    @property
    def dynamic(self):
        return self.term in self.state.dynamic


class SRConflict(LRConflict):
    def __init__(self, state, term, productions):
        super().__init__(state, term, productions)

    def __str__(self):
        prod_str = " or ".join([f"'{str(p)}'" for p in self.productions])
        message = (
            "{}\nIn state {}:{} and input symbol '{}' can't "
            "decide whether to shift or reduce by production(s) {}.{}".format(
                str(self.state),
                self.state.state_id,
                self.state.symbol,
                self.term,
                prod_str,
                " Dynamic disambiguation strategy will be called."
                if self.dynamic
                else "",
            )
        )

        return message


class RRConflict(LRConflict):
    def __init__(self, state, term, productions):
        super().__init__(state, term, productions)

    def __str__(self):
        prod_str = " or ".join([f"'{str(p)}'" for p in self.productions])
        message = (
            "{}\nIn state {}:{} and input symbol '{}' can't "
            "decide which reduction to perform: {}.{}".format(
                str(self.state),
                self.state.state_id,
                self.state.symbol,
                self.term,
                prod_str,
                " Dynamic disambiguation strategy will be called."
                if self.dynamic
                else "",
            )
        )
        return message


class LRConflicts(Exception):
    def __init__(self, conflicts):
        self.conflicts = conflicts
        message = (
            f"\n{self.kind} conflicts in following states: "
            f"{set([c.state.state_id for c in conflicts])}"
        )
        super().__init__(message)


class SRConflicts(LRConflicts):
    kind = "Shift/Reduce"


class RRConflicts(LRConflicts):
    kind = "Reduce/Reduce"


class LoopError(Exception):
    pass
