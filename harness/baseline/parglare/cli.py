#!/usr/bin/env python
import sys

import click

import parglare.termui as t
from parglare import GLRParser, Grammar, GrammarError, Parser, SyntaxError
from parglare.export import grammar_pda_export
from parglare.tables import create_load_table
from parglare.termui import a_print, h_print, prints


@click.group()
@click.option("--debug", default=False, is_flag=True, help="Debug/trace output.")
@click.option("--no-colors", default=False, is_flag=True, help="Disable output coloring.")
@click.option(
    "--prefer-shifts",
    default=False,
    is_flag=True,
    help="Prefer shifts over reductions.",
)
@click.option(
    "--prefer-shifts-over-empty",
    default=False,
    is_flag=True,
    help="Prefer shifts over empty reductions.",
)
@click.pass_context
def pglr(ctx, debug, no_colors, prefer_shifts, prefer_shifts_over_empty):
    """
    Command line interface for working with parglare grammars.
    """
    ctx.obj = {
        "debug": debug,
        "colors": not no_colors,
        "prefer_shifts": prefer_shifts,
        "prefer_shifts_over_empty": prefer_shifts_over_empty,
    }


@pglr.command()
@click.argument("grammar_file", type=click.Path())
@click.pass_context
def compile(ctx, grammar_file):
    debug = ctx.obj["debug"]
    colors = ctx.obj["colors"]
    prefer_shifts = ctx.obj["prefer_shifts"]
    prefer_shifts_over_empty = ctx.obj["prefer_shifts_over_empty"]
    h_print("Compiling...")
    compile_get_grammar_table(
        grammar_file, debug, colors, prefer_shifts, prefer_shifts_over_empty
    )


@pglr.command()
@click.argument("grammar_file", type=click.Path())
@click.option("--input-file", "-f", type=click.Path(), help="File to parse")
@click.option("--input", "-i", help="Input string to parse")
@click.option("--glr", "-g", default=False, is_flag=True, help="Parse with GLR")
@click.option("--recovery", "-r", default=False, is_flag=True, help="Use error recovery")
@click.option("--dot", default=False, is_flag=True, help="Export tree/forest to dot file")
@click.option(
    "--positions",
    default=False,
    is_flag=True,
    help="Render node positions in dot export",
)
@click.pass_context
def parse(ctx, grammar_file, input_file, input, glr, recovery, dot, positions):
    if not (input_file or input):
        prints("Expected either input_file or input string.")
        sys.exit(1)
    colors = ctx.obj["colors"]
    debug = ctx.obj["debug"]
    prefer_shifts = ctx.obj["prefer_shifts"]
    prefer_shifts_over_empty = ctx.obj["prefer_shifts_over_empty"]
    grammar = Grammar.from_file(grammar_file, debug=debug, debug_colors=colors)
    if glr:
        parser = GLRParser(
            grammar,
            debug=debug,
            debug_colors=colors,
            error_recovery=recovery,
            prefer_shifts=prefer_shifts,
            prefer_shifts_over_empty=prefer_shifts_over_empty,
        )
    else:
        parser = Parser(
            grammar,
            build_tree=True,
            debug=debug,
            debug_colors=colors,
            error_recovery=recovery,
            prefer_shifts=prefer_shifts,
            prefer_shifts_over_empty=prefer_shifts_over_empty,
        )

    result = parser.parse(input) if input else parser.parse_file(input_file)

    if glr:
        print(f"Solutions:{result.solutions}")
        print(f"Ambiguities:{result.ambiguities}")

    if recovery:
        print(f"Errors: {len(parser.errors)}")
        for error in parser.errors:
            print("\t", str(error))

    if glr and result.solutions > 1:
        print("Printing the forest:\n")
        result = result
    else:
        print("Printing the parse tree:\n")

    print(result.to_str())

    if dot:
        f_name = "forest.dot" if glr and result.solutions > 1 else "tree.dot"
        with open(f_name, "w") as f:
            f.write(result.to_dot(positions))
        print("Created dot file ", f_name)


@pglr.command()
@click.argument("grammar_file", type=click.Path())
@click.pass_context
def viz(ctx, grammar_file):
    debug = ctx.obj["debug"]
    colors = ctx.obj["colors"]
    prefer_shifts = ctx.obj["prefer_shifts"]
    prefer_shifts_over_empty = ctx.obj["prefer_shifts_over_empty"]
    t.colors = colors
    grammar, table = compile_get_grammar_table(
        grammar_file, debug, colors, prefer_shifts, prefer_shifts_over_empty
    )
    prints(f"Generating '{grammar_file}.dot' file for the grammar PDA.")
    prints(
        "Use dot viewer (e.g. xdot) or convert to pdf by running "
        f"'dot -Tpdf -O {grammar_file}.dot'"
    )
    t.colors = False
    grammar_pda_export(table, f"{grammar_file}.dot")


@pglr.command()
@click.argument("grammar_file", type=click.Path())
@click.option("--input-file", "-f", type=click.Path(), help="Input file for tracing")
@click.option("--input", "-i", help="Input string for tracing")
@click.option(
    "--frontiers",
    "-r",
    default=False,
    is_flag=True,
    help="Align GSS nodes into frontiers (token levels)",
)
@click.pass_context
def trace(ctx, grammar_file, input_file, input, frontiers):
    if not (input_file or input):
        prints("Expected either input_file or input string.")
        sys.exit(1)
    colors = ctx.obj["colors"]
    prefer_shifts = ctx.obj["prefer_shifts"]
    prefer_shifts_over_empty = ctx.obj["prefer_shifts_over_empty"]
    grammar, table = compile_get_grammar_table(
        grammar_file, True, colors, prefer_shifts, prefer_shifts_over_empty
    )
    parser = GLRParser(
        grammar,
        debug=True,
        debug_trace=True,
        debug_colors=colors,
        prefer_shifts=prefer_shifts,
        prefer_shifts_over_empty=prefer_shifts_over_empty,
        debug_trace_frontiers=frontiers,
    )
    if input:
        parser.parse(input)
    else:
        parser.parse_file(input_file)


def compile_get_grammar_table(
    grammar_file, debug, colors, prefer_shifts, prefer_shifts_over_empty
):
    try:
        g = Grammar.from_file(
            grammar_file, _no_check_recognizers=True, debug_colors=colors
        )
        if debug:
            g.print_debug()
        table = create_load_table(
            g,
            prefer_shifts=prefer_shifts,
            prefer_shifts_over_empty=prefer_shifts_over_empty,
            force_create=True,
            debug=debug,
        )
        if debug or table.sr_conflicts or table.rr_conflicts:
            table.print_debug()

        if not table.sr_conflicts and not table.rr_conflicts:
            h_print("Grammar OK.")

        if table.sr_conflicts:
            if len(table.sr_conflicts) == 1:
                message = "There is 1 Shift/Reduce conflict."
            else:
                message = f"There are {len(table.sr_conflicts)} Shift/Reduce conflicts."
            a_print(message)
            prints(
                "Either use 'prefer_shifts' parser mode, try to resolve "
                "manually, or use GLR parsing."
            )
        if table.rr_conflicts:
            if len(table.rr_conflicts) == 1:
                message = "There is 1 Reduce/Reduce conflict."
            else:
                message = f"There are {len(table.rr_conflicts)} Reduce/Reduce conflicts."
            a_print(message)
            prints("Try to resolve manually or use GLR parsing.")

    except (GrammarError, SyntaxError) as e:
        print("Error in the grammar file.")
        print(e)
        sys.exit(1)

    return g, table


if __name__ == "__main__":
    pglr()
