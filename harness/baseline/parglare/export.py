from parglare.common import dot_escape
from parglare.parser import REDUCE, SHIFT

HEADER = """
    digraph grammar {
    rankdir=LR
    fontname = "Bitstream Vera Sans"
    fontsize = 8
    node[
        shape=record,
        style=filled,
        fillcolor=aliceblue
    ]
    nodesep = 0.3
    edge[dir=black,arrowtail=empty]


"""


def grammar_pda_export(table, file_name):
    with open(file_name, "w", encoding="utf-8") as f:
        f.write(HEADER)

        for state in table.states:
            kernel_items = ""
            for item in state.kernel_items:
                kernel_items += f"{dot_escape(str(item))}\\l"

            nonkernel_items = "|" if state.nonkernel_items else ""
            for item in state.nonkernel_items:
                nonkernel_items += f"{dot_escape(str(item))}\\l"

            # SHIFT actions and GOTOs will be encoded in links.
            # REDUCE actions will be presented inside each node.
            reduce_actions = []
            for term, actions in state.actions.items():
                r_actions = [a for a in actions if a.action is REDUCE]
                if r_actions:
                    reduce_actions.append((term, r_actions))

            reductions = ""
            if reduce_actions:
                reductions = "|Reductions:\\l{}".format(
                    ", ".join(
                        [
                            "{}:{}".format(
                                dot_escape(x[0].name),
                                x[1][0].prod.prod_id
                                if len(x[1]) == 1
                                else "[{}]".format(
                                    ",".join([str(i.prod.prod_id) for i in x[1]])
                                ),
                            )
                            for x in reduce_actions
                        ]
                    )
                )

            # States
            f.write(
                '{}[label="{}|{}{}{}"]\n'.format(
                    state.state_id,
                    dot_escape(f"{state.state_id}:{state.symbol}"),
                    kernel_items,
                    nonkernel_items,
                    reductions,
                )
            )

            f.write("\n")

            # SHIFT and GOTOs as links
            shacc = []
            for term, actions in state.actions.items():
                for a in [a for a in actions if a.action is SHIFT]:
                    shacc.append((term, a))
            for term, action in shacc:
                f.write(
                    '{} -> {} [label="{}:{}"]'.format(
                        state.state_id,
                        action.state.state_id,
                        "SHIFT" if action.action is SHIFT else "ACCEPT",
                        term,
                    )
                )

            for symb, goto_state in ((symb, goto) for symb, goto in state.gotos.items()):
                f.write(
                    f'{state.state_id} -> {goto_state.state_id} [label="GOTO:{symb}"]'
                )

        f.write("\n}\n")
