import ast
import json
import logging
from pathlib import Path
from typing import TYPE_CHECKING, Any, Dict, List, Tuple, Union

from parglare import termui
from parglare.actions import pass_none
from parglare.common import (
    ErrorContext,
    Location,
    pos_to_line_col,
    position_context,
)
from parglare.exceptions import (
    DisambiguationError,
    DynamicDisambiguationConflict,
    ParserInitError,
    RRConflicts,
    SRConflicts,
    SyntaxError,
    expected_symbols_str,
)

if TYPE_CHECKING:
    from parglare.glr import GLRParser
from parglare.grammar import EMPTY, STOP, Grammar
from parglare.tables import ACCEPT, LALR, REDUCE, SHIFT, SLR
from parglare.termui import a_print, h_print, prints
from parglare.trees import NodeNonTerm, NodeTerm

logger = logging.getLogger(__name__)


def hint_key(state: int, tokens_ahead: Union[List["Token"], None]) -> Tuple[Any, ...]:
    if tokens_ahead is not None:
        lookaheads = sorted([t.symbol.name for t in tokens_ahead])
    else:
        lookaheads = []
    return (state,) + tuple(lookaheads)


class Parser:
    """Parser works like a DFA driven by LR tables. For a given grammar LR table
    will be created and cached or loaded from cache if cache is found.
    """

    def __init__(
        self,
        grammar: Grammar,
        in_layout=False,
        actions=None,
        layout_actions=None,
        debug=False,
        debug_trace=False,
        debug_colors=False,
        debug_layout=False,
        ws="\n\r\t ",
        consume_input=True,
        build_tree=False,
        call_actions_during_tree_build=False,
        tables=LALR,
        return_position=False,
        prefer_shifts=None,
        prefer_shifts_over_empty=None,
        error_recovery=False,
        dynamic_filter=None,
        custom_token_recognition=None,
        lexical_disambiguation=True,
        force_load_table=False,
        table=None,
    ):
        self.grammar = grammar
        self.in_layout = in_layout

        EMPTY.action = pass_none
        if actions:
            self.grammar._resolve_actions(
                action_overrides=actions, fail_on_no_resolve=True
            )

        self.layout_parser = None
        if self.in_layout:
            start_production = grammar.get_production_id("LAYOUT")
        else:
            start_production = 1
            layout_symbol = grammar.get_symbol("LAYOUT")
            if layout_symbol:
                self.layout_parser = Parser(
                    grammar,
                    in_layout=True,
                    consume_input=False,
                    actions=layout_actions,
                    ws=None,
                    return_position=True,
                    prefer_shifts=True,
                    prefer_shifts_over_empty=True,
                    debug=debug_layout,
                )

        self.ws = ws
        self.return_position = return_position
        self.debug = debug
        self.debug_trace = debug_trace
        self.debug_colors = debug_colors
        termui.colors = debug_colors
        self.debug_layout = debug_layout

        self.consume_input = consume_input
        self.build_tree = build_tree
        self.call_actions_during_tree_build = call_actions_during_tree_build

        self.error_recovery = error_recovery
        self.dynamic_filter = dynamic_filter
        self.custom_token_recognition = custom_token_recognition
        self.lexical_disambiguation = lexical_disambiguation

        # should we clear transient state after parsing.
        self.clear_transient = True

        if table is None:
            from .closure import LR_0, LR_1
            from .tables import create_load_table

            itemset_type = LR_0 if tables == SLR else LR_1

            if prefer_shifts is None:
                prefer_shifts = True
            if prefer_shifts_over_empty is None:
                prefer_shifts_over_empty = True

            self.table = create_load_table(
                grammar,
                itemset_type=itemset_type,
                start_production=start_production,
                prefer_shifts=prefer_shifts,
                prefer_shifts_over_empty=prefer_shifts_over_empty,
                lexical_disambiguation=lexical_disambiguation,
                force_load=force_load_table,
                in_layout=self.in_layout,
                debug=debug,
            )
        else:
            self.table = table

            # warn about overriden parameters
            for name, value, default in [
                ("tables", tables, LALR),
                ("prefer_shifts", prefer_shifts, None),
                ("prefer_shifts_over_empty", prefer_shifts_over_empty, None),
                ("force_load_table", force_load_table, False),
            ]:
                if value is not default:
                    logger.warning(
                        "Precomputed table overrides value of parameter %s",
                        name,
                    )

        self._check_parser()
        if not self.in_layout:
            self.error_hints = self._custom_error_hints()

        if debug:
            self.print_debug()

    def _check_parser(self):
        if self.table.sr_conflicts:
            self.print_debug()
            if self.dynamic_filter:
                unhandled_conflicts = []
                for src in self.table.sr_conflicts:
                    if not src.dynamic:
                        unhandled_conflicts.append(src)
            else:
                unhandled_conflicts = self.table.sr_conflicts

            if unhandled_conflicts:
                raise SRConflicts(unhandled_conflicts)

        # Reduce/Reduce conflicts are fatal for LR parsing
        if self.table.rr_conflicts:
            self.print_debug()
            if self.dynamic_filter:
                unhandled_conflicts = []
                for rrc in self.table.rr_conflicts:
                    if not rrc.dynamic:
                        unhandled_conflicts.append(rrc)
            else:
                unhandled_conflicts = self.table.rr_conflicts

            if unhandled_conflicts:
                raise RRConflicts(unhandled_conflicts)

    def _custom_error_hints(self) -> Union[Dict[Tuple, str], None]:
        """If custom error hints file exists check if it needs compiling and if
        so perform compilation.

        """
        if self.grammar.file_path is None:
            return None

        def compile_errors(hints_file: Path) -> Dict[Tuple, str]:
            # Parse hints file
            examples = []
            with open(hints_file) as f:
                example_src: List[str] = []
                hint: List[str] = []
                in_example = True
                lookahead = False

                def new_example():
                    nonlocal example_src, hint, lookahead, in_example
                    examples.append(
                        {
                            "example": "".join(example_src),
                            "hint": "\n".join(hint),
                            "lookahead": lookahead,
                        }
                    )
                    example_src = []
                    hint = []
                    in_example = True

                for line in f:
                    if not in_example and line.strip() == "":
                        continue
                    if line.startswith("====="):
                        new_example()
                        continue

                    if line.startswith(":::"):
                        lookahead = line[3] == "+"
                        in_example = False
                        continue

                    if in_example:
                        example_src.append(line)
                    else:
                        hint.append(line.strip())

                new_example()

            compiled_examples = {}
            self.clear_transient = False
            for example in examples:
                try:
                    self.parse(example["example"])
                except SyntaxError as e:
                    del example["example"]
                    states = []
                    try:
                        states = [self.parse_stack[-1].state.state_id]
                    except AttributeError:
                        # We are using GLR
                        if TYPE_CHECKING:
                            assert isinstance(self, GLRParser)
                        states = self._active_heads.keys()
                    lookahead = example.pop("lookahead")
                    lookaheads = e.tokens_ahead if lookahead else None
                    for state in states:
                        key = hint_key(state, lookaheads)
                        compiled_examples[key] = example["hint"]
            self.clear_transient = True

            return compiled_examples

        self._in_error_hints = True
        grammar_file = Path(self.grammar.file_path)
        hints_file = grammar_file.with_suffix(".pge")
        compiled_hints = None
        if hints_file.exists():
            hints_file_compiled = hints_file.with_suffix(".pgec")
            if (
                not hints_file_compiled.exists()
                or grammar_file.stat().st_mtime > hints_file_compiled.stat().st_mtime
                or hints_file.stat().st_mtime > hints_file_compiled.stat().st_mtime
            ):
                # Compilation is needed
                compiled_hints = compile_errors(hints_file)
                with open(hints_file_compiled, "w") as f:
                    serializable = {str(k): v for k, v in compiled_hints.items()}
                    json.dump(serializable, f)
            else:
                with open(hints_file_compiled) as f:
                    loaded = json.load(f)
                    compiled_hints = {ast.literal_eval(k): v for k, v in loaded.items()}

        del self._in_error_hints
        return compiled_hints

    def print_debug(self):
        if self.in_layout and self.debug_layout:
            a_print("*** LAYOUT parser ***", new_line=True)
        self.table.print_debug()

    def parse_file(self, file_name, **kwargs):
        """
        Parses content from the given file.
        Args:
            file_name(str): A file name.
        """
        with open(file_name, encoding="utf-8") as f:
            content = f.read()
        return self.parse(content, file_name=file_name, **kwargs)

    def parse(self, input_str, position=0, file_name=None, extra=None):
        """
        Parses the given input string.
        Args:
            input_str(str): A string to parse.
            position(int): Position to start from.
            file_name(str): File name if applicable. Used in error reporting.
            extra: An object that keeps custom parsing state. If not given
                initialized to dict.
        """

        if self.debug:
            a_print("*** PARSING STARTED", new_line=True)

        extra = {} if extra is None else extra

        self.errors = []
        self.in_error_recovery = False

        next_token = self._next_token
        debug = self.debug

        accepted_head = None
        start_head = LRStackNode(
            file_name,
            input_str,
            self.table.states[0],
            0,
            position,
            extra,
            start_position=position,
            end_position=position,
        )
        self._init_dynamic_disambiguation(start_head)
        self.parse_stack = parse_stack = [start_head]

        while True:
            head = parse_stack[-1]
            cur_state = head.state
            if debug:
                a_print("Current state:", str(cur_state.state_id), new_line=True)

            if head.token_ahead is None:
                if not self.in_layout:
                    self._skipws(head, input_str)
                    if self.debug:
                        h_print(
                            "Layout content:",
                            f"'{head.layout_content}'",
                            level=1,
                        )

                head.token_ahead = next_token(head)

            if debug:
                h_print(
                    "Context:",
                    position_context(head.input_str, head.position),
                    level=1,
                )
                h_print(
                    "Tokens expected:",
                    expected_symbols_str(cur_state.actions.keys()),
                    level=1,
                )
                h_print("Token ahead:", head.token_ahead, level=1)

            actions = None
            if head.token_ahead is not None:
                actions = cur_state.actions.get(head.token_ahead.symbol)
            if not actions and not self.consume_input:
                # If we don't have any action for the current token ahead
                # see if we can finish without consuming the whole input.
                actions = cur_state.actions.get(STOP)

            if not actions:
                symbols_expected = list(cur_state.actions.keys())
                tokens_ahead = self._get_all_possible_tokens_ahead(head)
                self.errors.append(
                    self._create_error(
                        input_str,
                        head,
                        symbols_expected,
                        tokens_ahead,
                        symbols_before=[cur_state.symbol],
                    )
                )

                if self.error_recovery:
                    if self.debug:
                        a_print("*** STARTING ERROR RECOVERY.", new_line=True)
                    if self._do_recovery():
                        # Error recovery succeeded
                        if self.debug:
                            a_print(
                                "*** ERROR RECOVERY SUCCEEDED. CONTINUING.",
                                new_line=True,
                            )
                        continue
                    else:
                        break
                else:
                    break

            # Dynamic disambiguation
            if self.dynamic_filter:
                actions = self._dynamic_disambiguation(head, actions)

                # If after dynamic disambiguation we still have at least one
                # shift and non-empty reduction or multiple non-empty
                # reductions raise exception.
                if (
                    len(
                        [
                            a
                            for a in actions
                            if (a.action is SHIFT)
                            or ((a.action is REDUCE) and len(a.prod.rhs))
                        ]
                    )
                    > 1
                ):
                    raise DynamicDisambiguationConflict(head, actions)

            # If dynamic disambiguation is disabled either globaly by not
            # giving disambiguation function or localy by not marking
            # any production dynamic for this state take the first action.
            # First action is either SHIFT while there might be empty
            # reductions, or it is the only reduction.
            # Otherwise, parser construction should raise an error.
            act = actions[0]

            if act.action is SHIFT:
                cur_state = act.state

                if debug:
                    a_print(
                        "Shift:",
                        f'{cur_state.state_id} "{head.token_ahead.value}"'
                        + " at position "
                        + str(pos_to_line_col(input_str, head.position)),
                        level=1,
                    )

                new_position = head.position + len(head.token_ahead)
                new_head = LRStackNode(
                    file_name,
                    input_str,
                    state=act.state,
                    frontier=head.frontier + 1,
                    token=head.token_ahead,
                    extra=head.extra,
                    layout_content=head.layout_content_ahead,
                    position=new_position,
                    start_position=head.position,
                    end_position=new_position,
                )
                new_head.results = self._call_shift_action(new_head)
                parse_stack.append(new_head)

                self.in_error_recovery = False

            elif act.action is REDUCE:
                # if this is EMPTY reduction try to take another if
                # exists.
                if len(act.prod.rhs) == 0 and len(actions) > 1:
                    act = actions[1]
                production = act.prod

                if debug:
                    a_print("Reducing", f"by prod '{production}'.", level=1)

                r_length = len(production.rhs)
                if r_length:
                    start_reduction_head = parse_stack[-r_length]
                    results = [x.results for x in parse_stack[-r_length:]]
                    del parse_stack[-r_length:]
                    next_state = parse_stack[-1].state.gotos[production.symbol]
                    new_head = LRStackNode(
                        file_name,
                        input_str,
                        state=next_state,
                        frontier=head.frontier,
                        position=head.position,
                        extra=head.extra,
                        production=production,
                        start_position=start_reduction_head.start_position,
                        end_position=head.end_position,
                        token_ahead=head.token_ahead,
                        layout_content=start_reduction_head.layout_content,
                        layout_content_ahead=head.layout_content_ahead,
                    )
                else:
                    # Empty reduction
                    results = []
                    next_state = cur_state.gotos[production.symbol]
                    new_head = LRStackNode(
                        file_name,
                        input_str,
                        state=next_state,
                        frontier=head.frontier,
                        position=head.position,
                        extra=head.extra,
                        production=production,
                        start_position=head.end_position,
                        end_position=head.end_position,
                        token_ahead=head.token_ahead,
                        layout_content="",
                        layout_content_ahead=head.layout_content_ahead,
                    )

                # Calling reduce action
                new_head.results = self._call_reduce_action(new_head, results)
                parse_stack.append(new_head)

            elif act.action is ACCEPT:
                accepted_head = head
                break

        if accepted_head:
            if debug:
                a_print("SUCCESS!!!")
            if self.return_position:
                return parse_stack[1].results, parse_stack[1].position
            else:
                return parse_stack[1].results
        else:
            error = self.errors[-1]
            del self.errors
            raise error

    def call_actions(self, node):
        """
        Calls semantic actions for the given tree node.
        """

        def inner_call_actions(node):
            sem_action = node.symbol.action
            if node.is_term():
                if sem_action:
                    try:
                        result = sem_action(
                            node.context, node.value, *node.additional_data
                        )
                    except TypeError as e:
                        raise TypeError(
                            "{}: terminal={} action={} params={}".format(
                                str(e),
                                node.symbol.name,
                                repr(sem_action),
                                (
                                    node.context,
                                    node.value,
                                    node.additional_data,
                                ),
                            )
                        ) from e
                else:
                    result = node.value
            else:
                subresults = []
                # Recursive right to left, bottom up. Simulate LR
                # reductions.
                for n in reversed(node):
                    subresults.append(inner_call_actions(n))
                subresults.reverse()

                if sem_action:
                    assignments = node.production.assignments
                    if assignments:
                        assgn_results = {}
                        for a in assignments.values():
                            if a.op == "=":
                                assgn_results[a.name] = subresults[a.index]
                            else:
                                assgn_results[a.name] = bool(subresults[a.index])
                    if isinstance(sem_action, list):
                        if assignments:
                            result = sem_action[node.production.prod_symbol_id](
                                node, subresults, **assgn_results
                            )
                        else:
                            result = sem_action[node.production.prod_symbol_id](
                                node.context, subresults
                            )
                    else:
                        if assignments:
                            result = sem_action(node.context, subresults, **assgn_results)
                        else:
                            result = sem_action(node.context, subresults)
                else:
                    result = subresults[0] if len(subresults) == 1 else subresults

            return result

        return inner_call_actions(node)

    def _skipws(self, head, input_str):
        in_len = len(input_str)
        layout_content_ahead = ""

        if self.layout_parser:
            _, pos = self.layout_parser.parse(input_str, head.position)
            if pos > head.position:
                layout_content_ahead = input_str[head.position : pos]
                head.position = pos
        elif self.ws:
            old_pos = head.position
            try:
                while head.position < in_len and input_str[head.position] in self.ws:
                    head.position += 1
            except TypeError as ex:
                raise ParserInitError(
                    "For parsing non-textual content please set `ws` to `None`."
                ) from ex
            layout_content_ahead = input_str[old_pos : head.position]

        if self.debug:
            content = layout_content_ahead
            if isinstance(layout_content_ahead, str):
                content = content.replace("\n", "\\n")
            h_print("Skipping whitespaces:", f"'{content}'")
            h_print("New position:", pos_to_line_col(input_str, head.position))
        head.layout_content_ahead = layout_content_ahead

    def _next_token(self, head):
        tokens = self._next_tokens(head)
        if not tokens:
            return None
        elif len(tokens) == 1:
            return tokens[0]
        else:
            raise DisambiguationError(Location(head), tokens)

    def _next_tokens(self, head):
        """
        For the current position in the input stream and actions in the current
        state find next tokens. This function must return only tokens that
        are relevant to specified context - ie it mustn't return a token
        if it's not expected by any action in given state.
        """
        state = head.state
        input_str = head.input_str
        position = head.position
        actions = state.actions
        in_len = len(input_str)
        tokens = []

        # add special STOP token if they are applicable
        if STOP in actions and (
            not self.consume_input or (self.consume_input and position == in_len)
        ):
            tokens.append(STOP_token)

        if position < in_len:
            # Get tokens by trying recognizers - but only if we are not at
            # the end, because token cannot be empty
            if self.custom_token_recognition:

                def get_tokens():
                    return self._token_recognition(head)

                custom_tokens = self.custom_token_recognition(
                    head,
                    get_tokens,
                )
                if custom_tokens is not None:
                    tokens.extend(custom_tokens)
            else:
                tokens.extend(self._token_recognition(head))

        # do lexical disambiguation if it is enabled
        if self.lexical_disambiguation:
            tokens = self._lexical_disambiguation(tokens)

        return tokens

    def _token_recognition(self, head):
        input_str = head.input_str
        actions = head.state.actions
        position = head.position
        finish_flags = head.state.finish_flags

        tokens = []
        last_prior = -1
        for idx, symbol in enumerate(actions):
            if symbol.prior < last_prior and tokens:
                break
            last_prior = symbol.prior
            try:
                tok = symbol.recognizer(input_str, position)
            except TypeError:
                try:
                    tok = symbol.recognizer(head, input_str, position)
                except TypeError as e:
                    raise TypeError(f'In recognizer for "{symbol}": {e}') from e

            additional_data = ()
            if type(tok) is tuple:
                tok, *additional_data = tok
            if tok:
                tokens.append(Token(symbol, tok, position, additional_data))
                if finish_flags[idx]:
                    break
        return tokens

    def _get_all_possible_tokens_ahead(self, context):
        """
        Check what is ahead no matter the current state.
        Just check with all recognizers available.
        """
        tokens = []
        if context.position < len(context.input_str):
            for terminal in self.grammar.terminals.values():
                if (
                    terminal.user_meta is not None
                    and terminal.user_meta.get("unexpected", True) is False
                ):
                    continue
                if terminal.name == "KEYWORD":
                    continue
                try:
                    tok = terminal.recognizer(context.input_str, context.position)
                except TypeError:
                    tok = terminal.recognizer(
                        context, context.input_str, context.position
                    )
                additional_data = ()
                if type(tok) is tuple:
                    tok, *additional_data = tok
                if tok:
                    tokens.append(Token(terminal, tok, context.position, additional_data))
        return tokens

    def _init_dynamic_disambiguation(self, context):
        if self.dynamic_filter:
            if self.debug:
                prints("\tInitializing dynamic disambiguation.")
            self.dynamic_filter(context, None, None, None, None, None)

    def _dynamic_disambiguation(self, context, actions):
        dyn_actions = []
        for a in actions:
            if a.action is SHIFT:
                if self._call_dynamic_filter(context, context.state, a.state, SHIFT):
                    dyn_actions.append(a)
            elif a.action is REDUCE:
                r_len = len(a.prod.rhs)
                results = [x.results for x in self.parse_stack[-r_len:]] if r_len else []
                context.production = a.prod
                if self._call_dynamic_filter(
                    context, context.state, a.state, REDUCE, a.prod, results
                ):
                    dyn_actions.append(a)
            else:
                dyn_actions.append(a)
        return dyn_actions

    def _call_dynamic_filter(
        self,
        context,
        from_state,
        to_state,
        action,
        production=None,
        subresults=None,
    ):
        token = context.token
        if context.token is None:
            context.token = context.token_ahead
        if (action is SHIFT and not to_state.symbol.dynamic) or (
            action is REDUCE and not production.dynamic
        ):
            return True

        if self.debug:
            if action is SHIFT:
                act_str = "SHIFT"
                token = context.token
                production = ""
                subresults = ""
            else:
                act_str = "REDUCE"
                token = context.token_ahead
                production = f", prod={context.production}"
                subresults = f", subresults={subresults}"

            h_print(
                "Calling filter for action:",
                f" {act_str}, token={token}{production}{subresults}",
                level=2,
            )

        accepted = self.dynamic_filter(
            context, from_state, to_state, action, production, subresults
        )
        if self.debug:
            if accepted:
                a_print("Action accepted.", level=2)
            else:
                a_print("Action rejected.", level=2)

        return accepted

    def _call_shift_action(self, context):
        """
        Calls registered shift action for the given grammar symbol.
        """
        debug = self.debug
        token = context.token
        sem_action = token.symbol.action

        if self.build_tree:
            # call action for building tree node if tree building is enabled
            if debug:
                h_print("Building terminal node", f"'{token.symbol.name}'.", level=2)

            # If both build_tree and call_actions_during_build are set to
            # True, semantic actions will be call but their result will be
            # discarded. For more info check following issue:
            # https://github.com/igordejanovic/parglare/issues/44
            if self.call_actions_during_tree_build and sem_action:
                sem_action(context, token.value, *token.additional_data)

            return NodeTerm(context, token)

        if sem_action:
            result = sem_action(context, token.value, *token.additional_data)

        else:
            if debug:
                h_print(
                    "No action defined",
                    f"for '{token.symbol.name}'. Result is matched string.",
                    level=1,
                )
            result = token.value

        if debug:
            h_print(
                "Action result = ",
                f"type:{type(result)} value:{repr(result)}",
                level=1,
            )

        return result

    def _call_reduce_action(self, context, subresults):
        """
        Calls registered reduce action for the given grammar symbol.
        """
        debug = self.debug
        result = None
        bt_result = None
        production = context.production

        if self.build_tree:
            # call action for building tree node if enabled.
            if debug:
                h_print(
                    "Building non-terminal node",
                    f"'{production.symbol.name}'.",
                    level=2,
                )

            bt_result = NodeNonTerm(context, children=subresults, production=production)
            context.node = bt_result
            if not self.call_actions_during_tree_build:
                return bt_result

        sem_action = production.symbol.action
        if sem_action:
            assignments = production.assignments
            if assignments:
                assgn_results = {}
                for a in assignments.values():
                    if a.op == "=":
                        assgn_results[a.name] = subresults[a.index]
                    else:
                        assgn_results[a.name] = bool(subresults[a.index])

            if isinstance(sem_action, list):
                if assignments:
                    result = sem_action[production.prod_symbol_id](
                        context, subresults, **assgn_results
                    )
                else:
                    result = sem_action[production.prod_symbol_id](context, subresults)
            else:
                if assignments:
                    result = sem_action(context, subresults, **assgn_results)
                else:
                    result = sem_action(context, subresults)

        else:
            if debug:
                h_print(
                    "No action defined",
                    f" for '{production.symbol.name}'.",
                    level=1,
                )
            if len(subresults) == 1:
                if debug:
                    h_print("Unpacking a single subresult.", level=1)
                result = subresults[0]
            else:
                if debug:
                    h_print("Result is a list of subresults.", level=1)
                result = subresults

        if debug:
            h_print(
                "Action result =",
                f"type:{type(result)} value:{repr(result)}",
                level=1,
            )

        # If build_tree is set to True, discard the result of the semantic
        # action, and return the result of treebuild_reduce_action.
        return bt_result if bt_result is not None else result

    def _lexical_disambiguation(self, tokens):
        """
        For the given list of matched tokens apply disambiguation strategy.

        Args:
        tokens (list of Token)
        """

        if self.debug:
            h_print(
                "Lexical disambiguation.",
                f" Tokens: {[x for x in tokens]}",
                level=1,
            )

        if len(tokens) <= 1:
            return tokens

        # Longest-match strategy.
        max_len = max(len(x.value) for x in tokens)
        tokens = [x for x in tokens if len(x.value) == max_len]
        if self.debug:
            h_print(
                "Disambiguation by longest-match strategy.",
                f"Tokens: {[x for x in tokens]}",
                level=1,
            )
        if len(tokens) == 1:
            return tokens

        # try to find preferred token.
        pref_tokens = [x for x in tokens if x.symbol.prefer]
        if pref_tokens:
            if self.debug:
                h_print(f"Preferring tokens {pref_tokens}.", level=1)
            return pref_tokens

        return tokens

    def _do_recovery(self):
        debug = self.debug
        if debug:
            a_print("**Recovery initiated.**")

        head = self.parse_stack[-1]
        error = self.errors[-1]

        if isinstance(self.error_recovery, bool):
            # Default recovery
            if debug:
                prints("\tDoing default error recovery.")
            successful = self.default_error_recovery(head)
        else:
            # Custom recovery provided during parser construction
            if debug:
                prints("\tDoing custom error recovery.")
            successful = self.error_recovery(head, error, self.default_error_recovery)

        # The recovery may either decide to skip erroneous part of
        # the input and resume at the place that can continue or it
        # might decide to fill in missing tokens.
        if successful:
            if debug:
                h_print("Recovery ")
            error.location.end_position = head.position
            if debug:
                a_print(
                    "New position is ",
                    pos_to_line_col(head.input_str, head.position),
                    level=1,
                )
                a_print("New lookahead token is ", head.token_ahead, level=1)
        return successful

    def default_error_recovery(self, head):
        """
        The default recovery strategy is to search from the current location
        for expected terminals.

        Returns True if successful, False otherwise.
        """

        while head.position < len(head.input_str):
            head.position += 1
            token = self._next_token(head)
            if token:
                head.token_ahead = token
                return True
        return False

    def _create_error(
        self,
        input,
        context,
        symbols_expected,
        tokens_ahead=None,
        symbols_before=None,
        last_heads=None,
    ):
        hint = None
        if (
            not self.in_layout
            and not hasattr(self, "_in_error_hints")
            and self.error_hints is not None
        ):
            # Check if a specific version with tokens ahead is available
            hint = self.error_hints.get(
                hint_key(context.state.state_id, tokens_ahead), None
            )
            if hint is None:
                # Check if more generic version without tokens ahead is availabe
                hint = self.error_hints.get(hint_key(context.state.state_id, None), None)

        error = SyntaxError(
            Location(context=ErrorContext(context)),
            input,
            symbols_expected,
            tokens_ahead,
            symbols_before=symbols_before,
            last_heads=last_heads,
            grammar=self.grammar,
            hint=hint,
        )

        if self.debug:
            a_print("Error: ", error, level=1)

        return error


class LRStackNode:
    """
    An element of the LR parsing stack. Also the parsing context.
    """

    __slots__ = [
        "file_name",
        "input_str",
        "state",
        "frontier",
        "position",
        "extra",
        "results",
        "start_position",
        "end_position",
        "token_ahead",
        "token",
        "production",
        "layout_content",
        "layout_content_ahead",
        "node",
    ]

    def __init__(
        self,
        file_name,
        input_str,
        state,
        frontier,
        position,
        extra,
        results=None,
        start_position=None,
        end_position=None,
        token=None,
        token_ahead=None,
        production=None,
        layout_content="",
        layout_content_ahead="",
    ):
        self.file_name = file_name
        self.input_str = input_str
        self.state = state
        self.frontier = frontier
        self.position = position
        self.extra = extra

        self.results = results

        self.start_position = start_position
        self.end_position = end_position

        self.token_ahead = token_ahead

        # For shift nodes
        self.token = token

        # For reduced nodes
        self.production = production

        self.layout_content = layout_content
        self.layout_content_ahead = layout_content_ahead

        # Parse tree node used if parse tree is produced
        self.node = None

    def __repr__(self):
        return "<LRStackNode({}:{}{})>".format(
            self.state.state_id,
            self.state.symbol,
            f", pos=({self.start_position}-{self.end_position})"
            if self.start_position is not None
            else "",
        )

    @property
    def symbol(self):
        return self.state.symbol


class Token:
    """
    Token or lexeme matched from the input.
    """

    __slots__ = ["symbol", "value", "additional_data", "length", "position"]

    def __init__(self, symbol, value, position, additional_data=(), length=None):
        self.symbol = symbol
        self.value = value
        self.additional_data = additional_data
        self.length = length if length is not None else len(value)
        self.position = position

    def __repr__(self):
        if str(self.symbol) != self.value:
            return f"{str(self.symbol)}({str(self.value)})"
        else:
            return self.value

    def __len__(self):
        return self.length

    @property
    def end_position(self):
        return self.position + self.length

    def __bool__(self):
        return True


STOP_token = Token(STOP, "", None)
