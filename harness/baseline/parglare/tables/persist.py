import json
from collections import OrderedDict


def table_to_serializable(table):
    """Convert table object to serializable representation composed of
    lists and dicts."""
    # states
    states = []
    for state in table.states:
        states.append(_dump_state(state))

    return states


def save_table(file_name, table):
    with open(file_name, "w") as f:
        json.dump(table_to_serializable(table), f, sort_keys=True)


def table_from_serializable(serialized_states, grammar):
    """Convert serializable representation of a parsing table into
    LRTable object."""
    from parglare.tables import Action, LRState, LRTable

    states = []
    states_dict = {}
    for json_state in serialized_states:
        state = LRState(
            grammar,
            json_state["state_id"],
            grammar.get_symbol(json_state["symbol"]),
        )
        states_dict[state.state_id] = state
        state.finish_flags = json_state["finish_flags"]
        state.actions = json_state["actions"]
        state.gotos = json_state["gotos"]
        states.append(state)

    # Unpack actions and gotos
    for state in states:
        actions = OrderedDict()
        for json_action_fqn in state.actions:
            terminal_fqn, json_actions = json_action_fqn
            term_acts = []
            for json_action in json_actions:
                if "state_id" in json_action:
                    act_state = states_dict[json_action["state_id"]]
                else:
                    act_state = None
                if "prod_id" in json_action:
                    act_prod = grammar.productions[json_action["prod_id"]]
                else:
                    act_prod = None
                term_acts.append(Action(json_action["action"], act_state, act_prod))

            actions[grammar.get_terminal(terminal_fqn)] = term_acts
        state.actions = actions

        gotos = OrderedDict()
        for json_goto_fqn in state.gotos:
            nonterm_fqn, goto_state = json_goto_fqn
            gotos[grammar.get_nonterminal(nonterm_fqn)] = states_dict[goto_state]
        state.gotos = gotos

    table = LRTable(states, calc_finish_flags=False)

    return table


def load_table(file_name, grammar):
    with open(file_name) as f:
        return table_from_serializable(json.load(f), grammar)


def _dump_state(state):
    s = {}
    s["state_id"] = state.state_id
    s["symbol"] = state.symbol.fqn
    action_items = list(state.actions.items())
    s["actions"] = [
        [terminal.fqn, _dump_actions(actions)] for terminal, actions in action_items
    ]
    goto_items = list(state.gotos.items())
    s["gotos"] = [[nonterminal.fqn, st.state_id] for nonterminal, st in goto_items]
    s["finish_flags"] = state.finish_flags

    return s


def _dump_actions(actions):
    alist = []
    for action in actions:
        a = {}
        a["action"] = action.action
        if action.state is not None:
            a["state_id"] = action.state.state_id
        if action.prod is not None:
            a["prod_id"] = action.prod.prod_id
        alist.append(a)

    return alist
