import contextlib
import logging
import os
from collections import OrderedDict
from itertools import chain

from parglare.closure import LR_1, closure
from parglare.exceptions import GrammarError, RRConflict, SRConflict
from parglare.grammar import (
    ASSOC_LEFT,
    ASSOC_RIGHT,
    AUGSYMBOL,
    DEFAULT_PRIORITY,
    EMPTY,
    STOP,
    Grammar,
    NonTerminal,
    ProductionRHS,
    RegExRecognizer,
    StringRecognizer,
)
from parglare.tables.persist import load_table, save_table
from parglare.termui import a_print, h_print, prints, s_emph, s_header

logger = logging.getLogger(__name__)


SHIFT = 0
REDUCE = 1
ACCEPT = 2

# Tables construction algorithms
SLR = 0
LALR = 1


def create_load_table(
    grammar,
    itemset_type=LR_1,
    start_production=1,
    prefer_shifts=False,
    prefer_shifts_over_empty=True,
    force_create=False,
    force_load=False,
    in_layout=False,
    debug=False,
    **kwargs,
):
    """
    Construct table by loading from file if present and newer than the grammar.
    If table file is older than the grammar or non-existent calculate the table
    and save to file.

    Arguments:
    see create_table

    force_create(bool): If set to True table will be created even if table file
        exists.
    force_load(bool): If set to True table will be loaded if exists even if
        it's not newer than the grammar, i.e. modification time will not be
        checked.

    """

    if in_layout:
        # For layout grammars always calculate table.
        # Those are usually very small grammars so there is no point in
        # using cached tables.
        if debug:
            a_print(
                "** Calculating LR table for the layout parser...",
                new_line=True,
            )
        return create_table(
            grammar,
            itemset_type,
            start_production,
            prefer_shifts,
            prefer_shifts_over_empty,
        )
    else:
        if debug:
            a_print("** Calculating LR table...", new_line=True)

    table_file_name = None
    if grammar.file_path:
        file_basename, _ = os.path.splitext(grammar.file_path)
        table_file_name = f"{file_basename}.pgc"

    create_table_file = True

    if not force_create and not force_load and grammar.file_path:
        file_basename, _ = os.path.splitext(grammar.file_path)
        table_file_name = f"{file_basename}.pgc"

        if os.path.exists(table_file_name):
            create_table_file = False
            table_mtime = os.path.getmtime(table_file_name)
            # Check if older than any of the grammar files
            for g_file_name in grammar.imported_files:
                if os.path.getmtime(g_file_name) > table_mtime:
                    create_table_file = True
                    break

    table = None
    if not (create_table_file or force_create) or force_load:
        if debug:
            h_print(f"Loading LR table from '{table_file_name}'")
        try:
            table = load_table(table_file_name, grammar)
        except (ValueError, KeyError, IndexError, AttributeError, TypeError):
            # The table file can't be decoded (e.g. it was left truncated by
            # an interrupted write) or it doesn't fit this grammar. Treat it
            # as if it doesn't exist: calculate the table and write it anew.
            if force_load:
                raise

    if table is None:
        table = create_table(
            grammar,
            itemset_type,
            start_production,
            prefer_shifts,
            prefer_shifts_over_empty,
            debug=debug,
            **kwargs,
        )
        if table_file_name:
            with contextlib.suppress(PermissionError):
                save_table(table_file_name, table)

    return table


class VerifStateBudgetExceeded(Exception):
    """Raised only under PARGLARE_VERIF=1 when table construction exceeds
    PARGLARE_VERIF_MAX_STATES states (verification hook)."""


def _verif_state_budget():
    if os.environ.get("PARGLARE_VERIF") == "1":
        budget = os.environ.get("PARGLARE_VERIF_MAX_STATES")
        if budget:
            return int(budget)
    return None


def create_table(
    grammar,
    itemset_type=LR_1,
    start_production=1,
    prefer_shifts=False,
    prefer_shifts_over_empty=True,
    debug=False,
    **kwargs,
):
    """
    Creates LR table. See `_create_table` for the arguments.

    The augmented production of the grammar is rewritten during the table
    construction. It is restored on every exit, an exception included, so
    that the grammar stays usable for later constructions.
    """
    old_start_production_rhs = grammar.productions[0].rhs
    try:
        return _create_table(
            grammar,
            itemset_type,
            start_production,
            prefer_shifts,
            prefer_shifts_over_empty,
            debug=debug,
            **kwargs,
        )
    finally:
        grammar.productions[0].rhs = old_start_production_rhs


def _create_table(
    grammar,
    itemset_type=LR_1,
    start_production=1,
    prefer_shifts=False,
    prefer_shifts_over_empty=True,
    debug=False,
    **kwargs,
):
    """
    Arguments:
    grammar (Grammar):
    itemset_type(int) - SRL=0 LR_1=1. By default LR_1.
    start_production(int) - The production which defines start state.
        By default 1 - first production from the grammar.
    prefer_shifts(bool) - Conflict resolution strategy which favours SHIFT over
        REDUCE (gready). By default False.
    prefer_shifts_over_empty(bool) - Conflict resolution strategy which favours
        SHIFT over REDUCE of EMPTY. By default False. If prefer_shifts is
        `True` this param is ignored.
    """

    first_sets = first(grammar)

    # Check for states with GOTO links but without SHIFT links.
    # This is invalid as the GOTO link will never be traversed.
    for nt, firsts in first_sets.items():
        if nt.name != "S'" and not firsts:
            raise GrammarError(
                location=nt.location,
                message=f'First set empty for grammar symbol "{nt}". '
                "An infinite recursion on the "
                "grammar symbol.",
            )

    follow_sets = follow(grammar, first_sets)

    _old_start_production_rhs = grammar.productions[0].rhs
    start_prod_symbol = grammar.productions[start_production].symbol
    grammar.productions[0].rhs = ProductionRHS([start_prod_symbol, STOP])

    # Create a state for the first production (augmented)
    s = LRState(grammar, 0, AUGSYMBOL, [LRItem(grammar.productions[0], 0, set())])

    state_queue = [s]
    state_id = 1

    states = []

    if debug:
        h_print("Constructing LR automaton states...")
    _verif_max_states = _verif_state_budget()
    while state_queue:
        if (
            _verif_max_states is not None
            and len(states) + len(state_queue) > _verif_max_states
        ):
            raise VerifStateBudgetExceeded(len(states) + len(state_queue))
        state = state_queue.pop(0)

        # For each state calculate its closure first, i.e. starting from a so
        # called "kernel items" expand collection with non-kernel items. We will
        # also calculate GOTO and ACTIONS dicts for each state. These dicts will
        # be keyed by a grammar symbol.
        closure(state, itemset_type, first_sets)
        states.append(state)

        # To find out other states we examine following grammar symbols in the
        # current state (symbols following current position/"dot") and group all
        # items by a grammar symbol.
        per_next_symbol = OrderedDict()

        # Each production has a priority. But since productions are grouped by
        # grammar symbol that is ahead we take the maximal priority given for
        # all productions for the given grammar symbol.
        state._max_prior_per_symbol = {}

        for item in state.items:
            symbol = item.symbol_at_position
            if symbol:
                per_next_symbol.setdefault(symbol, []).append(item)

                # Here we calculate max priorities for each grammar symbol to
                # use it for SHIFT/REDUCE conflict resolution
                prod_prior = item.production.prior
                old_prior = state._max_prior_per_symbol.setdefault(symbol, prod_prior)
                state._max_prior_per_symbol[symbol] = max(prod_prior, old_prior)

        # For each group symbol we create new state and form its kernel
        # items from the group items with positions moved one step ahead.
        for symbol, items in per_next_symbol.items():
            if symbol is STOP:
                state.actions[symbol] = [Action(ACCEPT)]
                continue
            inc_items = [item.get_pos_inc() for item in items]
            maybe_new_state = LRState(grammar, state_id, symbol, inc_items)
            target_state = maybe_new_state
            try:
                idx = states.index(maybe_new_state)
                target_state = states[idx]
            except ValueError:
                try:
                    idx = state_queue.index(maybe_new_state)
                    target_state = state_queue[idx]
                except ValueError:
                    pass

            if target_state is maybe_new_state:
                # We've found a new state. Register it for later processing.
                state_queue.append(target_state)
                state_id += 1
            else:
                # A state with this kernel items already exists.
                # LALR: Try to merge states, i.e. update items follow sets.
                if itemset_type is LR_1 and not merge_states(
                    target_state, maybe_new_state
                ):
                    target_state = maybe_new_state
                    state_queue.append(target_state)
                    state_id += 1

            # Create entries in GOTO and ACTION tables
            if isinstance(symbol, NonTerminal):
                # For each non-terminal symbol we create an entry in GOTO
                # table.
                state.gotos[symbol] = target_state

            else:
                # For each terminal symbol we create SHIFT action in the
                # ACTION table.
                state.actions[symbol] = [Action(SHIFT, state=target_state)]

    if debug:
        h_print(f"{len(states)} LR automata states constructed")
        h_print("Finishing LALR calculation...")

    # For LR(1) itemsets refresh/propagate item's follows as the LALR
    # merging might change item's follow in previous states
    if itemset_type is LR_1:
        # Propagate updates as long as there were items propagated in the last
        # loop run.
        update = True
        while update:
            update = False

            for state in states:
                # First refresh state's follows
                closure(state, LR_1, first_sets)

            for state in states:
                # Propagate follows to next states. GOTOs/ACTIONs keep
                # information about states created from this state
                inc_items = [i.get_pos_inc() for i in state.items]
                for target_state in chain(
                    state.gotos.values(),
                    [
                        a.state
                        for i in state.actions.values()
                        for a in i
                        if a.action is SHIFT
                    ],
                ):
                    for next_item in target_state.kernel_items:
                        this_item = inc_items[inc_items.index(next_item)]
                        if this_item.follow.difference(next_item.follow):
                            update = True
                            next_item.follow.update(this_item.follow)

    if debug:
        h_print(
            "Calculate REDUCTION entries in ACTION tables and resolve possible conflicts."
        )

    # Calculate REDUCTION entries in ACTION tables and resolve possible
    # conflicts.
    for state in states:
        actions = state.actions

        for item in state.items:
            if item.is_at_end:
                # If the position is at the end then this item
                # would call for reduction but only for terminals
                # from the FOLLOW set of item (LR(1)) or the production LHS
                # non-terminal (LR(0)).
                if itemset_type is LR_1:
                    follow_set = item.follow
                else:
                    follow_set = follow_sets[item.production.symbol]

                prod = item.production
                new_reduce = Action(REDUCE, prod=prod)

                for terminal in follow_set:
                    if terminal not in actions:
                        actions[terminal] = [new_reduce]
                    else:
                        # Conflict! Try to resolve
                        t_acts = actions[terminal]
                        should_reduce = True

                        # Only one SHIFT or ACCEPT might exists for a single
                        # terminal.
                        shifts = [x for x in t_acts if x.action in (SHIFT, ACCEPT)]
                        assert len(shifts) <= 1
                        t_shift = shifts[0] if shifts else None

                        # But many REDUCEs might exist
                        t_reduces = [x for x in t_acts if x.action is REDUCE]

                        # We should try to resolve using standard
                        # disambiguation rules between current reduction and
                        # all previous actions.

                        if t_shift:
                            # SHIFT/REDUCE conflict. Use assoc and priority to
                            # resolve
                            # For disambiguation treat ACCEPT action the same
                            # as SHIFT.
                            if t_shift.action is ACCEPT:
                                sh_prior = DEFAULT_PRIORITY
                            else:
                                sh_prior = state._max_prior_per_symbol[
                                    t_shift.state.symbol
                                ]
                            if prod.prior == sh_prior:
                                if prod.assoc == ASSOC_LEFT:
                                    # Override SHIFT with this REDUCE
                                    actions[terminal].remove(t_shift)
                                elif prod.assoc == ASSOC_RIGHT:
                                    # If associativity is right leave SHIFT
                                    # action as "stronger" and don't consider
                                    # this reduction any more. Right
                                    # associative reductions can't be in the
                                    # same set of actions together with SHIFTs.
                                    should_reduce = False
                                else:
                                    # If priorities are the same and no
                                    # associativity defined use preferred
                                    # strategy.
                                    is_empty = len(prod.rhs) == 0
                                    prod_pse = (
                                        is_empty
                                        and prefer_shifts_over_empty
                                        and not prod.nopse
                                    )
                                    prod_ps = (
                                        not is_empty and prefer_shifts and not prod.nops
                                    )
                                    should_reduce = not (prod_pse or prod_ps)
                            elif prod.prior > sh_prior:
                                # This item operation priority is higher =>
                                # override with reduce
                                actions[terminal].remove(t_shift)
                            else:
                                # If priority of existing SHIFT action is
                                # higher then leave it instead
                                should_reduce = False

                        if should_reduce:
                            if not t_reduces:
                                actions[terminal].append(new_reduce)
                            else:
                                # REDUCE/REDUCE conflicts
                                # Try to resolve using priorities
                                if prod.prior == t_reduces[0].prod.prior:
                                    actions[terminal].append(new_reduce)
                                elif prod.prior > t_reduces[0].prod.prior:
                                    # If this production priority is higher
                                    # it should override all other reductions.
                                    actions[terminal][:] = [
                                        x
                                        for x in actions[terminal]
                                        if x.action is not REDUCE
                                    ]
                                    actions[terminal].append(new_reduce)

    grammar.productions[0].rhs = _old_start_production_rhs
    table = LRTable(states, **kwargs)
    return table


def merge_states(old_state, new_state):
    """Try to merge new_state to old_state if possible (LALR). If not possible
    return False.

    If old state has no R/R conflicts additional check is made and merging is
    not done if it would add R/R conflict.

    """

    # If states are not equal (i.e. have the same kernel items) no merge is
    # possible
    if old_state != new_state:
        return False

    item_pairs = []
    for old_item in (s for s in old_state.kernel_items if s.is_at_end):
        new_item = new_state.get_item(old_item)
        item_pairs.append((old_item, new_item))

    # Check if merging would result in additional R/R conflict by investigating
    # if after merging there could be a lookahead token that would call for
    # different reductions. If that is the case we shall not merge states.
    for old, new in item_pairs:
        for s in (s for s in old_state.kernel_items if s.is_at_end and s is not old):
            if s.follow.intersection(new.follow.difference(old.follow)):
                return False

    # Do the merge by updating old items follow sets.
    for old, new in item_pairs:
        old.follow.update(new.follow)
    return True


class LRTable:
    def __init__(
        self,
        states,
        calc_finish_flags=True,
        # lexical_disambiguation defaults to True, when
        # calc_finish_flags is set
        lexical_disambiguation=None,
        debug=False,
    ):
        self.states = states
        if calc_finish_flags:
            if lexical_disambiguation is None:
                lexical_disambiguation = True
            self.sort_state_actions()
            if lexical_disambiguation:
                self.calc_finish_flags()
            else:
                for state in self.states:
                    state.finish_flags = [False] * len(state.actions)
        else:
            if lexical_disambiguation is not None:
                logger.warning(
                    "lexical_disambiguation flag ignored because "
                    "calc_finish_flags is not set"
                )
        self.calc_conflicts_and_dynamic_terminals(debug)

    def sort_state_actions(self):
        """
        State actions need to be sorted in order to utilize scanning
        optimization based on explicit or implicit disambiguation.
        Also, by sorting actions table save file is made deterministic.
        """

        def act_order(act_item):
            """Priority is the strongest property. After that honor string
            recognizer over other types of recognizers.

            """
            symbol, act = act_item
            cmp_str = "{:010d}{:500s}".format(
                symbol.prior * 1000
                + (
                    500
                    + (
                        len(symbol.recognizer.value)
                        if type(symbol.recognizer) is StringRecognizer
                        else 0
                    )
                    +
                    # A keyword ranks as the string it is written as (the
                    # recognizer is named by the keyword text)
                    (
                        len(symbol.recognizer.name)
                        if type(symbol.recognizer) is RegExRecognizer and symbol.keyword
                        else 0
                    )
                ),
                symbol.fqn,
            )
            return cmp_str

        for state in self.states:
            state.actions = OrderedDict(
                sorted(state.actions.items(), key=act_order, reverse=True)
            )

    def calc_finish_flags(self):
        """
        Scanning optimization. Preorder actions based on terminal priority
        and specificity. Set _finish flags.
        """
        for state in self.states:
            finish_flags = []
            prior = None
            for symbol, _act in reversed(list(state.actions.items())):
                if symbol.finish is not None:
                    finish_flags.append(symbol.finish)
                else:
                    finish_flags.append(
                        (symbol.prior > prior if prior else False)
                        or type(symbol.recognizer) is StringRecognizer
                        or symbol.keyword
                    )
                prior = symbol.prior

            finish_flags.reverse()
            state.finish_flags = finish_flags

    def calc_conflicts_and_dynamic_terminals(self, debug=False):
        """
        Determine S/R and R/R conflicts and states dynamic terminals.
        """
        self.sr_conflicts = []
        self.rr_conflicts = []

        if debug:
            h_print("Calculating conflicts and dynamic terminals...")

        for state in self.states:
            for term, actions in state.actions.items():
                # Mark state for dynamic disambiguation
                if term.dynamic:
                    state.dynamic.add(term)

                if len(actions) > 1:
                    if actions[0].action in [SHIFT, ACCEPT]:
                        # Create SR conflicts for each S-R pair of actions
                        # except EMPTY reduction as SHIFT will always be
                        # preferred in LR parsing and GLR has a special
                        # handling of EMPTY reduce in order to avoid infinite
                        # looping.
                        for r_act in actions[1:]:
                            # Mark state for dynamic disambiguation
                            if r_act.prod.dynamic:
                                state.dynamic.add(term)

                            self.sr_conflicts.append(
                                SRConflict(state, term, [x.prod for x in actions[1:]])
                            )
                    else:
                        prods = [x.prod for x in actions if len(x.prod.rhs)]

                        # Mark state for dynamic disambiguation
                        if any([p.dynamic for p in prods]):
                            state.dynamic.add(term)

                        empty_prods = [x.prod for x in actions if not len(x.prod.rhs)]
                        # Multiple empty reductions possible
                        if len(empty_prods) > 1:
                            self.rr_conflicts.append(RRConflict(state, term, empty_prods))
                        # Multiple non-empty reductions possible
                        if len(prods) > 1:
                            self.rr_conflicts.append(RRConflict(state, term, prods))

    def print_debug(self):
        a_print("*** STATES ***", new_line=True)
        for state in self.states:
            state.print_debug()

            if state.gotos:
                h_print("GOTO:", level=1, new_line=True)
                prints(
                    "\t"
                    + ", ".join(
                        [
                            ("%s" + s_emph("->") + "%d") % (k, v.state_id)
                            for k, v in state.gotos.items()
                        ]
                    )
                )
            h_print("ACTIONS:", level=1, new_line=True)
            prints(
                "\t"
                + ", ".join(
                    [
                        ("%s" + s_emph("->") + "%s")
                        % (
                            k,
                            str(v[0])
                            if len(v) == 1
                            else "[{}]".format(",".join([str(x) for x in v])),
                        )
                        for k, v in state.actions.items()
                    ]
                )
            )

        if self.sr_conflicts:
            a_print("*** S/R conflicts ***", new_line=True)
            if len(self.sr_conflicts) == 1:
                message = "There is {} S/R conflict."
            else:
                message = "There are {} S/R conflicts."
            h_print(message.format(len(self.sr_conflicts)))
            for src in self.sr_conflicts:
                print(src)

        if self.rr_conflicts:
            a_print("*** R/R conflicts ***", new_line=True)
            if len(self.rr_conflicts) == 1:
                message = "There is {} R/R conflict."
            else:
                message = "There are {} R/R conflicts."
            h_print(message.format(len(self.rr_conflicts)))
            for rrc in self.rr_conflicts:
                print(rrc)


class Action:
    __slots__ = ["action", "state", "prod"]

    def __init__(self, action, state=None, prod=None):
        self.action = action
        self.state = state
        self.prod = prod

    def __str__(self):
        ac = {SHIFT: "SHIFT", REDUCE: "REDUCE", ACCEPT: "ACCEPT"}.get(self.action)
        if self.action == SHIFT:
            p = self.state.state_id
        elif self.action == REDUCE:
            p = self.prod.prod_id
        else:
            p = ""
        return "{}{}".format(ac, f":{p}" if p else "")

    def __repr__(self):
        return str(self)

    @property
    def dynamic(self):
        if self.action is SHIFT:
            return self.state.symbol.dynamic
        elif self.action is REDUCE:
            return self.prod.dynamic
        else:
            return False


class LRItem:
    """
    Represents an item in the items set. Item is defined by a production and a
    position inside production (the dot). If the item is of LR_1 type follow
    set is also defined. Follow set is a set of terminals that can follow
    non-terminal at given position in the given production.
    """

    __slots__ = ("production", "position", "follow")

    def __init__(self, production, position, follow=None):
        self.production = production
        self.position = position
        self.follow = follow if follow else set()

    def __eq__(self, other):
        return (
            other
            and self.production == other.production
            and self.position == other.position
        )

    def __ne__(self, other):
        return not self == other

    def __repr__(self):
        return str(self)

    def __str__(self):
        s = []
        for idx, r in enumerate(self.production.rhs):
            if idx == self.position:
                s.append(".")
            s.append(str(r))
        if len(self.production.rhs) == self.position:
            s.append(".")
        s = " ".join(s)

        follow = (
            (s_emph("{{") + "{}" + s_emph("}}")).format(
                ", ".join([str(t) for t in self.follow])
            )
            if self.follow
            else "{}"
        )

        return (s_header("%d:") + " %s " + s_emph("=") + " %s   %s") % (
            self.production.prod_id,
            self.production.symbol,
            s,
            follow,
        )

    @property
    def is_kernel(self):
        """
        Kernel items are items whose position is not at the beginning.
        The only exception to this rule is start symbol of the augmented
        grammar.
        """
        return self.position > 0 or self.production.symbol is AUGSYMBOL

    def get_pos_inc(self):
        """
        Returns new LRItem with incremented position or None if position
        cannot be incremented (e.g. it is already at the end of the production)
        """

        if self.position < len(self.production.rhs):
            return LRItem(self.production, self.position + 1, set(self.follow))

    @property
    def symbol_at_position(self):
        """
        Returns symbol from production RHS at the position of this item.
        """
        return self.production.rhs[self.position]

    @property
    def is_at_end(self):
        """
        Is the position at the end? If so, it is a candidate for reduction.
        """
        return self.position == len(self.production.rhs)


class LRState:
    """LR State is a set of LR items and a dict of LR automata actions and
    gotos.

    Attributes:
    grammar(Grammar):
    state_id(int):
    symbol(GrammarSymbol):
    items(list of LRItem):
    actions(OrderedDict): Keys are grammar terminal symbols, values are
        lists of Action instances.
    gotos(OrderedDict): Keys are grammar non-terminal symbols, values are
        instances of LRState.
    dynamic(set of terminal symbols): If terminal symbol is in set dynamic
        ambiguity strategy callable is called for the terminal symbol
        lookahead.
    finish_flags:

    """

    __slots__ = [
        "grammar",
        "state_id",
        "symbol",
        "items",
        "actions",
        "gotos",
        "dynamic",
        "finish_flags",
        "_max_prior_per_symbol",
    ]

    def __init__(self, grammar, state_id, symbol, items=None):
        self.grammar = grammar
        self.state_id = state_id
        self.symbol = symbol
        self.items = items if items else []

        self.actions = OrderedDict()
        self.gotos = OrderedDict()
        self.dynamic = set()

    def __eq__(self, other):
        """Two states are equal if their kernel items are equal."""
        this_kernel = [x for x in self.items if x.is_kernel]
        other_kernel = [x for x in other.items if x.is_kernel]
        if len(this_kernel) != len(other_kernel):
            return False
        return all(item in other_kernel for item in this_kernel)

    def __ne__(self, other):
        return not self == other

    @property
    def kernel_items(self):
        """
        Returns kernel items of this state.
        """
        return [i for i in self.items if i.is_kernel]

    @property
    def nonkernel_items(self):
        """
        Returns nonkernel items of this state.
        """
        return [i for i in self.items if not i.is_kernel]

    def get_item(self, other_item):
        """
        Get this state item that is equal to the given other_item.
        """
        return self.items[self.items.index(other_item)]

    def __str__(self):
        s = s_header(f"\n\nState {self.state_id}:{self.symbol}\n")
        return s + "\n".join([f"\t{i}" for i in self.items])

    def __unicode__(self):
        return str(self)

    def __repr__(self):
        return f"LRState({self.state_id}:{self.symbol.name})"

    def print_debug(self):
        prints(str(self))


def first(grammar):
    """Calculates the sets of terminals that can start the sentence derived from
    all grammar symbols.

    The Dragon book p. 221.

    Returns:
    dict of sets of Terminal keyed by GrammarSymbol.
    """
    assert isinstance(grammar, Grammar), "grammar parameter should be Grammar instance."

    if hasattr(grammar, "_first_sets"):
        # If first sets is already calculated return it
        return grammar._first_sets

    first_sets = {}
    for t in grammar.terminals.values():
        first_sets[t] = set([t])
    for nt in grammar.nonterminals.values():
        first_sets[nt] = set()

    additions = True
    while additions:
        additions = False

        for p in grammar.productions:
            nonterm = p.symbol
            for rhs_symbol in p.rhs:
                rhs_symbol_first = set(first_sets[rhs_symbol])
                rhs_symbol_first.discard(EMPTY)
                if rhs_symbol_first.difference(first_sets[nonterm]):
                    first_sets[nonterm].update(rhs_symbol_first)
                    additions = True
                # If current RHS symbol can't derive EMPTY
                # this production can't add any more members of
                # the first set for LHS nonterminal.
                if EMPTY not in first_sets[rhs_symbol]:
                    break
            else:
                # If we reached the end of the RHS and each
                # symbol along the way could derive EMPTY than
                # we must add EMPTY to the first set of LHS symbol.
                if EMPTY not in first_sets[nonterm]:
                    first_sets[nonterm].add(EMPTY)
                    additions = True

    grammar._first_sets = first_sets
    return first_sets


def follow(grammar, first_sets=None):
    """Calculates the sets of terminals that can follow some non-terminal for the
    given grammar.

    Args:
    grammar (Grammar): An initialized grammar.
    first_sets (dict): A sets of FIRST terminals keyed by a grammar symbol.
    """

    if first_sets is None:
        first_sets = first(grammar)

    follow_sets = {}
    for symbol in grammar.nonterminals.values():
        follow_sets[symbol] = set()

    additions = True
    while additions:
        additions = False
        for symbol in grammar.nonterminals.values():
            for p in grammar.productions:
                for idx, s in enumerate(p.rhs):
                    if s == symbol:
                        prod_follow = set()
                        for rsymbol in p.rhs[idx + 1 :]:
                            sfollow = first_sets[rsymbol]
                            prod_follow.update(sfollow)
                            if EMPTY not in sfollow:
                                break
                        else:
                            prod_follow.update(follow_sets[p.symbol])
                        prod_follow.discard(EMPTY)
                        if prod_follow.difference(follow_sets[symbol]):
                            additions = True
                            follow_sets[symbol].update(prod_follow)
    return follow_sets
