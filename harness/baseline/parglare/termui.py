import click

colors = False

S_ATTENTION = {"fg": "red", "bold": True}
S_HEADER = {"fg": "green"}
S_EMPH = {"fg": "yellow"}


def prints(message, s=None):
    if s is None:
        s = {}
    click.echo(style(message, s), color=colors)


def style_message(message, style):
    if colors:
        return click.style(message, **style)
    else:
        return message


def s_header(message):
    return style_message(message, S_HEADER)


def s_attention(message):
    return style_message(message, S_ATTENTION)


def s_emph(message):
    return style_message(message, S_EMPH)


def style(header, content, level=0, new_line=False, header_style=S_HEADER, width=120):
    if content:
        content_start = level * 8 + len(header) + 1
        content_width = width - content_start
        content = str(content)
        content = [
            content[start : start + content_width]
            for start in range(0, len(content), content_width)
        ]
        content = ("\n" + " " * content_start).join(content)
    new_line = "\n" if new_line else ""
    level = ("\t" * level) if level else ""
    return (
        new_line
        + level
        + style_message(str(header), header_style)
        + ((" " + str(content)) if content else "")
    )


def styled_print(
    header, content, level=0, new_line=False, header_style=S_HEADER, width=120
):
    prints(style(header, content, level, new_line, header_style, width))


def h_print(header, content="", level=0, new_line=False):
    styled_print(header, content, level, new_line, S_HEADER)


def a_print(header, content="", level=0, new_line=False):
    styled_print(header, content, level, new_line, S_ATTENTION)
