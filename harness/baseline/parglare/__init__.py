# -*- coding: utf-8 -*-
# flake8: NOQA
from parglare.parser import Parser, Token, pos_to_line_col
from parglare.tables import LALR, SLR, SHIFT, REDUCE, ACCEPT
from parglare.glr import GLRParser
from parglare.grammar import (
    Grammar,
    NonTerminal,
    Terminal,
    RegExRecognizer,
    StringRecognizer,
    EMPTY,
    STOP,
)
from parglare.common import get_collector
from parglare.trees import Node, NodeTerm, NodeNonTerm, visitor
from parglare.exceptions import (
    ParserInitError,
    SyntaxError,
    GrammarError,
    DisambiguationError,
    LoopError,
)

try:
    from importlib.metadata import version
except ModuleNotFoundError:
    from importlib_metadata import version  # type: ignore

__version__ = version("parglare")
