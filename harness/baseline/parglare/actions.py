"""
Common parsing actions.
"""

import contextlib


def pass_none(_, value, *args):
    return None


def pass_nochange(_, value, *args):
    return value


def pass_empty(_, value, *args):
    """
    Used for EMPTY production alternative in collect.
    """
    return []


def pass_single(_, nodes):
    """
    Unpack single value and pass up.
    """
    return nodes[0]


def pass_inner(_, nodes):
    """
    Pass inner value up, e.g. for stripping parentheses as in
    `( <some expression> )`.
    """
    n = nodes[1:-1]
    with contextlib.suppress(ValueError):
        (n,) = n
    return n


def collect_first(_, nodes):
    """
    Used for:
    Elements = Elements Element;
    """
    e1, e2 = nodes
    if e2 is not None:
        e1 = list(e1)
        e1.append(e2)
    return e1


def collect_first_sep(_, nodes):
    """
    Used for:
    Elements = Elements "," Element;
    """
    e1, _, e2 = nodes
    if e2 is not None:
        e1 = list(e1)
        e1.append(e2)
    return e1


def collect_right_first(_, nodes):
    """
    Used for:
    Elements = Element Elements;
    """
    e1, e2 = [nodes[0]], nodes[1]
    e1.extend(e2)
    return e1


def collect_right_first_sep(_, nodes):
    """
    Used for:
    Elements = Element "," Elements;
    """
    e1, e2 = [nodes[0]], nodes[2]
    e1.extend(e2)
    return e1


# Used for productions of the form - one or more elements:
# Elements: Elements Element | Element;
collect = [collect_first, pass_nochange]

# Used for productions of the form - one or more elements:
# Elements: Elements "," Element | Element;
collect_sep = [collect_first_sep, pass_nochange]

# Used for productions of the form - zero or more elements:
# Elements: Elements Element | Element | EMPTY;
collect_optional = [collect_first, pass_nochange, pass_empty]

# Used for productions of the form - zero or more elements:
# Elements: Elements "," Element | Element | EMPTY;
collect_sep_optional = [collect_first_sep, pass_nochange, pass_empty]

# Used for productions of the form - one or more elements:
# Elements: Element Elements | Element;
collect_right = [collect_right_first, pass_nochange]

# Used for productions of the form - one or more elements:
# Elements: Element "," Elements | Element;
collect_right_sep = [collect_right_first_sep, pass_nochange]

# Used for productions of the form - zero or more elements:
# Elements: Element Elements | Element | EMPTY;
collect_right_optional = [collect_right_first, pass_nochange, pass_empty]

# Used for productions of the form - zero or more elements:
# Elements: Element "," Elements | Element | EMPTY;
collect_right_sep_optional = [
    collect_right_first_sep,
    pass_nochange,
    pass_empty,
]

# Used for the production of the form:
# OptionalElement: Element | EMPTY;
optional = [pass_single, pass_none]


def obj(context, nodes, **attrs):
    """
    Creates Python object with the attributes created from named matches.
    This action is used as a default action for rules with named matches.
    """
    cls = context.production.symbol.cls
    instance = cls(**attrs)

    instance._pg_start_position = context.start_position
    instance._pg_end_position = context.end_position

    return instance
