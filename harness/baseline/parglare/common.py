from typing import TYPE_CHECKING, Optional, Union

if TYPE_CHECKING:
    from parglare.parser import LRStackNode

from parglare import termui as t
from parglare.termui import s_attention as _a


class Location:
    """
    Represents a location (point or span) of the object in the source code.

    Args:
    context(Context): Parsing context used to populate this object.

    Attributes:
    input_str: The input string (from context) being parsed.
    file_name(str): The name (path) to the file this location refers to.
    start_position(int): The position of the span if applicable
    end_position(int): The end of the span if applicable.
    line, column (int): The line/column calculated from the position start and
        input_str.
    line_end, column_end (int): The line/column calculated from the position
        end and input_str.
    """

    __slots__ = [
        "start_position",
        "end_position",
        "input_str",
        "file_name",
        "_line",
        "_column",
        "_line_end",
        "_column_end",
    ]

    def __init__(
        self,
        context: Optional[Union["LRStackNode", "ErrorContext"]] = None,
        file_name: Optional[str] = None,
    ):
        self.start_position: Union[int, None] = (
            context.start_position if context else None
        )
        self.end_position: Union[int, None] = context.end_position if context else None
        self.input_str: Union[str, None] = context.input_str if context else None
        self.file_name: Union[str, None] = (
            file_name or context.file_name if context else None
        )

        # Evaluate this only when string representation is needed.
        # E.g. during error reporting
        self._line = None
        self._column = None

        self._line_end = None
        self._column_end = None

    @property
    def line(self):
        if self._line is None:
            self.evaluate_line_col()
        return self._line

    @property
    def line_end(self):
        if self._line_end is None:
            self.evaluate_line_col_end()
        return self._line_end

    @property
    def column(self):
        if self._column is None:
            self.evaluate_line_col()
        return self._column

    @property
    def column_end(self):
        if self._column_end is None:
            self.evaluate_line_col_end()
        return self._column_end

    def is_eof(self):
        return self.input_str is not None and self.start_position == len(self.input_str)

    def evaluate_line_col(self):
        self._line, self._column = pos_to_line_col(self.input_str, self.start_position)

    def evaluate_line_col_end(self):
        if self.end_position:
            self._line_end, self._column_end = pos_to_line_col(
                self.input_str, self.end_position
            )

    def __str__(self):
        line, column = self.line, self.column
        if line is not None:
            return "{}{}:{}".format(
                f"{self.file_name}:" if self.file_name else "", line, column
            )
        if self.file_name:
            return _a(self.file_name)
        return "<Unknown location>"

    def __repr__(self):
        return str(self)


def position_context(input_str, position):
    """
    Returns position context string.
    """
    start = max(position - 10, 0)
    c = (
        str(input_str[start:position])
        + _a(" **> ")
        + str(input_str[position : position + 10])
    )
    return replace_newlines(c)


def replace_newlines(in_str):
    try:
        return in_str.replace("\n", "\\n")
    except AttributeError:
        return in_str


def load_python_module(mod_name, mod_path):
    """
    Loads Python module from an arbitrary location.
    See https://stackoverflow.com/questions/67631/how-to-import-a-module-given-the-full-path
    """  # noqa: E501
    import importlib.util

    spec = importlib.util.spec_from_file_location(mod_name, mod_path)
    module = importlib.util.module_from_spec(spec)
    spec.loader.exec_module(module)

    return module


def get_collector():
    """
    Produces action/recognizers collector/decorator that will collect all
    decorated objects under dictionary attribute `all`.
    """
    all = {}

    class Collector:
        def __call__(self, name_or_f):
            """
            If called with action/recognizer name return decorator.
            If called over function apply decorator.
            """
            is_name = isinstance(name_or_f, str)

            def decorator(f):
                name = name_or_f if is_name else f.__name__
                objects = all.get(name)
                if objects:
                    if isinstance(objects, list):
                        objects.append(f)
                    else:
                        all[name] = [objects, f]
                else:
                    all[name] = f
                return f

            if is_name:
                return decorator
            else:
                return decorator(name_or_f)

    objects = Collector()
    objects.all = all
    return objects


def pos_to_line_col(input_str, position):
    """
    Returns position in the (line,column) form.
    """

    if position is None:
        return None, None

    if not isinstance(input_str, str):
        # If we are not parsing string
        return 1, position

    line = input_str[:position].count("\n") + 1
    line_start_pos = input_str.rfind("\n", 0, position)
    column = position - line_start_pos - 1

    return line, column


def dot_escape(s):
    colors = t.colors
    t.colors = False
    s = str(s)
    out = (
        s.replace("\n", r"\n")
        .replace("\\", "\\\\")
        .replace('"', r"\"")
        .replace("|", r"\|")
        .replace("{", r"\{")
        .replace("}", r"\}")
        .replace(">", r"\>")
        .replace("<", r"\<")
        .replace("?", r"\?")
    )
    t.colors = colors
    return out


class ErrorContext:
    """
    Context for errors.  Errors are constructed from parsing heads and are
    represented as location span.  Initially, the start and end of the span are
    set to the position where the error is found but end of the span can be
    moved forward during error recovery.
    """

    __slots__ = ["input_str", "file_name", "start_position", "end_position"]

    def __init__(self, context):
        self.start_position = self.end_position = context.position
        self.input_str = context.input_str
        self.file_name = context.file_name
