import copy
import itertools
import re
from collections import Counter
from dataclasses import dataclass, field
from os import path
from typing import Callable, Dict, List, Optional

from parglare import termui
from parglare.actions import collect, collect_sep, pass_none, pass_single
from parglare.common import Location, load_python_module
from parglare.exceptions import GrammarError, ParserInitError
from parglare.termui import a_print, h_print, prints, s_emph, s_header
from parglare.trees import visitor

# Associativity
ASSOC_NONE = 0
ASSOC_LEFT = 1
ASSOC_RIGHT = 2

# Priority
DEFAULT_PRIORITY = 10

# Multiplicity
MULT_ONE = "1"
MULT_OPTIONAL = "0..1"
MULT_ONE_OR_MORE = "1..*"
MULT_ZERO_OR_MORE = "0..*"

RESERVED_SYMBOL_NAMES = ["STOP", "EMPTY"]
SPECIAL_SYMBOL_NAMES = ["KEYWORD", "LAYOUT"]


def escape(instr):
    return instr.replace("\n", r"\n").replace("\t", r"\t")


class GrammarSymbol:
    """
    Represents an abstract grammar symbol.

    Attributes:
    name(str): The name of this grammar symbol.
    location(Location): The location where symbol is defined.
    action_name(string): Name of common/user action given in the grammar.
    action(callable): Resolved action given by the user. Overrides grammar
        action if provided. If not provided by the user defaults to
        grammar_action.
    grammar_action(callable): Resolved action given in the grammar.
    imported_with (PGFileImport): PGFileImport where this symbol is first time
        imported from. Used for FQN calculation.
    user_meta(dict): User meta-data.
    """

    def __init__(self, name, location=None, imported_with=None, user_meta=None):
        self.name = escape(name)
        self.location = location
        self.action_name = None
        self.action = None
        self.grammar_action = None
        self.imported_with = imported_with
        self.user_meta = user_meta

        # A Python class for AST nodes. Can be defined by the user during
        # grammar construction or is created on the fly by parglare.
        self.cls = None

        self._hash = hash(self.fqn)

    @property
    def fqn(self):
        if self.imported_with:
            return f"{self.imported_with.fqn}.{self.name}"
        return self.name

    @property
    def action_fqn(self):
        if self.action_name:
            if self.imported_with:
                return f"{self.imported_with.fqn}.{self.action_name}"
            return self.action_name

    def add_user_meta_data(self, name, value):
        if self.user_meta is None:
            self.user_meta = {}
        self.user_meta[name] = value

    def __getattr__(self, name):
        if self.user_meta is not None:
            attr = self.user_meta.get(name)
            if attr:
                return attr
        raise AttributeError

    def __unicode__(self):
        return str(self)

    def __str__(self):
        return self.fqn

    def __repr__(self):
        return f"{type(self).__name__}({str(self)})"

    def __hash__(self):
        return self._hash


class NonTerminal(GrammarSymbol):
    """Represents a non-termial symbol of the grammar.

    Attributes:
    productions(list of Production): A list of alternative productions for
        this NonTerminal.
    """

    def __init__(
        self,
        name,
        productions=None,
        location=None,
        imported_with=None,
        user_meta=None,
    ):
        super().__init__(name, location, imported_with, user_meta)
        self.productions = productions if productions is not None else []


class Terminal(GrammarSymbol):
    """Represent a terminal symbol of the grammar.

    Attributes:
    prior(int): Priority used for lexical disambiguation.
    dynamic(bool): Should dynamic disambiguation be called to resolve conflict
        involving this terminal.
    finish(bool): Used for scanning optimization. If this terminal is `finish`
        no other recognizers will be checked if this succeeds. If not provided
        in the grammar implicit rules will be used during table construction.
    prefer(bool): Prefer this recognizer in case of multiple recognizers match
        at the same place and implicit disambiguation doesn't resolve.
    keyword(bool): `True` if this Terminal represents keyword. `False` by
        default.

    recognizer(callable): Called with input list of objects and position in the
        stream. Should return a sublist of recognized objects. The sublist
        should be rooted at the given position.
    """

    def __init__(self, name, recognizer=None, location=None, imported_with=None):
        self.prior = DEFAULT_PRIORITY
        self._recognizer = None
        self.recognizer = recognizer if recognizer else StringRecognizer(name)
        self.finish = None
        self.prefer = False
        self.dynamic = False
        self.keyword = False
        super().__init__(name, location, imported_with, user_meta=None)

    @property
    def recognizer(self):
        return self._recognizer

    @recognizer.setter
    def recognizer(self, value):
        self._recognizer = value


class Reference:
    """
    A name reference to a GrammarSymbol used for cross-resolving during
    grammar construction.
    Attributes:
        name (str): The FQN name of the referred symbol. This is the name of
            the original desuggared symbol without taking into account
            multiplicity and separator.
        location (Location): Location object of this reference.
        multiplicty(str): Multiplicity of the RHS reference (used for regex
            operators ?, *, +). See MULT_* constants above. By default
            multiplicity is MULT_ONE.
        greedy(bool): If the multiplicity was greedy (e.g. ?!, *! or +!).
        separator (symbol or Reference): A reference to the separator symbol or
            the separator symbol itself if resolved.
    """

    def __init__(self, location: Location, name: str, imported_with: "PGFileImport"):
        self.name = name
        self.location = location
        self.imported_with = imported_with
        self.multiplicity = MULT_ONE
        self.greedy = False
        self.separator = None

    @property
    def multiplicity_fqn(self):
        """
        Returns the name of the symbol that should be used if
        multiplicity/separator is used.
        """
        return make_multiplicity_fqn(
            self.fqn,
            self.multiplicity,
            self.separator.name if self.separator else None,
        )

    @property
    def fqn(self):
        if self.imported_with:
            return f"{self.imported_with.fqn}.{self.name}"
        return self.name

    def clone(self):
        new_ref = Reference(self.location, self.name, self.imported_with)
        new_ref.multiplicity = self.multiplicity
        new_ref.separator = self.separator
        return new_ref

    def __repr__(self):
        return self.name


class Recognizer:
    """
    Recognizers are callables capable of recognizing low-level patterns
    (a.k.a tokens) in the input.
    """

    def __init__(self, name, location=None):
        self.name = name
        self.location = location


class StringRecognizer(Recognizer):
    def __init__(self, value, ignore_case=False, **kwargs):
        super().__init__(value, **kwargs)
        self.value = value
        self.ignore_case = ignore_case
        self.value_cmp = value.lower() if ignore_case else value

    def __call__(self, in_str, pos):
        if self.ignore_case:
            if in_str[pos : pos + len(self.value)].lower() == self.value_cmp:
                return self.value
        else:
            if in_str[pos : pos + len(self.value)] == self.value_cmp:
                return self.value


def esc_control_characters(regex):
    """
    Escape control characters in regular expressions.
    """
    unescapes = [
        ("\a", r"\a"),
        ("\b", r"\b"),
        ("\f", r"\f"),
        ("\n", r"\n"),
        ("\r", r"\r"),
        ("\t", r"\t"),
        ("\v", r"\v"),
    ]
    for val, text in unescapes:
        regex = regex.replace(val, text)
    return regex


class RegExRecognizer(Recognizer):
    def __init__(
        self,
        regex,
        name=None,
        re_flags=re.MULTILINE,
        ignore_case=False,
        **kwargs,
    ):
        if name is None:
            name = regex
        super().__init__(name, kwargs)
        self._regex = regex
        self.ignore_case = ignore_case
        if ignore_case:
            re_flags |= re.IGNORECASE
        re_flags |= re.VERBOSE
        self.re_flags = re_flags
        try:
            self.regex = re.compile(self._regex, re_flags)
        except re.error as ex:
            regex = esc_control_characters(self._regex)
            message = 'Regex compile error in /{}/ (report: "{}")'
            raise GrammarError(None, message.format(regex, str(ex))) from ex

    def __call__(self, in_str, pos):
        m = self.regex.match(in_str, pos)
        if m and m.group():
            return m.group()


def EMPTY_recognizer(input, pos):
    pass


def STOP_recognizer(input, pos):
    pass


# These two terminals are special terminals used internally.
AUGSYMBOL = NonTerminal("S'")
STOP = Terminal("STOP", STOP_recognizer)

# EMPTY is a special terminal used in the grammars.
# It will match nothing and always succeed.
EMPTY = Terminal("EMPTY", EMPTY_recognizer)
EMPTY.grammar_action = pass_none


class Production:
    """Represent production from the grammar.

    Attributes:
    symbol (GrammarSymbol):
    rhs (ProductionRHS):
    assignments(dict): Assignment instances keyed by name.
    assoc (int): Associativity. Used for ambiguity (shift/reduce) resolution.
    prior (int): Priority. Used for ambiguity (shift/reduce) resolution.
    dynamic (bool): Is dynamic disambiguation used for this production.
    nops (bool): Disable prefer_shifts strategy for this production.
        Only makes sense for GLR parser.
    nopse (bool): Disable prefer_shifts_over_empty strategy for this
        production. Only makes sense for GLR parser.
    user_meta(dict): User meta-data.
    prod_id (int): Ordinal number of the production.
    prod_symbol_id (int): A zero-based ordinal of alternative choice for this
        production grammar symbol.
    """

    def __init__(
        self,
        symbol,
        rhs,
        assignments=None,
        assoc=ASSOC_NONE,
        prior=DEFAULT_PRIORITY,
        dynamic=False,
        nops=False,
        nopse=False,
        user_meta=None,
    ):
        """
        Args:
        symbol (GrammarSymbol): A grammar symbol on the LHS of the production.
        rhs (list of GrammarSymbols):
        """
        self.symbol = symbol
        self.rhs = rhs if rhs else ProductionRHS()
        self.assignments = None
        if assignments:
            self.assignments = {}
            for assignment in assignments:
                if assignment.name:
                    self.assignments[assignment.name] = assignment
        self.assoc = assoc
        self.prior = prior
        self.dynamic = dynamic
        self.nops = nops
        self.nopse = nopse
        self.user_meta = user_meta

    def __str__(self):
        if hasattr(self, "prod_id"):
            return (s_header("%d:") + " %s " + s_emph("=") + " %s") % (
                self.prod_id,
                self.symbol,
                self.rhs,
            )
        return ("%s " + s_emph("=") + " %s") % (self.symbol, self.rhs)

    def __repr__(self):
        return f"Production({str(self)})"

    def __getattr__(self, name):
        if self.user_meta is not None:
            attr = self.user_meta.get(name)
            if attr:
                return attr
        raise AttributeError


class ProductionRHS(list):
    def __getitem__(self, idx):
        try:
            while True:
                symbol = super().__getitem__(idx)
                if symbol is not EMPTY:
                    break
                idx += 1
            return symbol
        except IndexError:
            return None

    def __len__(self):
        return super().__len__() - self.count(EMPTY)

    def __str__(self):
        return " ".join([str(x) for x in self])

    def __repr__(self):
        return "ProductionRHS([{}])".format(", ".join([str(x) for x in self]))


class Assignment:
    """
    General assignment (`=` or `?=`, a.k.a. `named matches`) in productions.
    Used also for references as LHS and assignment operator are optional.
    """

    def __init__(self, name, op, symbol):
        """
        Attributes:
            name(str): The name on the LHS of assignment.
            op(str): Either a `=` or `?=`.
            symbol(Reference or GrammarSymbol): A grammar symbol on the RHS.
            symbol_name(str): A de-sugarred grammar symbol name on the
                RHS, i.e. referenced symbol without regex operators.
            multiplicty(str): Multiplicity of the RHS reference (used for regex
                operators ?, *, +). See MULT_* constants above. By default
                multiplicity is MULT_ONE.
            index(int): Index in the production RHS
        """
        self.name = name
        self.op = op
        self.symbol = symbol
        self.symbol_name = symbol.name
        self.multiplicity = (
            symbol.multiplicity if isinstance(symbol, Reference) else MULT_ONE
        )
        self.index = None


class PGAttribute:
    """
    PGAttribute definition created by named matches.

    Attributes:
        name(str): The name of the attribute.
        multiplicity(str): Multiplicity of the attribute. See MULT_* constants.
        type_name(str): The type name of the attribute value(s). It is also the
            name of the referring grammar rule.
    """

    def __init__(self, name, multiplicity, type_name):
        self.name = name
        self.multiplicity = multiplicity
        self.type_name = type_name


@dataclass
class GrammarContext:
    """
    Context used to collect grammar information and provide info to actions
    during grammar parsing.

    """

    classes: Dict = field(default_factory=dict)
    debug: bool = False
    debug_colors: bool = False
    re_flags: re.RegexFlag = re.MULTILINE
    groups: List = field(default_factory=list)
    groups_counter: Counter = field(default_factory=Counter)
    ignore_case: bool = False
    imported_with: Optional["PGFileImport"] = None
    inline_terminals: Dict = field(default_factory=dict)


class PGFile:
    """Objects of this class represent parglare grammar files.

    Grammar files can be imported using `import` keyword. Rules referenced from
    the imported grammar must be fully qualified by the grammar module name. By
    default the name of the target .pg file is the name of the module. `as`
    keyword can be used to override the default.

    Example:
    ```
    import `some/path/mygrammar.pg` as target
    ```

    Rules from file `mygrammar.pg` will be available under `target` namespace:

    ```
    MyRule: target.someRule+;
    ```

    Actions are by default loaded from the file named `<grammar>_actions.py`
    where `grammar` is basename of grammar file. Recognizers are loaded from
    `<grammar>_recognizers.py`. Actions and recognizers given this way are both
    optional. Furthermore, both actions and recognizers can be overridden by
    supplying actions and/or recognizers dict during grammar/parser
    instantiation.

    Attributes:

    productions (list of Production): Local productions defined in this file.
    terminals (dict of Terminal):
    classes (dict of ParglareClass): Dynamically created classes. Used by
        obj action.
    imports (dict): Mapping imported module/file local name to PGFile object.
    file_path (str): A full canonic path to the .pg file.
    grammar (Grammar): A root/grammar file.
    recognizers (dict of callables): A dict of Python callables used as a
        terminal recognizers.
    """

    def __init__(
        self,
        productions: List[Production],
        terminals: Optional[List[Terminal]] = None,
        classes=None,
        imports=None,
        file_path=None,
        grammar: Optional["Grammar"] = None,
        recognizers=None,
        imported_with=None,
    ):
        self.productions = productions
        self.terminals = terminals
        self.classes = classes if classes else {}
        self.grammar: Optional[Grammar]
        if grammar is not None:
            assert isinstance(grammar, Grammar)
            self.grammar = grammar
        else:
            self.grammar = None

        self.file_path = path.realpath(file_path) if file_path else None
        self.imported_with = imported_with
        self.recognizers = recognizers
        self.actions: Dict[str, Callable] = {}

        self._make_symbols_resolution_map()

        if self.file_path and self.grammar:
            self.grammar.imported_files[self.file_path] = self

        if imports:
            self.imports = {i.module_name: i for i in imports}
            for i in imports:
                i.grammar = self.grammar
                try:
                    i.load_pgfile()
                except OSError as ex:
                    raise GrammarError(
                        location=Location(file_name=self.file_path),
                        message=f'Can\'t import file "{i.file_path}".',
                    ) from ex
        else:
            self.imports = {}

        self._check_overrides()
        self._load_actions()
        self._load_recognizers()

    def _make_symbols_resolution_map(self):
        """
        Collect non-terminals and terminals and make dicts for resolving
        by name.
        """
        nonterminals_by_name = {}
        terminals_by_name = {}
        terminals_by_str_rec = {}

        # Check terminal uniqueness in both name and string recognition
        # and collect all terminals from explicit definitions.
        for terminal in self.terminals:
            if terminal.name in terminals_by_name:
                raise GrammarError(
                    location=terminal.location,
                    message=f'Multiple definitions of terminal rule "{terminal.name}"',
                )
            if isinstance(terminal.recognizer, StringRecognizer):
                rec = terminal.recognizer
                if rec.value in terminals_by_str_rec:
                    raise GrammarError(
                        location=terminal.location,
                        message=f'Terminals "{terminal.name}" and '
                        f'"{terminals_by_str_rec[rec.value].name}" match '
                        "the same string.",
                    )
                terminals_by_str_rec[rec.value] = terminal
            terminals_by_name[terminal.name] = terminal

        self.terminals = terminals_by_name

        # Collect non-terminals
        for production in self.productions:
            symbol = production.symbol
            symbol.imported_with = self.imported_with
            # Check that there is no terminal defined by the same name.
            if symbol.name in self.terminals:
                raise GrammarError(
                    location=symbol.location,
                    message=f'Rule "{symbol.name}" already defined as terminal',
                )
            # Unify all non-terminal objects
            if symbol.name in nonterminals_by_name:
                old_symbol = symbol
                new_symbol = nonterminals_by_name[symbol.name]
                production.symbol = new_symbol
            else:
                nonterminals_by_name[symbol.name] = symbol
                old_symbol = new_symbol = symbol
            new_symbol.productions.append(production)
            new_symbol.cls = self.grammar.classes.get(new_symbol.fqn, None)

            # Check grammar actions for rules/symbols.
            if (
                new_symbol.action_name
                and new_symbol.action_name != old_symbol.action_name
            ):
                raise GrammarError(
                    location=new_symbol.location,
                    message="Multiple different grammar actions "
                    f'for rule "{new_symbol.name}".',
                )

        self.nonterminals = nonterminals_by_name
        self.symbols_by_name = dict(nonterminals_by_name)
        self.symbols_by_name.update(self.terminals)

        # Add special terminals
        self.symbols_by_name["EMPTY"] = EMPTY
        self.symbols_by_name["STOP"] = STOP

    def _check_overrides(self):
        """
        Check that all overrides defined in the current file are
        valid FQNs. Just to be sure that typos don't go unnoticed.
        """
        for symbol_fqn, symbol in self.symbols_by_name.items():
            # Must resolve first level without resolve_symbol_by_name
            # as otherwise the override rule itself would be found.
            if "." in symbol_fqn:
                import_module_name, name = symbol_fqn.split(".", 1)
                try:
                    imported_pg_file = self.imports[import_module_name]
                    if not imported_pg_file.resolve_symbol_by_name(name):
                        raise GrammarError(
                            location=symbol.location,
                            message=f"Unexisting name for symbol override {symbol_fqn}.",
                        )
                except KeyError as ex_inner:
                    raise GrammarError(
                        location=symbol.location,
                        message=f'Unexisting module "{import_module_name}"'
                        f' in reference "{symbol_fqn}"',
                    ) from ex_inner

    def _load_actions(self):
        """
        Loads actions from <grammar_name>_actions.py if the file exists.
        Actions must be collected with action decorator and the decorator must
        be called `action`.
        """
        actions_file = None
        if self.file_path:
            actions_file = path.join(
                path.dirname(self.file_path),
                f"{path.splitext(path.basename(self.file_path))[0]}_actions.py",
            )
            if path.exists(actions_file):
                mod_name = "{}actions".format(
                    self.imported_with.fqn if self.imported_with is not None else ""
                )
                actions_module = load_python_module(mod_name, actions_file)
                if not hasattr(actions_module, "action"):
                    raise GrammarError(
                        Location(file_name=actions_file),
                        message=f'Actions file "{actions_file}" must have "action" '
                        "decorator defined.",
                    )
                self.actions = actions_module.action.all

    def _load_recognizers(self):
        """
        Load recognizers from <grammar_name>_recognizers.py. Override
        with provided recognizers.
        """
        if self.file_path:
            recognizers_file = path.join(
                path.dirname(self.file_path),
                f"{path.splitext(path.basename(self.file_path))[0]}_recognizers.py",
            )

            if path.exists(recognizers_file):
                mod_name = "{}recognizers".format(
                    self.imported_with.fqn if self.imported_with is not None else ""
                )
                mod_recognizers = load_python_module(mod_name, recognizers_file)
                recognizers = mod_recognizers.recognizer.all

                for recognizer_name, recognizer in recognizers.items():
                    symbol = self.resolve_symbol_by_name(
                        recognizer_name,
                        location=Location(file_name=recognizers_file),
                    )
                    if symbol is None:
                        raise GrammarError(
                            location=Location(file_name=recognizers_file),
                            message="Recognizer given for unknown "
                            f'terminal "{recognizer_name}".',
                        )
                    if not isinstance(symbol, Terminal):
                        raise GrammarError(
                            location=Location(file_name=recognizers_file),
                            message="Recognizer given for "
                            f'non-terminal "{recognizer_name}".',
                        )
                    symbol.recognizer = recognizer

    def resolve_symbol_by_name(
        self, symbol_fqn: str, location: Optional[Location] = None
    ) -> Optional[GrammarSymbol]:
        """
        Resolve symbol by FQN. Respect overrides.
        """
        try:
            # Try to get local symbol by FQN in order to override symbols from
            # imported grammars.
            return self.symbols_by_name[symbol_fqn]
        except KeyError:
            if "." in symbol_fqn:
                import_module_name, name = symbol_fqn.split(".", 1)
                try:
                    imported_pg_file = self.imports[import_module_name]
                except KeyError as ex_inner:
                    raise GrammarError(
                        location=location,
                        message=f'Unexisting module "{import_module_name}"'
                        f' in reference "{symbol_fqn}"',
                    ) from ex_inner
                return imported_pg_file.resolve_symbol_by_name(name, location)
        return None

    def resolve_action_by_name(self, action_name: str) -> Optional[Callable]:
        """
        Return registered action for the given action's FQN.
        """
        if action_name in self.actions:
            return self.actions[action_name]
        if "." in action_name:
            import_module_name, name = action_name.split(".", 1)
            if import_module_name in self.imports:
                imported_pg_file = self.imports[import_module_name]
                return imported_pg_file.resolve_action_by_name(name)
        return None


class Grammar(PGFile):
    """
    Grammar is a collection of production rules, nonterminals and terminals.
    First production is reserved for the augmented production (S' -> S).

    Attributes:
    start_symbol (GrammarSymbol or str): start/root symbol of the grammar or
        its name.
    nonterminals (set of NonTerminal):
    terminals(set of Terminal):
    imported_files(dict): Global registry of all imported files.

    """

    def __init__(
        self,
        productions=None,
        terminals=None,
        classes=None,
        imports=None,
        file_path=None,
        recognizers=None,
        start_symbol=None,
        _no_check_recognizers=False,
    ):
        """
        Grammar constructor is not meant to be called directly by the user.
        See `from_str` and `from_file` static methods instead.

        Arguments:
        see Grammar attributes.
        _no_check_recognizers (bool, internal): Used by pglr tool to circumvent
             errors for empty recognizers that will be provided in user code.
        """

        self.imported_files = {}

        super().__init__(
            productions=productions,
            terminals=terminals,
            classes=classes,
            imports=imports,
            file_path=file_path,
            grammar=self,
            recognizers=recognizers,
        )

        self._no_check_recognizers = _no_check_recognizers

        # Determine start symbol. If name is provided search for it. If name is
        # not given use the first production LHS symbol as the start symbol.
        if start_symbol:
            if isinstance(start_symbol, str):
                for p in self.productions:
                    if p.symbol.name == start_symbol:
                        self.start_symbol = p.symbol
            else:
                self.start_symbol = start_symbol
        else:
            # By default, first production symbol is the start symbol.
            self.start_symbol = self.productions[0].symbol

        self._init_grammar()

    def _init_grammar(self):
        """
        Extracts all grammar symbol (nonterminal and terminal) from the
        grammar, resolves and check references in productions, unify all
        grammar symbol objects and enumerate productions.
        """
        # Reserve 0 production. It is used for augmented prod. in LR
        # automata calculation.
        self.productions.insert(
            0, Production(AUGSYMBOL, ProductionRHS([self.start_symbol, STOP]))
        )

        self._add_resolve_all_production_symbols()
        self._enumerate_productions()
        self._fix_keyword_terminals()
        self._resolve_actions()

        # Connect recognizers, override grammar provided
        if not self._no_check_recognizers:
            self._connect_override_recognizers()

    def _add_resolve_all_production_symbols(self):
        """
        Registers all grammar symbols and resolve RHS of each production.
        """

        self.nonterminals = {}
        for prod in self.productions:
            self.nonterminals[prod.symbol.fqn] = prod.symbol
        self.terminals.update([(s.name, s) for s in (EMPTY, STOP)])

        def add_productions(productions):
            for production in productions:
                symbol = production.symbol
                if symbol.fqn not in self.nonterminals:
                    self.nonterminals[symbol.fqn] = symbol
                for idx, rhs_elem in enumerate(production.rhs):
                    if isinstance(rhs_elem, Reference):
                        rhs_elem = production.rhs[idx] = self._resolve_ref(rhs_elem)
                    if isinstance(rhs_elem, Terminal):
                        if rhs_elem.fqn not in self.terminals:
                            self.terminals[rhs_elem.fqn] = rhs_elem
                        else:
                            # Unify terminals
                            production.rhs[idx] = self.terminals[rhs_elem.fqn]
                    elif isinstance(rhs_elem, NonTerminal):
                        if rhs_elem.fqn not in self.nonterminals:
                            # This may happen for RHS refs that create new
                            # productions (e.g. syntactic sugar extensions - *,
                            # +...)
                            self.productions.extend(rhs_elem.productions)
                            add_productions(rhs_elem.productions)
                    else:
                        # This should never happen
                        raise AssertionError(
                            f"Invalid RHS element type '{type(rhs_elem)}'."
                        )

        add_productions(list(self.productions))

    def register_symbol(self, symbol):
        self.symbols_by_name[symbol.name] = symbol

    def _resolve_ref(self, symbol_ref):
        """Resolves given symbol reference.

        For local name search this file, for FQN use imports and delegate to
        imported file.

        If this is first pass do not fail on unexisting reference as there
        might be new symbols created during resolving (e.g. multiplicity
        symbols).

        """
        if isinstance(symbol_ref.separator, Reference):
            symbol_ref.separator = self._resolve_ref(symbol_ref.separator)

        symbol_fqn = symbol_ref.fqn
        symbol = self.resolve_symbol_by_name(symbol_fqn, symbol_ref.location)
        if not symbol:
            raise GrammarError(
                location=symbol_ref.location,
                message=f'Unknown symbol "{symbol_fqn}"',
            )

        mult = symbol_ref.multiplicity
        if mult != MULT_ONE:
            # If multiplicity is used than we are referring to
            # sugared symbol
            separator = symbol_ref.separator if symbol_ref.separator else None

            base_symbol = symbol
            symbol_name = symbol_ref.multiplicity_fqn
            symbol = self.resolve_symbol_by_name(symbol_name, symbol_ref.location)
            if not symbol:
                # If there is no multiplicity version of the symbol we
                # will create one at this place
                symbol = self._make_multiplicity_symbol(
                    symbol_ref, base_symbol, separator, self.imported_with
                )

        return symbol

    def _make_multiplicity_symbol(
        self, symbol_ref, base_symbol, separator, imported_with
    ):
        """
        Creates new NonTerminal for symbol refs using multiplicity and
        separators.
        """
        mult = symbol_ref.multiplicity
        assoc = ASSOC_RIGHT if symbol_ref.greedy else ASSOC_NONE
        if mult in [MULT_ONE_OR_MORE, MULT_ZERO_OR_MORE]:
            symbol_name = make_multiplicity_fqn(
                symbol_ref.fqn,
                MULT_ONE_OR_MORE,
                separator.name if separator else None,
            )
            symbol = self.resolve_symbol_by_name(symbol_name)
            if not symbol:
                # noqa See: http://www.igordejanovic.net/parglare/grammar_language/#one-or-more_1
                productions = []
                symbol = NonTerminal(
                    symbol_name,
                    productions,
                    base_symbol.location,
                    imported_with=imported_with,
                )

                if separator:
                    productions.append(
                        Production(
                            symbol,
                            ProductionRHS([symbol, separator, base_symbol]),
                        )
                    )
                    symbol.action_name = "collect_sep"
                else:
                    productions.append(
                        Production(symbol, ProductionRHS([symbol, base_symbol]))
                    )
                    symbol.action_name = "collect"

                productions.append(Production(symbol, ProductionRHS([base_symbol])))

                self.register_symbol(symbol)

            if mult == MULT_ZERO_OR_MORE:
                productions = []
                symbol_one = symbol
                symbol_name = make_multiplicity_fqn(
                    symbol_ref.fqn, mult, separator.name if separator else None
                )
                symbol = NonTerminal(
                    symbol_name,
                    productions,
                    base_symbol.location,
                    imported_with=imported_with,
                )

                productions.extend(
                    [
                        Production(
                            symbol,
                            ProductionRHS([symbol_one]),
                            assoc=assoc,
                            nops=True,
                        ),
                        Production(symbol, ProductionRHS([EMPTY]), assoc=assoc),
                    ]
                )

                def action(_, nodes):
                    if nodes:
                        return nodes[0]
                    return []

                symbol.grammar_action = action

                self.register_symbol(symbol)

            else:
                if symbol_ref.greedy:
                    productions = []
                    symbol_one = symbol
                    symbol = NonTerminal(
                        f"{symbol_name}_g",
                        productions,
                        base_symbol.location,
                        imported_with=imported_with,
                    )
                    productions.extend(
                        [
                            Production(
                                symbol,
                                ProductionRHS([symbol_one]),
                                assoc=ASSOC_RIGHT,
                            )
                        ]
                    )
                    symbol.action_name = "pass_single"
                    self.register_symbol(symbol)

        else:
            # MULT_OPTIONAL
            if separator:
                raise GrammarError(
                    location=symbol_ref.location,
                    message="Repetition modifier not allowed for "
                    f'optional (?) for symbol "{symbol_ref.name}".',
                )
            productions = []
            symbol_name = make_multiplicity_fqn(symbol_ref.fqn, mult)
            symbol = NonTerminal(
                symbol_name,
                productions,
                base_symbol.location,
                imported_with=imported_with,
            )
            productions.extend(
                [
                    Production(symbol, ProductionRHS([base_symbol])),
                    Production(symbol, ProductionRHS([EMPTY]), assoc=assoc),
                ]
            )

            symbol.action_name = "optional"

            self.register_symbol(symbol)

        return symbol

    def _enumerate_productions(self):
        """
        Enumerates all productions (prod_id) and production per symbol
        (prod_symbol_id).
        """
        idx_per_symbol = {}
        for idx, prod in enumerate(self.productions):
            prod.prod_id = idx
            prod.prod_symbol_id = idx_per_symbol.get(prod.symbol, 0)
            idx_per_symbol[prod.symbol] = idx_per_symbol.get(prod.symbol, 0) + 1

    def _fix_keyword_terminals(self):
        """
        If KEYWORD terminal with regex match is given fix all matching string
        recognizers to match on a word boundary.
        """
        keyword_term = self.get_terminal("KEYWORD")
        if keyword_term is None:
            return

        # KEYWORD rule must have a regex recognizer
        keyword_rec = keyword_term.recognizer
        if not isinstance(keyword_rec, RegExRecognizer):
            raise GrammarError(
                location=keyword_term.location,
                message="KEYWORD rule must have a regex recognizer defined.",
            )

        # Change each string recognizer corresponding to the KEYWORD
        # regex by the regex recognizer that match on word boundaries.
        for term in self.terminals.values():
            if isinstance(term.recognizer, StringRecognizer):
                match = keyword_rec(term.recognizer.value, 0)
                if match == term.recognizer.value:
                    # The keyword text is matched literally. `\b` rejects a
                    # neighbouring word character only next to a word
                    # character; next to anything else a lookaround is used.
                    before = r"\b" if re.match(r"\w", match[0]) else r"(?<!\w)"
                    after = r"\b" if re.match(r"\w", match[-1]) else r"(?!\w)"
                    term.recognizer = RegExRecognizer(
                        before + re.escape(match) + after,
                        name=match,
                        ignore_case=term.recognizer.ignore_case,
                    )
                    term.keyword = True

    def _resolve_actions(self, action_overrides=None, fail_on_no_resolve=False):
        """
        Checks and resolves semantic actions given in the grammar and
        additional `*_actions.py` module.

        Args:
            action_overrides(dict): Dict of actions that take precendence. Used
                for actions supplied during parser construction.
        """
        import parglare.actions as actmodule

        for symbol in self:
            # Resolve trying from most specific to least specific
            action = None

            # 1. Resolve by fully qualified symbol name
            if "." in symbol.fqn:
                if action_overrides:
                    action = action_overrides.get(symbol.fqn, None)

                if action is None:
                    action = self.resolve_action_by_name(symbol.fqn)

            # 2. Fully qualified action name
            if (
                action is None
                and symbol.action_fqn is not None
                and "." in symbol.action_fqn
            ):
                if action_overrides:
                    action = action_overrides.get(symbol.action_fqn, None)

                if action is None:
                    action = self.resolve_action_by_name(symbol.action_fqn)

            # 3. Symbol name
            if action is None:
                if action_overrides:
                    action = action_overrides.get(symbol.name, None)

                if action is None:
                    action = self.resolve_action_by_name(symbol.name)

            # 4. Action name
            if action is None and symbol.action_name is not None:
                if action_overrides:
                    action = action_overrides.get(symbol.action_name, None)

                if action is None:
                    action = self.resolve_action_by_name(symbol.action_name)

                # 5. Try to find action in built-in actions module.
                if action is None:
                    action_name = symbol.action_name
                    if hasattr(actmodule, action_name):
                        action = getattr(actmodule, action_name)

            if symbol.action_name and action is None and fail_on_no_resolve:
                raise ParserInitError(
                    f'Action "{symbol.action_name}" given for rule "{symbol.name}" '
                    "doesn't exists in parglare common actions and "
                    'is not provided using "actions" parameter.'
                )

            if action is not None:
                symbol.action = action

                # Some sanity checks for actions
                if isinstance(symbol.action, list):
                    if isinstance(symbol, Terminal):
                        raise ParserInitError(
                            f'Cannot use a list of actions for terminal "{symbol.name}".'
                        )
                    else:
                        if len(symbol.action) != len(symbol.productions):
                            raise ParserInitError(
                                "Length of list of actions must match the "
                                "number of productions for non-terminal "
                                f'"{symbol.name}".'
                            )
            else:
                symbol.action = symbol.grammar_action

    def _connect_override_recognizers(self):
        for term in self.terminals.values():
            if self.recognizers and term.fqn in self.recognizers:
                term.recognizer = self.recognizers[term.fqn]
            else:
                if term.recognizer is None:
                    if not self.recognizers:
                        raise GrammarError(
                            location=term.location,
                            message=f'Terminal "{term.fqn}" has no recognizer defined '
                            "and no recognizers are given during grammar "
                            "construction.",
                        )
                    else:
                        if term.fqn not in self.recognizers:
                            raise GrammarError(
                                location=term.location,
                                message=f'Terminal "{term.fqn}" '
                                "has no recognizer defined.",
                            )

    def get_terminal(self, name):
        "Returns terminal with the given fully qualified name or name."
        return self.terminals.get(name)

    def get_nonterminal(self, name):
        "Returns non-terminal with the given fully qualified name or name."
        return self.nonterminals.get(name)

    def get_productions(self, name):
        "Returns production for the given symbol"
        return [p for p in self.productions if p.symbol.fqn == name]

    def get_symbol(self, name):
        "Returns grammar symbol with the given name."
        s = self.get_terminal(name)
        if not s:
            s = self.get_nonterminal(name)
        return s

    def __iter__(self):
        return (
            s
            for s in itertools.chain(self.nonterminals.values(), self.terminals.values())
            if s not in [AUGSYMBOL, STOP]
        )

    def get_production_id(self, name):
        "Returns first production id for the given symbol name"
        for p in self.productions:
            if p.symbol.fqn == name:
                return p.prod_id

    @staticmethod
    def from_struct(productions, start_symbol=None):
        """Used internally to bootstrap grammar file parser."""
        productions, terminals = create_productions_terminals(productions)
        return Grammar(productions, terminals=terminals, start_symbol=start_symbol)

    @staticmethod
    def _parse(
        parse_fun_name,
        what_to_parse,
        recognizers=None,
        ignore_case=False,
        re_flags=re.MULTILINE,
        debug=False,
        debug_parse=False,
        debug_colors=False,
        _no_check_recognizers=False,
    ):
        extra = GrammarContext(
            debug=debug,
            debug_colors=debug_colors,
            ignore_case=ignore_case,
            re_flags=re_flags,
        )
        grammar_parser = get_grammar_parser(debug_parse, debug_colors)
        imports, productions, terminals, classes = getattr(
            grammar_parser, parse_fun_name
        )(what_to_parse, extra=extra)
        g = Grammar(
            productions=productions,
            terminals=terminals,
            classes=classes,
            imports=imports,
            recognizers=recognizers,
            file_path=what_to_parse if parse_fun_name == "parse_file" else None,
            _no_check_recognizers=_no_check_recognizers,
        )
        termui.colors = debug_colors
        if debug:
            g.print_debug()

        return g

    @staticmethod
    def from_string(grammar_str, **kwargs):
        return Grammar._parse("parse", grammar_str, **kwargs)

    @staticmethod
    def from_file(file_name, **kwargs):
        file_name = path.realpath(file_name)
        return Grammar._parse("parse_file", file_name, **kwargs)

    def print_debug(self):
        a_print("*** GRAMMAR ***", new_line=True)
        h_print("Terminals:")
        prints(" ".join([str(t) for t in self.terminals]))
        h_print("NonTerminals:")
        prints(" ".join([str(n) for n in self.nonterminals]))

        h_print("Productions:")
        for p in self.productions:
            prints(str(p))


class PGFileImport:
    """
    Represents import of a grammar file.

    Attributes:
    module_name (str): Name of this import. By default is the name of grammar
        file without .pg extension.
    file_path (str): A canonical full path of the imported .pg file.
    context: grammar parsing context state.
    imported_with (PGFileImport | None): First import this import is
        imported from. Used for FQN calculation.
    grammar (Grammar | None): Grammar object under construction.
    pgfile (PGFile instance or None):

    """

    def __init__(self, module_name: str, file_path: str, context: GrammarContext):
        self.module_name = module_name
        self.file_path: str = file_path
        self.context = context
        self.imported_with: Optional[PGFileImport] = context.imported_with
        self.grammar: Optional[Grammar] = None
        self.pgfile: Optional[PGFile] = None

    @property
    def fqn(self):
        "A fully qualified name of the import following the first import path."
        if self.imported_with:
            return f"{self.imported_with.fqn}.{self.module_name}"
        return self.module_name

    def load_pgfile(self):
        if self.pgfile is None:
            # First search the global registry of imported files.
            if self.file_path in self.grammar.imported_files:
                self.pgfile = self.grammar.imported_files[self.file_path]
            else:
                # If not found construct new PGFile
                context = copy.copy(self.context)
                context.file_name = self.file_path
                context.inline_terminals = {}
                context.imported_with = self
                imports, productions, terminals, classes = get_grammar_parser(
                    self.context.debug, self.context.debug_colors
                ).parse_file(self.file_path, extra=context)
                self.pgfile = PGFile(
                    productions=productions,
                    terminals=terminals,
                    classes=classes,
                    imports=imports,
                    grammar=self.grammar,
                    imported_with=self,
                    file_path=self.file_path,
                )

    def resolve_symbol_by_name(self, symbol_name, location=None):
        "Resolves symbol from the imported file."

        return self.pgfile.resolve_symbol_by_name(symbol_name, location)

    def resolve_action_by_name(self, action_name):
        "Resolves action from the imported file."

        return self.pgfile.resolve_action_by_name(action_name)


def create_productions_terminals(productions):
    """Creates Production instances from the list of productions given in
    the form:
    [LHS, RHS, optional ASSOC, optional PRIOR].
    Where LHS is grammar symbol and RHS is a list or tuple of grammar
    symbols from the right-hand side of the production.
    """
    gp = []
    inline_terminals = {}
    for p in productions:
        assoc = ASSOC_NONE
        prior = DEFAULT_PRIORITY
        symbol = p[0]
        if not isinstance(symbol, NonTerminal):
            raise GrammarError(
                location=None,
                message=f"Invalid production symbol '{symbol}' for production '{str(p)}'",
            )
        rhs = ProductionRHS(p[1])
        if len(p) > 2:
            assoc = p[2]
        if len(p) > 3:
            prior = p[3]

        # Convert strings to string recognizers
        for idx, t in enumerate(rhs):
            if isinstance(t, str):
                if t not in inline_terminals:
                    inline_terminals[t] = Terminal(recognizer=StringRecognizer(t), name=t)
                rhs[idx] = Reference(
                    location=None, name=t, imported_with=symbol.imported_with
                )
            elif isinstance(t, Terminal):
                if t.name not in inline_terminals:
                    inline_terminals[t.name] = t
                rhs[idx] = Reference(
                    location=None,
                    name=t.name,
                    imported_with=symbol.imported_with,
                )

        gp.append(Production(symbol, rhs, assoc=assoc, prior=prior))

    return gp, list(inline_terminals.values())


def make_multiplicity_fqn(symbol_name, multiplicity=None, separator_name=None):
    if multiplicity is None or multiplicity == MULT_ONE:
        return symbol_name
    name_by_mult = {
        MULT_ZERO_OR_MORE: "0",
        MULT_ONE_OR_MORE: "1",
        MULT_OPTIONAL: "opt",
    }
    if multiplicity:
        return "{}_{}{}".format(
            symbol_name,
            name_by_mult[multiplicity],
            f"_{separator_name}" if separator_name else "",
        )


def check_name(context, name):
    """
    Used in actions to check for reserved names usage.
    """

    if name in RESERVED_SYMBOL_NAMES:
        raise GrammarError(
            location=Location(context),
            message=f'Rule name "{name}" is reserved.',
        )


# Grammar for grammars

(
    PGFILE,
    IMPORTS,
    IMPORT,
    PRODUCTION_RULES,
    PRODUCTION_RULE,
    PRODUCTION_RULE_WITH_ACTION,
    PRODUCTION_RULE_RHS,
    PRODUCTION,
    PRODUCTION_GROUP,
    TERMINAL_RULES,
    TERMINAL_RULE,
    TERMINAL_RULE_WITH_ACTION,
    PROD_META_DATA,
    PROD_META_DATAS,
    TERM_META_DATA,
    TERM_META_DATAS,
    USER_META_DATA,
    CONST,
    ASSIGNMENT,
    ASSIGNMENTS,
    PLAIN_ASSIGNMENT,
    BOOL_ASSIGNMENT,
    GSYMBOL_REFERENCE,
    OPT_REP_OPERATOR,
    REP_OPERATOR,
    OPT_REP_MODIFIERS_EXP,
    OPT_REP_MODIFIERS,
    OPT_REP_MODIFIER,
    GSYMBOL,
    RECOGNIZER,
    LAYOUT,
    LAYOUT_ITEM,
    COMMENT,
    CORNC,
    CORNCS,
) = (
    NonTerminal(name)
    for name in [
        "PGFile",
        "Imports",
        "Import",
        "ProductionRules",
        "ProductionRule",
        "ProductionRuleWithAction",
        "ProductionRuleRHS",
        "Production",
        "ProductionGroup",
        "TerminalRules",
        "TerminalRule",
        "TerminalRuleWithAction",
        "ProductionMetaData",
        "ProductionMetaDatas",
        "TerminalMetaData",
        "TerminalMetaDatas",
        "UserMetaData",
        "Const",
        "Assignment",
        "Assignments",
        "PlainAssignment",
        "BoolAssignment",
        "GrammarSymbolReference",
        "OptRepeatOperator",
        "RepeatOperator",
        "OptionalRepeatModifiersExpression",
        "OptionalRepeatModifiers",
        "OptionalRepeatModifier",
        "GrammarSymbol",
        "Recognizer",
        "LAYOUT",
        "LAYOUT_ITEM",
        "Comment",
        "CORNC",
        "CORNCS",
    ]
)

pg_terminals = (
    NAME,
    REGEX_TERM,
    INT_CONST,
    FLOAT_CONST,
    BOOL_CONST,
    STR_CONST,
    ACTION,
    WS,
    COMMENTLINE,
    NOTCOMMENT,
) = [
    Terminal(name, RegExRecognizer(regex))
    for name, regex in [
        ("Name", r"[a-zA-Z_][a-zA-Z0-9_\.]*"),
        ("RegExTerm", r"\/(\\.|[^\/\\])*\/"),
        ("IntConst", r"\d+"),
        (
            "FloatConst",
            r"""[+-]?(\d+\.\d*|\.\d+)([eE][+-]?\d+)?(?<=[\w\.])(?![\w\.])""",
        ),  # noqa
        ("BoolConst", r"true|false"),
        (
            "StrConst",
            r"""(?s)('[^'\\]*(?:\\.[^'\\]*)*')|"""
            r"""("[^"\\]*(?:\\.[^"\\]*)*")""",
        ),
        ("Action", r"@[a-zA-Z0-9_]+"),
        ("WS", r"\s+"),
        ("CommentLine", r"\/\/.*"),
        ("NotComment", r"((\*[^\/])|[^\s*\/]|\/[^\*])+"),
    ]
]

pg_productions = [
    [PGFILE, [PRODUCTION_RULES]],
    [PGFILE, [IMPORTS, PRODUCTION_RULES]],
    [PGFILE, [PRODUCTION_RULES, "terminals", TERMINAL_RULES]],
    [PGFILE, [IMPORTS, PRODUCTION_RULES, "terminals", TERMINAL_RULES]],
    [PGFILE, ["terminals", TERMINAL_RULES]],
    [IMPORTS, [IMPORTS, IMPORT]],
    [IMPORTS, [IMPORT]],
    [IMPORT, ["import", STR_CONST, ";"]],
    [IMPORT, ["import", STR_CONST, "as", NAME, ";"]],
    [PRODUCTION_RULES, [PRODUCTION_RULES, PRODUCTION_RULE_WITH_ACTION]],
    [PRODUCTION_RULES, [PRODUCTION_RULE_WITH_ACTION]],
    [PRODUCTION_RULE_WITH_ACTION, [ACTION, PRODUCTION_RULE]],
    [PRODUCTION_RULE_WITH_ACTION, [PRODUCTION_RULE]],
    [PRODUCTION_RULE, [NAME, ":", PRODUCTION_RULE_RHS, ";"]],
    [
        PRODUCTION_RULE,
        [NAME, "{", PROD_META_DATAS, "}", ":", PRODUCTION_RULE_RHS, ";"],
    ],
    [
        PRODUCTION_RULE_RHS,
        [PRODUCTION_RULE_RHS, "|", PRODUCTION],
        ASSOC_LEFT,
        5,
    ],
    [PRODUCTION_RULE_RHS, [PRODUCTION], ASSOC_LEFT, 5],
    [PRODUCTION, [ASSIGNMENTS]],
    [PRODUCTION, [ASSIGNMENTS, "{", PROD_META_DATAS, "}"]],
    [TERMINAL_RULES, [TERMINAL_RULES, TERMINAL_RULE_WITH_ACTION]],
    [TERMINAL_RULES, [TERMINAL_RULE_WITH_ACTION]],
    [TERMINAL_RULE_WITH_ACTION, [ACTION, TERMINAL_RULE]],
    [TERMINAL_RULE_WITH_ACTION, [TERMINAL_RULE]],
    [TERMINAL_RULE, [NAME, ":", RECOGNIZER, ";"], ASSOC_LEFT, 15],
    [TERMINAL_RULE, [NAME, ":", ";"], ASSOC_LEFT, 15],
    [
        TERMINAL_RULE,
        [NAME, ":", RECOGNIZER, "{", TERM_META_DATAS, "}", ";"],
        ASSOC_LEFT,
        15,
    ],
    [
        TERMINAL_RULE,
        [NAME, ":", "{", TERM_META_DATAS, "}", ";"],
        ASSOC_LEFT,
        15,
    ],
    [PROD_META_DATA, ["left"]],
    [PROD_META_DATA, ["reduce"]],
    [PROD_META_DATA, ["right"]],
    [PROD_META_DATA, ["shift"]],
    [PROD_META_DATA, ["dynamic"]],
    [PROD_META_DATA, ["nops"]],  # no prefer shifts
    [PROD_META_DATA, ["nopse"]],  # no prefer shifts over empty
    [PROD_META_DATA, [INT_CONST]],  # priority
    [PROD_META_DATA, [USER_META_DATA]],
    [PROD_META_DATAS, [PROD_META_DATAS, ",", PROD_META_DATA], ASSOC_LEFT],
    [PROD_META_DATAS, [PROD_META_DATA]],
    [TERM_META_DATA, ["prefer"]],
    [TERM_META_DATA, ["finish"]],
    [TERM_META_DATA, ["nofinish"]],
    [TERM_META_DATA, ["dynamic"]],
    [TERM_META_DATA, [INT_CONST]],  # priority
    [TERM_META_DATA, [USER_META_DATA]],
    [TERM_META_DATAS, [TERM_META_DATAS, ",", TERM_META_DATA]],
    [TERM_META_DATAS, [TERM_META_DATA]],
    # User custom meta-data
    [USER_META_DATA, [NAME, ":", CONST]],
    [CONST, [INT_CONST]],
    [CONST, [FLOAT_CONST]],
    [CONST, [BOOL_CONST]],
    [CONST, [STR_CONST]],
    # Assignments
    [ASSIGNMENT, [PLAIN_ASSIGNMENT]],
    [ASSIGNMENT, [BOOL_ASSIGNMENT]],
    [ASSIGNMENT, [GSYMBOL_REFERENCE]],
    [ASSIGNMENTS, [ASSIGNMENTS, ASSIGNMENT]],
    [ASSIGNMENTS, [ASSIGNMENT]],
    [PLAIN_ASSIGNMENT, [NAME, "=", GSYMBOL_REFERENCE]],
    [BOOL_ASSIGNMENT, [NAME, "?=", GSYMBOL_REFERENCE]],
    # Groups
    [PRODUCTION_GROUP, ["(", PRODUCTION_RULE_RHS, ")"]],
    # Regex-like repeat operators
    [GSYMBOL_REFERENCE, [GSYMBOL, OPT_REP_OPERATOR]],
    [GSYMBOL_REFERENCE, [PRODUCTION_GROUP, OPT_REP_OPERATOR]],
    [OPT_REP_OPERATOR, [REP_OPERATOR]],
    [OPT_REP_OPERATOR, [EMPTY]],
    [REP_OPERATOR, ["*", OPT_REP_MODIFIERS_EXP]],
    [REP_OPERATOR, ["*!", OPT_REP_MODIFIERS_EXP]],
    [REP_OPERATOR, ["+", OPT_REP_MODIFIERS_EXP]],
    [REP_OPERATOR, ["+!", OPT_REP_MODIFIERS_EXP]],
    [REP_OPERATOR, ["?", OPT_REP_MODIFIERS_EXP]],
    [REP_OPERATOR, ["?!", OPT_REP_MODIFIERS_EXP]],
    [OPT_REP_MODIFIERS_EXP, ["[", OPT_REP_MODIFIERS, "]"]],
    [OPT_REP_MODIFIERS_EXP, [EMPTY]],
    [OPT_REP_MODIFIERS, [OPT_REP_MODIFIERS, ",", OPT_REP_MODIFIER]],
    [OPT_REP_MODIFIERS, [OPT_REP_MODIFIER]],
    [OPT_REP_MODIFIER, [NAME]],
    [GSYMBOL, [NAME]],
    [GSYMBOL, [STR_CONST]],
    [RECOGNIZER, [STR_CONST]],
    [RECOGNIZER, [REGEX_TERM]],
    # Support for comments,
    [LAYOUT, [LAYOUT_ITEM]],
    [LAYOUT, [LAYOUT, LAYOUT_ITEM]],
    [LAYOUT, [EMPTY]],
    [LAYOUT_ITEM, [WS]],
    [LAYOUT_ITEM, [COMMENT]],
    [COMMENT, ["/*", CORNCS, "*/"]],
    [COMMENT, [COMMENTLINE]],
    [CORNCS, [CORNC]],
    [CORNCS, [CORNCS, CORNC]],
    [CORNCS, [EMPTY]],
    [CORNC, [COMMENT]],
    [CORNC, [NOTCOMMENT]],
    [CORNC, [WS]],
]


grammar_parser = None


def get_grammar_parser(debug, debug_colors):
    global grammar_parser
    if not grammar_parser:
        from parglare import Parser

        grammar_parser = Parser(
            Grammar.from_struct(pg_productions, PGFILE),
            actions=pg_actions,
            debug=debug,
            debug_colors=debug_colors,
        )
    EMPTY.action = pass_none
    return grammar_parser


def act_pgfile(context, nodes):
    imports, productions, terminals = [], [], []
    while nodes:
        first = nodes.pop(0)
        if first and isinstance(first, list):
            if isinstance(first[0], PGFileImport):
                imports = first
            elif isinstance(first[0], Production):
                productions = first
            elif isinstance(first[0], Terminal):
                terminals = first

    for terminal in context.extra.inline_terminals.values():
        terminals.append(terminal)

    return [imports, productions, terminals, context.extra.classes]


def act_import(context, nodes):
    if not context.file_name:
        raise GrammarError(
            location=Location(context),
            message="Import can be used only for grammars defined in files.",
        )
    import_path = nodes[1]
    module_name = nodes[3] if len(nodes) > 3 else None
    if module_name is None:
        module_name = path.splitext(path.basename(import_path))[0]
    if not path.isabs(import_path):
        import_path = path.realpath(
            path.join(path.dirname(context.file_name), import_path)
        )
    else:
        import_path = path.realpath(import_path)

    return PGFileImport(module_name, import_path, context.extra)


def act_production_rules(_, nodes):
    e1, e2 = nodes
    e1.extend(e2)
    return e1


def act_production_rule_with_action(_, nodes):
    productions, group_productions = nodes[-1]
    if len(nodes) > 1:
        action_name = nodes[0]
        # Strip @ char
        action_name = action_name[1:]
        for p in productions:
            p.symbol.action_name = action_name
    productions.extend(group_productions)
    return productions


def act_production_rule(context, nodes):
    if len(nodes) == 4:
        # No meta-data
        name, _, rhs_prods, __ = nodes
        rule_meta_datas = {}
    else:
        name, rule_meta_datas, rhs_prods = nodes[0], nodes[2], nodes[5]
        rule_meta_datas = get_production_rule_meta_datas(rule_meta_datas)

    check_name(context, name)

    prods = _create_prods(context, rhs_prods, name, rule_meta_datas)
    group_prods = []
    if context.extra.groups:
        counter = context.extra.groups_counter
        while context.extra.groups:
            ref, gprods = context.extra.groups.pop()
            gname = f"{name}_g{counter[name] + 1}"
            ref.name = gname
            counter[name] += 1
            group_prods.extend(_create_prods(context, gprods, gname, rule_meta_datas))

    return prods, group_prods


def _create_prods(context, rhs_prods, name, rule_meta_datas):
    symbol = NonTerminal(
        name,
        location=Location(context),
        imported_with=context.extra.imported_with,
        user_meta=rule_meta_datas.get("user_meta", None),
    )

    # Collect all productions for this rule
    prods = []
    attrs = {}
    for prod in rhs_prods:
        assignments, meta_datas = prod
        # Here we know the indexes of assignments
        for idx, a in enumerate(assignments):
            if a.name:
                a.index = idx
        gsymbols = (a.symbol for a in assignments)
        assoc = meta_datas.get("assoc", rule_meta_datas.get("assoc", ASSOC_NONE))
        prior = meta_datas.get(
            "priority", rule_meta_datas.get("priority", DEFAULT_PRIORITY)
        )
        dynamic = meta_datas.get("dynamic", rule_meta_datas.get("dynamic", False))
        nops = meta_datas.get("nops", rule_meta_datas.get("nops", False))
        nopse = meta_datas.get("nopse", rule_meta_datas.get("nopse", False))

        # User meta-data if formed by rule-level user meta-data with overrides
        # from production-level user meta-data.
        user_meta = dict(rule_meta_datas.get("user_meta", {}))
        user_meta.update(meta_datas.get("user_meta", {}))
        prods.append(
            Production(
                symbol,
                ProductionRHS(gsymbols),
                assignments=assignments,
                assoc=assoc,
                prior=prior,
                dynamic=dynamic,
                nops=nops,
                nopse=nopse,
                user_meta=user_meta,
            )
        )

        for a in assignments:
            if a.name:
                attrs[a.name] = PGAttribute(a.name, a.multiplicity, a.symbol_name)
            # TODO: check/handle multiple assignments to the same attribute
            #       If a single production have multiple assignment of the
            #       same attribute, multiplicity must be set to many.

    # If named matches are used create Python class that will be used
    # for object instantiation.
    if attrs:

        class ParglareClass(metaclass=ParglareMetaClass):
            """Dynamically created class. Each parglare rule that uses named
            matches by default uses this action that will create Python object
            of this class.

            Attributes:
                _pg_attrs(dict): A dict of meta-attributes keyed by name.
                    Used by common rules.
                _pg_start_position(int): A position in the input string where
                    this class is defined.
                _pg_end_position(int): A position in the input string where
                    this class ends.
                _pg_children(list): A list of child nodes.
                _pg_children_names(list): A list of child node names
                    (i.e. LHS of assignments)
                _pg_extras(object): An arbitrary user-defined object.

            """

            __slots__ = list(attrs) + [
                "_pg_start_position",
                "_pg_end_position",
                "_pg_children",
                "_pg_children_names",
                "_pg_extras",
            ]

            _pg_attrs = attrs

            def __init__(self, **attrs):
                self._pg_children = list(attrs.values())
                self._pg_children_names = list(attrs.keys())
                for attr_name, attr_value in attrs.items():
                    setattr(self, attr_name, attr_value)

            def __repr__(self):
                if hasattr(self, "name"):
                    return f"<{name}:{self.name}>"
                else:
                    return f"<parglare:{name} instance at {hex(id(self))}>"

            def to_str(self):
                def visit(n, subresults, depth):
                    indent = "  " * (depth + 1)
                    if hasattr(n, "_pg_children"):
                        s = "{} [{}->{}]\n{}".format(
                            n.__class__.__name__,
                            n._pg_start_position,
                            n._pg_end_position,
                            "\n".join(
                                [
                                    f"{indent}{n._pg_children_names[i]}={subresult}"
                                    for (i, subresult) in enumerate(subresults)
                                ]
                            ),
                        )
                    elif isinstance(n, list):
                        s = "{}[\n{}\n{}]".format(
                            indent,
                            "\n".join([f"{indent}{el}" for el in subresults]),
                            indent,
                        )
                    else:
                        s = repr(n)
                    return s

                return visitor(self, ast_tree_iterator, visit)

        ParglareClass.__name__ = str(symbol.fqn)
        if symbol.fqn in context.extra.classes:
            # If rule has multiple definition merge attributes.
            context.extra.classes[symbol.fqn]._pg_attrs.update(attrs)
        else:
            context.extra.classes[symbol.fqn] = ParglareClass

        symbol.action_name = "obj"

    return prods


def get_production_rule_meta_datas(raw_meta_datas):
    meta_datas = {}
    for meta_data in raw_meta_datas:
        if meta_data in ["left", "reduce"]:
            meta_datas["assoc"] = ASSOC_LEFT
        elif meta_data in ["right", "shift"]:
            meta_datas["assoc"] = ASSOC_RIGHT
        elif meta_data == "dynamic":
            meta_datas["dynamic"] = True
        elif meta_data == "nops":
            meta_datas["nops"] = True
        elif meta_data == "nopse":
            meta_datas["nopse"] = True
        elif isinstance(meta_data, int):
            meta_datas["priority"] = meta_data
        else:
            # User meta-data
            assert isinstance(meta_data, list)
            name, _, value = meta_data
            meta_datas.setdefault("user_meta", {})[name] = value
    return meta_datas


def act_production(_, nodes):
    assignments = nodes[0]
    meta_datas = {}
    if len(nodes) > 1:
        meta_datas = get_production_rule_meta_datas(nodes[2])

    return (assignments, meta_datas)


def act_production_group(context, nodes):
    # Group name will be known when the grammar rule is
    # reduced so store these production for later.
    productions = nodes[1]
    reference = Reference(Location(context), "resolving", context.extra.imported_with)
    context.extra.groups.append((reference, productions))
    return reference


def _set_term_props(term, props):
    for t in props:
        if isinstance(t, int):
            term.prior = t
        elif isinstance(t, list):
            # User meta-data
            name, _, value = t
            term.add_user_meta_data(name, value)
        elif t == "finish":
            term.finish = True
        elif t == "nofinish":
            term.finish = False
        elif t == "prefer":
            term.prefer = True
        elif t == "dynamic":
            term.dynamic = True
        else:
            print(t)
            raise AssertionError()


def act_term_rule(context, nodes):
    name = nodes[0]
    recognizer = nodes[2]

    check_name(context, name)
    term = Terminal(
        name,
        recognizer,
        location=Location(context),
        imported_with=context.extra.imported_with,
    )
    if len(nodes) > 4:
        _set_term_props(term, nodes[4])
    return term


def act_term_rule_empty_body(context, nodes):
    name = nodes[0]

    check_name(context, name)
    term = Terminal(
        name,
        location=Location(context),
        imported_with=context.extra.imported_with,
    )
    term.recognizer = None
    if len(nodes) > 3:
        _set_term_props(term, nodes[3])
    return term


def act_term_rule_with_action(context, nodes):
    if len(nodes) > 1:
        action_name, term = nodes
        # Strip @ char
        action_name = action_name[1:]
        term.action_name = action_name
    else:
        term = nodes[0]

    return term


def act_gsymbol_reference(context, nodes):
    """Repetition operators (`*`, `+`, `?`) will create additional productions in
    the grammar with name generated from original symbol name and suffixes:
    - `_0` - for `*`
    - `_1` - for `+`
    - `_opt` - for `?`

    Zero or more produces `one or more` productions and additional productions
    of the form:

    ```
    somerule_0: somerule_1 | EMPTY;
    ```

    In addition if separator is used another suffix is added which is the name
    of the separator rule, for example:

    ```
    spam*[comma] --> spam_0_comma and spam_1_comma
    spam+[comma] --> spam_1_comma
    spam* --> spam_0 and spam_1
    spam? --> spam_opt
    ```

    """
    symbol_ref, rep_op = nodes
    if rep_op:
        if len(rep_op) > 1:
            rep_op, modifiers = rep_op
        else:
            rep_op = rep_op[0]
            modifiers = None

        sep_ref = None
        if modifiers:
            sep_ref = modifiers[1]
            sep_ref = Reference(Location(context), sep_ref, context.extra.imported_with)
            symbol_ref.separator = sep_ref

        if rep_op.startswith("*"):
            symbol_ref.multiplicity = MULT_ZERO_OR_MORE
        elif rep_op.startswith("+"):
            symbol_ref.multiplicity = MULT_ONE_OR_MORE
        else:
            symbol_ref.multiplicity = MULT_OPTIONAL

        if rep_op.endswith("!"):
            symbol_ref.greedy = True

    return symbol_ref


def act_gsymbol_string_recognizer(context, nodes):
    recognizer = act_recognizer_str(context, nodes)

    terminal_ref = Reference(
        Location(context), recognizer.name, context.extra.imported_with
    )

    if terminal_ref.name not in context.extra.inline_terminals:
        check_name(context, terminal_ref.name)
        context.extra.inline_terminals[terminal_ref.name] = Terminal(
            terminal_ref.name, recognizer, location=Location(context)
        )

    return terminal_ref


def act_assignment(_, nodes):
    gsymbol_reference = nodes[0]
    if isinstance(gsymbol_reference, list):
        # Named match
        name, op, gsymbol_reference = gsymbol_reference
    else:
        name, op = None, None

    return Assignment(name, op, gsymbol_reference)


def act_recognizer_str(context, nodes):
    value = nodes[0]
    value = (
        value.replace(r"\"", '"')
        .replace(r"\'", "'")
        .replace(r"\\", "\\")
        .replace(r"\n", "\n")
        .replace(r"\t", "\t")
    )
    return StringRecognizer(value, ignore_case=context.extra.ignore_case)


def act_recognizer_regex(context, nodes):
    value = nodes[0]
    return RegExRecognizer(
        value,
        re_flags=context.extra.re_flags,
        ignore_case=context.extra.ignore_case,
    )


def act_str_term(context, value):
    value = value[1:-1]
    value = value.replace(r"\\", "\\")
    value = value.replace(r"\'", "'")
    return value


def act_regex_term(context, value):
    return value[1:-1]


pg_actions = {
    "PGFile": act_pgfile,
    "Imports": collect,
    "Import": act_import,
    "ProductionRules": [act_production_rules, pass_single],
    "ProductionRule": act_production_rule,
    "ProductionRuleWithAction": act_production_rule_with_action,
    "ProductionRuleRHS": collect_sep,
    "Production": act_production,
    "ProductionGroup": act_production_group,
    "TerminalRules": collect,
    "TerminalRule": [
        act_term_rule,
        act_term_rule_empty_body,
        act_term_rule,
        act_term_rule_empty_body,
    ],
    "TerminalRuleWithAction": act_term_rule_with_action,
    "ProductionMetaDatas": collect_sep,
    "TerminalMetaDatas": collect_sep,
    "Assignment": act_assignment,
    "Assignments": collect,
    "GrammarSymbolReference": act_gsymbol_reference,
    "GrammarSymbol": [
        lambda context, nodes: Reference(
            Location(context), nodes[0], context.extra.imported_with
        ),
        act_gsymbol_string_recognizer,
    ],
    "Recognizer": [act_recognizer_str, act_recognizer_regex],
    "StrConst": act_str_term,
    "RegExTerm": act_regex_term,
    # Constants
    "IntConst": lambda _, value: int(value),
    "FloatConst": lambda _, value: float(value),
    "BoolConst": lambda _, value: value and value.lower() == "true",
}


class ParglareMetaClass(type):
    def __repr__(cls):
        return f"<parglare:{cls.__name__} class at {id(cls)}>"


def ast_tree_iterator(root):
    if hasattr(root, "_pg_children"):
        return iter(root._pg_children)
    if isinstance(root, list):
        return iter(root)
    return iter([])
