from functools import reduce

from parglare.common import dot_escape
from parglare.exceptions import LoopError

DOT_HEADER = """
    digraph grammar {
    rankdir=TD
    fontname = "Bitstream Vera Sans"
    fontsize = 8
    nodesep = 0.2
    edge[dir=black,arrowtail=empty, fontsize=6 arrowsize=.5 penwidth=0.7]
    node[shape=plain height=0.1 width=0.1]

"""


def tree_node_iterator(n):
    """
    Iterator for forests and trees nodes. Used in visitors.
    """
    from parglare.glr import Parent

    if isinstance(n, Parent):
        return iter(n.possibilities)
    elif n.is_term():
        return iter([])
    else:

        def _iter():
            for i in n.children:
                if isinstance(i, Parent) and len(i.possibilities) == 1:
                    yield i.possibilities[0]
                else:
                    yield i

        return _iter()


def to_str(root):
    from parglare.glr import Parent

    def visit(n, subresults, depth):
        indent = "  " * depth
        if isinstance(n, Parent):
            s = f"{indent}{n.head.symbol} - ambiguity[{n.ambiguity}]"
            for idx, p in enumerate(subresults):
                s += f"\n{indent}{idx + 1}:{p}"
        elif n.is_nonterm():
            s = f"{indent}{n.production.symbol}[{n.start_position}->{n.end_position}]"
            if subresults:
                s = "{}\n{}".format(s, "\n".join(subresults))
        else:
            s = f'{indent}{n.symbol}[{n.start_position}->{n.end_position}, "{n.value}"]'
        return s

    return visitor(root, tree_node_iterator, visit)


def to_dot(self, positions=True):
    from parglare.glr import Parent

    rendered = set()
    terminals = []

    def visit(n, subresults, _):
        sub_str = "".join(s[1] for s in subresults if id(s[1]) not in rendered)
        rendered.update(id(s[1]) for s in subresults)
        pos = f"[{n.start_position}-{n.end_position}]" if positions else ""
        if isinstance(n, Parent):
            s = '{}[label="Amb({},{})" shape=box];\n'.format(
                id(n), dot_escape(f"{n.head.symbol}{pos}"), n.ambiguity
            )
            s += sub_str
            s += "".join(f"{id(n)}->{id(s[0])};\n" for s in subresults)
        elif n.is_nonterm():
            s = '{}[label="{}"];\n'.format(id(n), dot_escape(f"{n.symbol}{pos}"))
            s += sub_str
            s += "".join(
                (
                    f'{id(n)}->{id(s[0])}[label="{idx + 1}"];\n'
                    for idx, s in enumerate(subresults)
                )
            )
        else:
            terminals.append(n)
            label = (
                f"{n.symbol}({n.value[:10]})"
                if n.symbol.name != n.value
                else n.symbol.name
            )
            s = '{} [label="{}"];\n'.format(id(n), dot_escape(f"{label}{pos}"))
        return (n, s)

    return "{}\n{}\n{}\n}}\n".format(
        DOT_HEADER,
        visitor(self, tree_node_iterator, visit)[1],
        "{{rank=same {} [style=invis]}}".format("->".join(str(id(t)) for t in terminals)),
    )


class Node:
    """A node of the parse tree."""

    __slots__ = ["context"]

    def __init__(self, context):
        self.context = context

    def __repr__(self):
        return str(self)

    def __iter__(self):
        return iter([])

    def __reversed__(self):
        return iter([])

    def __getattr__(self, name):
        return getattr(self.context, name)

    def is_nonterm(self):
        return False

    def is_term(self):
        return False

    def to_str(self):
        return to_str(self)

    def to_dot(self, positions=True):
        return to_dot(self, positions)


class NodeNonTerm(Node):
    __slots__ = ["production", "children"]

    def __init__(self, context, children, production=None):
        super().__init__(context)
        self.children = children
        self.production = production

    @property
    def solutions(self):
        "For SPPF trees"
        return reduce(lambda x, y: x * y, (c.solutions for c in self.children), 1)

    @property
    def symbol(self):
        return self.production.symbol

    def is_nonterm(self):
        return True

    def __str__(self):
        return (
            f"NonTerm({self.production.symbol}, "
            f"{self.start_position}-{self.end_position})"
        )

    def __iter__(self):
        return iter(self.children)

    def __reversed__(self):
        return reversed(self.children)


class NodeTerm(Node):
    def __init__(self, context, token=None):
        super().__init__(context)
        self.token = token

    @property
    def symbol(self):
        return self.token.symbol

    @property
    def value(self):
        return self.token.value

    @property
    def additional_data(self):
        return self.token.additional_data

    @property
    def solutions(self):
        "For SPPF trees"
        return 1

    def is_term(self):
        return True

    def __str__(self):
        return (
            f'Term({self.symbol} "{self.value[:20]}", '
            f"{self.start_position}-{self.end_position})"
        )


class Tree:
    """
    Represents a tree from the parse forest.
    """

    __slots__ = ["root", "children"]

    def __init__(self, root, counter):
        possibility = 0
        if counter > 0 and len(root.possibilities) > 1:
            # Find the right possibility bucket
            solutions = root.possibilities[possibility].solutions
            while solutions <= counter:
                counter -= solutions
                possibility += 1
                solutions = root.possibilities[possibility].solutions

        self.root = root.possibilities[possibility]
        self._init_children(counter)

    def _init_children(self, counter):
        if self.root.is_nonterm():
            self.children = self._enumerate_children(counter)
        else:
            self.children = None

    def _enumerate_children(self, counter):
        children = []
        # Calculate counter division based on weighted numbering system.
        # Basically, enumerating variations of children solutions.
        weights = [c.solutions for c in self.root.children]
        for idx, c in enumerate(self.root.children):
            factor = reduce(lambda x, y: x * y, weights[idx + 1 :], 1)
            new_counter = counter // factor
            counter %= factor
            children.append(self.__class__(c, new_counter))
        return children

    def to_str(self):
        return to_str(self)

    def to_dot(self, positions=True):
        return to_dot(self, positions)

    def __iter__(self):
        return iter(self.children or [])

    def __reversed__(self):
        return reversed(self.children or [])

    def __getitem__(self, idx):
        return self.children[idx]

    def __getattr__(self, attr):
        # Proxy to tree node
        return getattr(self.root, attr)


class LazyTree(Tree):
    """
    Represents a lazy tree from the parse forest.

    Attributes:
    root(Parent):
    counter(int):
    """

    __slots__ = ["root", "counter", "_children"]

    def __init__(self, root, counter):
        self._children = None
        super().__init__(root, counter)

    def _init_children(self, counter):
        self.counter = counter

    def __getattr__(self, attr):
        if attr == "children":
            if self._children is None and self.root.is_nonterm():
                self._children = self._enumerate_children(self.counter)
            return self._children
        # Proxy to tree node
        return getattr(self.root, attr)


class Forest:
    """
    Shared packed forest returned by the GLR parser.
    Creates lazy tree enumerators and enables iteration over trees.
    """

    def __init__(self, parser):
        self.parser = parser
        results = [p for r in parser._accepted_heads for p in r.parents.values()]
        self.result = results.pop()
        while results:
            result = results.pop()
            self.result.merge(result)

    def _check_index(self, idx):
        # Index 0 is always valid. Avoid calculating solutions in that case.
        if idx > 0 and idx >= self.solutions:
            raise IndexError("Forest index out of range")

    def get_tree(self, idx=0):
        self._check_index(idx)
        return LazyTree(self.result, idx)

    def get_nonlazy_tree(self, idx=0):
        self._check_index(idx)
        return Tree(self.result, idx)

    def get_first_tree(self):
        """
        Gets tree 0 fully unpacked. May be used for optimization purposes where
        it doesn't matter which tree we get. The unpacked tree is faster to iterate.
        """
        from parglare.glr import Parent

        def tree_iterator(n):
            if isinstance(n, Parent):
                return iter([n.possibilities[0]])
            elif n.is_nonterm():
                return iter(n.children)
            else:
                return iter([])

        def visit(n, subresults, _):
            if isinstance(n, Parent):
                return subresults[0]
            elif n.is_nonterm():
                # Clone NodeNonTerm to preserve the forest
                return NodeNonTerm(n.context, subresults, n.production)
            else:
                return n

        return visitor(self.result.possibilities[0], tree_iterator, visit)

    @property
    def solutions(self):
        return self.result.solutions

    @property
    def ambiguities(self):
        "Number of ambiguous nodes in this forest."
        return self.result.ambiguities

    def disambiguate(self, disamfun):
        """
        Visit all Parent nodes with len(possibilities) > 1 with a given
        `disamfun` which accepts the Parent and should modify it to remove
        all invalid possibilities.
        """
        from parglare.glr import Parent

        def tree_iterator(n):
            return iter(n)

        def visit(n, _, __):
            if isinstance(n, Parent) and len(n.possibilities) > 1:
                disamfun(n)

        self.result._solutions = None
        return visitor(self.result, tree_iterator, visit)

    def __str__(self):
        return f"Forest({self.solutions})"

    def to_str(self):
        return self.result.to_str()

    def to_dot(self, positions=True):
        return self.result.to_dot(positions)

    def __len__(self):
        return self.solutions

    def __iter__(self):
        for i in range(self.solutions):
            yield self.get_tree(i)

    def __getitem__(self, idx):
        return self.get_tree(idx)

    def nonlazy_iter(self):
        for i in range(self.solutions):
            yield self.get_nonlazy_tree(i)


def visitor(root, iterator, visit, memoize=True, check_cycle=False):
    """Generic iterative depth-first visitor with memoization.

    Accepts the start of the structure to visit (root), iterator callable which
    gets called to get the next elements to visit and `visit` function which
    is called with the element and sub-results of the iterated child elements.
    Should return the result for the given node.

    Memoize parameter uses cache to store the results of already visited elements.

    """
    if memoize:
        cache = {}
    stack = [(root, iterator(root), [])]
    if check_cycle:
        visiting = set([id(root)])
    while stack:
        node, it, results = stack[-1]
        try:
            next_elem = next(it)
        except StopIteration:
            # No more sub-elements for this node
            stack.pop()
            if check_cycle:
                visiting.remove(id(node))
            result = visit(node, results, len(stack))
            if memoize:
                # Store node to preserve the reference to it.
                # Otherwise node may be freed by garbage collector.
                cache[id(node)] = result, node
            if stack:
                stack[-1][-1].append(result)
            continue
        if check_cycle and id(next_elem) in visiting:
            raise LoopError(
                f'Looping during traversal on "{next_elem}". '
                f"Last elements: {[r[0] for r in stack[-10:]]}"
            )
        if memoize and id(next_elem) in cache:
            results.append(cache[id(next_elem)][0])
        else:
            stack.append((next_elem, iterator(next_elem), []))
            if check_cycle:
                visiting.add(id(next_elem))

    return result
